/-
C19 — time arithmetic is exact or None and never panics.
Property theorems about `TinyVerif.Model.Time`.  The model is tied to the source twice:
 * tie T (section "tie T" below): `Gen/TimePure.lean` is regenerated on every run by checks/time_extract.py from
   the Rust TEXT of tiny-std/src/time.rs and rusl/src/platform/compat/time.rs; the `gen_agrees_*` theorems prove
   that the translated public entry points EQUAL the model's functions for all `TimeSpec`s (both fields any i64)
   and all `Duration`s, both build profiles — so every theorem below holds of what the source says now
   (`src_*` corollaries), and an edit of the arithmetic breaks a proof obligation;
 * the correspondence run of `bin/check C19` (model, generated definitions and the real code on the same inputs).

Every theorem quantifies over *all* values of its arguments that satisfy the stated
(decidable, satisfiable — see the `example`s) well-formedness predicates; `rel` is the
build profile (debug: plain `+`/`-` panic on overflow; release: they wrap) and every
statement holds for both.
-/
import TinyVerif.Model.Time
import TinyVerif.Proofs.TimeLemmas
import TinyVerif.Gen.TimePure
set_option linter.unusedSimpArgs false
set_option linter.unusedVariables false
namespace TinyVerif.Time

/-- exact value in nanoseconds -/
def nanosTS (t : TS) : Int := t.sec * NANOS + t.nsec
def nanosDur (d : Dur) : Int := d.secs * NANOS + d.nanos

/-- a normalised timespec whose seconds are a valid i64 -/
def NormTS (t : TS) : Prop := I64_MIN ≤ t.sec ∧ t.sec ≤ I64_MAX ∧ 0 ≤ t.nsec ∧ t.nsec < NANOS
/-- a `core::time::Duration` -/
def NormDur (d : Dur) : Prop := 0 ≤ d.secs ∧ d.secs ≤ U64_MAX ∧ 0 ≤ d.nanos ∧ d.nanos < NANOS

/-- unfold the model, split every range check, decide the arithmetic -/
macro "time_crush" "[" ps:Lean.Parser.Tactic.simpLemma,* "]" : tactic => `(tactic|
  (simp only [checkedAddDur, checkedSubDur, subTsCheckedDur, subTsDur, durNew, ckI64, ckU64, tryI64, tryU64, tryU32,
      plainI64, bind_val, bind_none, bind_panic, pure_eq, bind_ite] at *
   repeat' split
   all_goals simp only [$ps,*, asU64, asU32, wrapI64, nanosTS, nanosDur, NormTS, NormDur, inI64, inU64, inU32,
      I64_MIN, I64_MAX, U64_MAX, U32_MAX, TWO64, TWO32, NANOS] at *
   all_goals (first | omega | (simp_all; done) | (simp_all; omega))))

/-! ## add -/

/-- post-condition of `t + d` -/
def AddPost (t : TS) (d : Dur) : R TS → Prop
  | .val r => NormTS r ∧ nanosTS r = nanosTS t + nanosDur d
  | .none => 0 ≤ t.sec → (nanosTS t + nanosDur d) / NANOS > I64_MAX
  | .panic => False

/-- **add**: `t + d` never panics (for every `t.sec` in the whole i64 range, incl. negative `SystemTime`s);
`some r` is normalised and exactly `t + d`; for `t` at or after the epoch `None` is returned exactly when the
exact sum's whole seconds exceed `i64::MAX`. -/
theorem add_exact (rel : Bool) (t : TS) (d : Dur) (ht : NormTS t) (hd : NormDur d) :
    AddPost t d (checkedAddDur rel t d) := by
  time_crush [AddPost]

/-- conversely, `Some` whenever the exact sum is representable (t at or after the epoch) -/
theorem add_complete (rel : Bool) (t : TS) (d : Dur) (ht : NormTS t) (hd : NormDur d) (h0 : 0 ≤ t.sec)
    (hfit : (nanosTS t + nanosDur d) / NANOS ≤ I64_MAX) :
    ∃ r, checkedAddDur rel t d = .val r := by
  have h := add_exact rel t d ht hd
  cases hc : checkedAddDur rel t d with
  | val r => exact ⟨r, rfl⟩
  | none => rw [hc] at h; simp only [AddPost] at h; have := h h0; omega
  | panic => rw [hc] at h; exact h.elim

/-- outside the property's exactness domain (negative seconds) `None` may be conservative: recorded, not hidden -/
example : checkedAddDur false ⟨I64_MIN, 0⟩ ⟨9223372036854775808, 0⟩ = .none := by decide

/-! ## sub -/

def SubPost (t : TS) (d : Dur) : R TS → Prop
  | .val r => NormTS r ∧ 0 ≤ r.sec ∧ nanosTS r = nanosTS t - nanosDur d
  | .none => nanosTS t - nanosDur d < 0
  | .panic => False

/-- **sub**: `t - d` never panics; `some r` is normalised, non-negative and exactly `t - d`;
`None` exactly when the exact result is negative. -/
theorem sub_exact (rel : Bool) (t : TS) (d : Dur) (ht : NormTS t) (hd : NormDur d) :
    SubPost t d (checkedSubDur rel t d) := by
  time_crush [SubPost]

theorem sub_complete (rel : Bool) (t : TS) (d : Dur) (ht : NormTS t) (hd : NormDur d)
    (hfit : 0 ≤ nanosTS t - nanosDur d) : ∃ r, checkedSubDur rel t d = .val r := by
  have h := sub_exact rel t d ht hd
  cases hc : checkedSubDur rel t d with
  | val r => exact ⟨r, rfl⟩
  | none => rw [hc] at h; simp only [SubPost] at h; omega
  | panic => rw [hc] at h; exact h.elim

/-! ## difference of two time values -/

def DiffPost (l r : TS) : R Dur → Prop
  | .val δ => NormDur δ ∧ nanosDur δ = nanosTS l - nanosTS r
  | .none => (0 ≤ l.sec → 0 ≤ r.sec → nanosTS l - nanosTS r < 0)
  | .panic => False

/-- **diff**: `l - r` never panics (whole i64 range); `some δ` is a valid Duration and exactly `l - r`;
for values at or after the epoch `None` exactly when the difference is negative. -/
theorem diff_exact (rel : Bool) (l r : TS) (hl : NormTS l) (hr : NormTS r) :
    DiffPost l r (subTsCheckedDur rel l r) := by
  time_crush [DiffPost]

theorem diff_complete (rel : Bool) (l r : TS) (hl : NormTS l) (hr : NormTS r) (h0 : 0 ≤ l.sec) (h1 : 0 ≤ r.sec)
    (hge : 0 ≤ nanosTS l - nanosTS r) : ∃ δ, subTsCheckedDur rel l r = .val δ := by
  have h := diff_exact rel l r hl hr
  cases hc : subTsCheckedDur rel l r with
  | val δ => exact ⟨δ, rfl⟩
  | none => rw [hc] at h; simp only [DiffPost] at h; have := h h0 h1; omega
  | panic => rw [hc] at h; exact h.elim

/-! ## normalised values are determined by their nanosecond count -/

theorem ts_ext_of_nanos (a b : TS) (ha : NormTS a) (hb : NormTS b) (h : nanosTS a = nanosTS b) : a = b := by
  cases a; cases b
  simp only [NormTS, nanosTS, NANOS, I64_MIN, I64_MAX] at *
  simp only [TS.mk.injEq]; omega

theorem dur_ext_of_nanos (a b : Dur) (ha : NormDur a) (hb : NormDur b) (h : nanosDur a = nanosDur b) : a = b := by
  cases a; cases b
  simp only [NormDur, nanosDur, NANOS, U64_MAX] at *
  simp only [Dur.mk.injEq]; omega

/-! ## cancellation laws -/

/-- `(t + d) - d = t` -/
theorem add_sub_cancel (rel : Bool) (t r : TS) (d : Dur) (ht : NormTS t) (hd : NormDur d) (h0 : 0 ≤ t.sec)
    (h : checkedAddDur rel t d = .val r) : checkedSubDur rel r d = .val t := by
  have ha := add_exact rel t d ht hd
  rw [h] at ha; simp only [AddPost] at ha
  obtain ⟨hr, he⟩ := ha
  have hfit : 0 ≤ nanosTS r - nanosDur d := by
    simp only [NormTS, nanosTS, NANOS] at *; omega
  obtain ⟨q, hq⟩ := sub_complete rel r d hr hd hfit
  have hs := sub_exact rel r d hr hd
  rw [hq] at hs; simp only [SubPost] at hs
  rw [hq]; congr 1
  exact ts_ext_of_nanos q t hs.1 ht (by omega)

/-- `(t + d) - t = d` -/
theorem add_diff_cancel (rel : Bool) (t r : TS) (d : Dur) (ht : NormTS t) (hd : NormDur d) (h0 : 0 ≤ t.sec)
    (h : checkedAddDur rel t d = .val r) : subTsCheckedDur rel r t = .val d := by
  have ha := add_exact rel t d ht hd
  rw [h] at ha; simp only [AddPost] at ha
  obtain ⟨hr, he⟩ := ha
  have hr0 : 0 ≤ r.sec := by
    simp only [NormTS, NormDur, nanosTS, nanosDur, NANOS] at *; omega
  have hge : 0 ≤ nanosTS r - nanosTS t := by
    simp only [NormDur, nanosDur, NANOS] at *; omega
  obtain ⟨q, hq⟩ := diff_complete rel r t hr ht hr0 h0 hge
  have hs := diff_exact rel r t hr ht
  rw [hq] at hs; simp only [DiffPost] at hs
  rw [hq]; congr 1
  exact dur_ext_of_nanos q d hs.1 hd (by omega)

/-- `(t - d) + d = t` -/
theorem sub_add_cancel (rel : Bool) (t r : TS) (d : Dur) (ht : NormTS t) (hd : NormDur d)
    (h : checkedSubDur rel t d = .val r) : checkedAddDur rel r d = .val t := by
  have hs := sub_exact rel t d ht hd
  rw [h] at hs; simp only [SubPost] at hs
  obtain ⟨hr, hr0, he⟩ := hs
  have hfit : (nanosTS r + nanosDur d) / NANOS ≤ I64_MAX := by
    simp only [NormTS, nanosTS, NANOS, I64_MAX] at *; omega
  obtain ⟨q, hq⟩ := add_complete rel r d hr hd hr0 hfit
  have ha := add_exact rel r d hr hd
  rw [hq] at ha; simp only [AddPost] at ha
  rw [hq]; congr 1
  exact ts_ext_of_nanos q t ha.1 ht (by omega)

/-! ## ordering -/

/-- derived `Ord` (lexicographic on `(tv_sec, tv_nsec)`) is the order of exact values on normalised timespecs -/
theorem cmp_lt_iff (a b : TS) (ha : NormTS a) (hb : NormTS b) : cmpTS a b = .lt ↔ nanosTS a < nanosTS b := by
  simp only [cmpTS, NormTS, nanosTS, NANOS] at *
  repeat' split
  all_goals simp
  all_goals omega

theorem cmp_eq_iff (a b : TS) (ha : NormTS a) (hb : NormTS b) : cmpTS a b = .eq ↔ nanosTS a = nanosTS b := by
  simp only [cmpTS, NormTS, nanosTS, NANOS] at *
  repeat' split
  all_goals simp
  all_goals omega

theorem cmp_gt_iff (a b : TS) (ha : NormTS a) (hb : NormTS b) : cmpTS a b = .gt ↔ nanosTS a > nanosTS b := by
  simp only [cmpTS, NormTS, nanosTS, NANOS] at *
  repeat' split
  all_goals simp
  all_goals omega

/-- **ordering agrees with subtraction**: `t ≤ u` iff `u - t` is `Some` -/
theorem ord_agrees_with_sub (rel : Bool) (t u : TS) (ht : NormTS t) (hu : NormTS u) (h0 : 0 ≤ t.sec) (h1 : 0 ≤ u.sec) :
    cmpTS t u ≠ .gt ↔ ∃ δ, subTsCheckedDur rel u t = .val δ := by
  have hgt := cmp_gt_iff t u ht hu
  constructor
  · intro h
    have : ¬ (nanosTS t > nanosTS u) := fun hh => h (hgt.mpr hh)
    exact diff_complete rel u t hu ht h1 h0 (by omega)
  · rintro ⟨δ, hδ⟩ hc
    have hs := diff_exact rel u t hu ht
    rw [hδ] at hs; simp only [DiffPost, NormDur, nanosDur, NANOS] at hs
    have := hgt.mp hc
    omega

/-! ## the unchecked difference (`MonotonicInstant::elapsed`, `duration_since_unix_time`) -/

def UDiffPost (l r : TS) : R Dur → Prop
  | .val δ => NormDur δ ∧ nanosDur δ = nanosTS l - nanosTS r
  | .none => False
  | .panic => False

/-- `sub_ts_dur l r` is panic-free and exact whenever `l ≥ r ≥ epoch` (what a monotonic clock guarantees) -/
theorem sub_ts_dur_safe (rel : Bool) (l r : TS) (hl : NormTS l) (hr : NormTS r) (h1 : 0 ≤ r.sec)
    (hge : nanosTS r ≤ nanosTS l) : UDiffPost l r (subTsDur rel l r) := by
  simp only [NormTS, nanosTS, I64_MIN, I64_MAX, NANOS] at hl hr hge
  unfold subTsDur
  rw [plainI64_in rel (l.nsec - r.nsec) (by simp only [inI64, I64_MIN, I64_MAX]; omega)]
  simp only [bind_val]
  split
  · rw [plainI64_in rel _ (by simp only [inI64, I64_MIN, I64_MAX, NANOS]; omega)]
    simp only [bind_val]
    rw [plainI64_in rel (l.sec - r.sec) (by simp only [inI64, I64_MIN, I64_MAX]; omega)]
    simp only [bind_val]
    rw [plainI64_in rel _ (by simp only [inI64, I64_MIN, I64_MAX]; omega)]
    simp only [bind_val, durNew]
    split
    · simp only [UDiffPost, NormDur, nanosDur, nanosTS, asU32, asU64, TWO32, TWO64, U64_MAX, NANOS] at *
      omega
    · exfalso; simp only [asU32, asU64, TWO32, TWO64, NANOS] at *; omega
  · rw [plainI64_in rel (l.sec - r.sec) (by simp only [inI64, I64_MIN, I64_MAX]; omega)]
    simp only [bind_val]
    rw [plainI64_in rel _ (by simp only [inI64, I64_MIN, I64_MAX]; omega)]
    simp only [bind_val, durNew]
    split
    · simp only [UDiffPost, NormDur, nanosDur, nanosTS, asU32, asU64, TWO32, TWO64, U64_MAX, NANOS] at *
      omega
    · exfalso; simp only [asU32, asU64, TWO32, TWO64, NANOS] at *; omega

def EpochPost (l : TS) : R Dur → Prop
  | .val δ => δ.secs = asU64 l.sec ∧ δ.nanos = l.nsec
  | .none => False
  | .panic => False

/-- `SystemTime::duration_since_unix_time` never panics, for every (also negative) second count; its value is
`tv_sec as u64` (a wrapped value for negative seconds — stated, not hidden) -/
theorem since_epoch_no_panic (rel : Bool) (l : TS) (hl : NormTS l) :
    EpochPost l (subTsDur rel l ⟨0, 0⟩) := by
  simp only [NormTS, I64_MIN, I64_MAX, NANOS] at hl
  unfold subTsDur
  rw [plainI64_in rel (l.nsec - 0) (by simp only [inI64, I64_MIN, I64_MAX]; omega)]
  simp only [bind_val]
  rw [if_neg (by omega)]
  rw [plainI64_in rel (l.sec - 0) (by simp only [inI64, I64_MIN, I64_MAX]; omega)]
  simp only [bind_val]
  rw [plainI64_in rel _ (by simp only [inI64, I64_MIN, I64_MAX]; omega)]
  simp only [bind_val, durNew]
  split
  · simp only [EpochPost, asU64, asU32, TWO32, TWO64, Int.sub_zero, true_and] at *
    omega
  · exfalso; simp only [asU32, asU64, TWO32, TWO64, NANOS] at *; omega

/-! ## the Duration → TimeSpec conversion (`TryFrom<Duration> for TimeSpec`, used by `thread::sleep`) -/

def D2TPost (d : Dur) : R TS → Prop
  | .val r => NormTS r ∧ 0 ≤ r.sec ∧ nanosTS r = nanosDur d
  | .none => d.secs > I64_MAX
  | .panic => False

/-- the conversion never panics, is exact, and fails exactly when the seconds do not fit an i64 -/
theorem dur_to_ts_exact (d : Dur) (hd : NormDur d) : D2TPost d (durToTS d) := by
  simp only [durToTS, tryI64, bind_val, bind_none, bind_panic, pure_eq, bind_ite]
  split
  all_goals simp only [D2TPost, NormTS, NormDur, nanosTS, nanosDur, inI64, I64_MIN, I64_MAX, U64_MAX, NANOS, and_true] at *
  all_goals omega

/-! ## tie T: the definitions generated from the Rust text agree with the model -/

/-- any `TimeSpec` value: both fields arbitrary i64 (normalised or not) -/
def RawTS (t : TS) : Prop := I64_MIN ≤ t.sec ∧ t.sec ≤ I64_MAX ∧ I64_MIN ≤ t.nsec ∧ t.nsec ≤ I64_MAX

theorem NormTS.raw {t : TS} (h : NormTS t) : RawTS t := by
  simp only [NormTS, RawTS, I64_MIN, I64_MAX, NANOS] at *; omega

theorem ite_both {α : Type} (c : Prop) {_ : Decidable c} (a b a' b' : α) (h1 : c → a = a') (h2 : ¬c → b = b') :
    (if c then a else b) = (if c then a' else b') := by split <;> simp_all
theorem ite_left {α : Type} (c : Prop) {_ : Decidable c} (a b m : α) (h1 : c → a = m) (h2 : ¬c → b = m) :
    (if c then a else b) = m := by split <;> simp_all
theorem ite_right {α : Type} (c : Prop) {_ : Decidable c} (a b m : α) (h1 : c → m = a) (h2 : ¬c → m = b) :
    m = (if c then a else b) := by split <;> simp_all
theorem wrapI64_eq (x : Int) :
    wrapI64 x = -9223372036854775808 + (x - -9223372036854775808) % 18446744073709551616 := by
  simp only [wrapI64, TWO64, I64_MAX]; omega

/-- `generated = model`: unfold both sides into trees of `if`s over integer comparisons (the generated file
supplies `time_gen_unfold` / `time_gen_consts` listing whatever functions the current source consists of), walk
the two trees together (same condition on both sides: one case split for both; otherwise split one side and
discard contradictory paths by `omega`), close the leaves by `omega`.  Nothing here names a function of the
source, so helper functions / `match` / let-else / immutable bindings in the source do not matter. -/
macro "gen_agree" : tactic => `(tactic|
  (time_gen_unfold
   all_goals (try simp only [checkedAddDur, checkedSubDur, subTsCheckedDur, subTsDur, durNew, durToTS, ckI64, ckU64, tryI64,
      tryU64, tryU32, plainI64, bind_val, bind_none, bind_panic, pure_eq, bind_ite, inI64, inU64, inU32])
   all_goals (try time_gen_consts)
   all_goals (try simp only [asU64, asU32, RawTS, NormDur, I64_MIN, I64_MAX, U64_MAX, U32_MAX, TWO64, TWO32, NANOS,
      Int.add_zero, Int.sub_zero, Int.zero_add, wrapI64_eq, if_true, if_false, eq_self, Bool.false_eq_true,
      decide_eq_true_eq, Bool.not_eq_true', decide_eq_false_iff_not, Bool.and_eq_true, Bool.or_eq_true] at *)
   all_goals repeat' (first
     | with_reducible rfl
     | (apply ite_both) <;> intro h <;> (try simp only [h, if_true, if_false, and_self, and_true, true_and, eq_self,
          not_true_eq_false, not_false_eq_true])
     | ((apply ite_left) <;> intro h <;> first
          | contradiction
          | (exfalso; omega)
          | (try simp only [h, if_true, if_false, and_self, and_true, true_and, eq_self, not_true_eq_false, not_false_eq_true]))
     | ((apply ite_right) <;> intro h <;> first
          | contradiction
          | (exfalso; omega)
          | (try simp only [h, if_true, if_false, and_self, and_true, true_and, eq_self, not_true_eq_false, not_false_eq_true])))
   all_goals (first
     | (simp only [R.val.injEq, TS.mk.injEq, Dur.mk.injEq, reduceCtorEq, and_true, true_and, and_self]; done)
     | (simp only [R.val.injEq, TS.mk.injEq, Dur.mk.injEq, reduceCtorEq, and_true, true_and, and_self]; omega)
     | contradiction
     | omega)))

/-- **`+ Duration`** as written in the source = the model, for every TimeSpec and every Duration -/
theorem gen_agrees_add (rel : Bool) (t : TS) (d : Dur) (ht : RawTS t) (hd : NormDur d) :
    TimeGen.Instant_add rel t d = checkedAddDur rel t d ∧ TimeGen.SystemTime_add rel t d = checkedAddDur rel t d := by
  constructor <;> gen_agree

/-- **`- Duration`** as written in the source = the model -/
theorem gen_agrees_sub (rel : Bool) (t : TS) (d : Dur) (ht : RawTS t) (hd : NormDur d) :
    TimeGen.Instant_sub_Duration rel t d = checkedSubDur rel t d ∧
    TimeGen.SystemTime_sub_Duration rel t d = checkedSubDur rel t d := by
  constructor <;> gen_agree

/-- **difference of two time values** (`-` and `duration_since`, both types) as written in the source = the model -/
theorem gen_agrees_diff (rel : Bool) (l r : TS) (hl : RawTS l) (hr : RawTS r) :
    TimeGen.Instant_sub rel l r = subTsCheckedDur rel l r ∧
    TimeGen.Instant_duration_since rel l r = subTsCheckedDur rel l r ∧
    TimeGen.SystemTime_sub rel l r = subTsCheckedDur rel l r ∧
    TimeGen.SystemTime_duration_since rel l r = subTsCheckedDur rel l r := by
  refine ⟨?_, ?_, ?_, ?_⟩ <;> gen_agree

/-- **`elapsed()`** as written in the source is the checked difference `now - self`, `now` = the clock reading -/
theorem gen_agrees_elapsed (rel : Bool) (now t : TS) (hn : RawTS now) (ht : RawTS t) :
    TimeGen.Instant_elapsed rel now t = subTsCheckedDur rel now t ∧
    TimeGen.SystemTime_elapsed rel now t = subTsCheckedDur rel now t := by
  constructor <;> gen_agree

/-- the **unchecked difference** entry points as written in the source = the model's `subTsDur` -/
theorem gen_agrees_diffu (rel : Bool) (now t : TS) (hn : RawTS now) (ht : RawTS t) :
    TimeGen.MonotonicInstant_elapsed rel now t = subTsDur rel now t ∧
    TimeGen.SystemTime_duration_since_unix_time rel t = subTsDur rel t ⟨0, 0⟩ := by
  constructor <;> gen_agree

/-- `TimeSpec::try_from(Duration)` as written in the source = the model -/
theorem gen_agrees_dur_to_ts (rel : Bool) (d : Dur) (hd : NormDur d) :
    TimeGen.TimeSpec_try_from rel d = durToTS d := by
  gen_agree

/-! ### the property, stated of the generated (= source) definitions -/

theorem src_add_exact (rel : Bool) (t : TS) (d : Dur) (ht : NormTS t) (hd : NormDur d) :
    AddPost t d (TimeGen.Instant_add rel t d) ∧ AddPost t d (TimeGen.SystemTime_add rel t d) := by
  have h := gen_agrees_add rel t d ht.raw hd
  rw [h.1, h.2]; exact ⟨add_exact rel t d ht hd, add_exact rel t d ht hd⟩

theorem src_sub_exact (rel : Bool) (t : TS) (d : Dur) (ht : NormTS t) (hd : NormDur d) :
    SubPost t d (TimeGen.Instant_sub_Duration rel t d) ∧ SubPost t d (TimeGen.SystemTime_sub_Duration rel t d) := by
  have h := gen_agrees_sub rel t d ht.raw hd
  rw [h.1, h.2]; exact ⟨sub_exact rel t d ht hd, sub_exact rel t d ht hd⟩

theorem src_diff_exact (rel : Bool) (l r : TS) (hl : NormTS l) (hr : NormTS r) :
    DiffPost l r (TimeGen.Instant_sub rel l r) ∧ DiffPost l r (TimeGen.SystemTime_sub rel l r) ∧
    DiffPost l r (TimeGen.Instant_duration_since rel l r) ∧ DiffPost l r (TimeGen.SystemTime_duration_since rel l r) := by
  have h := gen_agrees_diff rel l r hl.raw hr.raw
  rw [h.1, h.2.1, h.2.2.1, h.2.2.2]
  exact ⟨diff_exact rel l r hl hr, diff_exact rel l r hl hr, diff_exact rel l r hl hr, diff_exact rel l r hl hr⟩

/-- `elapsed()` of both manipulable types: exact `now - self`, `None` exactly when `self` is after the clock
reading (for readings and values at or after the epoch), never a panic -/
theorem src_elapsed_exact (rel : Bool) (now t : TS) (hn : NormTS now) (ht : NormTS t) :
    DiffPost now t (TimeGen.Instant_elapsed rel now t) ∧ DiffPost now t (TimeGen.SystemTime_elapsed rel now t) := by
  have h := gen_agrees_elapsed rel now t hn.raw ht.raw
  rw [h.1, h.2]; exact ⟨diff_exact rel now t hn ht, diff_exact rel now t hn ht⟩

/-- `(t + d) - d = t` and `(t + d) - t = d` through the source's own operators -/
theorem src_add_cancel (rel : Bool) (t r : TS) (d : Dur) (ht : NormTS t) (hd : NormDur d) (h0 : 0 ≤ t.sec)
    (h : TimeGen.Instant_add rel t d = .val r) :
    TimeGen.Instant_sub_Duration rel r d = .val t ∧ TimeGen.Instant_sub rel r t = .val d := by
  rw [(gen_agrees_add rel t d ht.raw hd).1] at h
  have ha := add_exact rel t d ht hd
  rw [h] at ha; simp only [AddPost] at ha
  rw [(gen_agrees_sub rel r d ha.1.raw hd).1, (gen_agrees_diff rel r t ha.1.raw ht.raw).1]
  exact ⟨add_sub_cancel rel t r d ht hd h0 h, add_diff_cancel rel t r d ht hd h0 h⟩

/-- `(t - d) + d = t` through the source's own operators -/
theorem src_sub_add_cancel (rel : Bool) (t r : TS) (d : Dur) (ht : NormTS t) (hd : NormDur d)
    (h : TimeGen.Instant_sub_Duration rel t d = .val r) : TimeGen.Instant_add rel r d = .val t := by
  rw [(gen_agrees_sub rel t d ht.raw hd).1] at h
  have hs := sub_exact rel t d ht hd
  rw [h] at hs; simp only [SubPost] at hs
  rw [(gen_agrees_add rel r d hs.1.raw hd).1]
  exact sub_add_cancel rel t r d ht hd h

/-- ordering agrees with the source's subtraction -/
theorem src_ord_agrees_with_sub (rel : Bool) (t u : TS) (ht : NormTS t) (hu : NormTS u) (h0 : 0 ≤ t.sec) (h1 : 0 ≤ u.sec) :
    cmpTS t u ≠ .gt ↔ ∃ δ, TimeGen.Instant_sub rel u t = .val δ := by
  rw [(gen_agrees_diff rel u t hu.raw ht.raw).1]
  exact ord_agrees_with_sub rel t u ht hu h0 h1

/-- the unchecked entry points of the source on their documented domain -/
theorem src_sub_ts_dur_safe (rel : Bool) (now t : TS) (hn : NormTS now) (ht : NormTS t) (h1 : 0 ≤ t.sec)
    (hge : nanosTS t ≤ nanosTS now) : UDiffPost now t (TimeGen.MonotonicInstant_elapsed rel now t) := by
  rw [(gen_agrees_diffu rel now t hn.raw ht.raw).1]
  exact sub_ts_dur_safe rel now t hn ht h1 hge

theorem src_since_epoch_no_panic (rel : Bool) (l : TS) (hl : NormTS l) :
    EpochPost l (TimeGen.SystemTime_duration_since_unix_time rel l) := by
  rw [(gen_agrees_diffu rel l l hl.raw hl.raw).2]
  exact since_epoch_no_panic rel l hl

theorem src_dur_to_ts_exact (rel : Bool) (d : Dur) (hd : NormDur d) : D2TPost d (TimeGen.TimeSpec_try_from rel d) := by
  rw [gen_agrees_dur_to_ts rel d hd]; exact dur_to_ts_exact d hd

/-! ## sleep -/

/-- `thread::sleep`'s retry loop: whenever it returns `Ok`, the time slept in total is at least what was asked,
for every script of interruptions (kernel contract: on EINTR the remaining time written back is at least
`requested - slept`). -/
theorem sleep_total_gen (script : List SleepResp) (req slept calls total n : Nat)
    (h : sleepLoop script req slept calls = (some true, total, n)) : slept + req ≤ total := by
  induction script generalizing req slept calls with
  | nil => simp [sleepLoop] at h
  | cons r rest ih =>
    cases r with
    | done extra => simp only [sleepLoop, Prod.mk.injEq] at h; omega
    | eintr s slack =>
      simp only [sleepLoop] at h
      have := ih _ _ _ h
      omega
    | err c => simp [sleepLoop] at h

theorem sleep_total (script : List SleepResp) (req total n : Nat)
    (h : sleepLoop script req 0 0 = (some true, total, n)) : req ≤ total := by
  have := sleep_total_gen script req 0 0 total n h; omega

/-- an error other than EINTR is surfaced at once -/
theorem sleep_err_surfaces (c req slept calls : Nat) (rest : List SleepResp) :
    (sleepLoop (.err c :: rest) req slept calls).1 = some false := rfl

/-! ## non-vacuity: the hypotheses are met by concrete non-trivial values, and every branch is live -/

example : NormTS ⟨I64_MAX, 999999999⟩ ∧ NormDur ⟨U64_MAX, 999999999⟩ ∧ NormTS ⟨I64_MIN, 0⟩ := by
  simp [NormTS, NormDur, I64_MIN, I64_MAX, U64_MAX, NANOS]
example : checkedAddDur false ⟨0, 999999999⟩ ⟨0, 2⟩ = .val ⟨1, 1⟩ := by decide
example : checkedAddDur false ⟨I64_MAX, 999999999⟩ ⟨0, 1⟩ = .none := by decide
example : checkedAddDur false ⟨I64_MAX - 1, 999999999⟩ ⟨0, 1⟩ = .val ⟨I64_MAX, 0⟩ := by decide
example : checkedSubDur false ⟨1, 0⟩ ⟨0, 1⟩ = .val ⟨0, 999999999⟩ := by decide
example : checkedSubDur false ⟨0, 0⟩ ⟨0, 1⟩ = .none := by decide
example : checkedSubDur false ⟨-5, 0⟩ ⟨0, 0⟩ = .none := by decide
example : subTsCheckedDur false ⟨1, 0⟩ ⟨0, 999999999⟩ = .val ⟨0, 1⟩ := by decide
example : subTsCheckedDur false ⟨0, 999999999⟩ ⟨1, 0⟩ = .none := by decide
example : sleepLoop [.eintr 30 0, .done 5] 100 0 0 = (some true, 105, 2) := by decide
example : durToTS ⟨5, 7⟩ = .val ⟨5, 7⟩ ∧ durToTS ⟨9223372036854775808, 0⟩ = .none := by decide
-- tie T: the hypotheses of the agreement theorems are met by extreme and by non-normalised values, and the
-- generated definitions compute (carry, borrow, None and the wrapped `as u64` branch are live)
example : RawTS ⟨I64_MIN, I64_MIN⟩ ∧ RawTS ⟨I64_MAX, I64_MAX⟩ ∧ RawTS ⟨0, 4000000000⟩ ∧ NormDur ⟨U64_MAX, 999999999⟩ := by
  simp [RawTS, NormDur, I64_MIN, I64_MAX, U64_MAX, NANOS]
example : TimeGen.Instant_add false ⟨0, 999999999⟩ ⟨0, 1⟩ = .val ⟨1, 0⟩ := by decide
example : TimeGen.SystemTime_add true ⟨I64_MAX, 999999999⟩ ⟨0, 1⟩ = .none := by decide
example : TimeGen.Instant_sub_Duration false ⟨5, 0⟩ ⟨5, 1⟩ = .none := by decide
example : TimeGen.SystemTime_sub_Duration false ⟨1, 0⟩ ⟨0, 1⟩ = .val ⟨0, 999999999⟩ := by decide
example : TimeGen.Instant_sub false ⟨1, 0⟩ ⟨0, 999999999⟩ = .val ⟨0, 1⟩ := by decide
example : TimeGen.SystemTime_duration_since false ⟨0, 999999999⟩ ⟨1, 0⟩ = .none := by decide
example : TimeGen.Instant_elapsed false ⟨7, 5⟩ ⟨7, 6⟩ = .none ∧ TimeGen.Instant_elapsed false ⟨7, 6⟩ ⟨7, 5⟩ = .val ⟨0, 1⟩ := by decide
example : TimeGen.MonotonicInstant_elapsed false ⟨2, 0⟩ ⟨0, 1⟩ = .val ⟨1, 999999999⟩ := by decide
example : TimeGen.SystemTime_duration_since_unix_time false ⟨-1, 0⟩ = .val ⟨18446744073709551615, 0⟩ := by decide
example : TimeGen.MonotonicInstant_elapsed false ⟨0, 0⟩ ⟨I64_MIN, 0⟩ = .panic ∧
    TimeGen.MonotonicInstant_elapsed true ⟨0, 0⟩ ⟨I64_MIN, 0⟩ = .val ⟨9223372036854775808, 0⟩ := by decide
example : TimeGen.TimeSpec_try_from false ⟨5, 7⟩ = .val ⟨5, 7⟩ ∧ TimeGen.TimeSpec_try_from false ⟨9223372036854775808, 0⟩ = .none := by decide
example : TimeGen.Instant_add false ⟨0, 999999999⟩ ⟨0, 1⟩ = .val ⟨1, 0⟩ ∧ TimeGen.Instant_sub_Duration false ⟨1, 0⟩ ⟨0, 1⟩ = .val ⟨0, 999999999⟩ ∧
    TimeGen.Instant_sub false ⟨1, 0⟩ ⟨0, 999999999⟩ = .val ⟨0, 1⟩ := by decide

end TinyVerif.Time
