/-
C19 — time arithmetic is exact or None and never panics.
Property theorems about `TinyVerif.Model.Time` (the model is tied to
tiny-std/src/time.rs by the correspondence run of `bin/check C19`).

Every theorem quantifies over *all* values of its arguments that satisfy the stated
(decidable, satisfiable — see the `example`s) well-formedness predicates; `rel` is the
build profile (debug: plain `+`/`-` panic on overflow; release: they wrap) and every
statement holds for both.
-/
import TinyVerif.Model.Time
import TinyVerif.Proofs.TimeLemmas
set_option linter.unusedSimpArgs false
namespace TinyVerif.Time

/-- exact value in nanoseconds -/
def nanosTS (t : TS) : Int := t.sec * NANOS + t.nsec
def nanosDur (d : Dur) : Int := d.secs * NANOS + d.nanos

/-- a normalised timespec whose seconds are a valid i64 -/
def NormTS (t : TS) : Prop := I64_MIN ≤ t.sec ∧ t.sec ≤ I64_MAX ∧ 0 ≤ t.nsec ∧ t.nsec < NANOS
/-- a `core::time::Duration` -/
def NormDur (d : Dur) : Prop := 0 ≤ d.secs ∧ d.secs ≤ U64_MAX ∧ 0 ≤ d.nanos ∧ d.nanos < NANOS

/-- unfold the model, split every range check, decide the arithmetic -/
macro "time_crush" "[" ps:Lean.Parser.Tactic.simpLemma,* "]" : tactic => `(tactic|
  (simp only [checkedAddDur, checkedSubDur, subTsCheckedDur, subTsDur, durNew, ckI64, ckU64, tryI64, tryU64, tryU32,
      plainI64, bind_val, bind_none, bind_panic, pure_eq, bind_ite] at *
   repeat' split
   all_goals simp only [$ps,*, asU64, asU32, wrapI64, nanosTS, nanosDur, NormTS, NormDur, inI64, inU64, inU32,
      I64_MIN, I64_MAX, U64_MAX, U32_MAX, TWO64, TWO32, NANOS] at *
   all_goals (first | omega | (simp_all; done) | (simp_all; omega))))

/-! ## add -/

/-- post-condition of `t + d` -/
def AddPost (t : TS) (d : Dur) : R TS → Prop
  | .val r => NormTS r ∧ nanosTS r = nanosTS t + nanosDur d
  | .none => 0 ≤ t.sec → (nanosTS t + nanosDur d) / NANOS > I64_MAX
  | .panic => False

/-- **add**: `t + d` never panics (for every `t.sec` in the whole i64 range, incl. negative `SystemTime`s);
`some r` is normalised and exactly `t + d`; for `t` at or after the epoch `None` is returned exactly when the
exact sum's whole seconds exceed `i64::MAX`. -/
theorem add_exact (rel : Bool) (t : TS) (d : Dur) (ht : NormTS t) (hd : NormDur d) :
    AddPost t d (checkedAddDur rel t d) := by
  time_crush [AddPost]

/-- conversely, `Some` whenever the exact sum is representable (t at or after the epoch) -/
theorem add_complete (rel : Bool) (t : TS) (d : Dur) (ht : NormTS t) (hd : NormDur d) (h0 : 0 ≤ t.sec)
    (hfit : (nanosTS t + nanosDur d) / NANOS ≤ I64_MAX) :
    ∃ r, checkedAddDur rel t d = .val r := by
  have h := add_exact rel t d ht hd
  cases hc : checkedAddDur rel t d with
  | val r => exact ⟨r, rfl⟩
  | none => rw [hc] at h; simp only [AddPost] at h; have := h h0; omega
  | panic => rw [hc] at h; exact h.elim

/-- outside the property's exactness domain (negative seconds) `None` may be conservative: recorded, not hidden -/
example : checkedAddDur false ⟨I64_MIN, 0⟩ ⟨9223372036854775808, 0⟩ = .none := by decide

/-! ## sub -/

def SubPost (t : TS) (d : Dur) : R TS → Prop
  | .val r => NormTS r ∧ 0 ≤ r.sec ∧ nanosTS r = nanosTS t - nanosDur d
  | .none => nanosTS t - nanosDur d < 0
  | .panic => False

/-- **sub**: `t - d` never panics; `some r` is normalised, non-negative and exactly `t - d`;
`None` exactly when the exact result is negative. -/
theorem sub_exact (rel : Bool) (t : TS) (d : Dur) (ht : NormTS t) (hd : NormDur d) :
    SubPost t d (checkedSubDur rel t d) := by
  time_crush [SubPost]

theorem sub_complete (rel : Bool) (t : TS) (d : Dur) (ht : NormTS t) (hd : NormDur d)
    (hfit : 0 ≤ nanosTS t - nanosDur d) : ∃ r, checkedSubDur rel t d = .val r := by
  have h := sub_exact rel t d ht hd
  cases hc : checkedSubDur rel t d with
  | val r => exact ⟨r, rfl⟩
  | none => rw [hc] at h; simp only [SubPost] at h; omega
  | panic => rw [hc] at h; exact h.elim

/-! ## difference of two time values -/

def DiffPost (l r : TS) : R Dur → Prop
  | .val δ => NormDur δ ∧ nanosDur δ = nanosTS l - nanosTS r
  | .none => (0 ≤ l.sec → 0 ≤ r.sec → nanosTS l - nanosTS r < 0)
  | .panic => False

/-- **diff**: `l - r` never panics (whole i64 range); `some δ` is a valid Duration and exactly `l - r`;
for values at or after the epoch `None` exactly when the difference is negative. -/
theorem diff_exact (rel : Bool) (l r : TS) (hl : NormTS l) (hr : NormTS r) :
    DiffPost l r (subTsCheckedDur rel l r) := by
  time_crush [DiffPost]

theorem diff_complete (rel : Bool) (l r : TS) (hl : NormTS l) (hr : NormTS r) (h0 : 0 ≤ l.sec) (h1 : 0 ≤ r.sec)
    (hge : 0 ≤ nanosTS l - nanosTS r) : ∃ δ, subTsCheckedDur rel l r = .val δ := by
  have h := diff_exact rel l r hl hr
  cases hc : subTsCheckedDur rel l r with
  | val δ => exact ⟨δ, rfl⟩
  | none => rw [hc] at h; simp only [DiffPost] at h; have := h h0 h1; omega
  | panic => rw [hc] at h; exact h.elim

/-! ## normalised values are determined by their nanosecond count -/

theorem ts_ext_of_nanos (a b : TS) (ha : NormTS a) (hb : NormTS b) (h : nanosTS a = nanosTS b) : a = b := by
  cases a; cases b
  simp only [NormTS, nanosTS, NANOS, I64_MIN, I64_MAX] at *
  simp only [TS.mk.injEq]; omega

theorem dur_ext_of_nanos (a b : Dur) (ha : NormDur a) (hb : NormDur b) (h : nanosDur a = nanosDur b) : a = b := by
  cases a; cases b
  simp only [NormDur, nanosDur, NANOS, U64_MAX] at *
  simp only [Dur.mk.injEq]; omega

/-! ## cancellation laws -/

/-- `(t + d) - d = t` -/
theorem add_sub_cancel (rel : Bool) (t r : TS) (d : Dur) (ht : NormTS t) (hd : NormDur d) (h0 : 0 ≤ t.sec)
    (h : checkedAddDur rel t d = .val r) : checkedSubDur rel r d = .val t := by
  have ha := add_exact rel t d ht hd
  rw [h] at ha; simp only [AddPost] at ha
  obtain ⟨hr, he⟩ := ha
  have hfit : 0 ≤ nanosTS r - nanosDur d := by
    simp only [NormTS, nanosTS, NANOS] at *; omega
  obtain ⟨q, hq⟩ := sub_complete rel r d hr hd hfit
  have hs := sub_exact rel r d hr hd
  rw [hq] at hs; simp only [SubPost] at hs
  rw [hq]; congr 1
  exact ts_ext_of_nanos q t hs.1 ht (by omega)

/-- `(t + d) - t = d` -/
theorem add_diff_cancel (rel : Bool) (t r : TS) (d : Dur) (ht : NormTS t) (hd : NormDur d) (h0 : 0 ≤ t.sec)
    (h : checkedAddDur rel t d = .val r) : subTsCheckedDur rel r t = .val d := by
  have ha := add_exact rel t d ht hd
  rw [h] at ha; simp only [AddPost] at ha
  obtain ⟨hr, he⟩ := ha
  have hr0 : 0 ≤ r.sec := by
    simp only [NormTS, NormDur, nanosTS, nanosDur, NANOS] at *; omega
  have hge : 0 ≤ nanosTS r - nanosTS t := by
    simp only [NormDur, nanosDur, NANOS] at *; omega
  obtain ⟨q, hq⟩ := diff_complete rel r t hr ht hr0 h0 hge
  have hs := diff_exact rel r t hr ht
  rw [hq] at hs; simp only [DiffPost] at hs
  rw [hq]; congr 1
  exact dur_ext_of_nanos q d hs.1 hd (by omega)

/-- `(t - d) + d = t` -/
theorem sub_add_cancel (rel : Bool) (t r : TS) (d : Dur) (ht : NormTS t) (hd : NormDur d)
    (h : checkedSubDur rel t d = .val r) : checkedAddDur rel r d = .val t := by
  have hs := sub_exact rel t d ht hd
  rw [h] at hs; simp only [SubPost] at hs
  obtain ⟨hr, hr0, he⟩ := hs
  have hfit : (nanosTS r + nanosDur d) / NANOS ≤ I64_MAX := by
    simp only [NormTS, nanosTS, NANOS, I64_MAX] at *; omega
  obtain ⟨q, hq⟩ := add_complete rel r d hr hd hr0 hfit
  have ha := add_exact rel r d hr hd
  rw [hq] at ha; simp only [AddPost] at ha
  rw [hq]; congr 1
  exact ts_ext_of_nanos q t ha.1 ht (by omega)

/-! ## ordering -/

/-- derived `Ord` (lexicographic on `(tv_sec, tv_nsec)`) is the order of exact values on normalised timespecs -/
theorem cmp_lt_iff (a b : TS) (ha : NormTS a) (hb : NormTS b) : cmpTS a b = .lt ↔ nanosTS a < nanosTS b := by
  simp only [cmpTS, NormTS, nanosTS, NANOS] at *
  repeat' split
  all_goals simp
  all_goals omega

theorem cmp_eq_iff (a b : TS) (ha : NormTS a) (hb : NormTS b) : cmpTS a b = .eq ↔ nanosTS a = nanosTS b := by
  simp only [cmpTS, NormTS, nanosTS, NANOS] at *
  repeat' split
  all_goals simp
  all_goals omega

theorem cmp_gt_iff (a b : TS) (ha : NormTS a) (hb : NormTS b) : cmpTS a b = .gt ↔ nanosTS a > nanosTS b := by
  simp only [cmpTS, NormTS, nanosTS, NANOS] at *
  repeat' split
  all_goals simp
  all_goals omega

/-- **ordering agrees with subtraction**: `t ≤ u` iff `u - t` is `Some` -/
theorem ord_agrees_with_sub (rel : Bool) (t u : TS) (ht : NormTS t) (hu : NormTS u) (h0 : 0 ≤ t.sec) (h1 : 0 ≤ u.sec) :
    cmpTS t u ≠ .gt ↔ ∃ δ, subTsCheckedDur rel u t = .val δ := by
  have hgt := cmp_gt_iff t u ht hu
  constructor
  · intro h
    have : ¬ (nanosTS t > nanosTS u) := fun hh => h (hgt.mpr hh)
    exact diff_complete rel u t hu ht h1 h0 (by omega)
  · rintro ⟨δ, hδ⟩ hc
    have hs := diff_exact rel u t hu ht
    rw [hδ] at hs; simp only [DiffPost, NormDur, nanosDur, NANOS] at hs
    have := hgt.mp hc
    omega

/-! ## the unchecked difference (`MonotonicInstant::elapsed`, `duration_since_unix_time`) -/

def UDiffPost (l r : TS) : R Dur → Prop
  | .val δ => NormDur δ ∧ nanosDur δ = nanosTS l - nanosTS r
  | .none => False
  | .panic => False

/-- `sub_ts_dur l r` is panic-free and exact whenever `l ≥ r ≥ epoch` (what a monotonic clock guarantees) -/
theorem sub_ts_dur_safe (rel : Bool) (l r : TS) (hl : NormTS l) (hr : NormTS r) (h1 : 0 ≤ r.sec)
    (hge : nanosTS r ≤ nanosTS l) : UDiffPost l r (subTsDur rel l r) := by
  simp only [NormTS, nanosTS, I64_MIN, I64_MAX, NANOS] at hl hr hge
  unfold subTsDur
  rw [plainI64_in rel (l.nsec - r.nsec) (by simp only [inI64, I64_MIN, I64_MAX]; omega)]
  simp only [bind_val]
  split
  · rw [plainI64_in rel _ (by simp only [inI64, I64_MIN, I64_MAX, NANOS]; omega)]
    simp only [bind_val]
    rw [plainI64_in rel (l.sec - r.sec) (by simp only [inI64, I64_MIN, I64_MAX]; omega)]
    simp only [bind_val]
    rw [plainI64_in rel _ (by simp only [inI64, I64_MIN, I64_MAX]; omega)]
    simp only [bind_val, durNew]
    split
    · simp only [UDiffPost, NormDur, nanosDur, nanosTS, asU32, asU64, TWO32, TWO64, U64_MAX, NANOS] at *
      omega
    · exfalso; simp only [asU32, asU64, TWO32, TWO64, NANOS] at *; omega
  · rw [plainI64_in rel (l.sec - r.sec) (by simp only [inI64, I64_MIN, I64_MAX]; omega)]
    simp only [bind_val]
    rw [plainI64_in rel _ (by simp only [inI64, I64_MIN, I64_MAX]; omega)]
    simp only [bind_val, durNew]
    split
    · simp only [UDiffPost, NormDur, nanosDur, nanosTS, asU32, asU64, TWO32, TWO64, U64_MAX, NANOS] at *
      omega
    · exfalso; simp only [asU32, asU64, TWO32, TWO64, NANOS] at *; omega

def EpochPost (l : TS) : R Dur → Prop
  | .val δ => δ.secs = asU64 l.sec ∧ δ.nanos = l.nsec
  | .none => False
  | .panic => False

/-- `SystemTime::duration_since_unix_time` never panics, for every (also negative) second count; its value is
`tv_sec as u64` (a wrapped value for negative seconds — stated, not hidden) -/
theorem since_epoch_no_panic (rel : Bool) (l : TS) (hl : NormTS l) :
    EpochPost l (subTsDur rel l ⟨0, 0⟩) := by
  simp only [NormTS, I64_MIN, I64_MAX, NANOS] at hl
  unfold subTsDur
  rw [plainI64_in rel (l.nsec - 0) (by simp only [inI64, I64_MIN, I64_MAX]; omega)]
  simp only [bind_val]
  rw [if_neg (by omega)]
  rw [plainI64_in rel (l.sec - 0) (by simp only [inI64, I64_MIN, I64_MAX]; omega)]
  simp only [bind_val]
  rw [plainI64_in rel _ (by simp only [inI64, I64_MIN, I64_MAX]; omega)]
  simp only [bind_val, durNew]
  split
  · simp only [EpochPost, asU64, asU32, TWO32, TWO64, Int.sub_zero, true_and] at *
    omega
  · exfalso; simp only [asU32, asU64, TWO32, TWO64, NANOS] at *; omega

/-! ## sleep -/

/-- `thread::sleep`'s retry loop: whenever it returns `Ok`, the time slept in total is at least what was asked,
for every script of interruptions (kernel contract: on EINTR the remaining time written back is at least
`requested - slept`). -/
theorem sleep_total_gen (script : List SleepResp) (req slept calls total n : Nat)
    (h : sleepLoop script req slept calls = (some true, total, n)) : slept + req ≤ total := by
  induction script generalizing req slept calls with
  | nil => simp [sleepLoop] at h
  | cons r rest ih =>
    cases r with
    | done extra => simp only [sleepLoop, Prod.mk.injEq] at h; omega
    | eintr s slack =>
      simp only [sleepLoop] at h
      have := ih _ _ _ h
      omega
    | err c => simp [sleepLoop] at h

theorem sleep_total (script : List SleepResp) (req total n : Nat)
    (h : sleepLoop script req 0 0 = (some true, total, n)) : req ≤ total := by
  have := sleep_total_gen script req 0 0 total n h; omega

/-- an error other than EINTR is surfaced at once -/
theorem sleep_err_surfaces (c req slept calls : Nat) (rest : List SleepResp) :
    (sleepLoop (.err c :: rest) req slept calls).1 = some false := rfl

/-! ## non-vacuity: the hypotheses are met by concrete non-trivial values, and every branch is live -/

example : NormTS ⟨I64_MAX, 999999999⟩ ∧ NormDur ⟨U64_MAX, 999999999⟩ ∧ NormTS ⟨I64_MIN, 0⟩ := by
  simp [NormTS, NormDur, I64_MIN, I64_MAX, U64_MAX, NANOS]
example : checkedAddDur false ⟨0, 999999999⟩ ⟨0, 2⟩ = .val ⟨1, 1⟩ := by decide
example : checkedAddDur false ⟨I64_MAX, 999999999⟩ ⟨0, 1⟩ = .none := by decide
example : checkedAddDur false ⟨I64_MAX - 1, 999999999⟩ ⟨0, 1⟩ = .val ⟨I64_MAX, 0⟩ := by decide
example : checkedSubDur false ⟨1, 0⟩ ⟨0, 1⟩ = .val ⟨0, 999999999⟩ := by decide
example : checkedSubDur false ⟨0, 0⟩ ⟨0, 1⟩ = .none := by decide
example : checkedSubDur false ⟨-5, 0⟩ ⟨0, 0⟩ = .none := by decide
example : subTsCheckedDur false ⟨1, 0⟩ ⟨0, 999999999⟩ = .val ⟨0, 1⟩ := by decide
example : subTsCheckedDur false ⟨0, 999999999⟩ ⟨1, 0⟩ = .none := by decide
example : sleepLoop [.eintr 30 0, .done 5] 100 0 0 = (some true, 105, 2) := by decide

end TinyVerif.Time
