/-
C03 — the inductive part: `wf_step` for the strengthened invariant, and the block-level guarantees of
`Props/C03.lean` WITHOUT a well-formedness hypothesis on the produced state.

`WF` (the 12-conjunct executable checker) alone is not inductive (`Proofs/DlIndCex.lean`: kernel-checked `WF`
states from which one `malloc` / `free` leaves `WF`).  The invariant that IS inductive:

    Inv2 hs  :=  WF hs  ∧  RecsOk ∧ FenceOk ∧ TailOk ∧ HeadOk ∧ RecIn (of hs.st)
                 ∧ block ids unique ∧ recorded alignments are powers of two ≤ 2^32

(`Proofs/DlIndSpec.lean`, `Proofs/DlIndStep.lean`; executable as `invB`, `Model/DlmallocWF2.lean`, evaluated by the
driver on every state of every explored history of the real allocator).

`OpOk hs op os` is what the caller of one operation must guarantee: a power-of-two alignment ≤ 2^32, a padded
request below 2^63, and the mmap contract for the answer the operation may be served (`OsOk`: page-aligned,
non-null, inside the address space, disjoint from every segment held).

Quantifiers: every history, every size and alignment, every OS answer sequence (any placement the contract
allows, refusal at any position, munmap / mremap refused or not).
-/
import TinyVerif.Props.C03
import TinyVerif.Proofs.DlIndAll
namespace TinyVerif.Dl

/-- **wf_step** (full, for the strengthened invariant): one operation preserves `Inv2` -/
theorem inv_step {hs hs' : Hist} {op : Op} {os : List OsDir} {out : Out}
    (hi : Inv2 hs) (hop : OpOk hs op os) (h : hs.step op os = .ok (hs', out)) : Inv2 hs' :=
  inv_step_of_leaf_specs all_malloc_nosys all_sys_alloc all_free_heap all_sys_trim all_release_unused_segments
    all_try_realloc_chunk all_memalign_fix hi hop h

/-- in particular `WF` (the executable checker of round 1) holds after the step -/
theorem wf_step {hs hs' : Hist} {op : Op} {os : List OsDir} {out : Out}
    (hi : Inv2 hs) (hop : OpOk hs op os) (h : hs.step op os = .ok (hs', out)) : WF hs' :=
  (inv_step hi hop h).wf

/-- **every reachable state**: the invariant holds initially and after every history whose operations satisfy
`OpOk` in the state they are applied to -/
theorem inv_reachable {ops : List (Op × List OsDir)} {hs' : Hist} {evs : List OsEv}
    (hok : RunOk Hist.init ops) (h : Hist.init.run ops = .ok (hs', evs)) : Inv2 hs' := by
  obtain ⟨hm, hf, hr⟩ := as_entry_specs all_malloc_nosys all_sys_alloc all_free_heap all_sys_trim
    all_release_unused_segments all_try_realloc_chunk all_memalign_fix
  exact (inv_run_of_specs hm hf hr).2 hok h

theorem wf_reachable {ops : List (Op × List OsDir)} {hs' : Hist} {evs : List OsEv}
    (hok : RunOk Hist.init ops) (h : Hist.init.run ops = .ok (hs', evs)) : WF hs' :=
  (inv_reachable hok h).wf

/-! ## the block-level guarantees, from the invariant of the state BEFORE the call only -/

/-- **alloc_ok** (full): a non-null `malloc` result is aligned as requested, designates `size` bytes inside one
segment, was not live before, overlaps no other live block; the live set grows by exactly this block -/
theorem alloc_ok (hs hs' : Hist) (id size align : Nat) (os : List OsDir) (out : Out) (hi : Inv2 hs)
    (hop : OpOk hs (.malloc id size align) os)
    (h : hs.step (.malloc id size align) os = .ok (hs', out)) (hp : out.ptr ≠ 0) :
    AllocPost hs' hs.live { id := id, ptr := out.ptr, size := size, align := align } :=
  alloc_ok_partial hs hs' id size align os out h hp (wf_step hi hop h)

/-- **calloc_ok** (full): as `alloc_ok`, and the `size` bytes are zeroed by the call -/
theorem calloc_ok (hs hs' : Hist) (id size align : Nat) (os : List OsDir) (out : Out) (hi : Inv2 hs)
    (hop : OpOk hs (.calloc id size align) os)
    (h : hs.step (.calloc id size align) os = .ok (hs', out)) (hp : out.ptr ≠ 0) :
    AllocPost hs' hs.live { id := id, ptr := out.ptr, size := size, align := align } ∧ out.zeroed = true :=
  calloc_ok_partial hs hs' id size align os out h hp (wf_step hi hop h)

/-- **realloc_ok** (full): a successful reallocation yields a block of the new size with all the properties of a
fresh allocation relative to the other live blocks; it stays in place without a copy, or exactly one copy from the
old to the new block is made before the old block is freed -/
theorem realloc_ok (hs hs' : Hist) (id newsize : Nat) (os : List OsDir) (out : Out) (hi : Inv2 hs)
    (hop : OpOk hs (.realloc id newsize) os)
    (h : hs.step (.realloc id newsize) os = .ok (hs', out)) (hp : out.ptr ≠ 0) :
    ∃ b, findBlock hs.live id = some b ∧
      AllocPost hs' (hs.live.filter fun x => x.id ≠ id) { b with ptr := out.ptr, size := newsize } ∧
      ((out.copy = none ∧ out.ptr = b.ptr) ∨
       ∃ len, out.copy = some { src := b.ptr, dst := out.ptr, len := len } ∧ len ≤ newsize ∧
         (b.align > MALLOC_ALIGNMENT → len = min b.size newsize)) :=
  realloc_ok_partial hs hs' id newsize os out h hp (wf_step hi hop h)

/-- **free_ok** (full): `free` removes exactly the named block; the remaining blocks stay pairwise disjoint -/
theorem free_ok (hs hs' : Hist) (id : Nat) (os : List OsDir) (out : Out) (hi : Inv2 hs)
    (h : hs.step (.free id) os = .ok (hs', out)) :
    ∃ b, findBlock hs.live id = some b ∧ hs'.live = hs.live.filter (fun x => x.id ≠ id) ∧
      ∀ b1 ∈ hs'.live, ∀ b2 ∈ hs'.live, b1.ptr ≠ b2.ptr →
        b1.ptr + b1.size ≤ b2.ptr ∨ b2.ptr + b2.size ≤ b1.ptr := by
  obtain ⟨b, hb, hl, hd⟩ := free_ok_partial hs hs' id os out h
  exact ⟨b, hb, hl, hd (wf_step (op := .free id) (os := os) hi (by unfold OpOk; trivial) h)⟩

/-- **a failed operation loses nothing and the heap stays fully usable**: after a refused mmap the state is
exactly the old one (`oom_null`), so it still satisfies the invariant and every later operation is covered by the
theorems above -/
theorem oom_keeps_invariant (hs hs' : Hist) (op : Op) (os : List OsDir) (out : Out) (hi : Inv2 hs)
    (hop : OpOk hs op os) (h : hs.step op os = .ok (hs', out)) (_hr : refused hs'.st.evs = true) :
    Inv2 hs' := inv_step hi hop h

/-- **owner-only writes, dynamic form**: the model's memory is the header table, so the words an operation writes are
the header words (and free-chunk links) of entries that exist before or after it. For every operation from a good
state, every entry of the table BEFORE or AFTER the step — hence every header the step creates, rewrites or deletes —
lies outside every block that stays live across the step: its two header words end before the block's payload or start
after it, and if it is a free chunk so does its whole interior beyond the `prev_foot` word. (User bytes themselves are
not modelled; the byte-pattern oracle on the real code covers them.) -/
theorem step_metadata_outside_persisting_blocks {hs hs' : Hist} {op : Op} {os : List OsDir} {out : Out}
    (hi : Inv2 hs) (hop : OpOk hs op os) (h : hs.step op os = .ok (hs', out))
    (b : Block) (hb : b ∈ hs.live) (hb' : b ∈ hs'.live) (x : Ent)
    (hx : x ∈ hs.st.h.ents ∨ x ∈ hs'.st.h.ents) :
    (x.addr + 16 ≤ b.ptr ∨ b.ptr + b.size ≤ x.addr + 8) ∧
    (isFree x = true → x.addr + x.size ≤ b.ptr ∨ b.ptr + b.size ≤ x.addr + 8) := by
  rcases hx with hx | hx
  · exact metadata_outside_live_blocks hs hi.wf b hb x hx
  · exact metadata_outside_live_blocks hs' (wf_step hi hop h) b hb' x hx

/-- the same, by address: wherever the header table answers differently before and after the step (a header written,
changed or removed at `a`), the two header words at `a` lie outside every block that stays live across the step -/
theorem changed_header_outside_persisting_blocks {hs hs' : Hist} {op : Op} {os : List OsDir} {out : Out}
    (hi : Inv2 hs) (hop : OpOk hs op os) (h : hs.step op os = .ok (hs', out))
    (b : Block) (hb : b ∈ hs.live) (hb' : b ∈ hs'.live) (a : Nat)
    (hne : findEnt hs.st.h.ents a ≠ findEnt hs'.st.h.ents a) :
    a + 16 ≤ b.ptr ∨ b.ptr + b.size ≤ a + 8 := by
  cases h1 : findEnt hs.st.h.ents a with
  | some e =>
    obtain ⟨hm, ha⟩ := findEnt_some h1
    have := (step_metadata_outside_persisting_blocks hi hop h b hb hb' e (Or.inl hm)).1
    rw [ha] at this
    exact this
  | none =>
    cases h2 : findEnt hs'.st.h.ents a with
    | some e =>
      obtain ⟨hm, ha⟩ := findEnt_some h2
      have := (step_metadata_outside_persisting_blocks hi hop h b hb hb' e (Or.inr hm)).1
      rw [ha] at this
      exact this
    | none => exact absurd (h1.trans h2.symm) hne

/-! ## non-vacuity -/

example : Inv2 Hist.init := inv2_init

set_option maxRecDepth 20000 in
/-- the hypotheses of `inv_step` on the demo state of `Props/C03.lean` (two bins in use, one live block) for a
request the OS serves with a fresh mapping below the heap -/
example : Inv2 demoState ∧ OpOk demoState (.calloc 7 70000 4096) [.m (some 524288)] := by
  refine ⟨as_inv2B_ok (by decide), 12, by decide, by decide, by unfold as_BigOk; decide, ?_⟩
  intro tbase q hq
  injection hq with h1 _
  injection h1 with h1
  injection h1 with h1
  subst h1
  refine ⟨⟨by decide, by decide, by decide, ?_⟩, by decide⟩
  intro g hg
  have : demoState.st.segs = [{ base := 1048576, size := 65536, recAt := 0 }] := by decide
  have hg : g ∈ demoState.st.segs := hg
  rw [this] at hg
  simp only [List.mem_singleton] at hg
  subst hg
  left
  decide

end TinyVerif.Dl
