/-
C09 — every raw system-call wrapper decodes the kernel's return register exactly.

* `isErr_iff`, `bail_code`, `coerce_ok`, `proj_faithful` — the three shared idioms.
* `Spec c k` (defined in Spec/C09.lean) — the property for one wrapper skeleton `k` under decode idioms `c`, for **every** stream of
  kernel results: one call; `Err(positive errno)` iff the first result is in −4095..−1; otherwise `Ok`
  carrying the register through the wrapper's declared projection; the single documented exception
  re-issues the call exactly while the result is −EBUSY (dup2/dup3).
* `chk_sound` — the syntactic check `chk` implies `Spec`, proved once for all skeleton terms.
* `all_wrappers` — `chk` over every row of the table regenerated from /repo/rusl/src on every run (`Gen/Wrappers.lean`)
  that the translator understands, `wrappers_spec` — hence `Spec` for every such wrapper in the tree as it is now;
  rows listed in `Gen.opaqueRows` are left to the exhaustive run-time correspondence (`understood_majority` bounds them).
* `old_*` — the defects the table showed before their `fix:` commits, as model-level witnesses.

The tie of `Gen.wrappers`/`Gen.cfg` to the compiled code is the correspondence run of `bin/check C09`
(every wrapper × every errno × success classes under a fully scripted kernel).
-/
import TinyVerif.Model.Wrap
import TinyVerif.Spec.C09
import TinyVerif.Gen.Wrappers
import TinyVerif.Proofs.WrapLemmas
namespace TinyVerif.Wrap

/-! ## the shared idioms -/

/-- `is_syscall_error r ↔ −4095 ≤ (r as i64) ≤ −1` -/
theorem isErr_iff (r : Nat) (h : r < TWO64) : isSyscallError stdCfg r = true ↔ InErrRange r := by
  have h64 := castTo_i64_spec r h
  rw [isErr_std, decide_eq_true_eq]
  simp only [InErrRange, TWO64] at *
  generalize castTo .i64 r = a at *
  omega

/-- in the error range the code built by `bail_on_below_zero!` / `coerce_from_register` is `−r`, a positive errno ≤ 4095 -/
theorem bail_code (r : Nat) (h : r < TWO64) (he : InErrRange r) :
    evalCode .negI32 r = .err (-(castTo .i64 r)) ∧ 1 ≤ -(castTo .i64 r) ∧ -(castTo .i64 r) ≤ 4095 := by
  have h64 := castTo_i64_spec r h
  have h32 := castTo_i32_spec r
  simp only [InErrRange, evalCode, TWO64] at *
  generalize castTo .i64 r = a at *
  generalize castTo .i32 r = b at *
  refine ⟨?_, by omega, by omega⟩
  split
  · omega
  · simp only [Outcome.err.injEq]; omega

/-- outside the error range `coerce_from_register` is `Ok(r as i32)` -/
theorem coerce_ok (r : Nat) (h : r < TWO64) (he : ¬ InErrRange r) :
    step stdCfg .coerceFd r = .ok (.num (castTo .i32 r)) := by
  have : isSyscallError stdCfg r = false := by
    cases hh : isSyscallError stdCfg r with
    | false => rfl
    | true => exact absurd ((isErr_iff r h).mp hh) he
  simp only [step, this]
  rfl

/-- a cast to the declared return type loses nothing for every value the type can hold
(the smallest: `i32` holds every success value below 2^31) -/
theorem proj_faithful (t : Ty) (r : Nat) (h : r < TWO31) : castTo t r = (r : Int) := by
  have h64 := castTo_i64_spec r (by simp only [TWO31, TWO64] at *; omega)
  have h32 := castTo_i32_spec r
  have hu32 := castTo_u32_spec r
  have hu64 := castTo_u64_spec r (by simp only [TWO31, TWO64] at *; omega)
  simp only [TWO31] at h
  cases t
  · generalize castTo .i32 r = b at *; omega
  · generalize castTo .u32 r = b at *; omega
  · generalize castTo .i64 r = b at *; omega
  · exact hu64

theorem proj_faithful_u32 (r : Nat) (h : r < TWO32) : castTo .u32 r = (r : Int) := by
  rw [castTo_u32_spec]; simp only [TWO32] at h; omega

theorem proj_faithful_i64 (r : Nat) (h : r < TWO63) : castTo .i64 r = (r : Int) := by
  have h64 := castTo_i64_spec r (by simp only [TWO63, TWO64] at *; omega)
  simp only [TWO63] at h
  generalize castTo .i64 r = b at *; omega

theorem proj_faithful_u64 (r : Nat) (h : r < TWO64) : castTo .u64 r = (r : Int) := castTo_u64_spec r h

/-! ## the property -/

/-- `decodeStd` is the statement's decode: error iff in −4095..−1, code = −r -/
theorem decodeStd_err (p : Proj) (r : Nat) (h : r < TWO64) :
    (InErrRange r → decodeStd p r = .err (-(castTo .i64 r)) ∧ 1 ≤ -(castTo .i64 r) ∧ -(castTo .i64 r) ≤ 4095) ∧
    (¬ InErrRange r → decodeStd p r = .ok (projPay p r)) := by
  have h64 := castTo_i64_spec r h
  simp only [InErrRange, decodeStd, TWO64] at *
  generalize castTo .i64 r = a at *
  constructor
  · intro he
    refine ⟨?_, by omega, by omega⟩
    split
    · simp only [Outcome.err.injEq]; omega
    · omega
  · intro he
    split
    · omega
    · rfl

/-- **soundness of the syntactic check**, once for all skeleton terms -/
theorem chk_sound (k : Skel) (h : chk k = true) : Spec stdCfg k := by
  cases k with
  | bail p =>
    intro kr hb
    simp only [run, step_bail p (kr 0) (hb 0)]
  | coerceFd =>
    intro kr hb
    simp only [run, step_coerce (kr 0) (hb 0)]
  | retRaw p => intro kr; rfl
  | ignored => intro kr; rfl
  | noRet => intro kr; rfl
  | errAlways c =>
    simp only [chk, decide_eq_true_eq] at h
    subst h
    intro kr hb
    refine ⟨rfl, fun he => ?_⟩
    have := (bail_code (kr 0) (hb 0) he).1
    simp only [run, step, this, Outcome.err.injEq]
    have h64 := castTo_i64_spec (kr 0) (hb 0)
    simp only [InErrRange, TWO64] at *
    generalize castTo .i64 (kr 0) = a at *
    omega
  | retryIfEq t v k' =>
    simp only [chk, Bool.and_eq_true, Bool.or_eq_true, decide_eq_true_eq] at h
    obtain ⟨htv, hk⟩ := h
    cases k' with
    | bail p =>
      intro kr n hb hn hp hl
      exact retry_sound t v (.bail p) p htv (fun r hr => step_bail p r hr) kr n hb hn hp hl
    | coerceFd =>
      intro kr n hb hn hp hl
      exact retry_sound t v .coerceFd (.cast .i32) htv (fun r hr => step_coerce r hr) kr n hb hn hp hl
    | retRaw _ => simp [chkSimple] at hk
    | ignored => simp [chkSimple] at hk
    | noRet => simp [chkSimple] at hk
    | errAlways _ => simp [chkSimple] at hk
    | retryIfEq _ _ _ => simp [chkSimple] at hk
    | custom _ => simp [chkSimple] at hk
  | custom s => simp [chk] at h

/-- the same under any extracted configuration that passes `cfgOk` -/
theorem chk_sound_cfg (c : Cfg) (hc : cfgOk c = true) (k : Skel) (h : chk k = true) : Spec c k := by
  simp only [cfgOk, decide_eq_true_eq] at hc
  subst hc
  exact chk_sound k h

/-! ## the regenerated table

The obligations below are stated over the *rows* of the table, not over positions or names: every row the translator
understands must pass `chk` (and only the documented wrappers may retry).  A row whose body the translator does not
understand is listed in `Gen.opaqueRows` (its skeleton is `.custom`); no claim is made about it here — `bin/check C09`
decides the property for it from the compiled wrapper alone, exhaustively over the errno range (see checks/c09.py) —
and `understood_majority` keeps that escape from swallowing the table. -/

def isCustom : Skel → Bool
  | .custom _ => true
  | _ => false

/-- a row is fine when it is understood and passes the check, or is declared opaque (and then carries no skeleton) -/
def rowOk (w : Wrapper) : Bool :=
  if Gen.opaqueRows.contains w.name then isCustom w.skel else wrapperOk w

/-- every decode idiom and every understood wrapper skeleton extracted from /repo's current source passes the check;
only dup2/dup3 contain a retry -/
theorem all_wrappers : (cfgOk Gen.cfg && Gen.problems.isEmpty && Gen.wrappers.all rowOk) = true := by
  decide +kernel

/-- **C09** for every wrapper of the current tree whose body the translator understands -/
theorem wrappers_spec (w : Wrapper) (hw : w ∈ Gen.wrappers) (ho : Gen.opaqueRows.contains w.name = false) :
    Spec Gen.cfg w.skel := by
  have h := all_wrappers
  simp only [Bool.and_eq_true] at h
  obtain ⟨⟨hc, _⟩, ha⟩ := h
  have := List.all_eq_true.mp ha w hw
  simp only [rowOk, ho, Bool.false_eq_true, if_false, wrapperOk, Bool.and_eq_true] at this
  exact chk_sound_cfg Gen.cfg hc w.skel this.1

/-- no understood wrapper other than the documented ones re-issues its call -/
theorem only_dup_retries (w : Wrapper) (hw : w ∈ Gen.wrappers) (ho : Gen.opaqueRows.contains w.name = false)
    (hr : usesRetry w.skel = true) : w.name ∈ retryDocumented := by
  have h := all_wrappers
  simp only [Bool.and_eq_true] at h
  have := List.all_eq_true.mp h.2 w hw
  simp only [rowOk, ho, Bool.false_eq_true, if_false, wrapperOk, Bool.and_eq_true, Bool.or_eq_true, Bool.not_eq_true', hr] at this
  rcases this.2 with h' | h'
  · cases h'
  · exact List.contains_iff_mem.mp h'

/-- the opaque list names rows of the table, and the statically proved part is the bulk of it -/
theorem understood_majority :
    (Gen.opaqueRows.all (fun n => Gen.wrappers.any (fun w => w.name == n)) &&
      decide (2 * (Gen.wrappers.filter (fun w => Gen.opaqueRows.contains w.name)).length ≤ Gen.wrappers.length)) = true := by
  decide +kernel

/-! ## defects the table showed before their repair (model-level witnesses; replayed on the real code by the harness) -/

/-- dup3 as it was: `if res as i32 == Errno::EBUSY.raw() { continue; }` -/
def oldDup3 : Skel := .retryIfEq .i32 16 (.bail .unit)
/-- execve as it was: `Err(Error::with_code(_, res as i32))` -/
def oldExecve : Skel := .errAlways .rawI32

/-- `dup2(fd, Fd 16)`: the *successful* result 16 is taken for EBUSY — the call is re-issued for ever -/
theorem old_dup3_retries_on_success_16 : run stdCfg oldDup3 (fun _ => 16) = (.diverge, FUEL) := by
  decide +kernel

/-- …and the real `−EBUSY` was reported instead of retried -/
theorem old_dup3_no_retry_on_ebusy :
    run stdCfg oldDup3 (fun i => if i = 0 then NEG_EBUSY else 5) = (.err 16, 1) := by
  decide +kernel

theorem old_dup3_not_spec : ¬ Spec stdCfg oldDup3 := by
  intro h
  have := h (fun i => if i = 0 then NEG_EBUSY else 5) 1 (fun i => by show (if i = 0 then NEG_EBUSY else 5) < TWO64; split <;> decide) (by decide)
    (fun i hi => by have : i = 0 := by omega
                    subst this; rfl) (by decide)
  revert this
  decide +kernel

/-- execve reported `−errno`: ENOENT came out as code −2 -/
theorem old_execve_code_negative : run stdCfg oldExecve (fun _ => TWO64 - 2) = (.err (-2), 1) := by
  decide +kernel

theorem old_execve_not_spec : ¬ Spec stdCfg oldExecve := by
  intro h
  have := (h (fun _ => TWO64 - 2) (fun _ => by decide)).2 (by decide)
  revert this
  decide +kernel

theorem old_skeletons_fail_chk : chk oldDup3 = false ∧ chk oldExecve = false := by decide

/-! ## non-vacuity -/

/-- the table is the real one: it has the wrappers rusl exports -/
example : 64 ≤ Gen.wrappers.length := by decide
/-- every clause of `Spec` is inhabited by a row form the translator emits and the check accepts -/
example : wrapperOk { name := "unistd::close", file := "", skel := .bail .unit } = true := by decide
example : wrapperOk { name := "unistd::open", file := "", skel := .coerceFd } = true := by decide
example : wrapperOk { name := "unistd::dup3", file := "", skel := .retryIfEq .i64 (-16) (.bail .unit) } = true := by decide
example : wrapperOk { name := "unistd::dup3", file := "", skel := .retryIfEq .u64 18446744073709551600 (.bail .unit) } = true := by decide
example : wrapperOk { name := "process::execve", file := "", skel := .errAlways .negI32 } = true := by decide
example : wrapperOk { name := "process::get_pid", file := "", skel := .retRaw (.cast .i32) } = true := by decide
/-- …and rejects a retry anywhere else, and the retry on the truncated register -/
example : wrapperOk { name := "select::epoll_wait", file := "", skel := .retryIfEq .i64 (-16) (.bail .id) } = false := by decide
example : wrapperOk { name := "unistd::dup3", file := "", skel := .retryIfEq .i32 (-16) (.bail .unit) } = false := by decide
/-- the table has understood rows of the ordinary form -/
example : Gen.wrappers.any (fun w => !Gen.opaqueRows.contains w.name && decide (w.skel = .bail .unit)) = true := by decide
/-- the hypotheses of the retry clause are satisfiable: two −EBUSY then fd 5 gives `Ok` after three calls -/
example : run stdCfg (.retryIfEq .i64 (-16) (.bail .unit)) (fun i => if i < 2 then NEG_EBUSY else 5) = (.ok .unit, 3) := by
  decide +kernel
/-- error range and its complement are both inhabited -/
example : InErrRange (TWO64 - 4095) ∧ InErrRange (TWO64 - 1) ∧ ¬ InErrRange (TWO64 - 4096) ∧ ¬ InErrRange 0 := by
  simp only [InErrRange, castTo]; decide
/-- a success value that is an errno-sized number stays a success: 16 through `bail`/`coerceFd` -/
example : step stdCfg .coerceFd 16 = .ok (.num 16) ∧ step stdCfg (.bail .id) 4095 = .ok (.num 4095) := by decide +kernel

end TinyVerif.Wrap
