/-
C18 — io_uring ops complete once with the direct syscall's result; teardown is exact.

* Encoding.  `Gen/SqeCtors.lean` is regenerated on every run from the `new_*` constructors in
  rusl/src/platform/compat/io_uring.rs; `Model/UringAbi.lean` holds the kernel ABI (which SQE field
  carries which operand, with which C type) and the intent (which Rust parameter is which operand).
  `sqe_table_ok` checks the regenerated table by `decide`; `sqe_decode_encode` lifts it to ALL
  argument values: the kernel's reading of the 64 bytes a constructor produces is the intended
  operation — opcode, every operand intact, sqe flags and user_data intact, unused fields zero.
* Teardown.  `setup_drop_balanced`: for every kernel answer (sizes, SINGLE_MMAP or not) and every
  failing mmap, what setup_io_uring + Drop release is exactly what they acquired, each once.
* One completion per submission.  The KERNEL CONTRACT is an explicit step relation composed with the ring model
  (Model/Ring.lean `kstep`: `consume` in ring order, `complete i` = exactly one completion for the i-th in-flight
  request, any order, user_data and result of the direct system call — -ECANCELED behind a failed link —, into
  the completion ring only while it has room, else the overflow list; `flushOvf`; `idle`).  The contract is the
  ASSUMPTION (kernel behaviour; its observable consequences are what the real-ring oracle run of checks/c18.py
  checks against direct system calls on a twin).  PROVED about the wrapper under it, for every interleaving, ring
  size, index shift and initial counter: `cqe_exactly_once` / `one_cqe_per_sqe` (safety: the reaped (user_data,
  res) multiset is a sub-multiset of the owed one, no request twice, nothing invented), `cqe_complete_at_quiescence`
  (kernel quiet + ring reaped empty ⇒ equality), `link_chain_order` (+ `link_deps_spec`, `link_within_batch`,
  `owed_result`), `wake_protocol`; and BELOW call granularity (split-reap model `krun2`: the entry is read through
  the returned reference after arbitrary kernel steps): `cqe_exactly_once_split`, `one_cqe_per_sqe_split` — true
  since /repo bc63d9e (`get_next_cqe` releases the slot on the next call), false before
  (`orig_reap_reference_outlives_slot`, the finding of this model).
The `orig_*` theorems are witnesses on the model of the code before the C18 repairs.
-/
import TinyVerif.Gen.SqeCtors
import TinyVerif.Proofs.SqeLemmas
import TinyVerif.Model.UringRes
import TinyVerif.Props.C17
import TinyVerif.Proofs.RingKernel
namespace TinyVerif.C18
open TinyVerif.Sqe TinyVerif.UringRes TinyVerif.Ring

/-- the regenerated constructor table agrees with ABI + intent (all constructors except
`new_poll_add`, whose `poll_events: u16` union member covers only half of the kernel's
`poll32_events` — see `sqe_poll_add_partial`) -/
theorem sqe_table_ok : ∀ c ∈ ctors, c.name ≠ "new_poll_add" → ctorOk c = true := by decide

/-- the table covers the constructors the property lists -/
theorem sqe_table_complete :
    ["new_readv", "new_readv_fixed", "new_writev", "new_writev_fixed", "new_openat", "new_close", "new_statx",
     "new_unlink_at", "new_rename_at", "new_mkdirat", "new_socket", "new_connect_unix", "new_accept_unix",
     "new_accept_inet", "new_timeout", "new_sendmsg", "new_recvmsg", "new_poll_add"].all
      (fun n => ctors.any (fun c => c.name == n)) = true := by decide

/-- the statement of `sqe_decode_encode` for one constructor and one argument valuation -/
def DecodesAsIntended (c : Ctor) (a : Nat → Int) : Prop :=
  ∃ (s : Sqe) (opc : Int) (op : String) (intent : List (String × Want)) (row : AbiRow) (i j : Nat),
    (encode c a).length = 64 ∧ parse (encode c a) = some s ∧
    c.opcode = .const opc ∧ lookup intents c.name = some (op, intent) ∧
    findRow opc.toNat abi = some row ∧ row.op = op ∧ (s.opcode : Int) = opc ∧
    indexOf c.operands "sqe_flags" = some i ∧ (s.flags : Int) = a i ∧
    indexOf c.operands "user_data" = some j ∧ (s.userData : Int) = a j ∧
    s.ioprio = 0 ∧ s.personality = 0 ∧ s.addr3 = 0 ∧ s.pad = 0 ∧
    fieldMeaning c.operands intent a row.fd s.fd ∧
    fieldMeaning c.operands intent a row.off s.off ∧
    fieldMeaning c.operands intent a row.addr s.addr ∧
    fieldMeaning c.operands intent a row.len s.len ∧
    fieldMeaning c.operands intent a row.opflags s.opflags ∧
    fieldMeaning c.operands intent a row.bufIndex s.bufIndex ∧
    fieldMeaning c.operands intent a row.fileIndex s.fileIndex

theorem fieldsOf_wf (c : Ctor) (a : Nat → Int) (hb : c.opflagsBytes = 4) : (fieldsOf c a).WF := by
  constructor <;> simp only [fieldsOf, hb] <;> first | exact wrap_lt _ _ | decide

theorem wrap_small (b : Nat) (v : Int) (h0 : 0 ≤ v) (h1 : v < (256 ^ b : Nat)) : (wrap b v : Int) = v := by
  unfold wrap
  rw [Int.emod_eq_of_lt h0 h1]
  omega

theorem findRow_some (n : Nat) : ∀ (l : List AbiRow) (r : AbiRow), findRow n l = some r → r ∈ l ∧ r.opcode = n := by
  intro l
  induction l with
  | nil => intro r h; cases h
  | cons x xs ih =>
    intro r h
    simp only [findRow] at h
    split at h
    · rename_i hx
      cases h
      exact ⟨List.mem_cons_self, hx⟩
    · obtain ⟨h1, h2⟩ := ih r h
      exact ⟨List.mem_cons_of_mem _ h1, h2⟩

theorem abi_opcodes_lt : ∀ r ∈ abi, r.opcode < 256 := by decide

/-- soundness of the table check: a constructor that passes `ctorOk` produces, for all valid
arguments, 64 bytes that the kernel reads as the intended operation -/
theorem ctorOk_sound (c : Ctor) (h : ctorOk c = true) (a : Nat → Int) (hv : ValidArgs c.operands a) :
    DecodesAsIntended c a := by
  unfold ctorOk at h
  split at h
  · rename_i opc op intent hop hint
    split at h
    · cases h
    · rename_i row hrow
      split at hrow
      · rename_i hopc0
        simp only [Bool.and_eq_true, beq_iff_eq] at h
        obtain ⟨⟨⟨⟨⟨⟨⟨⟨⟨⟨⟨⟨hopn, _⟩, hfu⟩, hio⟩, hpe⟩, hb⟩, f1⟩, f2⟩, f3⟩, f4⟩, f5⟩, f6⟩, f7⟩ := h
        split at hfu
        · rename_i i j hi hj
          simp only [Bool.and_eq_true, beq_iff_eq] at hfu
          obtain ⟨⟨⟨hfl, hud⟩, hki⟩, hkj⟩ := hfu
          have vi := hv i .u8 hki
          have vj := hv j .u64 hkj
          simp only [Kind.lo, Kind.hi] at vi vj
          have hwf := fieldsOf_wf c a hb
          refine ⟨fieldsOf c a, opc, op, intent, row, i, j, ?_, ?_, hop, hint, hrow, hopn, ?_, hi, ?_, hj, ?_,
            ?_, ?_, rfl, rfl, ?_, ?_, ?_, ?_, ?_, ?_, ?_⟩
          · exact serialize_length _
          · exact parse_serialize _ hwf
          · -- opcode: a row was found for it, so it is one of the table's opcodes (< 256)
            have hlt : opc < 256 := by
              obtain ⟨hm, he⟩ := findRow_some opc.toNat abi row hrow
              have := abi_opcodes_lt row hm
              omega
            simp only [fieldsOf, hop, evalSrc]
            exact wrap_small 1 opc hopc0 (by simpa using hlt)
          · simp only [fieldsOf, hfl, evalSrc]
            exact wrap_small 1 _ vi.1 (by simp; omega)
          · simp only [fieldsOf, hud, evalSrc]
            exact wrap_small 8 _ vj.1 (by simp; omega)
          · simp [fieldsOf, hio, evalSrc, wrap]
          · simp [fieldsOf, hpe, evalSrc, wrap]
          · exact fieldOk_sound _ _ a hv _ _ 4 4 (by simp) f1
          · exact fieldOk_sound _ _ a hv _ _ 8 8 (by simp) f2
          · exact fieldOk_sound _ _ a hv _ _ 8 8 (by simp) f3
          · exact fieldOk_sound _ _ a hv _ _ 4 4 (by simp) f4
          · have := fieldOk_sound _ _ a hv _ _ c.opflagsBytes 4 (by simp) f5
            simpa only [fieldsOf] using this
          · exact fieldOk_sound _ _ a hv _ _ 2 2 (by simp) f6
          · exact fieldOk_sound _ _ a hv _ _ 4 4 (by simp) f7
        · cases hfu
      · cases hrow
  · cases h

/-- **sqe_decode_encode**: for every constructor of the regenerated table (except `new_poll_add`) and
ALL valid arguments, decoding the encoded 64 bytes per the ABI yields the intended operation:
operands, flags and user_data intact, unused fields zero. -/
theorem sqe_decode_encode (c : Ctor) (hc : c ∈ ctors) (hn : c.name ≠ "new_poll_add")
    (a : Nat → Int) (hv : ValidArgs c.operands a) : DecodesAsIntended c a :=
  ctorOk_sound c (sqe_table_ok c hc hn) a hv


/-- `new_poll_add` writes `poll_events` through the 2-byte union member `poll_events: u16` while the
kernel (IORING_FEAT_POLL_32BITS) reads the 4-byte `poll32_events`: every other field is as intended
(checked on the table); bytes 30..31 of the image are not written by the constructor at all, so
"events intact" holds only under the assumption that they are zero (observed so by the image
correspondence of checks/c18.py, not provable from the source). -/
theorem sqe_poll_add_partial :
    ∀ c ∈ ctors, c.name = "new_poll_add" →
      c.opcode = .const 6 ∧ c.opflagsBytes = 2 ∧
      (indexOf c.operands "poll_events").map Src.arg = some c.opflags ∧
      (indexOf c.operands "fd").map Src.arg = some c.fd ∧ (indexOf c.operands "flags").map Src.arg = some c.len ∧
      c.off = .const 0 ∧ c.addr = .const 0 ∧ c.bufIndex = .const 0 ∧ c.fileIndex = .const 0 ∧
      c.ioprio = .const 0 ∧ c.personality = .const 0 := by decide

/-! non-vacuity: a concrete constructor, concrete valid arguments, the concrete image -/
example : ∃ c ∈ ctors, c.name = "new_accept_unix" ∧
    encode c (fun i => [5, 4096, 8192, 3, 77, 0].getD i 0) =
      [13, 0, 0, 0, 5, 0, 0, 0, 0, 32, 0, 0, 0, 0, 0, 0, 0, 16, 0, 0, 0, 0, 0, 0, 0, 0, 0, 0, 3, 0, 0, 0,
       77, 0, 0, 0, 0, 0, 0, 0, 0, 0, 0, 0, 0, 0, 0, 0, 0, 0, 0, 0, 0, 0, 0, 0, 0, 0, 0, 0, 0, 0, 0, 0] := by decide

example : ValidArgs [("fd", .fd), ("user_data", .u64), ("sqe_flags", .u8)] (fun i => [5, 77, 0].getD i 0) := by
  intro i k h
  match i, h with
  | 0, h => simp [kindAt] at h; subst h; decide
  | 1, h => simp [kindAt] at h; subst h; decide
  | 2, h => simp [kindAt] at h; subst h; decide
  | _ + 3, h => simp [kindAt] at h


/-- **setup_drop_balanced**: for every kernel answer (any sizes, SINGLE_MMAP or not), every flag set
and every failing mmap, the mappings/fd released by setup's error path or by Drop are exactly the
ones setup acquired, each exactly once (this covers `setup_failure_leakfree`: `fail = some k`). -/
theorem setup_drop_balanced (flags : Nat) (a : Ans) (fail : Option Nat) :
    balanced (script .fixed flags a fail).2 = true := by
  unfold script
  by_cases h0 : fail = some 0
  · simp [h0, bail, balanced, acquired, released, countEv]
  · by_cases hs : a.single = true
    · by_cases h1 : fail = some 1
      · simp [h1, hs, bail, balanced, acquired, released, countEv]
      · simp [h0, h1, hs, balanced, acquired, released, countEv]
    · by_cases h1 : fail = some 1
      · simp [h1, hs, bail, balanced, acquired, released, countEv]
      · by_cases h2 : fail = some 2
        · simp [h2, hs, bail, balanced, acquired, released, countEv]
        · simp [h0, h1, h2, hs, balanced, acquired, released, countEv]

/-- setup succeeds exactly when no mmap fails -/
theorem setup_ok_iff (cd : UringRes.Code) (flags : Nat) (a : Ans) (fail : Option Nat) :
    (script cd flags a fail).1 = true ↔
      ¬ (fail = some 0 ∨ fail = some 1 ∨ (a.single = false ∧ fail = some 2)) := by
  unfold script
  by_cases h0 : fail = some 0 <;> by_cases hs : a.single = true <;> by_cases h1 : fail = some 1 <;>
    by_cases h2 : fail = some 2 <;> simp_all

/-- before the repair: with SINGLE_MMAP the shared mapping was unmapped twice -/
theorem orig_double_munmap_single_mmap :
    (script .orig 0 ⟨4, 8, 192, 64, true⟩ none).2 =
      [.S, .M 1 208 0, .M 2 256 268435456, .bar, .U 2 256, .U 1 208, .U 1 208, .C] ∧
    balanced (script .orig 0 ⟨4, 8, 192, 64, true⟩ none).2 = false := by decide

/-- before the repair: a failing second mmap leaked the ring fd and the first mapping -/
theorem orig_setup_failure_leaks :
    (script .orig 0 ⟨4, 8, 192, 64, true⟩ (some 1)).2 = [.S, .M 1 208 0, .ME 256 268435456, .bar] ∧
    balanced (script .orig 0 ⟨4, 8, 192, 64, true⟩ (some 1)).2 = false := by decide

/-- non-vacuity: the scripts of the running kernel's answer for 4 entries, as observed -/
example : (script .fixed 0 ⟨4, 8, 192, 64, true⟩ none).2 =
    [.S, .M 1 208 0, .M 2 256 268435456, .bar, .U 2 256, .U 1 208, .C] := by decide
example : (script .fixed 0 ⟨4, 8, 192, 64, false⟩ (some 2)).2 =
    [.S, .M 1 208 0, .M 2 192 134217728, .ME 256 268435456, .U 1 208, .U 2 192, .C, .bar] := by decide



/-- the state reached from a fresh ring by an arbitrary interleaving of application steps
(get+fill / flush / reap / wake) and kernel-contract steps (consume / complete / flushOvf / idle) -/
def kreached (K : Kern) (flags k kc c cc : Nat) (ops : List KOp) : KSt :=
  (krun K .fixed (kinit flags k kc c cc) ops).1

theorem kreached_inv (K : Kern) {k kc c cc : Nat} (p : Params k kc c cc) (flags : Nat) (ops : List KOp) :
    KInv K (kreached K flags k kc c cc ops) ∧ RInv k kc c cc (kreached K flags k kc c cc ops).ring :=
  ⟨krun_kinv ops (kinv_init K flags k kc c cc),
   krun_rinv ops ⟨[], _, _, _, inv_init flags k kc c cc p.hk p.hkc p.hc p.hcc⟩⟩

/-- **cqe_exactly_once** (safety).  ASSUMED: the kernel contract, i.e. the kernel moves only by the steps
`consume` / `complete` / `flushOvf` / `idle` of Model/Ring.lean (in-order consumption, exactly one completion
per consumed entry with its user_data and the direct call's result or -ECANCELED behind a failed link,
posted in any order, only while the completion ring has room, overflow list otherwise).  PROVED about the
wrapper (`get_next_sqe_slot`, `flush_submission_queue`, `get_next_cqe` as they are in /repo): for every ring
size, index shift, initial counter (wrap) and every interleaving,
* completion by completion, what the application reaped is the completion the contract owes to request
  number `reapedSeq[i]` (`expWord`: that entry's user_data and result),
* no request number occurs twice (exactly once) and each is the number of a consumed entry (nothing invented),
* hence the multiset of reaped completions is a sub-multiset of the completions owed for the consumed entries,
* and the consumed entries are, in order, a prefix of the flushed ones, which are a prefix of the filled ones. -/
theorem cqe_exactly_once (K : Kern) {k kc c cc : Nat} (p : Params k kc c cc) (flags : Nat) (ops : List KOp) :
    (kreached K flags k kc c cc ops).ring.reaped.map Ent.val =
      (reapedSeq (kreached K flags k kc c cc ops)).map
        (expWord K (kreached K flags k kc c cc ops).ring.consumed (kreached K flags k kc c cc ops).deps) ∧
    (reapedSeq (kreached K flags k kc c cc ops)).Nodup ∧
    (∀ q ∈ reapedSeq (kreached K flags k kc c cc ops), q < (kreached K flags k kc c cc ops).ring.consumed.length) ∧
    (∃ rest, ((kreached K flags k kc c cc ops).ring.reaped.map Ent.val ++ rest).Perm
      (owed K (kreached K flags k kc c cc ops))) ∧
    (kreached K flags k kc c cc ops).ring.consumed <+: (kreached K flags k kc c cc ops).ring.flushed ∧
    (kreached K flags k kc c cc ops).ring.flushed <+: (kreached K flags k kc c cc ops).ring.filled := by
  obtain ⟨h, hr⟩ := kreached_inv K p flags ops
  obtain ⟨a, b, c', d⟩ := safety_state h hr
  obtain ⟨hold, inq, unpub, cinq, hi⟩ := hr
  exact ⟨a, b, c', d, ⟨inq, hi.flushed_eq.symm⟩, ⟨unpub, hi.filled_eq.symm⟩⟩

/-- **cqe_complete_at_quiescence**: under the same contract, when the kernel has nothing pending (`KQuiet`:
nothing published is unconsumed, nothing in flight, overflow list empty) and the application has reaped
until `get_next_cqe` returns `None`, every flushed entry has been consumed and the reaped completions are,
as a multiset, exactly the completions owed — none missing, none extra. -/
theorem cqe_complete_at_quiescence (K : Kern) {k kc c cc : Nat} (p : Params k kc c cc) (flags : Nat)
    (ops : List KOp) (hq : KQuiet (kreached K flags k kc c cc ops))
    (hempty : (step .fixed (kreached K flags k kc c cc ops).ring .reap).2 = .noCqe) :
    (kreached K flags k kc c cc ops).ring.consumed = (kreached K flags k kc c cc ops).ring.flushed ∧
    ((kreached K flags k kc c cc ops).ring.reaped.map Ent.val).Perm (owed K (kreached K flags k kc c cc ops)) := by
  obtain ⟨h, hr⟩ := kreached_inv K p flags ops
  exact complete_state h hr hq hempty

/-- **link_chain_order**: under the contract, a completion of a request linked behind request `m` is
reaped only after the completion of `m` (completions of one IOSQE_IO_LINK chain are reaped in chain order),
although completions in general come in any order. -/
theorem link_chain_order (K : Kern) {k kc c cc : Nat} (p : Params k kc c cc) (flags : Nat) (ops : List KOp)
    (i q m : Nat) (hi : (reapedSeq (kreached K flags k kc c cc ops))[i]? = some q)
    (hd : (kreached K flags k kc c cc ops).deps[q]? = some (some m)) :
    ∃ j, j < i ∧ (reapedSeq (kreached K flags k kc c cc ops))[j]? = some m :=
  link_order_state (kreached_inv K p flags ops).1 i q m hi hd

/-- what "linked behind `m`" means: `m` is the entry consumed just before, and it carries IOSQE_IO_LINK -/
theorem link_deps_spec (K : Kern) {k kc c cc : Nat} (p : Params k kc c cc) (flags : Nat) (ops : List KOp)
    (q m : Nat) (hd : (kreached K flags k kc c cc ops).deps[q]? = some (some m)) :
    m + 1 = q ∧ ∃ e, (kreached K flags k kc c cc ops).ring.consumed[m]? = some e ∧ K.link e.val = true :=
  (kreached_inv K p flags ops).1.dep_ok q m hd

/-- and conversely, within one submission batch an entry is linked behind its predecessor exactly when the
predecessor carries IOSQE_IO_LINK (the first entry of a batch is linked behind nothing) -/
theorem link_within_batch (K : Kern) (n : Nat) (es : List Ent) (j : Nat) (r r' : Req)
    (h0 : (tagReqs K n none es)[j]? = some r) (h1 : (tagReqs K n none es)[j + 1]? = some r') :
    r'.dep = if K.link r.ent.val then some r.seq else none :=
  tagReqs_adjacent K es n none j r r' h0 h1

/-- **owed_result**: the completion the contract owes for the q-th consumed entry `e` carries `e`'s user_data and,
as result, the direct system call's (`K.sys q`) — unless `e` is linked behind a request that failed: then
-ECANCELED.  A request fails when it is cancelled or when its result severs the chain (`K.severs`). -/
theorem owed_result (K : Kern) {k kc c cc : Nat} (p : Params k kc c cc) (flags : Nat) (ops : List KOp)
    (q : Nat) (e : Ent) (dep : Option Nat)
    (he : (kreached K flags k kc c cc ops).ring.consumed[q]? = some e)
    (hd : (kreached K flags k kc c cc ops).deps[q]? = some dep) :
    expWord K (kreached K flags k kc c cc ops).ring.consumed (kreached K flags k kc c cc ops).deps q =
      cqeWord (K.ud e.val)
        (if (dep.any fun m => (outcome K (kreached K flags k kc c cc ops).ring.consumed
              (kreached K flags k kc c cc ops).deps m).2) = true then ECANCELED else K.sys q e.val) ∧
    (outcome K (kreached K flags k kc c cc ops).ring.consumed (kreached K flags k kc c cc ops).deps q).2 =
      ((dep.any fun m => (outcome K (kreached K flags k kc c cc ops).ring.consumed
              (kreached K flags k kc c cc ops).deps m).2) ||
        K.severs e.val
          (if (dep.any fun m => (outcome K (kreached K flags k kc c cc ops).ring.consumed
              (kreached K flags k kc c cc ops).deps m).2) = true then ECANCELED else K.sys q e.val)) := by
  have h := (kreached_inv K p flags ops).1
  generalize kreached K flags k kc c cc ops = s at *
  have ho := outcome_eq K s.ring.consumed s.deps q dep hd (fun m hm => (h.dep_ok q m (by rw [hd, hm])).1)
  rw [he] at ho
  unfold expWord
  rw [he, ho]
  exact ⟨rfl, rfl⟩

/-- **one_cqe_per_sqe** — the property in its own terms, for entries without IOSQE_IO_LINK.  ASSUMED: the kernel
contract (see `cqe_exactly_once`; it is what the real-ring oracle run of checks/c18.py observes).  PROVED about
the wrapper, for every ring size, index shift, initial counter and interleaving:
(1) safety — the (user_data, res) pairs the application has reaped are a sub-multiset of
    {(e.user_data, result of the direct system call for e) | e filled and flushed}: no completion is lost by
    the wrapper, reaped twice or invented;
(2) completeness at quiescence — when the kernel has nothing pending and `get_next_cqe` returns `None`, the
    reaped pairs are exactly that multiset. -/
theorem one_cqe_per_sqe (K : Kern) {k kc c cc : Nat} (p : Params k kc c cc) (flags : Nat) (ops : List KOp)
    (hnl : ∀ e ∈ (kreached K flags k kc c cc ops).ring.filled, K.link e.val = false) :
    (∃ rest, (reapedPairs (kreached K flags k kc c cc ops) ++ rest).Perm
      (flushedPairs K (kreached K flags k kc c cc ops))) ∧
    (KQuiet (kreached K flags k kc c cc ops) →
      (step .fixed (kreached K flags k kc c cc ops).ring .reap).2 = .noCqe →
      (reapedPairs (kreached K flags k kc c cc ops)).Perm (flushedPairs K (kreached K flags k kc c cc ops))) := by
  obtain ⟨h, hr⟩ := kreached_inv K p flags ops
  exact pairs_state h hr hnl

/-- sub-multiset, said with counts: no pair is reaped more often than it is owed -/
theorem one_cqe_per_sqe_count (K : Kern) {k kc c cc : Nat} (p : Params k kc c cc) (flags : Nat) (ops : List KOp)
    (hnl : ∀ e ∈ (kreached K flags k kc c cc ops).ring.filled, K.link e.val = false) (x : Nat × Nat) :
    (reapedPairs (kreached K flags k kc c cc ops)).count x ≤
      (flushedPairs K (kreached K flags k kc c cc ops)).count x := by
  obtain ⟨rest, hperm⟩ := (one_cqe_per_sqe K p flags ops hnl).1
  have := hperm.count_eq x
  rw [List.count_append] at this
  omega

/-- **wake_protocol**: `needs_wakeup()` answers exactly whether the kernel raised IORING_SQ_NEED_WAKEUP — also while
IORING_SQ_CQ_OVERFLOW is up (overflow list non-empty) — so after the application's `wake` step the submission
thread is awake; and a sleeping thread consumes nothing (a missed wake-up means no completion, ever). -/
theorem wake_protocol (K : Kern) (cd : Ring.Code) (s : KSt) :
    (kstep K cd s .wake).2 = .wake s.needWake ∧ (kstep K cd s .wake).1.needWake = false ∧
    (s.needWake = true → ∀ n, kstep K cd s (.consume n) = (s, .consumed [])) := by
  refine ⟨?_, ?_, ?_⟩
  · obtain ⟨ring, nw, pend, ovf, dn, fl, dp, ps⟩ := s
    cases nw <;> cases ovf <;> simp [kstep, flagsWord, needsWakeup]
  · obtain ⟨ring, nw, pend, ovf, dn, fl, dp, ps⟩ := s
    cases nw <;> cases ovf <;> simp [kstep, flagsWord, needsWakeup]
  · intro hw n
    simp only [kstep, kConsumeK, hw, if_true]

/-! ### below call granularity: the reference `get_next_cqe` returns (split-reap model `krun2`)

FOUND with this model and REPAIRED in /repo (bc63d9e): `get_next_cqe` used to advance the shared completion head
before it returned the reference (`completion_queue.advance(1)` preceded `cqe.as_ref()`), so the kernel could refill
the slot while the caller still held the unread reference: one operation's completion lost, another delivered
twice (`orig_reap_reference_outlives_slot`, on `Code.eagerRelease`; it was reproduced on the real code with the
simulated kernel, and on the running kernel both with a safe `io_uring_enter(GETEVENTS)` between call and read and
with no system call at all in between).  The current code releases the slot on the NEXT call (`release_pending`);
for it exactly-once holds below call granularity too: `cqe_exactly_once_split`, `one_cqe_per_sqe_split`. -/

/-- the state reached by an arbitrary interleaving in which the application may read the returned entry LATER than
`get_next_cqe` returns (`reapBegin` … any kernel steps … `reapRead`) -/
def kreached2 (K : Kern) (flags k kc c cc : Nat) (ops : List KOp2) : KSt2 :=
  (krun2 K .fixed (kinit2 flags k kc c cc) ops).1

/-- the (user_data, res) pairs the application actually read through the references, in order -/
def readPairs (s : KSt2) : List (Nat × Nat) := s.readLog.map fun e => (cqeUd e.val, cqeRes e.val)

theorem kreached2_inv (K : Kern) {k kc c cc : Nat} (p : Params k kc c cc) (flags : Nat) (ops : List KOp2) :
    K2Inv K k kc c cc (kreached2 K flags k kc c cc ops) :=
  krun2_inv ops (k2inv_init K flags k kc c cc p.hk p.hkc p.hc p.hcc)

/-- **cqe_exactly_once_split**: under the kernel contract, with reads through the returned reference delayed
arbitrarily (any kernel steps between `get_next_cqe` returning and the read): what the application READ is, entry
by entry, what `get_next_cqe` handed out (a prefix of it; all of it when no reference is outstanding), and what was
handed out satisfies everything `cqe_exactly_once` says — no request twice, nothing invented, a sub-multiset of the
completions owed. -/
theorem cqe_exactly_once_split (K : Kern) {k kc c cc : Nat} (p : Params k kc c cc) (flags : Nat) (ops : List KOp2) :
    (kreached2 K flags k kc c cc ops).readLog <+: (kreached2 K flags k kc c cc ops).k.ring.reaped ∧
    ((kreached2 K flags k kc c cc ops).held = none →
      (kreached2 K flags k kc c cc ops).readLog = (kreached2 K flags k kc c cc ops).k.ring.reaped) ∧
    (kreached2 K flags k kc c cc ops).k.ring.reaped.map Ent.val =
      (reapedSeq (kreached2 K flags k kc c cc ops).k).map
        (expWord K (kreached2 K flags k kc c cc ops).k.ring.consumed (kreached2 K flags k kc c cc ops).k.deps) ∧
    (reapedSeq (kreached2 K flags k kc c cc ops).k).Nodup ∧
    (∀ q ∈ reapedSeq (kreached2 K flags k kc c cc ops).k, q < (kreached2 K flags k kc c cc ops).k.ring.consumed.length) ∧
    (∃ rest, ((kreached2 K flags k kc c cc ops).readLog.map Ent.val ++ rest).Perm
      (owed K (kreached2 K flags k kc c cc ops).k)) := by
  have h := kreached2_inv K p flags ops
  generalize kreached2 K flags k kc c cc ops = s at *
  obtain ⟨h1, h2, hr⟩ := h.readLog_prefix
  obtain ⟨a, b, c', rest, d⟩ := safety_state h.kinv hr
  refine ⟨h1, h2, a, b, c', ?_⟩
  obtain ⟨t, ht⟩ := h1
  refine ⟨t.map Ent.val ++ rest, ?_⟩
  rw [← List.append_assoc, ← List.map_append, ht]
  exact d

/-- **one_cqe_per_sqe_split**: `one_cqe_per_sqe` for delayed reads — the pairs the application actually read are a
sub-multiset of {(e.user_data, result of the direct call for e) | e filled and flushed}; at quiescence, with no
reference outstanding, exactly that multiset. -/
theorem one_cqe_per_sqe_split (K : Kern) {k kc c cc : Nat} (p : Params k kc c cc) (flags : Nat) (ops : List KOp2)
    (hnl : ∀ e ∈ (kreached2 K flags k kc c cc ops).k.ring.filled, K.link e.val = false) :
    (∃ rest, (readPairs (kreached2 K flags k kc c cc ops) ++ rest).Perm
      (flushedPairs K (kreached2 K flags k kc c cc ops).k)) ∧
    (KQuiet (kreached2 K flags k kc c cc ops).k → (kreached2 K flags k kc c cc ops).held = none →
      (step .fixed (kreached2 K flags k kc c cc ops).k.ring .reap).2 = .noCqe →
      (readPairs (kreached2 K flags k kc c cc ops)).Perm (flushedPairs K (kreached2 K flags k kc c cc ops).k)) := by
  have h := kreached2_inv K p flags ops
  generalize kreached2 K flags k kc c cc ops = s at *
  obtain ⟨h1, h2, hr⟩ := h.readLog_prefix
  obtain ⟨⟨rest, d⟩, q⟩ := pairs_state h.kinv hr hnl
  constructor
  · obtain ⟨t, ht⟩ := h1
    refine ⟨t.map (fun e => (cqeUd e.val, cqeRes e.val)) ++ rest, ?_⟩
    rw [← List.append_assoc, readPairs, ← List.map_append, ht]
    exact d
  · intro hq hn he
    rw [readPairs, h2 hn]
    exact q hq he

/-- the atomic `reap` of the contract model is the split reap with the read at once -/
theorem split_reap_is_reap (K : Kern) (cd : Ring.Code) (s : KSt2) (hh : s.held = none) :
    (kstep2 K cd s (.k .reap)).1 = (krun2 K cd s [.reapBegin, .reapRead]).1 ∧
    (kstep2 K cd s (.k .reap)).1.k = (kstep K cd s.k .reap).1 := by
  obtain ⟨sk, held, rl⟩ := s
  simp only at hh
  subst hh
  simp only [krun2, kstep2, kstep, step_reap, kReapBegin, kReapRead, KOp.isApp, Option.isSome_none, Bool.false_and]
  cases h : getNextCqe cd sk.ring with
  | panic r1 => exact ⟨rfl, rfl⟩
  | ok r1 o =>
    cases o with
    | none => exact ⟨rfl, rfl⟩
    | some i => exact ⟨rfl, rfl⟩

/-- **orig_reap_reference_outlives_slot** — before /repo bc63d9e (`Code.eagerRelease`): ring of 1 submission / 2
completion entries, three operations with user_data 1, 2, 3 and results 7, 8, 9; the third completion overflows; a
kernel overflow flush between `get_next_cqe()` returning and the read: the application reads (3, 9), (2, 8), (3, 9)
— (1, 7) is lost, (3, 9) is delivered twice — NOT a sub-multiset of the owed pairs, although every kernel step
obeys the contract.  On the current code the same operations read (1, 7), (2, 8), (3, 9) (the flush finds no room
until the next `get_next_cqe` call releases the slot). -/
theorem orig_reap_reference_outlives_slot :
    readPairs (krun2 nopKern .eagerRelease (kinit2 0 0 1 0 0)
      [.k (.get (sqeWord 1 0 7)), .k .flush, .k (.consume 1), .k (.complete 0),
       .k (.get (sqeWord 2 0 8)), .k .flush, .k (.consume 1), .k (.complete 0),
       .k (.get (sqeWord 3 0 9)), .k .flush, .k (.consume 1), .k (.complete 0),
       .reapBegin, .k (.flushOvf 1), .reapRead, .k .reap, .k .reap, .k .reap]).1 = [(3, 9), (2, 8), (3, 9)] ∧
    flushedPairs nopKern (krun2 nopKern .eagerRelease (kinit2 0 0 1 0 0)
      [.k (.get (sqeWord 1 0 7)), .k .flush, .k (.consume 1), .k (.complete 0),
       .k (.get (sqeWord 2 0 8)), .k .flush, .k (.consume 1), .k (.complete 0),
       .k (.get (sqeWord 3 0 9)), .k .flush, .k (.consume 1), .k (.complete 0),
       .reapBegin, .k (.flushOvf 1), .reapRead, .k .reap, .k .reap, .k .reap]).1.k = [(1, 7), (2, 8), (3, 9)] ∧
    (¬ ∃ rest, ([(3, 9), (2, 8), (3, 9)] ++ rest : List (Nat × Nat)).Perm [(1, 7), (2, 8), (3, 9)]) ∧
    readPairs (kreached2 nopKern 0 0 1 0 0
      [.k (.get (sqeWord 1 0 7)), .k .flush, .k (.consume 1), .k (.complete 0),
       .k (.get (sqeWord 2 0 8)), .k .flush, .k (.consume 1), .k (.complete 0),
       .k (.get (sqeWord 3 0 9)), .k .flush, .k (.consume 1), .k (.complete 0),
       .reapBegin, .k (.flushOvf 1), .reapRead, .k .reap, .k (.flushOvf 1), .k .reap, .k .reap]) =
      [(1, 7), (2, 8), (3, 9)] := by
  refine ⟨by decide, by decide, ?_, by decide⟩
  intro ⟨rest, hperm⟩
  have := hperm.count_eq (3, 9)
  rw [List.count_append] at this
  have h1 : List.count ((3, 9) : Nat × Nat) [(3, 9), (2, 8), (3, 9)] = 2 := by decide
  have h2 : List.count ((3, 9) : Nat × Nat) [(1, 7), (2, 8), (3, 9)] = 1 := by decide
  omega

/-- non-vacuity of the split theorems: a reference held across a kernel flush attempt and a completion; the
hypotheses of `one_cqe_per_sqe_split`'s second half hold at the end -/
example :
    let s := kreached2 nopKern 0 0 1 4294967295 4294967295
      [.k (.get (sqeWord 1 0 7)), .k .flush, .k (.consume 1), .k (.complete 0),
       .k (.get (sqeWord 2 0 8)), .k .flush, .k (.consume 1), .k (.complete 0),
       .k (.get (sqeWord 3 0 9)), .k .flush, .k (.consume 1),
       .reapBegin, .k (.complete 0), .k (.flushOvf 1), .reapRead, .k .reap, .k (.flushOvf 1), .k .reap, .k .reap]
    s.readLog = s.k.ring.reaped ∧ s.held = none ∧ readPairs s = [(1, 7), (2, 8), (3, 9)] ∧
    (s.k.ring.sqKHead = s.k.ring.sqKTail ∧ s.k.pend = [] ∧ s.k.ovf = []) ∧
    (step .fixed s.k.ring .reap).2 = .noCqe := by decide

/-! non-vacuity of the contract theorems: concrete interleavings on the concrete kernel `nopKern` (entry =
`sqeWord user_data flags len`, the "system call" returns `len`, negative = failure) -/

/-- both rings cross the 32-bit wrap; completions out of submission order (request 1 before 0); an IOSQE_IO_LINK
chain 2→3 whose head fails (res -1): 3 cannot complete before 2 and is then cancelled (-ECANCELED = 4294967171);
the completion ring (2 entries) is full: two completions go to the overflow list and are flushed later, in order
(a flush finds room only after the NEXT `get_next_cqe` call has released the slot of the entry reaped before) -/
example :
    (krun nopKern .fixed (kinit 0 1 1 4294967295 4294967295)
      [.get (sqeWord 1 0 7), .get (sqeWord 2 0 8), .flush, .consume 2, .complete 1,
       .get (sqeWord 3 4 4294967295), .get (sqeWord 4 0 9), .flush, .consume 2,
       .complete 2, .complete 1, .complete 1, .complete 0, .flushOvf 5, .reap, .flushOvf 5, .reap, .flushOvf 5,
       .reap, .flushOvf 5, .reap, .reap]).2 =
    [.app (.slot 1), .app (.slot 0), .app (.flushed 2),
     .consumed [⟨0, ⟨1, sqeWord 1 0 7⟩, none⟩, ⟨1, ⟨0, sqeWord 2 0 8⟩, none⟩], .completed 1 (cqeWord 2 8) true,
     .app (.slot 1), .app (.slot 0), .app (.flushed 2),
     .consumed [⟨2, ⟨1, sqeWord 3 4 4294967295⟩, none⟩, ⟨3, ⟨0, sqeWord 4 0 9⟩, some 2⟩],
     .notReady, .completed 2 (cqeWord 3 4294967295) true, .completed 3 (cqeWord 4 ECANCELED) false,
     .completed 0 (cqeWord 1 7) false, .flushedOvf 0, .app (.cqe (cqeWord 2 8)), .flushedOvf 0,
     .app (.cqe (cqeWord 3 4294967295)), .flushedOvf 1, .app (.cqe (cqeWord 4 ECANCELED)), .flushedOvf 1,
     .app (.cqe (cqeWord 1 7)), .app .noCqe] := by decide

/-- the hypotheses of `cqe_complete_at_quiescence` / `link_chain_order` are met by that run: the kernel is quiet,
the ring is reaped empty, request 3 is linked behind 2, and the reaped request numbers are 1, 2, 3, 0 -/
example :
    let s := kreached nopKern 0 1 1 4294967295 4294967295
      [.get (sqeWord 1 0 7), .get (sqeWord 2 0 8), .flush, .consume 2, .complete 1,
       .get (sqeWord 3 4 4294967295), .get (sqeWord 4 0 9), .flush, .consume 2,
       .complete 2, .complete 1, .complete 1, .complete 0, .flushOvf 5, .reap, .flushOvf 5, .reap, .flushOvf 5,
       .reap, .flushOvf 5, .reap, .reap]
    (s.ring.sqKHead = s.ring.sqKTail ∧ s.pend = [] ∧ s.ovf = []) ∧ (step .fixed s.ring .reap).2 = .noCqe ∧
    s.deps = [none, none, none, some 2] ∧ reapedSeq s = [1, 2, 3, 0] ∧
    reapedPairs s = [(2, 8), (3, 4294967295), (4, 4294967171), (1, 7)] := by decide

/-- an SQPOLL ring: the idle kernel thread consumes nothing until the application's wake step, also with
IORING_SQ_CQ_OVERFLOW up (flags word 3) -/
example :
    (krun nopKern .fixed (kinit 2 0 0 0 0)
      [.get (sqeWord 1 0 7), .flush, .consume 1, .complete 0, .get (sqeWord 2 0 8), .flush, .consume 1, .complete 0,
       .idle, .get (sqeWord 3 0 9), .flush, .consume 1, .wake, .consume 1]).2 =
    [.app (.slot 0), .app (.flushed 1), .consumed [⟨0, ⟨0, sqeWord 1 0 7⟩, none⟩], .completed 0 (cqeWord 1 7) true,
     .app (.slot 0), .app (.flushed 1), .consumed [⟨1, ⟨0, sqeWord 2 0 8⟩, none⟩], .completed 1 (cqeWord 2 8) false,
     .idle, .app (.slot 0), .app (.flushed 1), .consumed [], .wake true,
     .consumed [⟨2, ⟨0, sqeWord 3 0 9⟩, none⟩]] := by decide

/-- `Kern` is inhabited by a kernel without links (hypothesis of `one_cqe_per_sqe`) -/
example : ∀ e ∈ (kreached nopKern 0 1 1 0 0 [.get (sqeWord 1 0 7), .get (sqeWord 2 2 8)]).ring.filled,
    nopKern.link e.val = false := by decide

end TinyVerif.C18
