/-
C18 — io_uring ops complete once with the direct syscall's result; teardown is exact.

* Encoding.  `Gen/SqeCtors.lean` is regenerated on every run from the `new_*` constructors in
  rusl/src/platform/compat/io_uring.rs; `Model/UringAbi.lean` holds the kernel ABI (which SQE field
  carries which operand, with which C type) and the intent (which Rust parameter is which operand).
  `sqe_table_ok` checks the regenerated table by `decide`; `sqe_decode_encode` lifts it to ALL
  argument values: the kernel's reading of the 64 bytes a constructor produces is the intended
  operation — opcode, every operand intact, sqe flags and user_data intact, unused fields zero.
* Teardown.  `setup_drop_balanced`: for every kernel answer (sizes, SINGLE_MMAP or not) and every
  failing mmap, what setup_io_uring + Drop release is exactly what they acquired, each once.
* `one_cqe_per_sqe_partial`: the ring half of "one completion per submission"; that the kernel posts
  exactly one completion with the direct syscall's result is kernel behaviour (observed by the
  implementation-vs-oracle run of checks/c18.py, not provable here).
The `orig_*` theorems are witnesses on the model of the code before the C18 repairs.
-/
import TinyVerif.Gen.SqeCtors
import TinyVerif.Proofs.SqeLemmas
import TinyVerif.Model.UringRes
import TinyVerif.Props.C17
namespace TinyVerif.C18
open TinyVerif.Sqe TinyVerif.UringRes TinyVerif.Ring

/-- the regenerated constructor table agrees with ABI + intent (all constructors except
`new_poll_add`, whose `poll_events: u16` union member covers only half of the kernel's
`poll32_events` — see `sqe_poll_add_partial`) -/
theorem sqe_table_ok : ∀ c ∈ ctors, c.name ≠ "new_poll_add" → ctorOk c = true := by decide

/-- the table covers the constructors the property lists -/
theorem sqe_table_complete :
    ["new_readv", "new_readv_fixed", "new_writev", "new_writev_fixed", "new_openat", "new_close", "new_statx",
     "new_unlink_at", "new_rename_at", "new_mkdirat", "new_socket", "new_connect_unix", "new_accept_unix",
     "new_accept_inet", "new_timeout", "new_sendmsg", "new_recvmsg", "new_poll_add"].all
      (fun n => ctors.any (fun c => c.name == n)) = true := by decide

/-- the statement of `sqe_decode_encode` for one constructor and one argument valuation -/
def DecodesAsIntended (c : Ctor) (a : Nat → Int) : Prop :=
  ∃ (s : Sqe) (opc : Int) (op : String) (intent : List (String × Want)) (row : AbiRow) (i j : Nat),
    (encode c a).length = 64 ∧ parse (encode c a) = some s ∧
    c.opcode = .const opc ∧ lookup intents c.name = some (op, intent) ∧
    findRow opc.toNat abi = some row ∧ row.op = op ∧ (s.opcode : Int) = opc ∧
    indexOf c.operands "sqe_flags" = some i ∧ (s.flags : Int) = a i ∧
    indexOf c.operands "user_data" = some j ∧ (s.userData : Int) = a j ∧
    s.ioprio = 0 ∧ s.personality = 0 ∧ s.addr3 = 0 ∧ s.pad = 0 ∧
    fieldMeaning c.operands intent a row.fd s.fd ∧
    fieldMeaning c.operands intent a row.off s.off ∧
    fieldMeaning c.operands intent a row.addr s.addr ∧
    fieldMeaning c.operands intent a row.len s.len ∧
    fieldMeaning c.operands intent a row.opflags s.opflags ∧
    fieldMeaning c.operands intent a row.bufIndex s.bufIndex ∧
    fieldMeaning c.operands intent a row.fileIndex s.fileIndex

theorem fieldsOf_wf (c : Ctor) (a : Nat → Int) (hb : c.opflagsBytes = 4) : (fieldsOf c a).WF := by
  constructor <;> simp only [fieldsOf, hb] <;> first | exact wrap_lt _ _ | decide

theorem wrap_small (b : Nat) (v : Int) (h0 : 0 ≤ v) (h1 : v < (256 ^ b : Nat)) : (wrap b v : Int) = v := by
  unfold wrap
  rw [Int.emod_eq_of_lt h0 h1]
  omega

theorem findRow_some (n : Nat) : ∀ (l : List AbiRow) (r : AbiRow), findRow n l = some r → r ∈ l ∧ r.opcode = n := by
  intro l
  induction l with
  | nil => intro r h; cases h
  | cons x xs ih =>
    intro r h
    simp only [findRow] at h
    split at h
    · rename_i hx
      cases h
      exact ⟨List.mem_cons_self, hx⟩
    · obtain ⟨h1, h2⟩ := ih r h
      exact ⟨List.mem_cons_of_mem _ h1, h2⟩

theorem abi_opcodes_lt : ∀ r ∈ abi, r.opcode < 256 := by decide

/-- soundness of the table check: a constructor that passes `ctorOk` produces, for all valid
arguments, 64 bytes that the kernel reads as the intended operation -/
theorem ctorOk_sound (c : Ctor) (h : ctorOk c = true) (a : Nat → Int) (hv : ValidArgs c.operands a) :
    DecodesAsIntended c a := by
  unfold ctorOk at h
  split at h
  · rename_i opc op intent hop hint
    split at h
    · cases h
    · rename_i row hrow
      split at hrow
      · rename_i hopc0
        simp only [Bool.and_eq_true, beq_iff_eq] at h
        obtain ⟨⟨⟨⟨⟨⟨⟨⟨⟨⟨⟨⟨hopn, _⟩, hfu⟩, hio⟩, hpe⟩, hb⟩, f1⟩, f2⟩, f3⟩, f4⟩, f5⟩, f6⟩, f7⟩ := h
        split at hfu
        · rename_i i j hi hj
          simp only [Bool.and_eq_true, beq_iff_eq] at hfu
          obtain ⟨⟨⟨hfl, hud⟩, hki⟩, hkj⟩ := hfu
          have vi := hv i .u8 hki
          have vj := hv j .u64 hkj
          simp only [Kind.lo, Kind.hi] at vi vj
          have hwf := fieldsOf_wf c a hb
          refine ⟨fieldsOf c a, opc, op, intent, row, i, j, ?_, ?_, hop, hint, hrow, hopn, ?_, hi, ?_, hj, ?_,
            ?_, ?_, rfl, rfl, ?_, ?_, ?_, ?_, ?_, ?_, ?_⟩
          · exact serialize_length _
          · exact parse_serialize _ hwf
          · -- opcode: a row was found for it, so it is one of the table's opcodes (< 256)
            have hlt : opc < 256 := by
              obtain ⟨hm, he⟩ := findRow_some opc.toNat abi row hrow
              have := abi_opcodes_lt row hm
              omega
            simp only [fieldsOf, hop, evalSrc]
            exact wrap_small 1 opc hopc0 (by simpa using hlt)
          · simp only [fieldsOf, hfl, evalSrc]
            exact wrap_small 1 _ vi.1 (by simp; omega)
          · simp only [fieldsOf, hud, evalSrc]
            exact wrap_small 8 _ vj.1 (by simp; omega)
          · simp [fieldsOf, hio, evalSrc, wrap]
          · simp [fieldsOf, hpe, evalSrc, wrap]
          · exact fieldOk_sound _ _ a hv _ _ 4 4 (by simp) f1
          · exact fieldOk_sound _ _ a hv _ _ 8 8 (by simp) f2
          · exact fieldOk_sound _ _ a hv _ _ 8 8 (by simp) f3
          · exact fieldOk_sound _ _ a hv _ _ 4 4 (by simp) f4
          · have := fieldOk_sound _ _ a hv _ _ c.opflagsBytes 4 (by simp) f5
            simpa only [fieldsOf] using this
          · exact fieldOk_sound _ _ a hv _ _ 2 2 (by simp) f6
          · exact fieldOk_sound _ _ a hv _ _ 4 4 (by simp) f7
        · cases hfu
      · cases hrow
  · cases h

/-- **sqe_decode_encode**: for every constructor of the regenerated table (except `new_poll_add`) and
ALL valid arguments, decoding the encoded 64 bytes per the ABI yields the intended operation:
operands, flags and user_data intact, unused fields zero. -/
theorem sqe_decode_encode (c : Ctor) (hc : c ∈ ctors) (hn : c.name ≠ "new_poll_add")
    (a : Nat → Int) (hv : ValidArgs c.operands a) : DecodesAsIntended c a :=
  ctorOk_sound c (sqe_table_ok c hc hn) a hv


/-- `new_poll_add` writes `poll_events` through the 2-byte union member `poll_events: u16` while the
kernel (IORING_FEAT_POLL_32BITS) reads the 4-byte `poll32_events`: every other field is as intended
(checked on the table); bytes 30..31 of the image are not written by the constructor at all, so
"events intact" holds only under the assumption that they are zero (observed so by the image
correspondence of checks/c18.py, not provable from the source). -/
theorem sqe_poll_add_partial :
    ∀ c ∈ ctors, c.name = "new_poll_add" →
      c.opcode = .const 6 ∧ c.opflagsBytes = 2 ∧
      (indexOf c.operands "poll_events").map Src.arg = some c.opflags ∧
      (indexOf c.operands "fd").map Src.arg = some c.fd ∧ (indexOf c.operands "flags").map Src.arg = some c.len ∧
      c.off = .const 0 ∧ c.addr = .const 0 ∧ c.bufIndex = .const 0 ∧ c.fileIndex = .const 0 ∧
      c.ioprio = .const 0 ∧ c.personality = .const 0 := by decide

/-! non-vacuity: a concrete constructor, concrete valid arguments, the concrete image -/
example : ∃ c ∈ ctors, c.name = "new_accept_unix" ∧
    encode c (fun i => [5, 4096, 8192, 3, 77, 0].getD i 0) =
      [13, 0, 0, 0, 5, 0, 0, 0, 0, 32, 0, 0, 0, 0, 0, 0, 0, 16, 0, 0, 0, 0, 0, 0, 0, 0, 0, 0, 3, 0, 0, 0,
       77, 0, 0, 0, 0, 0, 0, 0, 0, 0, 0, 0, 0, 0, 0, 0, 0, 0, 0, 0, 0, 0, 0, 0, 0, 0, 0, 0, 0, 0, 0, 0] := by decide

example : ValidArgs [("fd", .fd), ("user_data", .u64), ("sqe_flags", .u8)] (fun i => [5, 77, 0].getD i 0) := by
  intro i k h
  match i, h with
  | 0, h => simp [kindAt] at h; subst h; decide
  | 1, h => simp [kindAt] at h; subst h; decide
  | 2, h => simp [kindAt] at h; subst h; decide
  | _ + 3, h => simp [kindAt] at h


/-- **setup_drop_balanced**: for every kernel answer (any sizes, SINGLE_MMAP or not), every flag set
and every failing mmap, the mappings/fd released by setup's error path or by Drop are exactly the
ones setup acquired, each exactly once (this covers `setup_failure_leakfree`: `fail = some k`). -/
theorem setup_drop_balanced (flags : Nat) (a : Ans) (fail : Option Nat) :
    balanced (script .fixed flags a fail).2 = true := by
  unfold script
  by_cases h0 : fail = some 0
  · simp [h0, bail, balanced, acquired, released, countEv]
  · by_cases hs : a.single = true
    · by_cases h1 : fail = some 1
      · simp [h1, hs, bail, balanced, acquired, released, countEv]
      · simp [h0, h1, hs, balanced, acquired, released, countEv]
    · by_cases h1 : fail = some 1
      · simp [h1, hs, bail, balanced, acquired, released, countEv]
      · by_cases h2 : fail = some 2
        · simp [h2, hs, bail, balanced, acquired, released, countEv]
        · simp [h0, h1, h2, hs, balanced, acquired, released, countEv]

/-- setup succeeds exactly when no mmap fails -/
theorem setup_ok_iff (cd : UringRes.Code) (flags : Nat) (a : Ans) (fail : Option Nat) :
    (script cd flags a fail).1 = true ↔
      ¬ (fail = some 0 ∨ fail = some 1 ∨ (a.single = false ∧ fail = some 2)) := by
  unfold script
  by_cases h0 : fail = some 0 <;> by_cases hs : a.single = true <;> by_cases h1 : fail = some 1 <;>
    by_cases h2 : fail = some 2 <;> simp_all

/-- before the repair: with SINGLE_MMAP the shared mapping was unmapped twice -/
theorem orig_double_munmap_single_mmap :
    (script .orig 0 ⟨4, 8, 192, 64, true⟩ none).2 =
      [.S, .M 1 208 0, .M 2 256 268435456, .bar, .U 2 256, .U 1 208, .U 1 208, .C] ∧
    balanced (script .orig 0 ⟨4, 8, 192, 64, true⟩ none).2 = false := by decide

/-- before the repair: a failing second mmap leaked the ring fd and the first mapping -/
theorem orig_setup_failure_leaks :
    (script .orig 0 ⟨4, 8, 192, 64, true⟩ (some 1)).2 = [.S, .M 1 208 0, .ME 256 268435456, .bar] ∧
    balanced (script .orig 0 ⟨4, 8, 192, 64, true⟩ (some 1)).2 = false := by decide

/-- non-vacuity: the scripts of the running kernel's answer for 4 entries, as observed -/
example : (script .fixed 0 ⟨4, 8, 192, 64, true⟩ none).2 =
    [.S, .M 1 208 0, .M 2 256 268435456, .bar, .U 2 256, .U 1 208, .C] := by decide
example : (script .fixed 0 ⟨4, 8, 192, 64, false⟩ (some 2)).2 =
    [.S, .M 1 208 0, .M 2 192 134217728, .ME 256 268435456, .U 1 208, .U 2 192, .C, .bar] := by decide


/-- **one_cqe_per_sqe_partial** — full statement: every submitted op produces exactly one completion
carrying its user data and the direct syscall's result.  Proved here: the ring half.  IF the kernel
posts one completion per consumed submission carrying its user data (`hkernel`; kernel behaviour,
observed by the implementation-vs-oracle run, together with "same result and side effects"), THEN
for every ring size, every initial counter value and every interleaving the completions the
application reaps are, by user data, exactly an initial segment of the submissions it filled — none
lost, duplicated or invented by the wrapper. -/
theorem one_cqe_per_sqe_partial {k kc c cc : Nat} (p : Params k kc c cc) (flags : Nat) (ops : List Op)
    (hkernel : (reached flags k kc c cc ops).posted.map Ent.val =
               (reached flags k kc c cc ops).consumed.map Ent.val) :
    (reached flags k kc c cc ops).reaped.map Ent.val <+: (reached flags k kc c cc ops).filled.map Ent.val := by
  obtain ⟨h1, h2⟩ := sq_in_order_once p flags ops
  have h3 := cq_in_order_once p flags ops
  have a := h3.map Ent.val
  rw [hkernel] at a
  exact a.trans ((h1.trans h2).map Ent.val)

end TinyVerif.C18
