/-
C12 — no operation leaks, double-closes or steals a descriptor, on success or on failure.

Model: Model/FdScript.lean (scripts of the operations, the machine `run`, the all-paths checker `chk`).
Here: the property (`LeakFree`), soundness of the checker (every fault position of every call, every
errno, every step outcome, both sides of a fork — by induction, not sampled), the kernel-evaluated
check of every operation of the current code, and the leaking paths of the code before its repair.
-/
import TinyVerif.Proofs.FdScriptLemmas
namespace TinyVerif.FdScript
open Ops

/-- The property, for an operation that owns `owned` on entry: whatever the oracle answers (which call
    fails, with which errno; what every data-dependent step decides; which side of a fork is followed;
    however early the run is cut), the operation never releases a descriptor twice (`dbl`), never
    releases one it does not own (`foreign`), never holds one slot twice, and when it returns the
    descriptors it still holds are exactly those handed to the caller. -/
def LeakFree (owned : List Var) (s : Script) : Prop :=
  ∀ (fuel : Nat) (o : Oracle),
    let f := exec owned s fuel o
    f.cfg.st.dbl = [] ∧ f.cfg.st.foreign = [] ∧ f.cfg.st.opn.Nodup ∧
      ∀ ok h, f.out = .ret ok h → ∀ v, v ∈ f.cfg.st.opn ↔ v ∈ h

/-- soundness of the checker: it walks all paths, so passing it closes the quantifier over oracles -/
theorem chk_sound (owned : List Var) (s : Script) : chk owned s = true → LeakFree owned s := by
  intro h fuel o
  simp only [chk, Bool.and_eq_true, nodupB_iff] at h
  have g := run_good fuel s (Cfg.init owned o) [] ⟨rfl, rfl, h.1⟩ h.2 (by simp [Cfg.init, StackOK])
  exact ⟨g.1.1, g.1.2.1, g.1.2.2, g.2⟩

/-- every operation of the code as it is passes the checker (evaluated by the kernel) -/
theorem all_ops_leakfree : Ops.cur.all (fun e => chk e.2.1 e.2.2) = true := by decide +kernel

/-- ... hence is leak-free for every fault position, errno and step outcome -/
theorem every_op_leakfree : ∀ e ∈ Ops.cur, LeakFree e.2.1 e.2.2 := by
  intro e he
  apply chk_sound
  have := all_ops_leakfree
  rw [List.all_eq_true] at this
  exact this e he

/-- the same, in the vocabulary the harness measures -/
theorem leakfree_verdict_clean (owned : List Var) (s : Script) (h : LeakFree owned s) (fuel : Nat) (o : Oracle) :
    (verdict (exec owned s fuel o)).clean = true := by
  obtain ⟨h1, h2, _, h4⟩ := h fuel o
  simp only [verdict, Verdict.clean]
  split
  · rename_i ok hd heq
    have := h4 ok hd heq
    simp only [h1, h2, List.isEmpty_nil, Bool.and_true, Bool.and_eq_true, List.isEmpty_iff]
    constructor
    · apply List.filter_eq_nil_iff.mpr
      intro v hv
      simp [(this v).mp hv]
    · apply List.filter_eq_nil_iff.mpr
      intro v hv
      simp [(this v).mpr hv]
  · simp [h1, h2]

/-- `Stdio::RawFd(fd)` is wrapped in an `OwnedFd` only when its own stream is converted, so a stream
    BEFORE it whose set-up can fail (Null: open; MakePipe: pipe2) makes spawn return without having
    consumed it, while every other path closes it.  Configurations without that pattern: -/
def rawAfterFallible : List Stdio → Bool → Bool
  | [], _ => false
  | .rawfd :: r, seen => seen || rawAfterFallible r seen
  | .null :: r, _ => rawAfterFallible r true
  | .pipe :: r, _ => rawAfterFallible r true
  | .inherit :: r, seen => rawAfterFallible r seen

def allStdio : List Stdio := [.inherit, .null, .pipe, .rawfd]
def allTriples : List (List Stdio) := allStdio.flatMap fun a => allStdio.flatMap fun b => allStdio.map fun c => [a, b, c]

/- Full statement (false for the current code, see `spawn_rawfd_after_fallible_inconsistent`):
     allTriples.all (fun m => chk (ownedIn m 0) (spawn true m [..] 2)) = true
   Proved: all 4^3 stdio triples except those with a RawFd after a Null/MakePipe stream, each with the full
   chdir/setuid/setgid/setpgid + 2 closures tail on the child side. -/
theorem spawn_leakfree_all_stdio_partial :
    (allTriples.filter (fun m => !rawAfterFallible m false)).all
      (fun m => chk (ownedIn m 0) (spawn true m ["chdir", "setuid", "setgid", "setpgid"] 2)) = true := by
  decide +kernel

/-- the excluded class, exactly: every such triple fails the checker ... -/
theorem spawn_rawfd_after_fallible_rejected :
    (allTriples.filter (fun m => rawAfterFallible m false)).all
      (fun m => !chk (ownedIn m 0) (spawn true m [] 0)) = true := by
  decide +kernel

/-- ... with this path: stdin = Null whose open fails ⇒ spawn returns Err and the caller's RawFd (slot 2) is
    still open, although on the success path the very same call closes it -/
theorem spawn_rawfd_after_fallible_inconsistent :
    (verdict (exec [2] (spawn true [.null, .rawfd, .inherit] [] 0) 100 ⟨[.err 24], [], none⟩)).leaked = [2] ∧
    (exec [2] (spawn true [.null, .rawfd, .inherit] [] 0) 100
      ⟨[.ok 5, .ok 0, .ok 77, .ok 0, .ok 0, .ok 0, .ok 0, .ok 0], [], none⟩).cfg.st.closed.contains 2 = true := by
  decide +kernel

/-! ## whatever the descriptor table holds at entry (0, 1, 2 free; nearly full; anything)

`LeakFree` speaks of slots.  Here the same operations run against a kernel table (`runK`): a creation gets
the lowest free NUMBER, so when 0, 1 or 2 are free at entry the operation's descriptors are the "standard"
numbers.  Nothing in the statement may depend on which numbers those are. -/

/-- The property at the level of the process's descriptor table.  The operation is entered holding the
    slots `own` (with their numbers) while `T` are the other numbers open in the process — ANY duplicate-free
    list.  For every oracle and fuel: the number-level run is the slot-level run (same outcome, trace,
    slots); the table is, at every cut, the numbers bound to the operation's slots followed by `T` itself,
    entry for entry (no foreign number was released, none was bound again); no number is open twice; no
    slot is held twice; and when the operation returns the slots it still holds are exactly the handed
    ones — so the table is `T` plus one fresh number per descriptor handed to the caller. -/
def TableRestored (own : List (Var × Nat)) (s : Script) : Prop :=
  ∀ (T : List Nat), (own.map (·.2) ++ T).Nodup → ∀ (fuel : Nat) (o : Oracle),
    let r := execK T own s fuel o
    r.1 = exec (own.map (·.1)) s fuel o ∧
    r.2.tab = numsOf r.2.bind ++ T ∧ r.2.tab.Nodup ∧ (r.2.bind.map Prod.fst).Nodup ∧
    ∀ ok h, r.1.out = .ret ok h → ∀ v, v ∈ r.2.bind.map Prod.fst ↔ v ∈ h

theorem numsOf_init (own : List (Var × Nat)) : numsOf (own.map (fun p => (p.1, some p.2))) = own.map (·.2) := by
  induction own with
  | nil => rfl
  | cons e r ih => simp [numsOf, ih]

theorem kinv_init (T : List Nat) (own : List (Var × Nat)) (h : (own.map (·.2) ++ T).Nodup) :
    KInv T (St.init (own.map (·.1))) (KTab.init T own) := by
  refine ⟨by simp [KTab.init, St.init, List.map_map, Function.comp_def], ?_, by simpa [KTab.init] using h⟩
  simp only [KTab.init, numsOf_init]

/-- an accepted script restores the table, for EVERY entry table -/
theorem chk_table_restored (own : List (Var × Nat)) (s : Script) :
    chk (own.map (·.1)) s = true → TableRestored own s := by
  intro h T hn fuel o
  obtain ⟨_, _, l3, l4⟩ := chk_sound _ _ h fuel o
  have e : (execK T own s fuel o).1 = exec (own.map (·.1)) s fuel o := runK_fst _ _ _ _
  obtain ⟨i1, i2, i3⟩ := runK_inv T fuel s (Cfg.init (own.map (fun p : Var × Nat => p.1)) o) (KTab.init T own) (kinv_init T own hn)
  have i1' : (execK T own s fuel o).2.bind.map Prod.fst = (exec (own.map (·.1)) s fuel o).cfg.st.opn := by
    rw [← e]; exact i1
  refine ⟨e, i2, i3, by rw [i1']; exact l3, ?_⟩
  intro ok hd ho v
  rw [i1']
  rw [e] at ho
  exact l4 ok hd ho v

/-- every operation of the current code, entered with any numbers for the slots it is given -/
theorem every_op_table_restored : ∀ e ∈ Ops.cur, ∀ (ownN : List Nat), ownN.length = e.2.1.length →
    TableRestored (e.2.1.zip ownN) e.2.2 := by
  intro e he ownN hl
  apply chk_table_restored
  have hz : (e.2.1.zip ownN).map (·.1) = e.2.1 := by
    have : (fun (p : Var × Nat) => p.1) = Prod.fst := rfl
    rw [this, List.map_fst_zip]
    omega
  rw [hz]
  have := all_ops_leakfree
  rw [List.all_eq_true] at this
  exact this e he

/-- the kernel's rule, as modelled: the number handed out is free, and every lower one is taken -/
theorem lowestFree_spec (t : List Nat) : lowestFree t ∉ t ∧ ∀ m, m < lowestFree t → m ∈ t :=
  ⟨lowestFree_not_mem t, lowestFree_least t⟩

/-- non-vacuity / what it looks like: File::open with 0 free gets number 0 and hands it out; fs::read with 0
    and 2 free (table 1,3,4) reads through number 0 and leaves 1,3,4; spawn with three pipes and 0,1,2 free
    creates 0,1,2,5,6,7,8,9 and returns with the caller's three ends (1, 2 and 6: the write end of the stdin
    pipe, the read ends of the other two) added to 3,4; an in-progress tcp stream given as number 4 whose
    connect fails leaves 1,2,3 -/
example : ((execK [1, 2, 3, 4] [] fileOpen 10 ⟨[.ok 0], [true], none⟩).2.tab,
    (execK [1, 2, 3, 4] [] fileOpen 10 ⟨[.ok 0], [true], none⟩).2.nums) = ([0, 1, 2, 3, 4], [0]) := by decide +kernel
example : ((execK [1, 3, 4] [] (fsRead false) 20 ⟨[.ok 0, .ok 32, .ok 0, .ok 0], [true], none⟩).2.tab,
    (execK [1, 3, 4] [] (fsRead false) 20 ⟨[.ok 0, .ok 32, .ok 0, .ok 0], [true], none⟩).2.nums) = ([1, 3, 4], [0]) := by
  decide +kernel
example : ((execK [3, 4] [] (spawn true allPipe [] 0) 100
      ⟨[.ok 0, .ok 0, .ok 0, .ok 0, .ok 77, .ok 0, .ok 0, .ok 0, .ok 0, .ok 0, .ok 0], [], none⟩).2.nums.reverse,
    (execK [3, 4] [] (spawn true allPipe [] 0) 100
      ⟨[.ok 0, .ok 0, .ok 0, .ok 0, .ok 77, .ok 0, .ok 0, .ok 0, .ok 0, .ok 0, .ok 0], [], none⟩).2.tab)
    = ([0, 1, 2, 5, 6, 7, 8, 9], [6, 2, 1, 3, 4]) := by decide +kernel
example : (execK [1, 2, 3] [(0, 4)] inProgressTry 10 ⟨[.err 111, .ok 0], [], none⟩).2.tab = [1, 2, 3] := by decide +kernel
/-- and what a release that does not happen looks like at this level (getpwuid_r before its repair, 0 free):
    the table afterwards is 0,1,2 — by numbers alone an ordinary table; only the comparison with the entry
    table (1,2) shows the leak -/
example : (execK [1, 2] [] (getpwuid false) 10 ⟨[.ok 0, .ok 256], [true, true], none⟩).2.tab = [0, 1, 2] := by decide +kernel

/-! ## the code before the repairs: leaking paths (each replayed on the implementation, see known_findings.d/C12.jsonl) -/

/-- every operation that was repaired failed the checker -/
theorem old_ops_rejected : Ops.old.all (fun e => !chk e.2.1 e.2.2) = true := by decide +kernel

/-- UnixStream::connect, over-long path: the socket stays open -/
theorem old_unix_connect_leaks :
    (verdict (exec [] (unixConnect false) 100 ⟨[.ok 5], [false], none⟩)).leaked = [0] := by decide +kernel
theorem old_unix_try_connect_leaks :
    (verdict (exec [] (unixTryConnect false) 100 ⟨[.ok 5], [false], none⟩)).leaked = [0] := by decide +kernel
theorem old_unix_bind_leaks_longpath :
    (verdict (exec [] (unixBind false) 100 ⟨[.ok 5], [false], none⟩)).leaked = [0] := by decide +kernel
/-- UnixListener::bind: the trailing `listen(..)?` fails -/
theorem old_unix_bind_leaks_listen :
    (verdict (exec [] (unixBind false) 100 ⟨[.ok 5, .ok 0, .ok 0, .err 12], [true], none⟩)).leaked = [0] := by decide +kernel
/-- TcpListener::bind: `listen(..)?` fails -/
theorem old_tcp_bind_leaks_listen :
    (verdict (exec [] (tcpBind false) 100 ⟨[.ok 5, .ok 0, .err 12], [], none⟩)).leaked = [0] := by decide +kernel
/-- spawn, all goes well: the read end of the CLOEXEC pipe stays open in the caller -/
theorem old_spawn_leaks_read_end :
    (verdict (exec [] (spawn false allInherit [] 0) 100 ⟨[.ok 0, .ok 77, .ok 0, .ok 0], [], none⟩)).leaked = [6] := by decide +kernel
/-- spawn, fork fails: both ends of the CLOEXEC pipe stay open -/
theorem old_spawn_fork_fails_leaks_both :
    (verdict (exec [] (spawn false allPipe [] 0) 100 ⟨[.ok 0, .ok 0, .ok 0, .ok 0, .err 11, .ok 0, .ok 0, .ok 0, .ok 0, .ok 0, .ok 0], [], none⟩)).leaked = [7, 6] := by
  decide +kernel
/-- spawn, dup2 fails in the child: the child RETURNS (C13) and still holds the write end -/
theorem old_spawn_child_returns_with_write_end :
    verdict (exec [] (spawn false allPipe [] 0) 100 ⟨[.ok 0, .ok 0, .ok 0, .ok 0, .ok 77], [], some ([.ok 0, .err 9, .ok 0, .ok 0, .ok 0, .ok 0, .ok 0, .ok 0], [])⟩)
      = ⟨true, false, 0, [7], [], [], []⟩ := by decide +kernel
/-- getpwuid_r: /etc/passwd stays open -/
theorem old_getpwuid_leaks :
    (verdict (exec [] (getpwuid false) 100 ⟨[.ok 5, .ok 256], [true, true], none⟩)).leaked = [0] := by decide +kernel
/-- openpty: a failing ioctl leaves the master open; a failing TIOCSWINSZ leaves both -/
theorem old_openpty_leaks_master :
    (verdict (exec [] (openpty false false false false) 100 ⟨[.ok 5, .err 25], [], none⟩)).leaked = [0] := by decide +kernel
theorem old_openpty_leaks_both :
    (verdict (exec [] (openpty false false true true) 100 ⟨[.ok 5, .ok 0, .ok 0, .ok 6, .ok 0, .err 22], [true], none⟩)).leaked = [1, 0] := by
  decide +kernel

/-- so none of them was leak-free -/
theorem old_unix_connect_not_leakfree : ¬ LeakFree [] (unixConnect false) := by
  intro h
  have := leakfree_verdict_clean _ _ h 100 ⟨[.ok 5], [false], none⟩
  revert this
  decide +kernel

theorem old_spawn_not_leakfree : ¬ LeakFree [] (spawn false allInherit [] 0) := by
  intro h
  have := leakfree_verdict_clean _ _ h 100 ⟨[.ok 0, .ok 77, .ok 0, .ok 0], [], none⟩
  revert this
  decide +kernel

/-! ## non-vacuity -/

/-- the checker rejects a double close, a foreign close, a handed-out closed descriptor, a loop that
    accumulates descriptors -/
example : chk [] (.sys "socket" (.opens 0) (closeThen 0 (closeThen 0 err)) err) = false := by decide
example : chk [] (closeThen 3 err) = false := by decide
example : chk [] (.sys "socket" (.opens 0) (closeThen 0 (ok [0])) err) = false := by decide
example : chk [] (.loop (.sys "accept4" (.opens 0) .again err)) = false := by decide
/-- and the machine shows them: a second close of the same slot is a double close, a close of a slot never
    opened is foreign -/
example : (verdict (exec [] (.sys "socket" (.opens 0) (closeThen 0 (closeThen 0 err)) err) 10 ⟨[.ok 3, .ok 0, .ok 0], [], none⟩)).dbl = [0] := by
  decide
example : (verdict (exec [] (closeThen 3 err) 10 ⟨[.ok 0], [], none⟩)).foreign = [3] := by decide
/-- LeakFree is satisfiable by a non-trivial operation: a run through the EAGAIN / ppoll / retry path of
    UnixStream::connect returns the socket; a run whose second connect fails closes it -/
example : verdict (exec [] (unixConnect true) 100 ⟨[.ok 5, .err 11, .err 4, .ok 1, .ok 0], [true], none⟩) = ⟨true, true, 1, [], [], [], []⟩ := by
  decide +kernel
example : verdict (exec [] (unixConnect true) 100 ⟨[.ok 5, .err 11, .ok 1, .err 111, .ok 0], [true], none⟩) = ⟨true, false, 0, [], [], [], []⟩ := by
  decide +kernel
/-- io_uring: a `Drop` that releases nothing (what a build makes of clean-up calls placed inside `debug_assert!` when
    debug assertions are off) is rejected, and the machine shows the ring fd left open; the real one is clean on the
    two-mapping and the three-mapping ring, whatever `munmap` / `close` answer; set-up whose last `mmap` fails closes
    the ring fd -/
example : chk [0] (.ret true []) = false := by decide
example : (verdict (exec [0] (.ret true []) 10 ⟨[], [], none⟩)).leaked = [0] := by decide
example : chk [0] (munmapN 2 (ok [])) = false := by decide
example : verdict (exec [0] ioUringDrop 20 ⟨[.ok 0, .err 22, .err 5], [true], none⟩) = ⟨true, true, 0, [], [], [], []⟩ := by decide +kernel
example : verdict (exec [0] ioUringDrop 20 ⟨[.ok 0, .ok 0, .ok 0, .ok 0], [false], none⟩) = ⟨true, true, 0, [], [], [], []⟩ := by decide +kernel
example : verdict (exec [] ioUringSetup 20 ⟨[.ok 5, .ok 4096, .ok 8192, .err 12, .ok 0, .ok 0, .ok 0], [false], none⟩)
    = ⟨true, false, 0, [], [], [], []⟩ := by decide +kernel
example : verdict (exec [] ioUringSetup 20 ⟨[.ok 5, .ok 4096, .ok 8192], [true], none⟩) = ⟨true, true, 1, [], [], [], []⟩ := by decide +kernel
/-- receiving descriptors: three installed by the kernel and all three handed out is clean (they get the lowest free
    numbers, in order); an API that surfaces none of them (the iterator rejecting a valid SCM_RIGHTS message) is rejected by
    the checker and the machine shows the three left open; a failing recvmsg installs nothing -/
example : verdict (exec [] recvmsgRights 20 ⟨[.ok 5], [true, true, true, false], none⟩) = ⟨true, true, 3, [], [], [], []⟩ := by decide +kernel
example : (execK [1, 2, 4] [] recvmsgRights 20 ⟨[.ok 5], [true, true, true, false], none⟩).2.nums.reverse = [0, 3, 5] := by decide +kernel
example : chk [] (.sys "recvmsg" (.opensL [0, 1, 2]) (ok []) err) = false := by decide
example : (verdict (exec [] (.sys "recvmsg" (.opensL [0, 1, 2]) (ok []) err) 10 ⟨[.ok 5], [], none⟩)).leaked = [2, 1, 0] := by decide
example : verdict (exec [] recvmsgRights 20 ⟨[.err 4], [true, false], none⟩) = ⟨true, false, 0, [], [], [], []⟩ := by decide +kernel
example : chk [] (.sys "recvmsg" (.opensL [0, 0]) (ok [0]) err) = false := by decide
/-- the spawn child of the current code never returns: dup2 failing ends in `exits` -/
example : (exec [] (spawn true allPipe [] 0) 100 ⟨[.ok 0, .ok 0, .ok 0, .ok 0, .ok 77], [], some ([.ok 0, .err 9, .ok 8], [])⟩).out = .exits := by
  decide +kernel

end TinyVerif.FdScript
