/-
C11 — UnixStr search (find, find_buf), common-prefix length (match_up_to, match_up_to_str), suffix
test (ends_with) and path operations (path_join, path_join_fmt, parent_path, path_file_name) return
the answers their byte-string definitions (Model/UnixStrSpec.lean) give, for EVERY operand pair of
any length; none panics, reads outside its arguments (`oob`) or exhausts the model's loop fuel —
each theorem is an equation `op … = .ok (spec …)`, which excludes all three.

Operands are raw byte lists (terminator included); `WFU` is C10's invariant, `content` drops the
terminator.  The model follows the code after the four `fix:` commits; the `…_legacy` theorems
record, on the pre-fix bodies kept in `Model/UnixStr.lean` (`namespace Legacy`), the defects the
fixes removed.
-/
import TinyVerif.Model.UnixStr
import TinyVerif.Model.UnixStrSpec
import TinyVerif.Proofs.UnixStrLemmas
set_option linter.unusedSimpArgs false
set_option linter.unusedVariables false
namespace TinyVerif.UnixStr

/-! ## the definitions mean what their names say -/

/-- `naiveFind` returns an occurrence -/
theorem naiveFind_is_occurrence (n : List Nat) : ∀ (h : List Nat) (i : Nat),
    naiveFind n h = some i → n <+: h.drop i
  | [], i, hi => by
    simp only [naiveFind] at hi
    split at hi
    · rename_i hp; cases hi; simpa using List.isPrefixOf_iff_prefix.1 hp
    · cases hi
  | a :: t, i, hi => by
    simp only [naiveFind] at hi
    split at hi
    · rename_i hp; cases hi; simpa using List.isPrefixOf_iff_prefix.1 hp
    · cases hr : naiveFind n t with
      | none => simp [hr] at hi
      | some j =>
        simp only [hr, Option.map_some, Option.some.injEq] at hi
        subst hi
        simpa using naiveFind_is_occurrence n t j hr

/-- … and the first one: no occurrence at any smaller index; `none` means no occurrence at all -/
theorem naiveFind_is_first (n : List Nat) : ∀ (h : List Nat),
    (∀ i, naiveFind n h = some i → ∀ j, j < i → ¬ n <+: h.drop j) ∧
    (naiveFind n h = none → ∀ j, ¬ n <+: h.drop j)
  | [] => by
    simp only [naiveFind]
    split
    · exact ⟨fun i hi j hj => (by cases hi; omega), fun h => (by cases h)⟩
    · rename_i hp
      refine ⟨fun i hi => (by cases hi), fun _ j hj => hp ?_⟩
      simpa using List.isPrefixOf_iff_prefix.2 hj
  | a :: t => by
    have ih := naiveFind_is_first n t
    simp only [naiveFind]
    split
    · exact ⟨fun i hi j hj => (by cases hi; omega), fun h => (by cases h)⟩
    · rename_i hp
      have h0 : ¬ n <+: (a :: t) := fun h => hp (List.isPrefixOf_iff_prefix.2 h)
      constructor
      · intro i hi j hj
        cases hr : naiveFind n t with
        | none => simp [hr] at hi
        | some k =>
          simp only [hr, Option.map_some, Option.some.injEq] at hi
          subst hi
          cases j with
          | zero => simpa using h0
          | succ j' => simpa using ih.1 k hr j' (by omega)
      · intro hnone j
        cases hr : naiveFind n t with
        | some k => simp [hr] at hnone
        | none =>
          cases j with
          | zero => simpa using h0
          | succ j' => simpa using ih.2 hr j'

theorem lcp_prefix_left : ∀ (a b : List Nat), lcp a b <+: a
  | [], b => by simp [lcp]
  | x :: a, [] => by simp [lcp]
  | x :: a, y :: b => by
    by_cases h : x = y
    · simp only [lcp, h, if_true]; subst h; exact List.cons_prefix_cons.2 ⟨rfl, lcp_prefix_left a b⟩
    · simp [lcp, h]

theorem lcp_prefix_right : ∀ (a b : List Nat), lcp a b <+: b
  | [], b => by simp [lcp]
  | x :: a, [] => by simp [lcp]
  | x :: a, y :: b => by
    by_cases h : x = y
    · simp only [lcp, h, if_true]; exact List.cons_prefix_cons.2 ⟨rfl, lcp_prefix_right a b⟩
    · simp [lcp, h]

/-- maximal: right after the common prefix the operands differ (or one ends) -/
theorem lcp_maximal : ∀ (a b : List Nat) (x y : Nat),
    a[(lcp a b).length]? = some x → b[(lcp a b).length]? = some y → x ≠ y
  | [], b, x, y => by simp [lcp]
  | p :: a, [], x, y => by simp [lcp]
  | p :: a, q :: b, x, y => by
    by_cases h : p = q
    · simp only [lcp, h, if_true, List.length_cons, List.getElem?_cons_succ]
      exact lcp_maximal a b x y
    · simp only [lcp, h, if_false, List.length_nil, List.getElem?_cons_zero, Option.some.injEq]
      intro h1 h2; subst h1; subst h2; exact h

/-! ## search -/

/-- **find** = index of the first occurrence of the needle's content in the haystack's content, or none -/
theorem find_eq_naive (s o : List Nat) (hs : WFU s) (ho : WFU o) :
    find s o = .ok (naiveFind (content o) (content s)) := by
  obtain ⟨cs, rfl, h1⟩ := (wfu_iff s).1 hs
  obtain ⟨co, rfl, h2⟩ := (wfu_iff o).1 ho
  simpa using find_eq cs co h1 h2

/-- **find_buf**, for every haystack and every needle (the empty needle is found at 0): first
occurrence in the raw bytes of `self` -/
theorem find_buf_eq_naive (s n : List Nat) : findBuf s n = .ok (naiveFind n s) := findBuf_eq s n

/-- … which for a NUL-free needle is the first occurrence in the content -/
theorem find_buf_content (s n : List Nat) (hs : WFU s) (hn : 0 ∉ n) :
    findBuf s n = .ok (naiveFind n (content s)) := by
  obtain ⟨cs, rfl, _⟩ := (wfu_iff s).1 hs
  rw [findBuf_eq, naiveFind_content n hn cs]; simp

/-- **ends_with** holds exactly for suffixes -/
theorem ends_with_iff_suffix (s o : List Nat) (hs : WFU s) (ho : WFU o) :
    ∃ b, endsWith s o = .ok b ∧ (b = true ↔ content o <:+ content s) := by
  obtain ⟨cs, rfl, _⟩ := (wfu_iff s).1 hs
  obtain ⟨co, rfl, _⟩ := (wfu_iff o).1 ho
  refine ⟨_, endsWith_eq _ _ (by simp), ?_⟩
  rw [isSuffix_terminated, isSuffix_iff]; simp

/-- **match_up_to** = length of the longest common prefix of the contents; both raw-pointer reads stay
inside their operands -/
theorem match_up_to_is_lcp (s o : List Nat) (hs : WFU s) (ho : WFU o) :
    matchUpTo s o = .ok (lcp (content s) (content o)).length := by
  obtain ⟨cs, rfl, h1⟩ := (wfu_iff s).1 hs
  obtain ⟨co, rfl, _⟩ := (wfu_iff o).1 ho
  simpa using matchUpTo_eq cs co h1

/-- **match_up_to_str** (after the fix) for every key, the empty one included: reads stay in bounds -/
theorem match_up_to_str_is_lcp (s k : List Nat) (hs : WFU s) :
    matchUpToStr s k = .ok (lcp (content s) k).length := by
  obtain ⟨cs, rfl, h1⟩ := (wfu_iff s).1 hs
  simpa using matchUpToStr_eq cs k h1

/-! ## path operations -/

/-- **path_join**: exactly one separator at the boundary; an empty side gives the other side -/
theorem path_join_eq_spec (s e : List Nat) (hs : WFU s) (he : WFU e) :
    pathJoin s e = .ok (joinSpec (content s) (content e) ++ [0]) := by
  obtain ⟨cs, rfl, _⟩ := (wfu_iff s).1 hs
  obtain ⟨ce, rfl, _⟩ := (wfu_iff e).1 he
  simpa using pathJoin_eq cs ce

/-- **path_join_fmt** with NUL-free formatted bytes `p` -/
theorem path_join_fmt_eq_spec (s p : List Nat) (hs : WFU s) (hp : 0 ∉ p) :
    pathJoinFmt s p = .ok (joinSpec (content s) p ++ [0]) := by
  obtain ⟨cs, rfl, h1⟩ := (wfu_iff s).1 hs
  simpa using pathJoinFmt_eq cs p h1 hp

/-! ## `fmt::Arguments` shapes (literal format strings / run-time arguments) -/

/-- the rendering of every shape is NUL-free when its pieces are -/
theorem render_nulfree (sh : FmtShape) (l x y : List Nat) (hl : 0 ∉ l) (hx : 0 ∉ x) (hy : 0 ∉ y) :
    0 ∉ render sh l x y := by
  cases sh <;> simp [render, hl, hx, hy]

/-- **path_join_fmt, every `Arguments` shape**: whether the extension is a literal format string, a
literal around one or two run-time arguments or arguments only, the result is the byte-string join
of the base with the RENDERED bytes -/
theorem path_join_fmt_args_eq_spec (s : List Nat) (sh : FmtShape) (l x y : List Nat) (hs : WFU s)
    (hl : 0 ∉ l) (hx : 0 ∉ x) (hy : 0 ∉ y) :
    pathJoinFmtArgs s sh l x y = .ok (joinSpec (content s) (render sh l x y) ++ [0]) :=
  path_join_fmt_eq_spec s _ hs (render_nulfree sh l x y hl hx hy)

/-- **shape independence**: two `Arguments` that render to the same bytes give the same path, for
every base (well-formed or not, NULs or not) — in particular the literal `format_args!("there")` and
the run-time `format_args!("{}", "there")` cannot differ -/
theorem path_join_fmt_shape_independent (s : List Nat) (sh sh' : FmtShape) (l x y l' x' y' : List Nat)
    (h : render sh l x y = render sh' l' x' y') :
    pathJoinFmtArgs s sh l x y = pathJoinFmtArgs s sh' l' x' y' := by
  simp only [pathJoinFmtArgs, h]

/-- a literal-only extension is the `{}`-argument extension with the same text -/
theorem path_join_fmt_literal_eq_argument (s p : List Nat) :
    pathJoinFmtArgs s .lit p [] [] = pathJoinFmtArgs s .arg [] p [] ∧
    pathJoinFmtArgs s .lit p [] [] = pathJoinFmt s p :=
  ⟨rfl, rfl⟩

/-- **empty base**: joining the empty path with any non-empty NUL-free extension — of ANY shape — is
the extension itself, no separator appears (a relative path stays relative) -/
theorem path_join_fmt_args_empty_base (sh : FmtShape) (l x y : List Nat)
    (hl : 0 ∉ l) (hx : 0 ∉ x) (hy : 0 ∉ y) :
    pathJoinFmtArgs [0] sh l x y = .ok (render sh l x y ++ [0]) := by
  have h := path_join_fmt_args_eq_spec [0] sh l x y (wfu_snoc (c := []) (by simp)) hl hx hy
  rw [h]
  have hc : content [0] = [] := by simp [content]
  by_cases hr : render sh l x y = [] <;> simp [joinSpec, hc, hr]

/-- **parent_path** splits at the last separator (documented `None` cases in `parentSpec`) -/
theorem parent_eq_spec (s : List Nat) (hs : WFU s) :
    parentPath s = .ok ((parentSpec (content s)).map (· ++ [0])) := by
  obtain ⟨cs, rfl, _⟩ := (wfu_iff s).1 hs
  simpa using parentPath_eq cs

/-- **path_file_name** = the bytes after the last separator, `None` if there is none / nothing follows -/
theorem file_name_eq_spec (s : List Nat) (hs : WFU s) :
    pathFileName s = .ok ((fileNameSpec (content s)).map (· ++ [0])) := by
  obtain ⟨cs, rfl, _⟩ := (wfu_iff s).1 hs
  simpa using pathFileName_eq cs

/-- **no bound on the last component**: behind any prefix, a separator followed by a non-empty
separator-free component of ANY length (NAME_MAX = 255 and beyond included) — `path_file_name` is that
component -/
theorem file_name_any_component_length (pre comp : List Nat) (hcs : 47 ∉ comp) (hne : comp ≠ []) :
    pathFileName (pre ++ 47 :: comp ++ [0]) = .ok (some (comp ++ [0])) := by
  have h := pathFileName_eq (pre ++ 47 :: comp)
  simp only [fileNameSpec, afterLastSlash_append comp hcs pre, hne, if_false, Option.map_some] at h
  simpa using h

/-- … and `parent_path` is the prefix, however long the component behind the last separator is -/
theorem parent_any_component_length (pre comp : List Nat) (hcs : 47 ∉ comp) (hne : comp ≠ [])
    (hp : pre ≠ []) (hl : pre.getLast? ≠ some 47) :
    parentPath (pre ++ 47 :: comp ++ [0]) = .ok (some (pre ++ [0])) := by
  have h := parentPath_eq (pre ++ 47 :: comp)
  have hlen : ¬ ((pre ++ 47 :: comp).length < 2) := by
    have : 0 < comp.length := List.length_pos_iff.2 hne
    simp; omega
  simp only [parentSpec, hlen, beforeLastSlash_append comp hcs pre, hl, hp, if_false, Option.map_some] at h
  simpa using h

/-- no separator at all: both are `None`, for every length -/
theorem no_separator_none (c : List Nat) (hcs : 47 ∉ c) :
    pathFileName (c ++ [0]) = .ok none ∧ parentPath (c ++ [0]) = .ok none := by
  refine ⟨?_, ?_⟩
  · have h := pathFileName_eq c
    simpa [fileNameSpec, afterLastSlash_no_slash c hcs] using h
  · have h := parentPath_eq c
    simp only [parentSpec, beforeLastSlash_no_slash c hcs] at h
    by_cases hl : c.length < 2 <;> simpa [hl] using h

/-- what the split functions return really is a split at the LAST separator -/
theorem split_at_last_slash (c p r : List Nat) :
    (beforeLastSlash c = some p → ∃ t, c = p ++ 47 :: t ∧ 47 ∉ t) ∧
    (afterLastSlash c = some r → ∃ q, c = q ++ 47 :: r) :=
  ⟨beforeLastSlash_some c p, afterLastSlash_some c r⟩

/-- no search or path operation panics, reads out of bounds or runs out of fuel -/
theorem no_panic_reads_in_bounds (s o k : List Nat) (hs : WFU s) (ho : WFU o) :
    (∃ v, find s o = .ok v) ∧ (∃ v, findBuf s k = .ok v) ∧ (∃ v, endsWith s o = .ok v) ∧
    (∃ v, matchUpTo s o = .ok v) ∧ (∃ v, matchUpToStr s k = .ok v) ∧ (∃ v, pathJoin s o = .ok v) ∧
    (0 ∉ k → ∃ v, pathJoinFmt s k = .ok v) ∧ (∃ v, parentPath s = .ok v) ∧ (∃ v, pathFileName s = .ok v) := by
  obtain ⟨b, hb, _⟩ := ends_with_iff_suffix s o hs ho
  exact ⟨⟨_, find_eq_naive s o hs ho⟩, ⟨_, find_buf_eq_naive s k⟩, ⟨b, hb⟩, ⟨_, match_up_to_is_lcp s o hs ho⟩,
    ⟨_, match_up_to_str_is_lcp s k hs⟩, ⟨_, path_join_eq_spec s o hs ho⟩,
    fun hk => ⟨_, path_join_fmt_eq_spec s k hs hk⟩, ⟨_, parent_eq_spec s hs⟩, ⟨_, file_name_eq_spec s hs⟩⟩

/-! ## the code before the fixes (Model `Legacy`): witnesses of the four defects -/

/-- before 83f816f `find` cut the needle at `len - 2`: `find("a-stX")` in `"my-st"`… here: needle `"ab"`
found in `"ac"` at 0 because only `"a"` was searched for -/
theorem find_ignores_last_byte_legacy :
    Legacy.find [97, 99, 0] [97, 98, 0] = .ok (some 0) ∧ naiveFind [97, 98] [97, 99] = none := by decide

/-- … and panicked for needles of one or zero characters -/
theorem find_panics_short_legacy :
    Legacy.find [97, 98, 0] [98, 0] = .panic ∧ Legacy.find [97, 98, 0] [0] = .panic := by decide

/-- before 0eddace `find_buf(b"")` indexed `other_buf[0]` -/
theorem find_buf_empty_panics_legacy : Legacy.findBuf [97, 0] [] = .panic := by decide

/-- before 76f9c9e `match_up_to_str("")` read one byte past the empty key -/
theorem match_up_to_str_empty_oob_legacy : Legacy.matchUpToStr [97, 0] [] = .oob := by decide

/-! ## non-vacuity -/

example : find [109, 121, 45, 115, 116, 0] [45, 115, 116, 0] = .ok (some 2) := by decide
example : find [97, 98, 0] [98, 0] = .ok (some 1) := by decide
example : find [97, 98, 0] [0] = .ok (some 0) := by decide
example : find [97, 98, 0] [97, 98, 99, 0] = .ok none := by decide
example : findBuf [97, 0] [] = .ok (some 0) := by decide
example : findBuf [97, 98, 0] [98, 0] = .ok (some 1) := by decide
example : endsWith [97, 98, 0] [98, 0] = .ok true := by decide
example : endsWith [97, 98, 0] [97, 0] = .ok false := by decide
example : matchUpTo [97, 98, 0] [97, 99, 0] = .ok 1 := by decide
example : matchUpToStr [97, 98, 0] [] = .ok 0 := by decide
example : matchUpToStr [97, 98, 0] [97, 98, 99] = .ok 2 := by decide
example : joinSpec [97, 47] [47, 98] = [97, 47, 98] := by decide
example : joinSpec [97, 47, 47] [47, 98] = [97, 47, 47, 98] := by decide
example : parentSpec [47, 97] = some [47] := by decide
example : parentSpec [97, 47, 47, 98] = none := by decide
example : fileNameSpec [97, 47] = none := by decide
/-- `UnixStr::EMPTY.path_join_fmt(format_args!("there"))` is `there`, in every shape that renders `there` -/
example : pathJoinFmtArgs [0] .lit [116, 104, 101, 114, 101] [] [] = .ok [116, 104, 101, 114, 101, 0] := by decide
example : pathJoinFmtArgs [0] .arg [] [116, 104, 101, 114, 101] [] = .ok [116, 104, 101, 114, 101, 0] := by decide
example : pathJoinFmtArgs [0] .argLitArg [104, 101] [116] [114, 101] = .ok [116, 104, 101, 114, 101, 0] := by decide
example : pathJoinFmtArgs [97, 47, 0] .litArg [47] [98] [] = .ok [97, 47, 98, 0] := by decide
example : render .litArgLit [47] [97] [] = [47, 97, 47] := by decide
/-- beyond the short range: `/tmp/<255-byte name>` and a 4096-byte component -/
example : pathFileName ([47, 116, 109, 112] ++ 47 :: List.replicate 255 120 ++ [0]) = .ok (some (List.replicate 255 120 ++ [0])) :=
  file_name_any_component_length _ _ (not_mem_replicate _ (by decide)) (replicate_ne_nil _ (by decide))
example : pathFileName ([] ++ 47 :: List.replicate 4096 120 ++ [0]) = .ok (some (List.replicate 4096 120 ++ [0])) :=
  file_name_any_component_length _ _ (not_mem_replicate _ (by decide)) (replicate_ne_nil _ (by decide))
example : parentPath ([47, 116, 109, 112] ++ 47 :: List.replicate 255 120 ++ [0]) = .ok (some [47, 116, 109, 112, 0]) :=
  parent_any_component_length _ _ (not_mem_replicate _ (by decide)) (replicate_ne_nil _ (by decide)) (by simp) (by simp)
/-- the parent of a path with a trailing separator is the path without it (split at the LAST separator);
the never-executed doc example in unix_str.rs claims `/home/gramar` for `/home/gramar/code/` -/
example : parentSpec [47, 97, 47, 98, 47] = some [47, 97, 47, 98] := by decide

end TinyVerif.UnixStr
