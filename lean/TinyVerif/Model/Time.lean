/-
Model of tiny-std/src/time.rs arithmetic (C19).  Import-free.

i64/u64/u32 values are `Int`s carrying their range as an explicit check at every
operation, exactly where Rust checks (checked_*) or may panic (plain `+`/`-` in a
debug build) or wraps (`as` casts; plain ops in a release build).
-/
namespace TinyVerif.Time

abbrev I64_MIN : Int := -9223372036854775808
abbrev I64_MAX : Int := 9223372036854775807
abbrev U64_MAX : Int := 18446744073709551615
abbrev U32_MAX : Int := 4294967295
abbrev TWO64 : Int := 18446744073709551616
abbrev TWO32 : Int := 4294967296
abbrev NANOS : Int := 1000000000

/-- three-way outcome: a value, `None` (the `?` operator fired), or a panic -/
inductive R (α : Type) where
  | val (a : α)
  | none
  | panic
  deriving Repr, DecidableEq

@[inline] def R.bind {α β : Type} (x : R α) (f : α → R β) : R β :=
  match x with
  | .val a => f a
  | .none => .none
  | .panic => .panic

instance : Monad R where
  pure := R.val
  bind := R.bind

abbrev inI64 (x : Int) : Prop := I64_MIN ≤ x ∧ x ≤ I64_MAX
abbrev inU64 (x : Int) : Prop := 0 ≤ x ∧ x ≤ U64_MAX
abbrev inU32 (x : Int) : Prop := 0 ≤ x ∧ x ≤ U32_MAX

/-- `i64::checked_add/sub` result: `None` when out of range -/
def ckI64 (x : Int) : R Int := if inI64 x then .val x else .none
/-- `u64::checked_add` -/
def ckU64 (x : Int) : R Int := if inU64 x then .val x else .none
/-- `u64 -> i64` `try_into().ok()?` -/
def tryI64 (x : Int) : R Int := if inI64 x then .val x else .none
/-- `i64 -> u64` `u64::try_from(..).ok()?` -/
def tryU64 (x : Int) : R Int := if inU64 x then .val x else .none
/-- `i64 -> u32` `u32::try_from(..).ok()?` -/
def tryU32 (x : Int) : R Int := if inU32 x then .val x else .none

/-- wrap into i64 range (two's complement) -/
def wrapI64 (x : Int) : Int :=
  let m := x % TWO64
  if m ≤ I64_MAX then m else m - TWO64

/-- plain `+`/`-` on i64: debug build panics on overflow, release wraps -/
def plainI64 (release : Bool) (x : Int) : R Int :=
  if inI64 x then .val x else if release then .val (wrapI64 x) else .panic

/-- `x as u64` for an i64 `x` -/
def asU64 (x : Int) : Int := x % TWO64
/-- `x as u32` for an i64 `x` -/
def asU32 (x : Int) : Int := x % TWO32

structure TS where
  sec : Int
  nsec : Int
  deriving Repr, DecidableEq

structure Dur where
  secs : Int
  nanos : Int
  deriving Repr, DecidableEq

/-- `core::time::Duration::new(secs, nanos)`: carries whole seconds out of `nanos`,
panicking ("overflow in Duration::new") if the carry overflows. -/
def durNew (secs nanos : Int) : R Dur :=
  if nanos < NANOS then .val ⟨secs, nanos⟩
  else
    let s := secs + nanos / NANOS
    if inU64 s then .val ⟨s, nanos % NANOS⟩ else .panic

/-- time.rs `checked_add_dur` -/
def checkedAddDur (release : Bool) (t : TS) (d : Dur) : R TS := do
  let total ← ckI64 (t.nsec + d.nanos)
  if total ≥ NANOS then
    let total' ← plainI64 release (total - NANOS)
    let seconds ← ckU64 (d.secs + 1)
    let s64 ← tryI64 seconds
    let sec ← ckI64 (t.sec + s64)
    pure ⟨sec, total'⟩
  else
    let s64 ← tryI64 d.secs
    let sec ← ckI64 (t.sec + s64)
    pure ⟨sec, total⟩

/-- time.rs `checked_sub_dur` -/
def checkedSubDur (release : Bool) (t : TS) (d : Dur) : R TS := do
  let total ← ckI64 (t.nsec - d.nanos)
  if total < 0 then
    let total' ← plainI64 release (total + NANOS)
    let seconds ← ckU64 (d.secs + 1)
    let s64 ← tryI64 seconds
    let sec ← ckI64 (t.sec - s64)
    if sec ≥ 0 then pure ⟨sec, total'⟩ else .none
  else
    let s64 ← tryI64 d.secs
    let sec ← ckI64 (t.sec - s64)
    if sec ≥ 0 then pure ⟨sec, total⟩ else .none

/-- time.rs `sub_ts_checked_dur` -/
def subTsCheckedDur (release : Bool) (l r : TS) : R Dur := do
  let total ← ckI64 (l.nsec - r.nsec)
  if total < 0 then
    let total' ← plainI64 release (total + NANOS)
    let a ← ckI64 (l.sec - r.sec)
    let b ← ckI64 (a - 1)
    let secs ← tryU64 b
    let nanos ← tryU32 total'
    durNew secs nanos
  else
    let a ← ckI64 (l.sec - r.sec)
    let b ← ckI64 (a - 0)
    let secs ← tryU64 b
    let nanos ← tryU32 total
    durNew secs nanos

/-- time.rs `sub_ts_dur` (unchecked: plain `-`, `as` casts) -/
def subTsDur (release : Bool) (l r : TS) : R Dur := do
  let total ← plainI64 release (l.nsec - r.nsec)
  if total < 0 then
    let total' ← plainI64 release (total + NANOS)
    let a ← plainI64 release (l.sec - r.sec)
    let b ← plainI64 release (a - 1)
    durNew (asU64 b) (asU32 total')
  else
    let a ← plainI64 release (l.sec - r.sec)
    let b ← plainI64 release (a - 0)
    durNew (asU64 b) (asU32 total)

/-- rusl `impl TryFrom<Duration> for TimeSpec` (what `thread::sleep` feeds to nanosleep); the error value is
erased: `.none` = `Err(..)` -/
def durToTS (d : Dur) : R TS := do
  let s ← tryI64 d.secs
  pure ⟨s, d.nanos⟩

/-- derived `Ord` on `TimeSpec` (fields `tv_sec`, `tv_nsec` in that order) -/
def cmpTS (a b : TS) : Ordering :=
  if a.sec < b.sec then .lt else if a.sec > b.sec then .gt
  else if a.nsec < b.nsec then .lt else if a.nsec > b.nsec then .gt else .eq

/-! ### `thread::sleep` retry loop over a scripted `nanosleep` -/

inductive SleepResp where
  /-- the kernel slept the whole requested interval (possibly longer by `extra`) -/
  | done (extra : Nat)
  /-- interrupted after `slept` ns (< requested); kernel writes remaining = requested - slept + `slack` -/
  | eintr (slept : Nat) (slack : Nat)
  /-- another error -/
  | err (code : Nat)

/-- returns (result ok?, total nanoseconds actually slept, number of calls).  `req` is the
current content of the in/out timespec in nanoseconds. -/
def sleepLoop : (script : List SleepResp) → (req : Nat) → (slept : Nat) → (calls : Nat) → Option Bool × Nat × Nat
  | [], _, slept, calls => (none, slept, calls)           -- script exhausted: still looping
  | .done extra :: _, req, slept, calls => (some true, slept + req + extra, calls + 1)
  | .eintr s slack :: rest, req, slept, calls =>
      let s' := min s req
      sleepLoop rest (req - s' + slack) (slept + s') (calls + 1)
  | .err _ :: _, _, slept, calls => (some false, slept, calls + 1)

end TinyVerif.Time
