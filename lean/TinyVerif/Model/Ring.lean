/-
Model of the io_uring ring hand-over in rusl (C17).  Import-free.

Mirrors, statement by statement, `IoUring::{get_next_sqe_slot, flush_submission_queue,
get_next_cqe}` of /repo/rusl/src/platform/compat/io_uring.rs, plus a kernel side
(`consume`, `post`) that follows the io_uring ABI (free-running u32 counters, masked index,
the kernel never overwrites an unreaped completion), plus ghost lists of what each side wrote
and read.

u32 values are `Nat`s below `W = 2^32`.  Rust arithmetic is modelled as written:
`Code.fixed` is the code as it is now (`wrapping_add`/`wrapping_sub`, emptiness test `tail == head`);
`Code.orig release` is the code before the C17 repairs (plain `+`/`-`: overflow panics in a debug
build and wraps in a release build; emptiness test `tail <= head`), kept for the witnesses in
Props/C17.lean that show the repairs were necessary.
-/
namespace TinyVerif.Ring

abbrev W : Nat := 4294967296

/-- which version of the three methods is modelled -/
inductive Code where
  | orig (release : Bool)
  | fixed
  deriving DecidableEq, Repr

/-- `a + b` on u32 as the code writes it; `none` = overflow panic -/
def addU32 (cd : Code) (a b : Nat) : Option Nat :=
  match cd with
  | .fixed => some ((a + b) % W)
  | .orig release =>
    if a + b < W then some (a + b) else if release then some ((a + b) % W) else none

/-- `a - b` on u32 as the code writes it; `none` = overflow panic.  (`W + a - b`, not `a + W - b`:
`Nat.add` recurses on its second argument, a literal there makes elaborator unfolding explode.) -/
def subU32 (cd : Code) (a b : Nat) : Option Nat :=
  match cd with
  | .fixed => some ((W + a - b) % W)
  | .orig release =>
    if b ≤ a then some (a - b) else if release then some ((W + a - b) % W) else none

/-- the completion-queue emptiness test of `get_next_cqe` -/
def cqEmptyTest (cd : Code) (tail head : Nat) : Bool :=
  match cd with
  | .fixed => tail == head
  | .orig _ => decide (tail ≤ head)

/-- a ring entry as seen by the ghost state: which slot (index into the entry array, in units of
one `IoUringSubmissionQueueEntry` / `IoUringCompletionQueueEntry`) and which stamp (`user_data`) -/
structure Ent where
  slot : Nat
  val : Nat
  deriving DecidableEq, Repr

structure St where
  /-- `IoUringParamFlags` bits: SQE128 = 1<<10 and CQE32 = 1<<11 select the index shift -/
  flags : Nat
  sqEntries : Nat
  sqMask : Nat
  cqEntries : Nat
  cqMask : Nat
  /-- `submission_queue.head`: the tail value last published to the kernel -/
  head : Nat
  /-- `submission_queue.tail`: local tail -/
  tail : Nat
  /-- shared words -/
  sqKHead : Nat
  sqKTail : Nat
  cqKHead : Nat
  cqKTail : Nat
  /-- entry arrays: index ↦ stamp -/
  sqMem : Nat → Nat
  cqMem : Nat → Nat
  /-- ghost: entries the application filled, in order -/
  filled : List Ent
  /-- ghost: `filled` as of the last publication of the tail -/
  flushed : List Ent
  /-- ghost: what the kernel read from the submission slots, in order -/
  consumed : List Ent
  /-- ghost: what the kernel wrote to the completion slots, in order -/
  posted : List Ent
  /-- ghost: what the application read from the slot `get_next_cqe` returned, in order -/
  reaped : List Ent

def sqShift (s : St) : Nat := s.flags / 1024 % 2
def cqShift (s : St) : Nat := s.flags / 2048 % 2

/-- `((x & mask) << shift)` computed in u32 -/
def index (x mask shift : Nat) : Nat := ((x &&& mask) <<< shift) % W

def upd (m : Nat → Nat) (i v : Nat) : Nat → Nat := fun j => if j = i then v else m j

/-- result of one call: new state and a value, or a panic (state as left at the panic) -/
inductive Res (α : Type) where
  | ok (s : St) (a : α)
  | panic (s : St)

/-- `IoUring::get_next_sqe_slot` -/
def getNextSqeSlot (cd : Code) (s : St) : Res (Option Nat) :=
  match addU32 cd s.tail 1 with                        -- let next = tail + 1
  | none => .panic s
  | some next =>
    let head := s.sqKHead                              -- acquire_khead / get_khead_relaxed
    match subU32 cd next head with                     -- next - head
    | none => .panic s
    | some d =>
      if d ≤ s.sqEntries then
        let idx := index s.tail s.sqMask (sqShift s)   -- (tail & ring_mask) << shift
        .ok { s with tail := next } (some idx)
      else .ok s none

/-- `IoUring::flush_submission_queue` -/
def flushSubmissionQueue (cd : Code) (s : St) : Res Nat :=
  let tail := s.tail
  let s1 := if s.head ≠ tail then { s with head := tail, sqKTail := tail, flushed := s.filled } else s
  match subU32 cd tail s1.sqKHead with                 -- tail - khead
  | none => .panic s1
  | some n => .ok s1 n

/-- `IoUring::get_next_cqe`: returns the index of the entry whose reference is handed out -/
def getNextCqe (cd : Code) (s : St) : Res (Option Nat) :=
  let tail := s.cqKTail
  let head := s.cqKHead
  if cqEmptyTest cd tail head then .ok s none
  else
    let ind := index head s.cqMask (cqShift s)
    .ok { s with cqKHead := (head + 1) % W } (some ind)   -- fetch_add(1) wraps

/-- kernel: take one published submission (io_uring: `head != tail`, entry `head & mask`) -/
def kConsume1 (s : St) : St × Option Ent :=
  if s.sqKHead = s.sqKTail then (s, none)
  else
    let idx := index s.sqKHead s.sqMask (sqShift s)
    let e : Ent := ⟨idx, s.sqMem idx⟩
    ({ s with sqKHead := (s.sqKHead + 1) % W, consumed := s.consumed ++ [e] }, some e)

def kConsume : Nat → St → St × List Ent
  | 0, s => (s, [])
  | n + 1, s =>
    match kConsume1 s with
    | (s1, none) => (s1, [])
    | (s1, some e) =>
      let r := kConsume n s1
      (r.1, e :: r.2)

/-- kernel: post one completion unless the completion ring is full (io_uring keeps overflowing
completions on an internal list and never overwrites an unreaped entry) -/
def kPost1 (s : St) (v : Nat) : St × Bool :=
  if (W + s.cqKTail - s.cqKHead) % W < s.cqEntries then
    let idx := index s.cqKTail s.cqMask (cqShift s)
    ({ s with cqMem := upd s.cqMem idx v, cqKTail := (s.cqKTail + 1) % W,
              posted := s.posted ++ [⟨idx, v⟩] }, true)
  else (s, false)

def kPost : List Nat → St → St × Nat
  | [], s => (s, 0)
  | v :: vs, s =>
    match kPost1 s v with
    | (s1, false) => (s1, 0)
    | (s1, true) =>
      let r := kPost vs s1
      (r.1, r.2 + 1)

inductive Op where
  /-- application: `get_next_sqe_slot`, and on `Some` fill the entry with this stamp -/
  | get (v : Nat)
  /-- application: `flush_submission_queue` -/
  | flush
  /-- application: `get_next_cqe` and read the returned entry -/
  | reap
  /-- kernel: consume up to `k` published submissions -/
  | consume (k : Nat)
  /-- kernel: post completions with these stamps while there is room -/
  | post (vs : List Nat)
  deriving DecidableEq, Repr

inductive Out where
  | slot (i : Nat)
  | noSlot
  | flushed (n : Nat)
  | cqe (v : Nat)
  | noCqe
  | consumed (es : List Ent)
  | posted (n : Nat)
  | panic
  deriving DecidableEq, Repr

def step (cd : Code) (s : St) : Op → St × Out
  | .get v =>
    match getNextSqeSlot cd s with
    | .panic s1 => (s1, .panic)
    | .ok s1 none => (s1, .noSlot)
    | .ok s1 (some i) =>
      ({ s1 with sqMem := upd s1.sqMem i v, filled := s1.filled ++ [⟨i, v⟩] }, .slot i)
  | .flush =>
    match flushSubmissionQueue cd s with
    | .panic s1 => (s1, .panic)
    | .ok s1 n => (s1, .flushed n)
  | .reap =>
    match getNextCqe cd s with
    | .panic s1 => (s1, .panic)
    | .ok s1 none => (s1, .noCqe)
    | .ok s1 (some i) => ({ s1 with reaped := s1.reaped ++ [⟨i, s1.cqMem i⟩] }, .cqe (s1.cqMem i))
  | .consume k => let r := kConsume k s; (r.1, .consumed r.2)
  | .post vs => let r := kPost vs s; (r.1, .posted r.2)

def run (cd : Code) : St → List Op → St × List Out
  | s, [] => (s, [])
  | s, op :: ops =>
    let r := step cd s op
    let q := run cd r.1 ops
    (q.1, r.2 :: q.2)

/-- a fresh ring: 2^k submission entries, 2^kc completion entries, every submission counter at
`c`, every completion counter at `cc` -/
def init (flags k kc c cc : Nat) : St :=
  { flags := flags, sqEntries := 2 ^ k, sqMask := 2 ^ k - 1, cqEntries := 2 ^ kc, cqMask := 2 ^ kc - 1,
    head := c, tail := c, sqKHead := c, sqKTail := c, cqKHead := cc, cqKTail := cc,
    sqMem := fun _ => 0, cqMem := fun _ => 0,
    filled := [], flushed := [], consumed := [], posted := [], reaped := [] }

/-- `IoUring::needs_wakeup`: the kernel's SQ flags word has IORING_SQ_NEED_WAKEUP (bit 0) set — whatever the other
bits (IORING_SQ_CQ_OVERFLOW = bit 1, IORING_SQ_TASKRUN = bit 2) say -/
def needsWakeup (flagsWord : Nat) : Bool := flagsWord % 2 == 1

end TinyVerif.Ring
