/-
Model of the io_uring ring hand-over in rusl (C17).  Import-free.

Mirrors, statement by statement, `IoUring::{get_next_sqe_slot, flush_submission_queue,
get_next_cqe}` of /repo/rusl/src/platform/compat/io_uring.rs, plus a kernel side
(`consume`, `post`) that follows the io_uring ABI (free-running u32 counters, masked index,
the kernel never overwrites an unreaped completion), plus ghost lists of what each side wrote
and read.

u32 values are `Nat`s below `W = 2^32`.  Rust arithmetic is modelled as written:
`Code.fixed` is the code as it is now (`wrapping_add`/`wrapping_sub`, emptiness test `tail == head`,
and `get_next_cqe` gives the slot of the entry it returned back to the kernel only on the NEXT call:
`release_pending`);
`Code.eagerRelease` is the code before that last repair (/repo bc63d9e): `get_next_cqe` advanced the
shared completion head BEFORE returning the reference to the entry;
`Code.orig release` is the code before the C17 repairs (plain `+`/`-`: overflow panics in a debug
build and wraps in a release build; emptiness test `tail <= head`; eager release).  The two old
versions are kept for the witnesses in Props/C17.lean and Props/C18.lean that show the repairs were
necessary.
-/
namespace TinyVerif.Ring

abbrev W : Nat := 4294967296

/-- which version of the three methods is modelled -/
inductive Code where
  | orig (release : Bool)
  | eagerRelease
  | fixed
  deriving DecidableEq, Repr

/-- `a + b` on u32 as the code writes it; `none` = overflow panic -/
def addU32 (cd : Code) (a b : Nat) : Option Nat :=
  match cd with
  | .fixed => some ((a + b) % W)
  | .eagerRelease => some ((a + b) % W)
  | .orig release =>
    if a + b < W then some (a + b) else if release then some ((a + b) % W) else none

/-- `a - b` on u32 as the code writes it; `none` = overflow panic.  (`W + a - b`, not `a + W - b`:
`Nat.add` recurses on its second argument, a literal there makes elaborator unfolding explode.) -/
def subU32 (cd : Code) (a b : Nat) : Option Nat :=
  match cd with
  | .fixed => some ((W + a - b) % W)
  | .eagerRelease => some ((W + a - b) % W)
  | .orig release =>
    if b ≤ a then some (a - b) else if release then some ((W + a - b) % W) else none

/-- the completion-queue emptiness test of `get_next_cqe` -/
def cqEmptyTest (cd : Code) (tail head : Nat) : Bool :=
  match cd with
  | .fixed => tail == head
  | .eagerRelease => tail == head
  | .orig _ => decide (tail ≤ head)

/-- a ring entry as seen by the ghost state: which slot (index into the entry array, in units of
one `IoUringSubmissionQueueEntry` / `IoUringCompletionQueueEntry`) and which stamp (`user_data`) -/
structure Ent where
  slot : Nat
  val : Nat
  deriving DecidableEq, Repr

structure St where
  /-- `IoUringParamFlags` bits: SQE128 = 1<<10 and CQE32 = 1<<11 select the index shift -/
  flags : Nat
  sqEntries : Nat
  sqMask : Nat
  cqEntries : Nat
  cqMask : Nat
  /-- `submission_queue.head`: the tail value last published to the kernel -/
  head : Nat
  /-- `submission_queue.tail`: local tail -/
  tail : Nat
  /-- shared words -/
  sqKHead : Nat
  sqKTail : Nat
  cqKHead : Nat
  cqKTail : Nat
  /-- `completion_queue.release_pending`: the entry last returned by `get_next_cqe` still occupies its slot -/
  relPending : Bool
  /-- entry arrays: index ↦ stamp -/
  sqMem : Nat → Nat
  cqMem : Nat → Nat
  /-- ghost: entries the application filled, in order -/
  filled : List Ent
  /-- ghost: `filled` as of the last publication of the tail -/
  flushed : List Ent
  /-- ghost: what the kernel read from the submission slots, in order -/
  consumed : List Ent
  /-- ghost: what the kernel wrote to the completion slots, in order -/
  posted : List Ent
  /-- ghost: what the application read from the slot `get_next_cqe` returned, in order -/
  reaped : List Ent

def sqShift (s : St) : Nat := s.flags / 1024 % 2
def cqShift (s : St) : Nat := s.flags / 2048 % 2

/-- `((x & mask) << shift)` computed in u32 -/
def index (x mask shift : Nat) : Nat := ((x &&& mask) <<< shift) % W

def upd (m : Nat → Nat) (i v : Nat) : Nat → Nat := fun j => if j = i then v else m j

/-- result of one call: new state and a value, or a panic (state as left at the panic) -/
inductive Res (α : Type) where
  | ok (s : St) (a : α)
  | panic (s : St)

/-- `IoUring::get_next_sqe_slot` -/
def getNextSqeSlot (cd : Code) (s : St) : Res (Option Nat) :=
  match addU32 cd s.tail 1 with                        -- let next = tail + 1
  | none => .panic s
  | some next =>
    let head := s.sqKHead                              -- acquire_khead / get_khead_relaxed
    match subU32 cd next head with                     -- next - head
    | none => .panic s
    | some d =>
      if d ≤ s.sqEntries then
        let idx := index s.tail s.sqMask (sqShift s)   -- (tail & ring_mask) << shift
        .ok { s with tail := next } (some idx)
      else .ok s none

/-- `IoUring::flush_submission_queue` -/
def flushSubmissionQueue (cd : Code) (s : St) : Res Nat :=
  let tail := s.tail
  let s1 := if s.head ≠ tail then { s with head := tail, sqKTail := tail, flushed := s.filled } else s
  match subU32 cd tail s1.sqKHead with                 -- tail - khead
  | none => .panic s1
  | some n => .ok s1 n

/-- `get_next_cqe` before /repo bc63d9e: the shared head is advanced before the reference is returned -/
def getNextCqeEager (cd : Code) (s : St) : Res (Option Nat) :=
  let tail := s.cqKTail
  let head := s.cqKHead
  if cqEmptyTest cd tail head then .ok s none
  else
    let ind := index head s.cqMask (cqShift s)
    .ok { s with cqKHead := (head + 1) % W } (some ind)   -- fetch_add(1) wraps

/-- `IoUring::get_next_cqe`: returns the index of the entry whose reference is handed out.  Current code: first
the slot handed out by the previous call is released (`if release_pending { release_pending = false; advance(1) }`),
then tail/head are loaded; on a non-empty ring `release_pending = true` and the head is NOT advanced. -/
def getNextCqe (cd : Code) (s : St) : Res (Option Nat) :=
  match cd with
  | .fixed =>
    let s0 := if s.relPending then { s with relPending := false, cqKHead := (s.cqKHead + 1) % W } else s
    let tail := s0.cqKTail
    let head := s0.cqKHead
    if tail == head then .ok s0 none
    else
      let ind := index head s0.cqMask (cqShift s0)
      .ok { s0 with relPending := true } (some ind)
  | .eagerRelease => getNextCqeEager .eagerRelease s
  | .orig r => getNextCqeEager (.orig r) s

/-- kernel: take one published submission (io_uring: `head != tail`, entry `head & mask`) -/
def kConsume1 (s : St) : St × Option Ent :=
  if s.sqKHead = s.sqKTail then (s, none)
  else
    let idx := index s.sqKHead s.sqMask (sqShift s)
    let e : Ent := ⟨idx, s.sqMem idx⟩
    ({ s with sqKHead := (s.sqKHead + 1) % W, consumed := s.consumed ++ [e] }, some e)

def kConsume : Nat → St → St × List Ent
  | 0, s => (s, [])
  | n + 1, s =>
    match kConsume1 s with
    | (s1, none) => (s1, [])
    | (s1, some e) =>
      let r := kConsume n s1
      (r.1, e :: r.2)

/-- kernel: post one completion unless the completion ring is full (io_uring keeps overflowing
completions on an internal list and never overwrites an unreaped entry) -/
def kPost1 (s : St) (v : Nat) : St × Bool :=
  if (W + s.cqKTail - s.cqKHead) % W < s.cqEntries then
    let idx := index s.cqKTail s.cqMask (cqShift s)
    ({ s with cqMem := upd s.cqMem idx v, cqKTail := (s.cqKTail + 1) % W,
              posted := s.posted ++ [⟨idx, v⟩] }, true)
  else (s, false)

def kPost : List Nat → St → St × Nat
  | [], s => (s, 0)
  | v :: vs, s =>
    match kPost1 s v with
    | (s1, false) => (s1, 0)
    | (s1, true) =>
      let r := kPost vs s1
      (r.1, r.2 + 1)

inductive Op where
  /-- application: `get_next_sqe_slot`, and on `Some` fill the entry with this stamp -/
  | get (v : Nat)
  /-- application: `flush_submission_queue` -/
  | flush
  /-- application: `get_next_cqe` and read the returned entry -/
  | reap
  /-- application: read once more through the reference the last successful `get_next_cqe` returned (below call
  granularity: the read may come after any number of kernel steps) -/
  | reread
  /-- kernel: consume up to `k` published submissions -/
  | consume (k : Nat)
  /-- kernel: post completions with these stamps while there is room -/
  | post (vs : List Nat)
  deriving DecidableEq, Repr

inductive Out where
  | slot (i : Nat)
  | noSlot
  | flushed (n : Nat)
  | cqe (v : Nat)
  | noCqe
  | consumed (es : List Ent)
  | posted (n : Nat)
  | panic
  deriving DecidableEq, Repr

def step (cd : Code) (s : St) : Op → St × Out
  | .get v =>
    match getNextSqeSlot cd s with
    | .panic s1 => (s1, .panic)
    | .ok s1 none => (s1, .noSlot)
    | .ok s1 (some i) =>
      ({ s1 with sqMem := upd s1.sqMem i v, filled := s1.filled ++ [⟨i, v⟩] }, .slot i)
  | .flush =>
    match flushSubmissionQueue cd s with
    | .panic s1 => (s1, .panic)
    | .ok s1 n => (s1, .flushed n)
  | .reap =>
    match getNextCqe cd s with
    | .panic s1 => (s1, .panic)
    | .ok s1 none => (s1, .noCqe)
    | .ok s1 (some i) => ({ s1 with reaped := s1.reaped ++ [⟨i, s1.cqMem i⟩] }, .cqe (s1.cqMem i))
  | .reread =>
    match s.reaped.getLast? with
    | none => (s, .noCqe)
    | some e => (s, .cqe (s.cqMem e.slot))
  | .consume k => let r := kConsume k s; (r.1, .consumed r.2)
  | .post vs => let r := kPost vs s; (r.1, .posted r.2)

def run (cd : Code) : St → List Op → St × List Out
  | s, [] => (s, [])
  | s, op :: ops =>
    let r := step cd s op
    let q := run cd r.1 ops
    (q.1, r.2 :: q.2)

/-- a fresh ring: 2^k submission entries, 2^kc completion entries, every submission counter at
`c`, every completion counter at `cc` -/
def init (flags k kc c cc : Nat) : St :=
  { flags := flags, sqEntries := 2 ^ k, sqMask := 2 ^ k - 1, cqEntries := 2 ^ kc, cqMask := 2 ^ kc - 1,
    head := c, tail := c, sqKHead := c, sqKTail := c, cqKHead := cc, cqKTail := cc, relPending := false,
    sqMem := fun _ => 0, cqMem := fun _ => 0,
    filled := [], flushed := [], consumed := [], posted := [], reaped := [] }

/-- `IoUring::needs_wakeup`: the kernel's SQ flags word has IORING_SQ_NEED_WAKEUP (bit 0) set — whatever the other
bits (IORING_SQ_CQ_OVERFLOW = bit 1, IORING_SQ_TASKRUN = bit 2) say -/
def needsWakeup (flagsWord : Nat) : Bool := flagsWord % 2 == 1

/-! ## API borrow contracts the model relies on

Assumptions of the completion-side statements that are not behaviour of any function but live in the TYPE of
`get_next_cqe(&mut self) -> Option<&IoUringCompletionQueueEntry>`: the returned reference keeps the ring mutably
borrowed.  They are tied to the code by compile-contract probes (harness/c17/borrow-probes: programs that violate a
contract must be REJECTED by the borrow checker; checks/c17_borrow.py writes the outcome to Gen/RingBorrow.lean). -/
structure BorrowContract where
  /-- the completion reference is dead at the next `get_next_cqe` call (at most ONE outstanding reference): what the lazy
  slot release and `cq_content_held` / `K2Inv` need -/
  cqeDeadAtNextReap : Bool
  /-- no other `&mut self` ring method while the reference lives (the op language of the split-reap model `kstep2`) -/
  cqeBlocksRingMethods : Bool
  /-- the reference cannot outlive the ring (`Drop` unmaps the completion ring) -/
  cqeDeadAtDrop : Bool
  /-- the positive controls compile and run: the probe verdicts come from a working build environment -/
  controlsCompileAndRun : Bool
  deriving DecidableEq, Repr

def BorrowContract.holds (b : BorrowContract) : Bool :=
  b.cqeDeadAtNextReap && b.cqeBlocksRingMethods && b.cqeDeadAtDrop && b.controlsCompileAndRun

/-! ## C18: the KERNEL CONTRACT composed with the ring model

Everything above is the wrapper (`getNextSqeSlot`, `flushSubmissionQueue`, `getNextCqe`, mirrored from
/repo) plus the raw ring moves of the kernel (`kConsume1`, `kPost1`).  Below is the contract C18 assumes
of the kernel, as an executable step relation over the same ring state:

* `consume k`  — one submission batch: the kernel takes up to `k` published entries in ring order
  (`kConsume`); every entry becomes an in-flight request, numbered by its position in consumption
  order; an entry whose predecessor IN THE SAME BATCH carries IOSQE_IO_LINK is linked behind it.
* `complete i` — the i-th in-flight request (ANY i: completions come in any order) finishes: exactly one
  completion is generated for it, carrying the entry's `user_data` and `res` = the direct system
  call's result (`Kern.sys`, uninterpreted) — or -ECANCELED when it is linked behind a request that
  failed.  A linked request cannot finish before the request it is linked behind.  The completion goes
  into the completion ring if no overflowed completion is waiting and the ring has room (`kPost1`),
  otherwise to the tail of the kernel's overflow list (and IORING_SQ_CQ_OVERFLOW shows in the SQ flags).
* `flushOvf n` — the kernel moves up to `n` overflowed completions, oldest first, into the ring while
  there is room.
* `idle` — (SQPOLL rings) the submission thread goes to sleep and raises IORING_SQ_NEED_WAKEUP; while it
  sleeps nothing is consumed.  `wake` is the application's `if needs_wakeup() { io_uring_enter(SQ_WAKEUP) }`.
-/

abbrev U64 : Nat := 18446744073709551616
/-- `-ECANCELED` (-125) as the bit pattern of the CQE's `res: i32` -/
abbrev ECANCELED : Nat := 4294967171

/-- what the kernel reads out of the 64 bytes of a submission entry (the entry's content is the `Nat`
held in `St.sqMem`) and what system calls do — all uninterpreted -/
structure Kern where
  /-- the `user_data` field -/
  ud : Nat → Nat
  /-- IOSQE_IO_LINK is set in the `flags` field -/
  link : Nat → Bool
  /-- `sys n content`: the result of the direct system call the entry describes, executed as the n-th
  submission (bit pattern of an i32) -/
  sys : Nat → Nat → Nat
  /-- `severs content res`: this result fails the request, i.e. cancels what is linked behind it
  (per-opcode kernel rule) -/
  severs : Nat → Nat → Bool

/-- the 16 bytes of a completion entry as one number: `user_data: u64`, `res: i32`, `flags: u32 = 0` -/
def cqeWord (ud res : Nat) : Nat := ud % U64 + U64 * (res % W)
/-- what the application reads from a completion entry -/
def cqeUd (w : Nat) : Nat := w % U64
def cqeRes (w : Nat) : Nat := w / U64 % W

/-- an in-flight request -/
structure Req where
  /-- position in consumption order (= in the order the application filled the entries) -/
  seq : Nat
  ent : Ent
  /-- linked behind the request with this number -/
  dep : Option Nat
  deriving DecidableEq, Repr

structure KSt where
  ring : St
  /-- IORING_SQ_NEED_WAKEUP is raised -/
  needWake : Bool
  /-- in flight: consumed, completion not yet generated -/
  pend : List Req
  /-- the kernel's overflow list: (request number, completion entry), oldest first -/
  ovf : List (Nat × Nat)
  /-- ghost: requests whose completion has been generated, in that order -/
  done : List Nat
  /-- ghost: requests that failed (for what is linked behind them) -/
  failed : List Nat
  /-- ghost: for every consumed entry, in order, what it was linked behind -/
  deps : List (Option Nat)
  /-- ghost: request number of every entry written to the completion ring, in order -/
  postedSeq : List Nat

/-- the SQ ring's flags word as the kernel maintains it -/
def flagsWord (s : KSt) : Nat := (if s.needWake then 1 else 0) + (if s.ovf.isEmpty then 0 else 2)

def tagReqs (K : Kern) : Nat → Option Nat → List Ent → List Req
  | _, _, [] => []
  | n, prev, e :: es => ⟨n, e, prev⟩ :: tagReqs K (n + 1) (if K.link e.val then some n else none) es

def kConsumeK (K : Kern) (k : Nat) (s : KSt) : KSt × List Req :=
  if s.needWake then (s, [])
  else
    let r := kConsume k s.ring
    let rs := tagReqs K s.ring.consumed.length none r.2
    ({ s with ring := r.1, pend := s.pend ++ rs, deps := s.deps ++ rs.map Req.dep }, rs)

inductive KOut where
  | app (o : Out)
  | consumed (rs : List Req)
  | noReq
  | notReady
  /-- request `seq` completed with this completion entry; `direct` = written to the ring (else overflow list) -/
  | completed (seq w : Nat) (direct : Bool)
  | flushedOvf (n : Nat)
  | wake (b : Bool)
  | idle
  /-- (split reap, below) `get_next_cqe` returned a reference to the entry at this index -/
  | held (i : Nat)
  /-- (split reap, below) not possible while / without a reference being held -/
  | borrowed
  deriving DecidableEq, Repr

def kComplete (K : Kern) (s : KSt) (i : Nat) : KSt × KOut :=
  match s.pend[i]? with
  | none => (s, .noReq)
  | some r =>
    let ready := r.dep.all fun m => s.done.contains m
    if ready then
      let cancelled := r.dep.any fun m => s.failed.contains m
      let res := if cancelled then ECANCELED else K.sys r.seq r.ent.val
      let fails := cancelled || K.severs r.ent.val res
      let w := cqeWord (K.ud r.ent.val) res
      let s1 : KSt := { s with pend := s.pend.eraseIdx i, done := s.done ++ [r.seq],
                                failed := if fails then s.failed ++ [r.seq] else s.failed }
      if s.ovf.isEmpty then
        match kPost1 s.ring w with
        | (ring1, true) => ({ s1 with ring := ring1, postedSeq := s.postedSeq ++ [r.seq] }, .completed r.seq w true)
        | (_, false) => ({ s1 with ovf := s.ovf ++ [(r.seq, w)] }, .completed r.seq w false)
      else ({ s1 with ovf := s.ovf ++ [(r.seq, w)] }, .completed r.seq w false)
    else (s, .notReady)

def kFlushOvf : Nat → KSt → KSt × Nat
  | 0, s => (s, 0)
  | n + 1, s =>
    match s.ovf with
    | [] => (s, 0)
    | (q, w) :: rest =>
      match kPost1 s.ring w with
      | (_, false) => (s, 0)
      | (ring1, true) =>
        let r := kFlushOvf n { s with ring := ring1, ovf := rest, postedSeq := s.postedSeq ++ [q] }
        (r.1, r.2 + 1)

inductive KOp where
  /-- application: `get_next_sqe_slot`, and on `Some` write an entry with this content -/
  | get (v : Nat)
  /-- application: `flush_submission_queue` -/
  | flush
  /-- application: `get_next_cqe` and read the returned entry -/
  | reap
  /-- application: `if needs_wakeup() { io_uring_enter(.., IORING_ENTER_SQ_WAKEUP) }` -/
  | wake
  | consume (k : Nat)
  | complete (i : Nat)
  | flushOvf (n : Nat)
  | idle
  deriving DecidableEq, Repr

def kstep (K : Kern) (cd : Code) (s : KSt) : KOp → KSt × KOut
  | .get v => let r := step cd s.ring (.get v); ({ s with ring := r.1 }, .app r.2)
  | .flush => let r := step cd s.ring .flush; ({ s with ring := r.1 }, .app r.2)
  | .reap => let r := step cd s.ring .reap; ({ s with ring := r.1 }, .app r.2)
  | .wake =>
    let b := needsWakeup (flagsWord s)
    ({ s with needWake := if b then false else s.needWake }, .wake b)
  | .consume k => let r := kConsumeK K k s; (r.1, .consumed r.2)
  | .complete i => kComplete K s i
  | .flushOvf n => let r := kFlushOvf n s; (r.1, .flushedOvf r.2)
  | .idle => ({ s with needWake := s.needWake || (s.ring.flags / 2 % 2 == 1) }, .idle)

def krun (K : Kern) (cd : Code) : KSt → List KOp → KSt × List KOut
  | s, [] => (s, [])
  | s, op :: ops =>
    let r := kstep K cd s op
    let q := krun K cd r.1 ops
    (q.1, r.2 :: q.2)

def kinit (flags k kc c cc : Nat) : KSt :=
  { ring := init flags k kc c cc, needWake := false, pend := [], ovf := [], done := [], failed := [],
    deps := [], postedSeq := [] }

/-! the closed form of what the contract makes of the consumed entries: result and "failed" of the
q-th request, from the entries and their link structure alone (no reference to completion order) -/

def linkedBehind (deps : List (Option Nat)) (q : Nat) : Bool :=
  match deps[q]? with
  | some (some _) => true
  | _ => false

def outcomeOf (K : Kern) (q : Nat) (e : Option Ent) (cancelled : Bool) : Nat × Bool :=
  match e with
  | none => (0, false)
  | some e =>
    let res := if cancelled then ECANCELED else K.sys q e.val
    (res, cancelled || K.severs e.val res)

def outcome (K : Kern) (ents : List Ent) (deps : List (Option Nat)) : Nat → Nat × Bool
  | 0 => outcomeOf K 0 ents[0]? false
  | q + 1 => outcomeOf K (q + 1) ents[q + 1]? (linkedBehind deps (q + 1) && (outcome K ents deps q).2)

/-- the completion entry the contract owes for the q-th consumed entry -/
def expWord (K : Kern) (ents : List Ent) (deps : List (Option Nat)) (q : Nat) : Nat :=
  match ents[q]? with
  | none => 0
  | some e => cqeWord (K.ud e.val) (outcome K ents deps q).1

/-! ### below call granularity: the reference `get_next_cqe` returns

`reap` above reads the entry at the moment `get_next_cqe` returns (call granularity, as C17 quantifies).  Here the
call is split: `reapBegin` = the call returns (the ghost `reaped` records the entry as it is at that moment; the
application holds the reference), `reapRead` = the caller reads through the reference, into `readLog`; kernel steps
may come in between (the borrow checker stops the application from touching the ring while it holds the reference,
not the kernel).  With the code before /repo bc63d9e (`Code.eagerRelease`) the head was already advanced when the
reference was returned; now the slot is released by the NEXT `get_next_cqe` call. -/

structure KSt2 where
  k : KSt
  /-- index of the completion entry the application holds a reference to -/
  held : Option Nat
  /-- ghost: what the application actually read through the references, in order -/
  readLog : List Ent

inductive KOp2 where
  | k (op : KOp)
  | reapBegin
  | reapRead
  deriving DecidableEq, Repr

/-- ring methods the borrow of the returned reference rules out -/
def KOp.isApp : KOp → Bool
  | .get _ => true
  | .flush => true
  | .reap => true
  | .wake => true
  | _ => false

def kReapBegin (cd : Code) (s : KSt2) : KSt2 × KOut :=
  match s.held with
  | some _ => (s, .borrowed)
  | none =>
    match getNextCqe cd s.k.ring with
    | .panic r1 => ({ s with k := { s.k with ring := r1 } }, .app .panic)
    | .ok r1 none => ({ s with k := { s.k with ring := r1 } }, .app .noCqe)
    | .ok r1 (some i) =>
      ({ s with k := { s.k with ring := { r1 with reaped := r1.reaped ++ [⟨i, r1.cqMem i⟩] } }, held := some i }, .held i)

def kReapRead (s : KSt2) : KSt2 × KOut :=
  match s.held with
  | none => (s, .borrowed)
  | some i =>
    ({ s with held := none, readLog := s.readLog ++ [⟨i, s.k.ring.cqMem i⟩] }, .app (.cqe (s.k.ring.cqMem i)))

def kstep2 (K : Kern) (cd : Code) (s : KSt2) : KOp2 → KSt2 × KOut
  | .k op =>
    if s.held.isSome && op.isApp then (s, .borrowed)
    else
      match op with
      | .reap =>                        -- the atomic reap: the call returns and the entry is read at once
        let b := kReapBegin cd s
        match b.2 with
        | .held _ => kReapRead b.1
        | o => (b.1, o)
      | op => let r := kstep K cd s.k op; ({ s with k := r.1 }, r.2)
  | .reapBegin => kReapBegin cd s
  | .reapRead => kReapRead s

def krun2 (K : Kern) (cd : Code) : KSt2 → List KOp2 → KSt2 × List KOut
  | s, [] => (s, [])
  | s, op :: ops =>
    let r := kstep2 K cd s op
    let q := krun2 K cd r.1 ops
    (q.1, r.2 :: q.2)

def kinit2 (flags k kc c cc : Nat) : KSt2 := { k := kinit flags k kc c cc, held := none, readLog := [] }

/-- the content of a submission entry as the simulated kernel of harness/c18 reads it: `user_data: u64`,
`flags: u8`, `len: u32` (every other field zero) -/
def sqeWord (ud flags len : Nat) : Nat := ud % U64 + U64 * (flags % 256 + 256 * (len % W))

/-- a concrete kernel for the driver / the simulated kernel of harness/c18: entry content =
`user_data + 2^64 * (flags + 256 * len)`; the "system call" is IORING_OP_NOP with an injected result
(`res = len`), a negative result fails the request -/
def nopKern : Kern where
  ud v := v % U64
  link v := v / U64 % 256 / 4 % 2 == 1
  sys _ v := v / U64 / 256 % W
  severs _ res := decide (2147483648 ≤ res % W)

end TinyVerif.Ring
