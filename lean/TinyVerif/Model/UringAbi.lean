/-
C18: the io_uring ABI side, hand-written from the kernel (include/uapi/linux/io_uring.h and the
`*_prep` functions in io_uring/{rw,openclose,statx,fs,net,timeout,poll}.c): per opcode, which SQE
field carries which operand of the operation and with which C type — and, per rusl constructor, the
*intent*: which Rust parameter is meant to be which operand.  The regenerated constructor table is
checked against these two by `ctorOk` (Props/C18.lean lifts the check to all argument values).
-/
import TinyVerif.Model.SqeEnc
namespace TinyVerif.Sqe

/-- C type with which the kernel reads a field -/
inductive Ty where
  | u16 | u32 | u64 | s32
  deriving DecidableEq, Repr

def Ty.lo : Ty → Int
  | .s32 => -2147483648 | _ => 0
def Ty.hi : Ty → Int
  | .u16 => 65535 | .u32 => 4294967295 | .u64 => 18446744073709551615 | .s32 => 2147483647

/-- the kernel's interpretation of an unsigned field value -/
def Ty.interp : Ty → Nat → Int
  | .s32, n => if n < 2147483648 then (n : Int) else (n : Int) - 4294967296
  | _, n => (n : Int)

inductive Role where
  | unused                            -- must be zero
  | operand (name : String) (ty : Ty)
  deriving DecidableEq, Repr

/-- the seven operand-carrying fields, in this order everywhere:
fd@4, off/addr2@8, addr@16, len@24, op-flags@28, buf_index@40, file_index@44 -/
structure AbiRow where
  opcode : Nat
  op : String
  fd : Role
  off : Role
  addr : Role
  len : Role
  opflags : Role
  bufIndex : Role
  fileIndex : Role
  deriving Repr

open Role Ty in
def abi : List AbiRow := [
  { opcode := 1, op := "readv", fd := operand "fd" s32, off := operand "offset" u64, addr := operand "iovec" u64,
    len := operand "nr_vecs" u32, opflags := operand "rw_flags" u32, bufIndex := unused, fileIndex := unused },
  { opcode := 2, op := "writev", fd := operand "fd" s32, off := operand "offset" u64, addr := operand "iovec" u64,
    len := operand "nr_vecs" u32, opflags := operand "rw_flags" u32, bufIndex := unused, fileIndex := unused },
  { opcode := 4, op := "read_fixed", fd := operand "fd" s32, off := operand "offset" u64, addr := operand "buf" u64,
    len := operand "nbytes" u32, opflags := operand "rw_flags" u32, bufIndex := operand "buf_index" u16, fileIndex := unused },
  { opcode := 5, op := "write_fixed", fd := operand "fd" s32, off := operand "offset" u64, addr := operand "buf" u64,
    len := operand "nbytes" u32, opflags := operand "rw_flags" u32, bufIndex := operand "buf_index" u16, fileIndex := unused },
  { opcode := 6, op := "poll_add", fd := operand "fd" s32, off := unused, addr := unused,
    len := operand "poll_flags" u32, opflags := operand "poll32_events" u32, bufIndex := unused, fileIndex := unused },
  { opcode := 9, op := "sendmsg", fd := operand "sockfd" s32, off := unused, addr := operand "msghdr" u64,
    len := unused, opflags := operand "msg_flags" s32, bufIndex := unused, fileIndex := unused },
  { opcode := 10, op := "recvmsg", fd := operand "sockfd" s32, off := unused, addr := operand "msghdr" u64,
    len := unused, opflags := operand "msg_flags" s32, bufIndex := unused, fileIndex := unused },
  { opcode := 11, op := "timeout", fd := unused, off := operand "count" u64, addr := operand "timespec" u64,
    len := operand "nr_timespecs" u32, opflags := operand "timeout_flags" u32, bufIndex := unused, fileIndex := unused },
  { opcode := 13, op := "accept", fd := operand "sockfd" s32, off := operand "addrlen_ptr" u64, addr := operand "sockaddr_ptr" u64,
    len := unused, opflags := operand "accept_flags" u32, bufIndex := unused, fileIndex := operand "file_slot" u32 },
  { opcode := 16, op := "connect", fd := operand "sockfd" s32, off := operand "addrlen" u64, addr := operand "sockaddr_ptr" u64,
    len := unused, opflags := unused, bufIndex := unused, fileIndex := unused },
  { opcode := 18, op := "openat", fd := operand "dfd" s32, off := unused, addr := operand "pathname" u64,
    len := operand "mode" u32, opflags := operand "open_flags" u32, bufIndex := unused, fileIndex := operand "file_slot" u32 },
  { opcode := 19, op := "close", fd := operand "fd" s32, off := unused, addr := unused,
    len := unused, opflags := unused, bufIndex := unused, fileIndex := operand "file_slot" u32 },
  { opcode := 21, op := "statx", fd := operand "dfd" s32, off := operand "statxbuf" u64, addr := operand "pathname" u64,
    len := operand "mask" u32, opflags := operand "statx_flags" u32, bufIndex := unused, fileIndex := unused },
  { opcode := 35, op := "renameat", fd := operand "olddfd" s32, off := operand "newpath" u64, addr := operand "oldpath" u64,
    len := operand "newdfd" s32, opflags := operand "rename_flags" u32, bufIndex := unused, fileIndex := unused },
  { opcode := 36, op := "unlinkat", fd := operand "dfd" s32, off := unused, addr := operand "pathname" u64,
    len := unused, opflags := operand "unlink_flags" u32, bufIndex := unused, fileIndex := unused },
  { opcode := 37, op := "mkdirat", fd := operand "dfd" s32, off := unused, addr := operand "pathname" u64,
    len := operand "mode" u32, opflags := unused, bufIndex := unused, fileIndex := unused },
  { opcode := 45, op := "socket", fd := operand "domain" s32, off := operand "type" u64, addr := unused,
    len := operand "protocol" u32, opflags := operand "rw_flags" u32, bufIndex := unused, fileIndex := operand "file_slot" u32 }
]

/-- what the wrapper means an operand to be, in terms of the Rust parameter *names* -/
inductive Want where
  | zero                               -- not offered by the wrapper: the neutral value 0
  | param (name : String)
  | optFd (name : String)              -- `None` = AT_FDCWD
  | optU64 (name : String)             -- `None` = 0
  | flag (name : String) (t e : Int)   -- boolean parameter selecting a flag value
  | const (n : Int)
  deriving DecidableEq, Repr

/-- constructor name ↦ (operation, operand ↦ meaning) -/
def intents : List (String × String × List (String × Want)) := [
  ("new_readv", "readv", [("fd", .param "fd"), ("iovec", .param "buf_ptr"), ("nr_vecs", .param "num_buffers"),
     ("offset", .zero), ("rw_flags", .zero)]),
  ("new_writev", "writev", [("fd", .param "fd"), ("iovec", .param "buf_ptr"), ("nr_vecs", .param "num_buffers"),
     ("offset", .zero), ("rw_flags", .zero)]),
  ("new_readv_fixed", "read_fixed", [("fd", .param "fd"), ("buf", .param "start_read_into_addr"), ("nbytes", .param "read_exact"),
     ("buf_index", .param "buf_ind"), ("offset", .zero), ("rw_flags", .zero)]),
  ("new_writev_fixed", "write_fixed", [("fd", .param "fd"), ("buf", .param "start_read_into_addr"), ("nbytes", .param "write_exact"),
     ("buf_index", .param "buf_ind"), ("offset", .zero), ("rw_flags", .zero)]),
  ("new_openat", "openat", [("dfd", .optFd "dir_fd"), ("pathname", .param "path"), ("open_flags", .param "open_flags"),
     ("mode", .param "mode"), ("file_slot", .zero)]),
  ("new_close", "close", [("fd", .param "fd"), ("file_slot", .zero)]),
  ("new_statx", "statx", [("dfd", .optFd "dir_fd"), ("pathname", .param "path"), ("statx_flags", .param "flags"),
     ("mask", .param "mask"), ("statxbuf", .param "statx_ptr")]),
  ("new_unlink_at", "unlinkat", [("dfd", .optFd "dir_fd"), ("pathname", .param "path"), ("unlink_flags", .flag "rmdir" 512 0)]),
  ("new_rename_at", "renameat", [("olddfd", .optFd "old_dir_fd"), ("oldpath", .param "old_path"), ("newdfd", .optFd "new_dir_fd"),
     ("newpath", .param "new_path"), ("rename_flags", .param "flags")]),
  ("new_mkdirat", "mkdirat", [("dfd", .optFd "dir_fd"), ("pathname", .param "path"), ("mode", .param "mode")]),
  ("new_socket", "socket", [("domain", .param "domain"), ("type", .param "socket_options"), ("protocol", .param "protocol"),
     ("rw_flags", .zero), ("file_slot", .zero)]),
  ("new_connect_unix", "connect", [("sockfd", .param "socket"), ("sockaddr_ptr", .param "sockaddr.addr@ptr"),
     ("addrlen", .param "sockaddr.addr_len")]),
  ("new_accept_unix", "accept", [("sockfd", .param "socket"), ("sockaddr_ptr", .param "sockaddr"), ("addrlen_ptr", .param "addr_len"),
     ("accept_flags", .param "socket_flags"), ("file_slot", .zero)]),
  ("new_accept_inet", "accept", [("sockfd", .param "socket"), ("sockaddr_ptr", .param "sockaddr"), ("addrlen_ptr", .param "addr_len"),
     ("accept_flags", .param "socket_flags"), ("file_slot", .zero)]),
  ("new_timeout", "timeout", [("timespec", .param "ts"), ("count", .optU64 "await_completions"), ("nr_timespecs", .const 1),
     ("timeout_flags", .flag "relative" 0 1)]),
  ("new_sendmsg", "sendmsg", [("sockfd", .param "socket"), ("msghdr", .param "send_drop_guard.msghdr@ptr"), ("msg_flags", .param "sendmsg_flags")]),
  ("new_sendmsg_raw", "sendmsg", [("sockfd", .param "socket"), ("msghdr", .param "msghdr"), ("msg_flags", .param "sendmsg_flags")]),
  ("new_recvmsg", "recvmsg", [("sockfd", .param "socket"), ("msghdr", .param "msghdr"), ("msg_flags", .param "sendmsg_flags")]),
  ("new_poll_add", "poll_add", [("fd", .param "fd"), ("poll32_events", .param "poll_events"), ("poll_flags", .param "flags")])
]

def indexOf (ops : List (String × Kind)) (nm : String) : Option Nat :=
  let rec go : List (String × Kind) → Nat → Option Nat
    | [], _ => none
    | (n, _) :: r, i => if n = nm then some i else go r (i + 1)
  go ops 0

/-- the `Src` a `Want` denotes for a constructor with these operands -/
def wantSrc (ops : List (String × Kind)) : Want → Option Src
  | .zero => some (.const 0)
  | .const n => some (.const n)
  | .param nm => (indexOf ops nm).map .arg
  | .optFd nm => (indexOf ops nm).map .optFd
  | .optU64 nm => (indexOf ops nm).map .optU64
  | .flag nm t e => (indexOf ops nm).map (fun i => .ite i t e)

def kindAt (ops : List (String × Kind)) (i : Nat) : Option Kind := (ops[i]?).map (·.2)

/-- value range of a `Src`, given the operand kinds -/
def srcRange (ops : List (String × Kind)) : Src → Option (Int × Int)
  | .const n => some (n, n)
  | .arg i => (kindAt ops i).map fun k => (k.lo, k.hi)
  | .optFd i => match kindAt ops i with | some .optfd => some (-100, 2147483647) | _ => none
  | .optU64 i => match kindAt ops i with | some .optu64 => some (0, 18446744073709551615) | _ => none
  | .ite i t e => match kindAt ops i with | some .bool => some (min t e, max t e) | _ => none

def lookup {α : Type} (l : List (String × α)) (nm : String) : Option α :=
  match l with
  | [] => none
  | (n, v) :: r => if n = nm then some v else lookup r nm

/-- one field of a constructor against its ABI role: an unused field is the constant 0; an operand
field holds exactly what the intent says, and every value it can take survives the field's C type
(`bytes` = bytes actually written) -/
def fieldOk (ops : List (String × Kind)) (intent : List (String × Want)) (role : Role) (src : Src)
    (bytes : Nat) (width : Nat) : Bool :=
  match role with
  | .unused => src == .const 0
  | .operand nm ty =>
    match lookup intent nm with
    | none => false
    | some w =>
      match wantSrc ops w, srcRange ops src with
      | some s, some (lo, hi) =>
        src == s && decide (ty.lo ≤ lo) && decide (hi ≤ ty.hi) &&
          -- the C type fits the field; a narrower write than the field (a u16 union member in a
          -- u32 slot) is not modelled as intact
          decide (ty.hi < (256 ^ width : Nat)) && (ty != .s32 || width == 4) && bytes == width
      | _, _ => false

def findRow (opc : Nat) : List AbiRow → Option AbiRow
  | [] => none
  | r :: rs => if r.opcode = opc then some r else findRow opc rs

/-- the whole constructor against ABI + intent -/
def ctorOk (c : Ctor) : Bool :=
  match c.opcode, lookup intents c.name with
  | .const opc, some (op, intent) =>
    match (if 0 ≤ opc then findRow opc.toNat abi else none) with
    | none => false
    | some row =>
      row.op == op &&
      -- every operand the intent names is one the ABI row has
      intent.all (fun (nm, _) => [row.fd, row.off, row.addr, row.len, row.opflags, row.bufIndex, row.fileIndex].any
        (fun r => match r with | .operand n _ => n == nm | .unused => false)) &&
      (match indexOf c.operands "sqe_flags", indexOf c.operands "user_data" with
       | some i, some j => c.flags == .arg i && c.userData == .arg j &&
           kindAt c.operands i == some .u8 && kindAt c.operands j == some .u64
       | _, _ => false) &&
      c.ioprio == .const 0 && c.personality == .const 0 && c.opflagsBytes == 4 &&
      fieldOk c.operands intent row.fd c.fd 4 4 &&
      fieldOk c.operands intent row.off c.off 8 8 &&
      fieldOk c.operands intent row.addr c.addr 8 8 &&
      fieldOk c.operands intent row.len c.len 4 4 &&
      fieldOk c.operands intent row.opflags c.opflags c.opflagsBytes 4 &&
      fieldOk c.operands intent row.bufIndex c.bufIndex 2 2 &&
      fieldOk c.operands intent row.fileIndex c.fileIndex 4 4
  | _, _ => false

end TinyVerif.Sqe
