import TinyVerif.Model.Dlmalloc
/-!
Well-formedness of an allocator state of `Model/Dlmalloc.lean`, as an executable checker
(`wfb : Hist → Bool`, also run by the driver after every operation when `wf 1` is set, so that every
state explored by the correspondence is checked) — `WF hs := wfb hs = true`.

  * `entsOk`     header table strictly address-ordered, no header inside another chunk
  * `tiles`      the headers of each segment tile it exactly (each sits where the previous chunk ends),
                 up to the segment end (after the foot word of `top`) or 8 bytes before it (fenceposts);
                 the last header is that foot word or a fencepost
  * `tagsOk`     boundary tags: PINUSE mirrors the predecessor's CINUSE; a free chunk is followed by an
                 in-use one that carries its size as prev_foot (no two adjacent free chunks), except
                 `top`, which is followed by the foot word
  * `freeListOk` free chunks = {top} ⊎ {dv} ⊎ small bins ⊎ tree bins (each free chunk exactly once)
  * `sbinsOk` / `tbinsOk`  every binned chunk is in the bin its size indexes; tries follow the size bits,
                 same-size chunks hang in the ring of one node
  * `dvOk`, `topOk`, `segsOk`, `shapeOk`
  * `liveOk`     live blocks ↔ in-use chunks that are neither a segment record nor a fencepost; each
                 live block aligned as requested and inside the payload of its chunk
-/
namespace TinyVerif.Dl

def entsOk : List Ent → Bool
  | [] => true
  | [a] => decide (0 < a.size)
  | a :: b :: rest => decide (a.addr + a.size ≤ b.addr) && decide (0 < a.size) && entsOk (b :: rest)

def inSeg (g : Seg) (e : Ent) : Bool := decide (g.base ≤ e.addr) && decide (e.addr < g.base + g.size)

def segEnts (es : List Ent) (g : Seg) : List Ent := es.filter (inSeg g)

/-- the last header of a segment is the foot word after `top` or a fencepost, never a user chunk -/
def isTrailerEnd (x : Ent) : Bool := (!x.cin && !x.pin) || decide (x.size = 8)

def tiles : List Ent → Nat → Nat → Bool
  | [], _, _ => false
  | [x], a, e => decide (x.addr = a) && (decide (a + x.size = e) || decide (a + x.size + 8 = e)) && isTrailerEnd x
  | x :: y :: rest, a, e => decide (x.addr = a) && decide (8 ≤ y.size) && tiles (y :: rest) (a + x.size) e

def isFree (e : Ent) : Bool := !e.cin && e.pin

/-- `pc` = CINUSE of the predecessor (true at the segment start) -/
def tagsOk (top : Nat) : Bool → List Ent → Bool
  | _, [] => true
  | pc, [x] => x.pin == pc
  | pc, x :: y :: rest =>
    (x.pin == pc) &&
    (if isFree x then
       (if x.addr = top then !y.cin && !y.pin else y.cin && decide (y.pfoot = x.size))
     else true) &&
    tagsOk top x.cin (y :: rest)

def Tree.members : Tree → List Nat
  | .nil => []
  | .node a _ ring l r => a :: (ring ++ (l.members ++ r.members))

def Tree.nodeSizes : Tree → List Nat
  | .nil => []
  | .node _ s _ l r => s :: (l.nodeSizes ++ r.nodeSizes)

def joinAll : List (List Nat) → List Nat
  | [] => []
  | l :: ls => l ++ joinAll ls

def binned (h : Heap) : List Nat := joinAll h.sbins ++ joinAll (h.tbins.map Tree.members)

def nodupB : List Nat → Bool
  | [] => true
  | a :: as => !as.contains a && nodupB as

def freeList (h : Heap) : List Nat :=
  (if h.top = 0 then [] else [h.top]) ++ ((if h.dv = 0 then [] else [h.dv]) ++ binned h)

def isFreeAt (es : List Ent) (a : Nat) : Bool :=
  match findEnt es a with
  | some e => isFree e
  | none => false

def freeListOk (h : Heap) : Bool :=
  nodupB (freeList h) &&
  (h.ents.all fun e => !isFree e || (freeList h).contains e.addr) &&
  ((freeList h).all fun a => isFreeAt h.ents a)

def sizeAt (es : List Ent) (a s : Nat) : Bool :=
  match findEnt es a with
  | some e => decide (e.size = s)
  | none => false

def sbinsFrom (es : List Ent) : Nat → List (List Nat) → Bool
  | _, [] => true
  | i, l :: ls => (l.all fun a => sizeAt es a (i * 8) && decide (32 ≤ i * 8)) && sbinsFrom es (i + 1) ls

def pathOk (sb : Nat) : Nat → List Bool → Bool
  | _, [] => true
  | j, b :: bs => (decide ((sb >>> (63 - j)) &&& 1 = 1) == b) && pathOk sb (j + 1) bs

def trieOk (es : List Ent) (idx : Nat) : Tree → List Bool → Bool
  | .nil, _ => true
  | .node a s ring l r, path =>
    sizeAt es a s && (ring.all fun x => sizeAt es x s) && decide (compute_tree_index s = idx) &&
    decide (256 ≤ s) && pathOk ((s <<< leftshift_for_tree_index idx) % U64) 0 path &&
    trieOk es idx l (path ++ [false]) && trieOk es idx r (path ++ [true])

def tbinsFrom (es : List Ent) : Nat → List Tree → Bool
  | _, [] => true
  | i, t :: ts => trieOk es i t [] && nodupB t.nodeSizes && tbinsFrom es (i + 1) ts

def dvOk (h : Heap) : Bool :=
  if h.dv = 0 then decide (h.dvsize = 0)
  else match findEnt h.ents h.dv with
    | some e => isFree e && decide (e.size = h.dvsize) && decide (32 ≤ h.dvsize)
    | none => false

def topOk (s : St) : Bool :=
  match s.segs with
  | [] => decide (s.h.top = 0) && s.h.ents.isEmpty && decide (s.h.topsize = 0) && decide (s.footprint = 0)
  | g :: _ =>
    decide (s.h.top ≠ 0) && decide (0 < s.h.topsize) && decide (g.base ≤ s.h.top) &&
    decide (s.h.top + s.h.topsize + top_foot_size = g.base + g.size) && decide (g.recAt = 0) &&
    (match findEnt s.h.ents s.h.top with
     | some e => isFree e && decide (e.size = s.h.topsize)
     | none => false) &&
    -- the foot word after `top`: `head = top_foot_size`, no flag bits
    (match findEnt s.h.ents (s.h.top + s.h.topsize) with
     | some f => !f.cin && !f.pin && decide (f.size = top_foot_size)
     | none => false)

def segsDisjoint : List Seg → Bool
  | [] => true
  | g :: gs => (gs.all fun x => decide (g.base + g.size ≤ x.base) || decide (x.base + x.size ≤ g.base)) && segsDisjoint gs

def segsOk (s : St) : Bool :=
  segsDisjoint s.segs &&
  (s.segs.all fun g => decide (g.base % 4096 = 0) && decide (g.size % 4096 = 0) && decide (0 < g.base) &&
    decide (top_foot_size < g.size) && decide (s.least_addr ≤ g.base) && decide (g.base + g.size ≤ 2 ^ 64))

/-- sizes / alignment of the individual headers: a fencepost (8, in use), or a 16-aligned chunk whose
size is a positive multiple of 16 (`top` may shrink to 16 bytes; binned chunks, `dv` and live chunks
are required to have at least MIN_CHUNK_SIZE by their own conjuncts) -/
def shapeOk (es : List Ent) : Bool :=
  es.all fun e => (decide (e.size = 8) && e.cin && e.pin) ||
    (decide (e.addr % 16 = 0) && decide (e.size % 16 = 0) && decide (16 ≤ e.size))

def isRecord (segs : List Seg) (e : Ent) : Bool := segs.any fun g => decide (g.recAt = e.addr + 16)

def liveChunkOk (es : List Ent) (b : Block) : Bool :=
  decide (16 ≤ b.ptr) && decide (0 < b.align) && decide (b.ptr % b.align = 0) &&
  match findEnt es (b.ptr - 16) with
  | some e => e.cin && decide (b.size + 8 ≤ e.size) && decide (32 ≤ e.size)
  | none => false

def liveOk (hs : Hist) : Bool :=
  nodupB (hs.live.map (·.ptr)) &&
  (hs.live.all fun b => liveChunkOk hs.st.h.ents b && !(isRecord hs.st.segs { addr := b.ptr - 16, size := 0, cin := true, pin := true, pfoot := 0 })) &&
  (hs.st.h.ents.all fun e => !e.cin || decide (e.size = 8) || isRecord hs.st.segs e ||
    (hs.live.any fun b => decide (b.ptr = e.addr + 16)))

/-- the conjuncts with their names (the driver reports the first one that fails) -/
def wfParts (hs : Hist) : List (String × Bool) :=
  let s := hs.st
  let h := s.h
  [("entsOk", entsOk h.ents),
   ("shapeOk", shapeOk h.ents),
   ("allInSegs", h.ents.all fun e => s.segs.any fun g => inSeg g e),
   ("tiles", s.segs.all fun g => tiles (segEnts h.ents g) g.base (g.base + g.size)),
   ("tagsOk", s.segs.all fun g => tagsOk h.top true (segEnts h.ents g)),
   ("freeListOk", freeListOk h),
   ("sbinsOk", decide (h.sbins.length = 32) && sbinsFrom h.ents 0 h.sbins),
   ("tbinsOk", decide (h.tbins.length = 32) && tbinsFrom h.ents 0 h.tbins),
   ("dvOk", dvOk h),
   ("topOk", topOk s),
   ("segsOk", segsOk s),
   ("liveOk", liveOk hs)]

def wfb (hs : Hist) : Bool := (wfParts hs).all (·.2)

def wfFirstFailure (hs : Hist) : Option String :=
  ((wfParts hs).find? fun p => !p.2).map (·.1)

end TinyVerif.Dl
