/-
C15 model — tiny-std/src/io.rs (`default_read_to_end`, `append_to_string`/`default_read_to_string`,
`default_read_exact`, `Write::write_all`, `Write::write_fmt`) and tiny-std/src/io/read_buf.rs (`ReadBuf`).

Import-free and executable (the driver `drv_c15` links it).  Everything is a fold over a *response script*:
the i-th call of the user's `Read::read` / `Write::write` consumes the i-th script element; the model computes
the size of the buffer the code *offers* to that call.  A reader past the end of its script returns `Ok(0)`
(end of file); a writer past the end of its script accepts the whole offered buffer.

Environment: the capacity a `Vec` has after `reserve`/`extend_from_slice` had to grow is an input (`caps`, consumed
in order), constrained only by `cap' ≥ needed` (smaller/missing choices are raised to `needed`, so every list of
naturals is a legal environment).

Conventions: bytes are `Nat`; `usize` arithmetic never overflows here (all sizes are bounded by a `Vec`
capacity ≤ isize::MAX) but every *subtraction*, slice index and `assert!` of the Rust code is an explicit `panic`
outcome with its site; `unsafe` obligations (`assume_init`, `slice_assume_init_mut`, `set_len`) are checked against
ghost state (`ginit` = how many bytes of the spare capacity are really initialised) and recorded in `unsound`.
-/
namespace TinyVerif.Io

abbrev EINTR : Nat := 4
/-- `buf.reserve(32)` -/
abbrev GROW : Nat := 32
/-- `let mut probe = [0u8; 32]` -/
abbrev PROBE : Nat := 32

/-- panic sites (Rust `assert!`, slice indexing, debug-mode `usize` subtraction) -/
inductive Site where
  | remainingSub        -- ReadBuf::remaining: capacity - filled
  | initUnfilledAssert  -- assert!(self.remaining() >= n)
  | extraInitSub        -- self.initialized - self.filled
  | uninitSlice         -- &mut self.buf[self.initialized..]
  | uninitRange         -- [0..uninit] of that
  | initMutSlice        -- &mut self.buf[0..self.initialized]
  | unfilledRange       -- [filled..filled + n]
  | setFilledAssert     -- assert!(n <= self.initialized)
  | carrySub            -- initialized_len() - filled_len()
  | spareSub            -- Vec invariant len <= cap (spare_capacity_mut)
  | retSub              -- buf.len() - start_len
  | probeSlice          -- &probe[..n]
  | guardSlice          -- &g.buf[g.len..]
  | readExactSlice      -- &mut tmp[n..]
  | writeAllSlice       -- &buf[n..]
  | scriptEnd           -- model artefact: cannot happen (a step on `eof` always stops)
  deriving DecidableEq, Repr

/-- `tiny_std::Error` as far as these helpers can tell values apart -/
inductive IoErr where
  | os (e : Nat)        -- Error::Os { code } coming from the reader / writer
  | user                -- Error::Uncategorized coming from the reader / writer
  | unexpectedEof       -- "Failed to fill whole buffer"
  | writeZero           -- "failed to write whole buffer"
  | invalidUtf8         -- "Stream did not contain valid UTF-8"
  | formatter           -- "formatter error"
  deriving DecidableEq, Repr

inductive Res (α : Type) where
  | ok (a : α)
  | err (e : IoErr)
  | panic (s : Site)
  deriving DecidableEq, Repr

inductive P (α : Type) where
  | ok (a : α)
  | panic (s : Site)

/-- one response of the scripted reader -/
inductive RResp where
  | data (bs : List Nat)   -- Ok(bs.len()) after writing bs to the front of the offered buffer
  | eof                    -- Ok(0)
  | eintr                  -- Err(Os EINTR)
  | err (e : Nat)          -- Err(Os e)
  | uerr                   -- Err(Uncategorized)
  deriving DecidableEq, Repr

/-! ## ReadBuf (read_buf.rs) -/

structure ReadBuf where
  cap : Nat             -- self.buf.len()
  filled : Nat
  init : Nat            -- `initialized`
  ginit : Nat           -- ghost: length of the really initialised prefix of `buf`
  unsound : Bool        -- ghost: an `unsafe` obligation was violated
  deriving Repr

def ReadBuf.uninit (cap ginit : Nat) : ReadBuf := ⟨cap, 0, 0, ginit, false⟩

def ReadBuf.remaining (b : ReadBuf) : P Nat :=
  if b.filled ≤ b.cap then .ok (b.cap - b.filled) else .panic .remainingSub

/-- `unsafe fn assume_init(n)`; obligation: the first `n` unfilled bytes are initialised -/
def ReadBuf.assumeInit (b : ReadBuf) (n : Nat) : ReadBuf :=
  { b with init := max b.init (b.filled + n),
           unsound := b.unsound || (n != 0 && decide (b.ginit < b.filled + n)) }

/-- `initialize_unfilled_to(n)`: the returned slice has length `n` -/
def ReadBuf.initializeUnfilledTo (b : ReadBuf) (n : Nat) : P ReadBuf :=
  match b.remaining with
  | .panic s => .panic s
  | .ok rem =>
    if rem < n then .panic .initUnfilledAssert else
    if b.init < b.filled then .panic .extraInitSub else
    let extra := b.init - b.filled
    let r : P ReadBuf :=
      if n > extra then
        let un := n - extra
        if b.cap < b.init then .panic .uninitSlice else
        if b.cap - b.init < un then .panic .uninitRange else
        -- zero bytes [init, init + un)
        let b1 := { b with ginit := if b.init ≤ b.ginit then max b.ginit (b.init + un) else b.ginit }
        .ok (b1.assumeInit n)
      else .ok b
    match r with
    | .panic s => .panic s
    | .ok b2 =>
      -- &mut self.initialized_mut()[filled..filled + n]
      if b2.cap < b2.init then .panic .initMutSlice else
      if b2.init < b2.filled + n then .panic .unfilledRange else
      .ok { b2 with unsound := b2.unsound || decide (b2.ginit < b2.init) }

/-- `initialize_unfilled()`: returns the size of the slice handed to the reader and the new state -/
def ReadBuf.initializeUnfilled (b : ReadBuf) : P (Nat × ReadBuf) :=
  match b.remaining with
  | .panic s => .panic s
  | .ok n =>
    match b.initializeUnfilledTo n with
    | .panic s => .panic s
    | .ok b' => .ok (n, b')

def ReadBuf.setFilled (b : ReadBuf) (n : Nat) : P ReadBuf :=
  if n ≤ b.init then .ok { b with filled := n } else .panic .setFilledAssert

def ReadBuf.addFilled (b : ReadBuf) (n : Nat) : P ReadBuf := b.setFilled (b.filled + n)

/-! ## default_read_to_end -/

/-- environment: capacity after a growth that needs at least `need` -/
def pick : List Nat → Nat → Nat × List Nat
  | [], need => (need, [])
  | c :: cs, need => (max c need, cs)

structure St where
  buf : List Nat        -- the Vec's contents (len = buf.length)
  cap : Nat             -- buf.capacity()
  carry : Nat           -- the local `initialized`
  ginit : Nat           -- ghost: really initialised bytes of the spare capacity
  caps : List Nat       -- environment choices not yet used
  grown : List Nat      -- capacities chosen so far, newest first
  deriving Repr

structure Call where
  probe : Bool
  offered : Nat
  carry : Nat           -- how many leading bytes of the offered buffer were carried over un-zeroed
  deriving Repr, DecidableEq

inductive Step where
  | stop (res : Res Nat) (s : St) (c : Option Call) (unsound : Bool)
  | next (probe : Bool) (s : St) (c : Call) (unsound : Bool)

/-- `Ok(buf.len() - start_len)` -/
def retOk (startLen : Nat) (s : St) (c : Option Call) (u : Bool) : Step :=
  if s.buf.length < startLen then .stop (.panic .retSub) s c u
  else .stop (.ok (s.buf.length - startLen)) s c u

/-- `if buf.len() == buf.capacity() { buf.reserve(32) }` -/
def growIfFull (s : St) : St :=
  if s.buf.length == s.cap then
    let p := pick s.caps (s.buf.length + GROW)
    { s with cap := p.1, caps := p.2, ginit := 0, grown := p.1 :: s.grown }
  else s

/-- what happens once the reader's answer to a main read is `Ok(bs.len())` -/
def mainData (startLen startCap : Nat) (s1 : St) (rb1 : ReadBuf) (call : Call) (bs : List Nat) : Step :=
  let s2 : St := { s1 with ginit := rb1.ginit }
  -- default_read_buf: buf.add_filled(n)
  match rb1.addFilled bs.length with
  | .panic site => .stop (.panic site) s2 (some call) rb1.unsound
  | .ok rb2 =>
    if rb2.filled == 0 then retOk startLen s2 (some call) rb2.unsound else
    if rb2.init < rb2.filled then .stop (.panic .carrySub) s2 (some call) rb2.unsound else
    let newLen := rb2.filled + s1.buf.length
    -- unsafe { buf.set_len(new_len) }: new_len <= capacity and the bytes are initialised
    let u := rb2.unsound || decide (s1.cap < newLen) || decide (rb2.ginit < rb2.filled)
    let s3 : St := { s1 with buf := s1.buf ++ bs, carry := rb2.init - rb2.filled, ginit := rb2.ginit - rb2.filled }
    .next (newLen == s1.cap && s1.cap == startCap) s3 call u

/-- the rest of one iteration of the outer `loop`, up to (not including) the probe block -/
def mainRead (startLen startCap : Nat) (s1 : St) (r : RResp) : Step :=
  if s1.cap < s1.buf.length then .stop (.panic .spareSub) s1 none false else
  -- ReadBuf::uninit(buf.spare_capacity_mut()); read_buf.assume_init(initialized)
  let rb0 := (ReadBuf.uninit (s1.cap - s1.buf.length) s1.ginit).assumeInit s1.carry
  -- default_read_buf: read(buf.initialize_unfilled())
  match rb0.initializeUnfilled with
  | .panic site => .stop (.panic site) s1 none rb0.unsound
  | .ok (offered, rb1) =>
    let call : Call := ⟨false, offered, s1.carry⟩
    let s2 : St := { s1 with ginit := rb1.ginit }
    match r with
    | .data bs => mainData startLen startCap s1 rb1 call bs
    | .eof => mainData startLen startCap s1 rb1 call []
    | .eintr => .next false s2 call rb1.unsound
    | .err e => if e == EINTR then .next false s2 call rb1.unsound else .stop (.err (.os e)) s2 (some call) rb1.unsound
    | .uerr => .stop (.err .user) s2 (some call) rb1.unsound

def mainStep (startLen startCap : Nat) (s : St) (r : RResp) : Step :=
  mainRead startLen startCap (growIfFull s) r

/-- what happens once the reader's answer to a probe read is `Ok(bs.len())` -/
def probeData (startLen : Nat) (s : St) (call : Call) (bs : List Nat) : Step :=
  if bs.length == 0 then retOk startLen s (some call) false else
  if PROBE < bs.length then .stop (.panic .probeSlice) s (some call) false else
  if s.cap < s.buf.length then .stop (.panic .spareSub) s (some call) false else
  -- buf.extend_from_slice(&probe[..n]): grows iff capacity - len < n
  let s1 : St :=
    if s.cap - s.buf.length < bs.length then
      let p := pick s.caps (s.buf.length + bs.length)
      { s with buf := s.buf ++ bs, cap := p.1, caps := p.2, ginit := 0, grown := p.1 :: s.grown }
    else { s with buf := s.buf ++ bs, ginit := max s.ginit bs.length - bs.length }
  .next false s1 call false

/-- one iteration of the inner probe `loop` -/
def probeStep (startLen : Nat) (s : St) (r : RResp) : Step :=
  let call : Call := ⟨true, PROBE, 0⟩
  match r with
  | .data bs => probeData startLen s call bs
  | .eof => probeData startLen s call []
  | .eintr => .next true s call false
  | .err e => if e == EINTR then .next true s call false else .stop (.err (.os e)) s (some call) false
  | .uerr => .stop (.err .user) s (some call) false

def step (startLen startCap : Nat) (probe : Bool) (s : St) (r : RResp) : Step :=
  if probe then probeStep startLen s r else mainStep startLen startCap s r

structure Out where
  res : Res Nat
  buf : List Nat
  cap : Nat
  log : List Call
  used : Nat            -- script elements consumed
  unsound : Bool
  grown : List Nat      -- capacities chosen, oldest first
  deriving Repr

def Out.push (o : Out) (c : Call) (u : Bool) : Out :=
  { o with log := c :: o.log, used := o.used + 1, unsound := u || o.unsound }

def optList {α : Type} : Option α → List α
  | none => []
  | some a => [a]

def rte (startLen startCap : Nat) : Bool → St → List RResp → Out
  | probe, s, [] =>
    match step startLen startCap probe s .eof with
    | .stop res s' c u => ⟨res, s'.buf, s'.cap, optList c, 0, u, s'.grown.reverse⟩
    | .next _ s' c u => ⟨.panic .scriptEnd, s'.buf, s'.cap, [c], 0, u, s'.grown.reverse⟩
  | probe, s, r :: rest =>
    match step startLen startCap probe s r with
    | .stop res s' c u => ⟨res, s'.buf, s'.cap, optList c, 1, u, s'.grown.reverse⟩
    | .next p s' c u => (rte startLen startCap p s' rest).push c u

/-- `default_read_to_end(r, buf)` with `buf = init`, `buf.capacity() = cap` -/
def readToEnd (init : List Nat) (cap : Nat) (caps : List Nat) (script : List RResp) : Out :=
  rte init.length cap false ⟨init, cap, 0, 0, caps, []⟩ script

/-- `default_read_to_string` = `append_to_string(buf, |b| default_read_to_end(r, b))`; `valid` = `str::from_utf8(..).is_ok()` -/
def readToString (valid : List Nat → Bool) (init : List Nat) (cap : Nat) (caps : List Nat) (script : List RResp) : Out :=
  let o := readToEnd init cap caps script
  match o.res with
  | .panic _ => { o with buf := o.buf.take init.length }      -- Guard::drop on unwind: set_len(g.len)
  | .ok _ =>
    if o.buf.length < init.length then { o with res := .panic .guardSlice, buf := o.buf.take init.length } else
    if valid (o.buf.drop init.length) then o
    else { o with res := .err .invalidUtf8, buf := o.buf.take init.length }
  | .err e =>
    if o.buf.length < init.length then { o with res := .panic .guardSlice, buf := o.buf.take init.length } else
    if valid (o.buf.drop init.length) then o
    else { o with res := .err e, buf := o.buf.take init.length }

/-! ## default_read_exact -/

structure XOut where
  res : Res Unit
  written : List Nat    -- bytes stored at the front of the caller's buffer
  log : List Nat        -- offered sizes
  used : Nat
  deriving Repr

def XOut.push (o : XOut) (pre : List Nat) (off : Nat) : XOut :=
  { o with written := pre ++ o.written, log := off :: o.log, used := o.used + 1 }

/-- `n` = length of the part of the buffer not yet filled -/
def readExact : Nat → List RResp → XOut
  | 0, _ => ⟨.ok (), [], [], 0⟩
  | n + 1, [] => ⟨.err .unexpectedEof, [], [n + 1], 0⟩
  | n + 1, r :: rest =>
    match r with
    | .data bs =>
      if bs.length == 0 then ⟨.err .unexpectedEof, [], [n + 1], 1⟩
      else if n + 1 < bs.length then ⟨.panic .readExactSlice, [], [n + 1], 1⟩
      else (readExact (n + 1 - bs.length) rest).push bs (n + 1)
    | .eof => ⟨.err .unexpectedEof, [], [n + 1], 1⟩
    | .eintr => (readExact (n + 1) rest).push [] (n + 1)
    | .err e =>
      if e == EINTR then (readExact (n + 1) rest).push [] (n + 1)
      else ⟨.err (.os e), [], [n + 1], 1⟩
    | .uerr => ⟨.err .user, [], [n + 1], 1⟩

/-! ## write_all, write_fmt -/

inductive WResp where
  | accept (k : Nat)      -- Ok(k); k = 0 is the "wrote nothing" answer
  | eintr
  | err (e : Nat)
  | uerr
  deriving DecidableEq, Repr

structure WOut where
  res : Res Unit
  sink : List Nat         -- bytes the writer took, in order
  rest : List WResp       -- script not yet consumed
  log : List Nat          -- offered sizes
  used : Nat
  deriving Repr

def WOut.push (o : WOut) (pre : List Nat) (off : Nat) : WOut :=
  { o with sink := pre ++ o.sink, log := off :: o.log, used := o.used + 1 }

def writeAll : List Nat → List WResp → WOut
  | [], script => ⟨.ok (), [], script, [], 0⟩
  | b :: bs, [] => ⟨.ok (), b :: bs, [], [(b :: bs).length], 0⟩
  | b :: bs, r :: rest =>
    let data := b :: bs
    match r with
    | .accept k =>
      if k == 0 then ⟨.err .writeZero, [], rest, [data.length], 1⟩
      else if data.length < k then ⟨.panic .writeAllSlice, data, rest, [data.length], 1⟩
      else (writeAll (data.drop k) rest).push (data.take k) data.length
    | .eintr => (writeAll data rest).push [] data.length
    | .err e =>
      if e == EINTR then (writeAll data rest).push [] data.length
      else ⟨.err (.os e), [], rest, [data.length], 1⟩
    | .uerr => ⟨.err .user, [], rest, [data.length], 1⟩

/-- what `fmt::write` does with the arguments: a sequence of `write_str` calls, or a `Display` impl failing -/
inductive FmtItem where
  | str (bs : List Nat)
  | fail
  deriving DecidableEq, Repr

def WOut.after (first : WOut) (o : WOut) : WOut :=
  { o with sink := first.sink ++ o.sink, log := first.log ++ o.log, used := first.used + o.used }

def writeFmt : List FmtItem → List WResp → WOut
  | [], script => ⟨.ok (), [], script, [], 0⟩
  | .fail :: _, script => ⟨.err .formatter, [], script, [], 0⟩
  | .str bs :: items, script =>
    let o := writeAll bs script
    match o.res with
    | .ok _ => o.after (writeFmt items o.rest)
    | _ => o

/-! ## unix/print.rs: `try_print`, `__UnixWriter` (`fmt::Write`), the `print!` family

`try_print(fd, msg)` is *not* `write_all`: it always issues at least one `write` (also for an empty `msg`) and maps
every error — EINTR included — to `fmt::Error` (no retry).  When the kernel answers `0` it returns `Ok(())` only if
nothing was left to write (`flushed >= len`: the zero-length write of an empty piece) and `Err(fmt::Error)` otherwise
(since the `fix:` commit e1fd457; the body before it is `Legacy.tryPrint` below).  A kernel answer larger than what
was offered (cannot happen) ends the loop through `flushed >= len`; there is no slice index that could panic.  The
responses are those of the `write` system call (`uerr` cannot occur; it is treated like any error to keep the
function total).  `data` is the part of the piece not yet flushed (`&buf[flushed..]`), so `flushed >= len` is
`data.length = 0`. -/

def tryPrint (data : List Nat) : List WResp → WOut
  | [] => ⟨.ok (), data, [], [data.length], 0⟩
  | r :: rest =>
    match r with
    | .accept k =>
      if k == 0 then
        if data.length == 0 then ⟨.ok (), [], rest, [data.length], 1⟩
        else ⟨.err .formatter, [], rest, [data.length], 1⟩
      else if data.length ≤ k then ⟨.ok (), data, rest, [data.length], 1⟩
      else (tryPrint (data.drop k) rest).push (data.take k) data.length
    | _ => ⟨.err .formatter, [], rest, [data.length], 1⟩

/-- `fmt::write(&mut __UnixWriter, args)`: one `write_str` = one `try_print` per piece, stops at the first error -/
def printFmt : List FmtItem → List WResp → WOut
  | [], script => ⟨.ok (), [], script, [], 0⟩
  | .fail :: _, script => ⟨.err .formatter, [], script, [], 0⟩
  | .str bs :: items, script =>
    let o := tryPrint bs script
    match o.res with
    | .ok _ => o.after (printFmt items o.rest)
    | _ => o

/-- the `\n` of `println!`/`eprintln!` (`__write_newline`) -/
abbrev NL : List Nat := [10]

/-- one expansion of `print!`/`eprint!` (`ln = false`) or `println!`/`eprintln!` (`ln = true`):
`let _ = write_fmt(..); let _ = __write_newline();` — the newline is attempted whatever the first result was.
`res` is the result of the last statement (the macro discards both). -/
def printMacro (ln : Bool) (items : List FmtItem) (script : List WResp) : WOut :=
  let o := printFmt items script
  if ln then o.after (tryPrint NL o.rest) else o

/-- several expansions one after the other on the same descriptor (`dbg!(a, b)` = two `eprintln!`) -/
def printSeq : List (Bool × List FmtItem) → List WResp → WOut
  | [], script => ⟨.ok (), [], script, [], 0⟩
  | (ln, items) :: more, script =>
    let o := printMacro ln items script
    o.after (printSeq more o.rest)

/-! ### the code before the fix e1fd457

`try_print` returned `Ok(())` as soon as the kernel answered `0`, whatever was left of the piece: the rest of the
piece was dropped and `fmt::write` went on with the following pieces (Props/C15 `print_zero_return_loses_bytes`). -/
namespace Legacy

def tryPrint (data : List Nat) : List WResp → WOut
  | [] => ⟨.ok (), data, [], [data.length], 0⟩
  | r :: rest =>
    match r with
    | .accept k =>
      if k == 0 then ⟨.ok (), [], rest, [data.length], 1⟩
      else if data.length ≤ k then ⟨.ok (), data, rest, [data.length], 1⟩
      else (tryPrint (data.drop k) rest).push (data.take k) data.length
    | _ => ⟨.err .formatter, [], rest, [data.length], 1⟩

def printFmt : List FmtItem → List WResp → WOut
  | [], script => ⟨.ok (), [], script, [], 0⟩
  | .fail :: _, script => ⟨.err .formatter, [], script, [], 0⟩
  | .str bs :: items, script =>
    let o := tryPrint bs script
    match o.res with
    | .ok _ => o.after (printFmt items o.rest)
    | _ => o

def printMacro (ln : Bool) (items : List FmtItem) (script : List WResp) : WOut :=
  let o := printFmt items script
  if ln then o.after (tryPrint NL o.rest) else o

end Legacy

/-- deterministic printable-ASCII content of length `len` (test-data generator shared with the harness) -/
def genBytes (len seed : Nat) : List Nat :=
  (List.range len).map fun i => 33 + (seed + i + i / 94) % 94

/-- the compile-time literal segments of the harness' templates: `"0123456789abcdef"` repeated, cut at `n` -/
def cycBytes (n : Nat) : List Nat :=
  (List.range n).map fun i => let d := i % 16; if d < 10 then 48 + d else 87 + d

/-! ## UTF-8 validity as `core::str::from_utf8` decides it (used by the driver; the theorems take `valid` abstractly) -/

def isCont (b : Nat) : Bool := 0x80 ≤ b && b ≤ 0xBF

/-- consume one scalar value -/
def utf8Step : List Nat → Option (List Nat)
  | [] => none
  | a :: t =>
    if a < 0x80 then some t
    else if 0xC2 ≤ a && a ≤ 0xDF then
      match t with
      | b :: t' => if isCont b then some t' else none
      | _ => none
    else if 0xE0 ≤ a && a ≤ 0xEF then
      match t with
      | b :: c :: t' =>
        let okb := if a == 0xE0 then 0xA0 ≤ b && b ≤ 0xBF else if a == 0xED then 0x80 ≤ b && b ≤ 0x9F else isCont b
        if okb && isCont c then some t' else none
      | _ => none
    else if 0xF0 ≤ a && a ≤ 0xF4 then
      match t with
      | b :: c :: d :: t' =>
        let okb := if a == 0xF0 then 0x90 ≤ b && b ≤ 0xBF else if a == 0xF4 then 0x80 ≤ b && b ≤ 0x8F else isCont b
        if okb && isCont c && isCont d then some t' else none
      | _ => none
    else none

def utf8Go : Nat → List Nat → Bool
  | _, [] => true
  | 0, _ :: _ => false
  | f + 1, a :: t =>
    match utf8Step (a :: t) with
    | some t' => utf8Go f t'
    | none => false

def utf8Valid (l : List Nat) : Bool := utf8Go l.length l

end TinyVerif.Io
