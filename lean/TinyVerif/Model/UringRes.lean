/-
C18: `setup_io_uring` + `IoUring::drop` of rusl as a resource script (what is acquired, what is
released), for every answer of the kernel and every failing mmap.  Import-free.
`Code.fixed` = the code as it is now; `Code.orig` = before the C18 repairs (Drop unmapped the
completion ring unconditionally; no clean-up on the error paths of setup).
-/
namespace TinyVerif.UringRes

inductive Code where
  | orig
  | fixed
  deriving DecidableEq, Repr

/-- what io_uring_setup answered (as far as setup_io_uring uses it) -/
structure Ans where
  sqEntries : Nat
  cqEntries : Nat
  sqArray : Nat      -- sq_off.array
  cqCqes : Nat       -- cq_off.cqes
  single : Bool      -- IORING_FEAT_SINGLE_MMAP reported
  deriving Repr

inductive Ev where
  | S                       -- io_uring_setup succeeded: ring fd acquired
  | M (id len off : Nat)    -- mmap succeeded: mapping `id` of `len` bytes acquired
  | ME (len off : Nat)      -- mmap failed
  | bar                     -- setup returned; what follows is Drop
  | U (id len : Nat)        -- munmap of mapping `id`, `len` bytes
  | C                       -- close(ring fd)
  deriving DecidableEq, Repr

def sqRingSz (a : Ans) : Nat := a.sqArray + a.sqEntries * 4
def cqRingSz (flags : Nat) (a : Ans) : Nat := a.cqCqes + a.cqEntries * (if flags / 2048 % 2 = 1 then 32 else 16)
def sqesSz (flags : Nat) (a : Ans) : Nat := (if flags / 1024 % 2 = 1 then 128 else 64) * a.sqEntries
/-- with SINGLE_MMAP both ring sizes become the larger one -/
def ringSz (flags : Nat) (a : Ans) : Nat × Nat :=
  if a.single then
    (if cqRingSz flags a > sqRingSz a then (cqRingSz flags a, cqRingSz flags a) else (sqRingSz a, sqRingSz a))
  else (sqRingSz a, cqRingSz flags a)

abbrev OFF_SQ : Nat := 0
abbrev OFF_CQ : Nat := 134217728
abbrev OFF_SQES : Nat := 268435456

/-- clean-up on an error path of setup: nothing before the repair; the guard's Drop after it -/
def bail (cd : Code) (maps : List (Nat × Nat)) : List Ev :=
  match cd with
  | .orig => []
  | .fixed => maps.map (fun m => Ev.U m.1 m.2) ++ [Ev.C]

/-- `fail = some k`: the k-th mmap (0-based) fails.  Result: (setup returned Ok, events) -/
def script (cd : Code) (flags : Nat) (a : Ans) (fail : Option Nat) : Bool × List Ev :=
  let sq := (ringSz flags a).1
  let cq := (ringSz flags a).2
  let es := sqesSz flags a
  if fail = some 0 then (false, [.S, .ME sq OFF_SQ] ++ bail cd [] ++ [.bar])
  else if a.single then
    if fail = some 1 then (false, [.S, .M 1 sq OFF_SQ, .ME es OFF_SQES] ++ bail cd [(1, sq)] ++ [.bar])
    else
      (true, [.S, .M 1 sq OFF_SQ, .M 2 es OFF_SQES, .bar, .U 2 es, .U 1 sq] ++
        (match cd with | .orig => [.U 1 cq] | .fixed => []) ++ [.C])
  else
    if fail = some 1 then (false, [.S, .M 1 sq OFF_SQ, .ME cq OFF_CQ] ++ bail cd [(1, sq)] ++ [.bar])
    else if fail = some 2 then
      (false, [.S, .M 1 sq OFF_SQ, .M 2 cq OFF_CQ, .ME es OFF_SQES] ++ bail cd [(1, sq), (2, cq)] ++ [.bar])
    else
      (true, [.S, .M 1 sq OFF_SQ, .M 2 cq OFF_CQ, .M 3 es OFF_SQES, .bar, .U 3 es, .U 1 sq, .U 2 cq, .C])

def acquired : List Ev → List (Nat × Nat)
  | [] => []
  | .M id len _ :: r => (id, len) :: acquired r
  | _ :: r => acquired r

def released : List Ev → List (Nat × Nat)
  | [] => []
  | .U id len :: r => (id, len) :: released r
  | _ :: r => released r

def countEv (e : Ev) (l : List Ev) : Nat := (l.filter (· == e)).length

/-- every mapping acquired is released exactly once with its own length, nothing else is unmapped,
and the ring fd is closed exactly once iff it was obtained -/
def balanced (evs : List Ev) : Bool :=
  (acquired evs ++ released evs).all (fun m => (acquired evs).count m == 1 && (released evs).count m == 1) &&
  countEv .S evs == countEv .C evs

end TinyVerif.UringRes
