/-
Model of tiny-std/src/sync/rwlock.rs (C02).  Import-free.

Same style as `Model/Mutex.lean`: a small-step system for an arbitrary number `n` of threads at the
granularity of single atomic operations and futex calls; the environment's choices (value seen by a
relaxed load, spurious weak-CAS failure, which waiter a wake releases, spurious futex returns) are part
of each event.

Two atomic words: `state` (bits 0..29 reader count or `WRITE_LOCKED` = all ones, bit 30 readers waiting,
bit 31 writers waiting) and `writer_notify` (sequence counter).

Visibility.  Every write to `state` is an RMW, so its message views form one chain (release sequences):
"the view released with the latest message of `state`" is summarised by `wseen` = how many guard
releases (unlocks) it has synchronised with; `nrel` counts all releases so far and `lastWrel` the index of
the latest *write*-guard release.  A thread's `seen` is joined with `wseen` by every Acquire RMW.  A guarded
write races unless its thread has seen every release so far; a guarded read races unless it has seen the
latest write-guard release.
-/
namespace TinyVerif.RwLock
set_option linter.unusedVariables false

abbrev MASK : Nat := 1073741823          -- (1 << 30) - 1
abbrev WRITE_LOCKED : Nat := 1073741823
abbrev MAX_READERS : Nat := 1073741822
abbrev RW : Nat := 1073741824            -- READERS_WAITING = 1 << 30
abbrev WW : Nat := 2147483648            -- WRITERS_WAITING = 1 << 31
abbrev TWO32 : Nat := 4294967296

def cnt (s : Nat) : Nat := s % RW
def hasRW (s : Nat) : Bool := s / RW % 2 == 1
def hasWW (s : Nat) : Bool := s / WW % 2 == 1
def isUnlocked (s : Nat) : Bool := cnt s == 0
def isWriteLocked (s : Nat) : Bool := cnt s == WRITE_LOCKED
def isReadLockable (s : Nat) : Bool := decide (cnt s < MAX_READERS) && !hasRW s && !hasWW s
def reachedMax (s : Nat) : Bool := cnt s == MAX_READERS
def orRW (s : Nat) : Nat := if hasRW s then s else s + RW
def orWW (s : Nat) : Nat := if hasWW s then s else s + WW
/-- `state | WRITE_LOCKED | oww` for an unlocked `state` -/
def orWL (s : Nat) (oww : Bool) : Nat :=
  let s1 := s - cnt s + WRITE_LOCKED
  if oww then orWW s1 else s1
/-- u32 wrapping subtraction / addition -/
def wsub (a b : Nat) : Nat := (TWO32 + a - b % TWO32) % TWO32
def wadd (a b : Nat) : Nat := (a + b) % TWO32

inductive Kind where | read | write | tryRead | tryWrite
  deriving Repr, DecidableEq

def Kind.excl : Kind → Bool
  | .write | .tryWrite => true
  | _ => false

structure Txn where
  kind : Kind
  acc : Nat
  deriving Repr, DecidableEq

inductive Pc where
  | idle
  -- read()
  | rLoad
  | rFastCas (st : Nat)
  | rSpin (n : Nat)
  | rCas (st : Nat)
  | rSetWait (st : Nat)
  | rWaitLoad (e : Nat)
  | rWaitSys (e : Nat)
  | rParked (e : Nat)
  -- try_read / try_write (fetch_update = load + weak-CAS loop)
  | tLoad (w : Bool)
  | tCas (w : Bool) (st : Nat)
  | tryFailed
  -- write()
  | wFastCas
  | wSpin (n : Nat) (oww : Bool)
  | wCas (st : Nat) (oww : Bool)
  | wSetWait (st : Nat) (oww : Bool)
  | wSeqLoad
  | wStateLoad (seq : Nat)
  | wWaitLoad (seq : Nat)
  | wWaitSys (seq : Nat)
  | wParked (seq : Nat)
  -- guard
  | acquired (w : Bool)
  | hold (w : Bool) (k : Nat)
  | unlock (w : Bool)
  -- wake_writer_or_readers
  | kCasA (st : Nat)          -- state == WW: cas(st, 0)
  | kCasB (st : Nat)          -- state == RW+WW: cas(st, RW)
  | kNotify (fallback : Bool) -- wake_writer: fetch_add(1, Release) on writer_notify
  | kWakeW (fallback : Bool)  -- futex_wake(&writer_notify, 1)
  | kCasC                      -- state == RW: cas(RW, 0)
  | kWakeR                     -- futex_wake(&state, i32::MAX)
  | panicked
  deriving Repr, DecidableEq

structure Th where
  pc : Pc
  seen : Nat
  prog : List Txn
  deriving Repr

/-- which sites have acquire / release semantics (from the regenerated table) -/
structure Cfg where
  readAcq : Bool       -- every reader-acquiring CAS (read fast path, read_contended, try_read)
  writeAcq : Bool      -- every writer-acquiring CAS (write fast path, write_contended, try_write)
  readRel : Bool       -- read_unlock fetch_sub
  writeRel : Bool      -- write_unlock fetch_sub
  spinMax : Nat
  deriving Repr, DecidableEq

structure St where
  n : Nat
  state : Nat
  notify : Nat
  wseen : Nat
  nrel : Nat
  lastWrel : Nat
  raced : Bool
  ths : Nat → Th

inductive CasRes where
  | ok
  | fail (old : Nat)
  | spur (old : Nat)     -- weak CAS failed although the value matched
  deriving Repr, DecidableEq

inductive Ev where
  | call (k : Kind) | acq | rel | tryfail | data
  | load (loc : Nat) (v : Nat)
  | cas (loc : Nat) (weak : Bool) (exp new : Nat) (r : CasRes)
  | fsub (loc : Nat) (v old : Nat)
  | fadd (loc : Nat) (v old : Nat)
  | fwait (loc : Nat) (expect : Nat) (park : Bool)
  | fwake (loc : Nat) (num : Nat) (woken : List Nat)
  | spur (eintr : Bool)
  deriving Repr, DecidableEq

def setTh (s : St) (i : Nat) (t : Th) : St :=
  { s with ths := fun j => if j = i then t else s.ths j }

def setPc (s : St) (i : Nat) (pc : Pc) : St :=
  setTh s i { s.ths i with pc := pc }

/-- next pc of `read_contended`'s loop for local `state = st` (decisions without memory effect) -/
def rNext (st : Nat) : Pc :=
  if isReadLockable st then .rCas st
  else if reachedMax st then .panicked
  else if !hasRW st then .rSetWait st
  else .rWaitLoad (orRW st)

/-- next pc of `write_contended`'s loop -/
def wNext (st : Nat) (oww : Bool) : Pc :=
  if isUnlocked st then .wCas st oww
  else if !hasWW st then .wSetWait st oww
  else .wSeqLoad

def spinStopR (v : Nat) : Bool := !isWriteLocked v || hasRW v || hasWW v
def spinStopW (v : Nat) : Bool := isUnlocked v || hasWW v

/-- entry of `wake_writer_or_readers(st)` (its `assert!(is_unlocked(state))` is a panic outcome) -/
def wakeEntry (st : Nat) : Pc :=
  if !isUnlocked st then .panicked
  else if st = WW then .kCasA st
  else if st = RW + WW then .kCasB st
  else if st = RW then .kCasC
  else .idle

/-- continuation of `wake_writer_or_readers` after its first `if` failed its CAS with `s` -/
def wakeAfterA (s : Nat) : Pc :=
  if s = RW + WW then .kCasB s
  else if s = RW then .kCasC
  else .idle

def popTxn (t : Th) : List Txn := t.prog.tail

/-- an RMW on `state` by thread `i`: new value, optional acquire / release -/
def rmwState (s : St) (i : Nat) (acq rel : Bool) (new : Nat) (pc' : Pc) : St :=
  let t := s.ths i
  let seen' := if acq then max t.seen s.wseen else t.seen
  -- a releasing RMW is only ever the unlock that has just become release number `s.nrel`: the word's view
  -- stays a complete prefix of the releases iff it was complete before and this one is a Release
  let wseen' := if rel ∧ s.wseen + 1 = s.nrel then s.nrel else s.wseen
  setTh { s with state := new, wseen := wseen' } i { t with pc := pc', seen := seen' }

def resOld : CasRes → Nat → Nat
  | .ok, exp => exp
  | .fail o, _ => o
  | .spur o, _ => o

/-- is the reported CAS outcome consistent with the current value? -/
def casConsistent (cur exp : Nat) (weak : Bool) : CasRes → Bool
  | .ok => cur == exp
  | .fail o => o == cur && cur != exp
  | .spur o => weak && o == cur

def parkedOn (t : Th) (loc : Nat) : Bool :=
  match t.pc with
  | .rParked _ => loc == 0
  | .wParked _ => loc == 1
  | _ => false

def isParked (t : Th) : Bool := parkedOn t 0 || parkedOn t 1

def parkedList (s : St) (loc : Nat) : List Nat := (List.range s.n).filter (fun j => parkedOn (s.ths j) loc)

/-- where a released waiter resumes (its spin loop) -/
def wokenPc (c : Cfg) : Pc → Pc
  | .rParked _ => .rSpin c.spinMax
  | .wParked _ => .wSpin c.spinMax true
  | p => p

def wakeOne (c : Cfg) (s : St) (j : Nat) : St :=
  setTh s j { s.ths j with pc := wokenPc c (s.ths j).pc }

/-- release the listed waiters (they resume in their spin loop) -/
def wakeAll (c : Cfg) (s : St) : List Nat → St
  | [] => s
  | j :: rest => wakeAll c (wakeOne c s j) rest

def holdsR (t : Th) : Bool :=
  match t.pc with
  | .acquired false | .hold false _ | .unlock false => true
  | _ => false

def holdsW (t : Th) : Bool :=
  match t.pc with
  | .acquired true | .hold true _ | .unlock true => true
  | _ => false

def step_idle (c : Cfg) (s : St) (i : Nat) (t : Th)  (e : Ev) : Option St :=
  match e with
  | .call k =>
      match t.prog with
      | tx :: _ =>
          if tx.kind ≠ k then none else
          some (setPc s i (match k with
            | .read => .rLoad | .write => .wFastCas | .tryRead => .tLoad false | .tryWrite => .tLoad true))
      | [] => none
  | _ => none

def step_rLoad (c : Cfg) (s : St) (i : Nat) (t : Th)  (e : Ev) : Option St :=
  match e with
  | .load 0 v =>
      some (setPc s i (if isReadLockable v then .rFastCas v else .rSpin c.spinMax))
  | _ => none

def step_rFastCas (c : Cfg) (s : St) (i : Nat) (t : Th) (st : Nat) (e : Ev) : Option St :=
  match e with
  | .cas 0 true exp new r =>
      if exp ≠ st ∨ new ≠ st + 1 ∨ !casConsistent s.state exp true r then none else
      match r with
      | .ok => some (rmwState s i c.readAcq false new (.acquired false))
      | _ => some (setPc s i (.rSpin c.spinMax))
  | _ => none

def step_rSpin (c : Cfg) (s : St) (i : Nat) (t : Th) (n : Nat) (e : Ev) : Option St :=
  match e with
  | .load 0 v =>
      some (setPc s i (if spinStopR v ∨ n = 0 then rNext v else .rSpin (n - 1)))
  | _ => none

def step_rCas (c : Cfg) (s : St) (i : Nat) (t : Th) (st : Nat) (e : Ev) : Option St :=
  match e with
  | .cas 0 true exp new r =>
      if exp ≠ st ∨ new ≠ st + 1 ∨ !casConsistent s.state exp true r then none else
      match r with
      | .ok => some (rmwState s i c.readAcq false new (.acquired false))
      | r => some (setPc s i (rNext (resOld r exp)))
  | _ => none

def step_rSetWait (c : Cfg) (s : St) (i : Nat) (t : Th) (st : Nat) (e : Ev) : Option St :=
  match e with
  | .cas 0 false exp new r =>
      if exp ≠ st ∨ new ≠ orRW st ∨ !casConsistent s.state exp false r then none else
      match r with
      | .ok => some (rmwState s i false false new (.rWaitLoad (orRW st)))
      | r => some (setPc s i (rNext (resOld r exp)))
  | _ => none

def step_rWaitLoad (c : Cfg) (s : St) (i : Nat) (t : Th) (ex : Nat) (e : Ev) : Option St :=
  match e with
  | .load 0 v =>
      some (setPc s i (if v ≠ ex then .rSpin c.spinMax else .rWaitSys ex))
  | _ => none

def step_rWaitSys (c : Cfg) (s : St) (i : Nat) (t : Th) (ex : Nat) (e : Ev) : Option St :=
  match e with
  | .fwait 0 expect park =>
      if expect ≠ ex then none else
      if park then (if s.state = ex then some (setPc s i (.rParked ex)) else none)
      else (if s.state = ex then none else some (setPc s i (.rSpin c.spinMax)))
  | _ => none

def step_rParked (c : Cfg) (s : St) (i : Nat) (t : Th) (ex : Nat) (e : Ev) : Option St :=
  match e with
  | .spur eintr =>
      some (setPc s i (if eintr then .rWaitLoad ex else .rSpin c.spinMax))
  | _ => none

def step_tLoad (c : Cfg) (s : St) (i : Nat) (t : Th) (w : Bool) (e : Ev) : Option St :=
  match e with
  | .load 0 v =>
      some (setPc s i (if (if w then isUnlocked v else isReadLockable v) then .tCas w v else .tryFailed))
  | _ => none

def step_tCas (c : Cfg) (s : St) (i : Nat) (t : Th) (w : Bool) (st : Nat) (e : Ev) : Option St :=
  match e with
  | .cas 0 true exp new r =>
      if exp ≠ st ∨ new ≠ (if w then st + WRITE_LOCKED else st + 1) ∨ !casConsistent s.state exp true r then none else
      match r with
      | .ok => some (rmwState s i (if w then c.writeAcq else c.readAcq) false new (.acquired w))
      | r =>
          let o := resOld r exp
          some (setPc s i (if (if w then isUnlocked o else isReadLockable o) then .tCas w o else .tryFailed))
  | _ => none

def step_tryFailed (c : Cfg) (s : St) (i : Nat) (t : Th)  (e : Ev) : Option St :=
  match e with
  | .tryfail =>
      some (setTh s i { t with pc := .idle, prog := popTxn t })
  | _ => none

def step_wFastCas (c : Cfg) (s : St) (i : Nat) (t : Th)  (e : Ev) : Option St :=
  match e with
  | .cas 0 true exp new r =>
      if exp ≠ 0 ∨ new ≠ WRITE_LOCKED ∨ !casConsistent s.state exp true r then none else
      match r with
      | .ok => some (rmwState s i c.writeAcq false new (.acquired true))
      | _ => some (setPc s i (.wSpin c.spinMax false))
  | _ => none

def step_wSpin (c : Cfg) (s : St) (i : Nat) (t : Th) (n : Nat) (oww : Bool) (e : Ev) : Option St :=
  match e with
  | .load 0 v =>
      some (setPc s i (if spinStopW v ∨ n = 0 then wNext v oww else .wSpin (n - 1) oww))
  | _ => none

def step_wCas (c : Cfg) (s : St) (i : Nat) (t : Th) (st : Nat) (oww : Bool) (e : Ev) : Option St :=
  match e with
  | .cas 0 true exp new r =>
      if exp ≠ st ∨ new ≠ orWL st oww ∨ !casConsistent s.state exp true r then none else
      match r with
      | .ok => some (rmwState s i c.writeAcq false new (.acquired true))
      | r => some (setPc s i (wNext (resOld r exp) oww))
  | _ => none

def step_wSetWait (c : Cfg) (s : St) (i : Nat) (t : Th) (st : Nat) (oww : Bool) (e : Ev) : Option St :=
  match e with
  | .cas 0 false exp new r =>
      if exp ≠ st ∨ new ≠ orWW st ∨ !casConsistent s.state exp false r then none else
      match r with
      | .ok => some (rmwState s i false false new .wSeqLoad)
      | r => some (setPc s i (wNext (resOld r exp) oww))
  | _ => none

def step_wSeqLoad (c : Cfg) (s : St) (i : Nat) (t : Th)  (e : Ev) : Option St :=
  match e with
  | .load 1 v =>
      some (setPc s i (.wStateLoad v))
  | _ => none

def step_wStateLoad (c : Cfg) (s : St) (i : Nat) (t : Th) (seq : Nat) (e : Ev) : Option St :=
  match e with
  | .load 0 v =>
      some (setPc s i (if isUnlocked v ∨ !hasWW v then wNext v true else .wWaitLoad seq))
  | _ => none

def step_wWaitLoad (c : Cfg) (s : St) (i : Nat) (t : Th) (seq : Nat) (e : Ev) : Option St :=
  match e with
  | .load 1 v =>
      some (setPc s i (if v ≠ seq then .wSpin c.spinMax true else .wWaitSys seq))
  | _ => none

def step_wWaitSys (c : Cfg) (s : St) (i : Nat) (t : Th) (seq : Nat) (e : Ev) : Option St :=
  match e with
  | .fwait 1 expect park =>
      if expect ≠ seq then none else
      if park then (if s.notify = seq then some (setPc s i (.wParked seq)) else none)
      else (if s.notify = seq then none else some (setPc s i (.wSpin c.spinMax true)))
  | _ => none

def step_wParked (c : Cfg) (s : St) (i : Nat) (t : Th) (seq : Nat) (e : Ev) : Option St :=
  match e with
  | .spur eintr =>
      some (setPc s i (if eintr then .wWaitLoad seq else .wSpin c.spinMax true))
  | _ => none

def step_acquired (c : Cfg) (s : St) (i : Nat) (t : Th) (w : Bool) (e : Ev) : Option St :=
  match e with
  | .acq =>
      match t.prog with
      | tx :: _ => some (setPc s i (.hold w tx.acc))
      | [] => none
  | _ => none

def step_hold (c : Cfg) (s : St) (i : Nat) (t : Th) (w : Bool) (k : Nat) (e : Ev) : Option St :=
  match k, e with
  | k' + 1, .data =>      let bad := if w then decide (t.seen < s.nrel) else decide (t.seen < s.lastWrel)
      some (setPc { s with raced := s.raced || bad } i (.hold w k'))
  | 0, .rel => some (setPc s i (.unlock w))
  | _, _ => none

def step_unlock (c : Cfg) (s : St) (i : Nat) (t : Th) (w : Bool) (e : Ev) : Option St :=
  match e with
  | .fsub 0 v old =>
      if old ≠ s.state ∨ v ≠ (if w then WRITE_LOCKED else 1) then none else
      let new := wsub old v
      let s1 := { s with nrel := s.nrel + 1, lastWrel := if w then s.nrel + 1 else s.lastWrel }
      let go := if w then (hasWW new || hasRW new) else (isUnlocked new && hasWW new)
      let pc' := if go then wakeEntry new else .idle
      let t' := { t with prog := popTxn t }
      some (rmwState (setTh s1 i t') i false (if w then c.writeRel else c.readRel) new pc')
  | _ => none

def step_kCasA (c : Cfg) (s : St) (i : Nat) (t : Th) (st : Nat) (e : Ev) : Option St :=
  match e with
  | .cas 0 false exp new r =>
      if exp ≠ st ∨ new ≠ 0 ∨ !casConsistent s.state exp false r then none else
      match r with
      | .ok => some (rmwState s i false false new (.kNotify false))
      | r => some (setPc s i (wakeAfterA (resOld r exp)))
  | _ => none

def step_kCasB (c : Cfg) (s : St) (i : Nat) (t : Th) (st : Nat) (e : Ev) : Option St :=
  match e with
  | .cas 0 false exp new r =>
      if exp ≠ st ∨ new ≠ RW ∨ !casConsistent s.state exp false r then none else
      match r with
      | .ok => some (rmwState s i false false new (.kNotify true))
      | _ => some (setPc s i .idle)
  | _ => none

def step_kNotify (c : Cfg) (s : St) (i : Nat) (t : Th) (fb : Bool) (e : Ev) : Option St :=
  match e with
  | .fadd 1 v old =>
      if v ≠ 1 ∨ old ≠ s.notify then none else
      some (setPc { s with notify := wadd s.notify 1 } i (.kWakeW fb))
  | _ => none

def step_kWakeW (c : Cfg) (s : St) (i : Nat) (t : Th) (fb : Bool) (e : Ev) : Option St :=
  match e with
  | .fwake 1 num woken =>
      if num ≠ 1 then none else
      let pl := parkedList s 1
      match woken with
      | [] => if pl.isEmpty then some (setPc s i (if fb then .kCasC else .idle)) else none
      | [j] => if pl.contains j then some (setPc (wakeAll c s [j]) i .idle) else none
      | _ => none
  | _ => none

def step_kCasC (c : Cfg) (s : St) (i : Nat) (t : Th)  (e : Ev) : Option St :=
  match e with
  | .cas 0 false exp new r =>
      if exp ≠ RW ∨ new ≠ 0 ∨ !casConsistent s.state exp false r then none else
      match r with
      | .ok => some (rmwState s i false false new .kWakeR)
      | _ => some (setPc s i .idle)
  | _ => none

def step_kWakeR (c : Cfg) (s : St) (i : Nat) (t : Th)  (e : Ev) : Option St :=
  match e with
  | .fwake 0 num woken =>
      if num ≠ 2147483647 then none else
      let pl := parkedList s 0
      if woken.length ≠ pl.length ∨ !(woken.all pl.contains) ∨ !(pl.all woken.contains) then none else
      some (setPc (wakeAll c s woken) i .idle)
  | _ => none

def step (c : Cfg) (s : St) (i : Nat) (e : Ev) : Option St :=
  if i ≥ s.n then none else
  let t := s.ths i
  match t.pc with
  | .idle => step_idle c s i t  e
  | .rLoad => step_rLoad c s i t  e
  | .rFastCas st => step_rFastCas c s i t st e
  | .rSpin n => step_rSpin c s i t n e
  | .rCas st => step_rCas c s i t st e
  | .rSetWait st => step_rSetWait c s i t st e
  | .rWaitLoad ex => step_rWaitLoad c s i t ex e
  | .rWaitSys ex => step_rWaitSys c s i t ex e
  | .rParked ex => step_rParked c s i t ex e
  | .tLoad w => step_tLoad c s i t w e
  | .tCas w st => step_tCas c s i t w st e
  | .tryFailed => step_tryFailed c s i t  e
  | .wFastCas => step_wFastCas c s i t  e
  | .wSpin n oww => step_wSpin c s i t n oww e
  | .wCas st oww => step_wCas c s i t st oww e
  | .wSetWait st oww => step_wSetWait c s i t st oww e
  | .wSeqLoad => step_wSeqLoad c s i t  e
  | .wStateLoad seq => step_wStateLoad c s i t seq e
  | .wWaitLoad seq => step_wWaitLoad c s i t seq e
  | .wWaitSys seq => step_wWaitSys c s i t seq e
  | .wParked seq => step_wParked c s i t seq e
  | .acquired w => step_acquired c s i t w e
  | .hold w k => step_hold c s i t w k e
  | .unlock w => step_unlock c s i t w e
  | .kCasA st => step_kCasA c s i t st e
  | .kCasB st => step_kCasB c s i t st e
  | .kNotify fb => step_kNotify c s i t fb e
  | .kWakeW fb => step_kWakeW c s i t fb e
  | .kCasC => step_kCasC c s i t  e
  | .kWakeR => step_kWakeR c s i t  e
  | .panicked => none

def run (c : Cfg) : St → List (Nat × Ev) → Option St
  | s, [] => some s
  | s, (i, e) :: rest =>
      match step c s i e with
      | some s' => run c s' rest
      | none => none

def init (progs : List (List Txn)) : St :=
  { n := progs.length, state := 0, notify := 0, wseen := 0, nrel := 0, lastWrel := 0, raced := false,
    ths := fun i => { pc := .idle, seen := 0, prog := progs.getD i [] } }

def Cfg.Good (c : Cfg) : Prop :=
  c.readAcq = true ∧ c.writeAcq = true ∧ c.readRel = true ∧ c.writeRel = true

instance (c : Cfg) : Decidable c.Good := by unfold Cfg.Good; infer_instance

def finished (t : Th) : Bool := t.pc == .idle && t.prog.isEmpty
def enabled (t : Th) : Bool := !(isParked t) && !(finished t) && t.pc != .panicked

end TinyVerif.RwLock
