/-
C13 — Command builder and the spawn protocol.  Import-free executable model of tiny-std/src/process.rs.

(i)  Builder: `args`, and the NULL-terminated pointer vectors `argv` / `envp` kept by
     "overwrite the last slot, then push NULL".  A string is named by a number `a`; its pointer is `a+1`, NULL is 0.
     `setAt` out of bounds is the `panic` of Rust's slice indexing (`none`).
(ii) Protocol: who runs what after `fork`, what travels through the CLOEXEC pipe, what the caller returns.
     `fixed = false` is the code before the repair (child-side set-up failures `?`-returned inside the child;
     without the `start` feature `env()` dropped the variable).
-/
namespace TinyVerif.Spawn

abbrev Ptr := Nat
def ptr (a : Nat) : Ptr := a + 1

inductive Env where
  | inherit
  | none
  | provided (vars : List Nat) (envp : List Ptr)
deriving DecidableEq, Repr

structure Cmd where
  args : List Nat
  argv : List Ptr
  env : Env
deriving DecidableEq, Repr

/-- `v[i] = x` (Rust indexing: out of bounds panics) -/
def setAt : List Ptr → Nat → Ptr → Option (List Ptr)
  | [], _, _ => none
  | _ :: t, 0, x => some (x :: t)
  | h :: t, i + 1, x => (setAt t i x).map (h :: ·)

/-- `Command::new(bin)`; `start` = the crate feature (default environment Inherit, else None) -/
def new (start : Bool) (bin : Nat) : Cmd := ⟨[bin], [ptr bin, 0], if start then .inherit else .none⟩

/-- `Command::arg` -/
def arg (c : Cmd) (a : Nat) : Option Cmd :=
  (setAt c.argv c.args.length (ptr a)).map fun v => { c with args := c.args ++ [a], argv := v ++ [0] }

/-- the environment after the mode switch at the top of `Command::env` -/
def envSwitch (fixed start : Bool) : Env → Env
  | .inherit => if start then .provided [] [0] else .inherit
  | .none => if start || fixed then .provided [] [0] else .none
  | .provided v p => if start || fixed then .provided v p else .provided [] [0]

/-- `Command::env` -/
def env (fixed start : Bool) (c : Cmd) (e : Nat) : Option Cmd :=
  match envSwitch fixed start c.env with
  | .provided vars envp =>
    (setAt envp vars.length (ptr e)).map fun v => { c with env := .provided (vars ++ [e]) (v ++ [0]) }
  | m => some { c with env := m }

inductive Op where
  | arg (a : Nat)
  | args (l : List Nat)
  | env (e : Nat)
  | envs (l : List Nat)
deriving DecidableEq, Repr

def argsL : Cmd → List Nat → Option Cmd
  | c, [] => some c
  | c, a :: r => (arg c a).bind (argsL · r)

def envsL (fixed start : Bool) : Cmd → List Nat → Option Cmd
  | c, [] => some c
  | c, e :: r => (env fixed start c e).bind (envsL fixed start · r)

def apply (fixed start : Bool) (c : Cmd) : Op → Option Cmd
  | .arg a => arg c a
  | .args l => argsL c l
  | .env e => env fixed start c e
  | .envs l => envsL fixed start c l

def applyAll (fixed start : Bool) : Cmd → List Op → Option Cmd
  | c, [] => some c
  | c, o :: r => (apply fixed start c o).bind (applyAll fixed start · r)

/-- the arguments / variables a sequence of builder calls asks for, in order -/
def wantedArgs : List Op → List Nat
  | [] => []
  | .arg a :: r => a :: wantedArgs r
  | .args l :: r => l ++ wantedArgs r
  | _ :: r => wantedArgs r

def wantedEnv : List Op → List Nat
  | [] => []
  | .env e :: r => e :: wantedEnv r
  | .envs l :: r => l ++ wantedEnv r
  | _ :: r => wantedEnv r

/-- what `spawn` passes to execve as envp (`none` = the process's own environ, feature `start`) -/
def envpOf : Env → Option (List Ptr)
  | .inherit => none
  | .none => some [0]
  | .provided _ p => some p

/-! ## protocol -/

/-- one step of the forked child between `fork` and the new image -/
inductive CStep where
  | dup2 (stream : Nat)
  | chdir | setuid | setgid | setpgid
  | closure (i : Nat)
  | execve
deriving DecidableEq, Repr

structure Config where
  /-- streams that are not Inherit (0 = stdin, 1 = stdout, 2 = stderr) -/
  streams : List Nat
  cwd : Bool
  uid : Bool
  gid : Bool
  pgroup : Bool
  closures : Nat
deriving DecidableEq, Repr

def closureSteps : Nat → Nat → List CStep
  | _, 0 => []
  | i, n + 1 => .closure i :: closureSteps (i + 1) n

/-- the order of do_spawn's child branch (the gid before the uid since 925c7e5) -/
def childSteps (c : Config) : List CStep :=
  c.streams.map .dup2 ++ (if c.cwd then [.chdir] else []) ++ (if c.gid then [.setgid] else []) ++
    (if c.uid then [.setuid] else []) ++ (if c.pgroup then [.setpgid] else []) ++ closureSteps 0 c.closures ++ [.execve]

/-- child-side oracle: the index of the step that fails and its errno (`none` = an error without errno,
    only a closure can produce one) -/
abbrev CFault := Option (Nat × Option Nat)

inductive ChildEnd where
  /-- the new image runs, every step done: the configured program with the configured set-up -/
  | execd
  /-- code + footer written to the pipe, `exit(1)`; the code is the step's errno, or 0 for a failure
      without errno -/
  | reported (errno : Nat)
  /-- returned `Err` from `spawn` INSIDE the child: a second copy of the caller runs on -/
  | returned (errno : Option Nat)
deriving DecidableEq, Repr

def childRun (fixed : Bool) (steps : List CStep) : CFault → ChildEnd
  | none => .execd
  | some (k, e) =>
    if k ≥ steps.length then .execd
    else if k + 1 = steps.length || fixed then
      match e with
      | some e => .reported e
      | none => .reported 0
    else .returned e

/-- what the caller's `read` of the pipe yields in the end -/
inductive PipeMsg where
  | eof
  | msg (errno : Nat)
deriving DecidableEq, Repr

def pipeOf : ChildEnd → PipeMsg
  | .reported e => .msg e
  | _ => .eof

/-- caller-side oracle -/
structure PFault where
  /-- setup_io / pipe2 / fork fails with this errno: no child is ever created -/
  before : Option Nat
  /-- number of EINTRs the read of the pipe takes first -/
  eintr : Nat
  /-- the read fails for good (errno), instead of delivering the pipe's content -/
  readErr : Option Nat
  /-- the wait4 of the error paths fails (errno) -/
  waitErr : Option Nat
deriving DecidableEq, Repr

def PFault.none : PFault := ⟨Option.none, 0, Option.none, Option.none⟩

inductive ParentEnd where
  | ok
  /-- `code` = errno carried by the error; `reaped` = the child has been waited for -/
  | err (code : Option Nat) (reaped : Bool)
  | noChild (code : Option Nat)
deriving DecidableEq, Repr

def parentRun (pf : PFault) (msg : PipeMsg) : ParentEnd :=
  match pf.before with
  | some e => .noChild (some e)
  | Option.none =>
    match pf.readErr with
    | some _ =>
      match pf.waitErr with
      | some w => .err (some w) false
      | Option.none => .err Option.none true
    | Option.none =>
      match msg with
      | .eof => .ok
      | .msg e =>
        match pf.waitErr with
        | some w => .err (some w) false
        | Option.none => if e = 0 then .err Option.none true else .err (some e) true

/-- the processes that come back out of `spawn` -/
inductive Who where
  | caller | child
deriving DecidableEq, Repr

structure Run where
  parent : ParentEnd
  child : Option ChildEnd
deriving DecidableEq, Repr

def spawn (fixed : Bool) (c : Config) (pf : PFault) (cf : CFault) : Run :=
  match pf.before with
  | some _ => ⟨parentRun pf .eof, Option.none⟩
  | Option.none =>
    let ce := childRun fixed (childSteps c) cf
    ⟨parentRun pf (pipeOf ce), some ce⟩

def returners (r : Run) : List Who :=
  .caller :: (match r.child with
    | some (.returned _) => [.child]
    | _ => [])

/-- number of read() calls the caller makes -/
def reads (pf : PFault) : Nat := pf.eintr + 1

/-! ## (iii) the Command as a reusable builder: `spawn(&mut self)` may be called any number of times -/

/-- `Stdio` as the caller configures it.  `rawFd` is a descriptor of the caller's (its number plays no role here:
    the descriptor table is not modelled, see `NoRaw`). -/
inductive Stdio where
  | inherit | null | makePipe | rawFd
deriving DecidableEq, Repr

/-- the whole `Command`: bin/args/argv/env (`Cmd`) and every other field `spawn` reads.  cwd/uid/gid/pgroup are
    `Option`s in the code; the model keeps whether they are set.  `closures` = number of registered pre-exec
    closures (what each of them returns is the environment's answer, `CFault`). -/
structure Builder where
  cmd : Cmd
  stdin : Option Stdio
  stdout : Option Stdio
  stderr : Option Stdio
  cwd : Bool
  uid : Bool
  gid : Bool
  pgroup : Bool
  closures : Nat
deriving DecidableEq, Repr

/-- `Command::new` -/
def newB (start : Bool) (bin : Nat) : Builder :=
  ⟨new start bin, Option.none, Option.none, Option.none, false, false, false, false, 0⟩

/-- one builder call -/
inductive BOp where
  | cmd (o : Op)
  | stdin (s : Stdio) | stdout (s : Stdio) | stderr (s : Stdio)
  | cwd | uid | gid | pgroup | preExec
deriving DecidableEq, Repr

def applyB (fixed start : Bool) (b : Builder) : BOp → Option Builder
  | .cmd o => (apply fixed start b.cmd o).map fun c => { b with cmd := c }
  | .stdin s => some { b with stdin := some s }
  | .stdout s => some { b with stdout := some s }
  | .stderr s => some { b with stderr := some s }
  | .cwd => some { b with cwd := true }
  | .uid => some { b with uid := true }
  | .gid => some { b with gid := true }
  | .pgroup => some { b with pgroup := true }
  | .preExec => some { b with closures := b.closures + 1 }

def applyAllB (fixed start : Bool) : Builder → List BOp → Option Builder
  | b, [] => some b
  | b, o :: r => (applyB fixed start b o).bind (applyAllB fixed start · r)

/-- `setup_io`: a stream that was never set falls back to the default of `Command::spawn`, `Stdio::Inherit` -/
def effective : Option Stdio → Stdio
  | Option.none => .inherit
  | some s => s

/-- the three streams as the child is to have them, in slot order -/
def stdioOf (b : Builder) : List Stdio := [effective b.stdin, effective b.stdout, effective b.stderr]

def slotsNotInherit : Nat → List Stdio → List Nat
  | _, [] => []
  | i, s :: r => if s = .inherit then slotsNotInherit (i + 1) r else i :: slotsNotInherit (i + 1) r

/-- what `Command::spawn` hands to `do_spawn` (the child-side steps follow from it: `childSteps`) -/
def configOf (b : Builder) : Config :=
  ⟨slotsNotInherit 0 (stdioOf b), b.cwd, b.uid, b.gid, b.pgroup, b.closures⟩

/-- what the new image is: the vectors given to execve and the set-up it runs under -/
structure Image where
  argv : List Ptr
  envp : Option (List Ptr)
  stdio : List Stdio
  cwd : Bool
  uid : Bool
  gid : Bool
  pgroup : Bool
  closures : Nat
deriving DecidableEq, Repr

def imageOf (b : Builder) : Image :=
  ⟨b.cmd.argv, envpOf b.cmd.env, stdioOf b, b.cwd, b.uid, b.gid, b.pgroup, b.closures⟩

/-- `Child::stdin/stdout/stderr` is `Some` exactly for a MakePipe stream -/
def pipesOf (b : Builder) : List Bool := (stdioOf b).map (· = .makePipe)

/-- number of pre-exec closures the child has called when it ends (a closure that fails has been called) -/
def isClosure : CStep → Nat
  | .closure _ => 1
  | _ => 0

/-- closure steps among the steps 0..k (inclusive) -/
def closuresRunUpTo : List CStep → Nat → Nat
  | [], _ => 0
  | s :: _, 0 => isClosure s
  | s :: r, k + 1 => isClosure s + closuresRunUpTo r k

def closuresRun (steps : List CStep) : CFault → Nat
  | Option.none => closuresRunUpTo steps steps.length
  | some (k, _) => closuresRunUpTo steps k

/-- what one `spawn` call yields -/
structure Spawned where
  run : Run
  /-- the image the child executes, if it got as far as the exec -/
  image : Option Image
  /-- the pipe ends handed to the caller in `Child` (only on Ok) -/
  pipes : Option (List Bool)
  /-- pre-exec closures called in the child -/
  closuresCalled : Nat
deriving DecidableEq, Repr

/-- `Command::spawn(&mut self)`: the builder afterwards, and the outcome.  Every field is read (the streams are
    `Copy`, the closures are lent as `&mut [F]` and called only in the forked child): the Command is as before. -/
def spawnB (fixed : Bool) (b : Builder) (pf : PFault) (cf : CFault) : Builder × Spawned :=
  let r := spawn fixed (configOf b) pf cf
  (b, ⟨r,
    if r.child = some .execd then some (imageOf b) else Option.none,
    if r.parent = .ok then some (pipesOf b) else Option.none,
    match r.child with
    | Option.none => 0
    | some _ => closuresRun (childSteps (configOf b)) cf⟩)

/-- one round: further builder calls, then a spawn under this round's faults -/
structure Stage where
  ops : List BOp
  pf : PFault
  cf : CFault
deriving DecidableEq, Repr

/-- builder calls and spawns interleaved on ONE Command; `none` = an index panic in a builder call -/
def runStages (fixed start : Bool) : Builder → List Stage → Option (List Spawned)
  | _, [] => some []
  | b, s :: r =>
    (applyAllB fixed start b s.ops).bind fun b1 =>
      let o := spawnB fixed b1 s.pf s.cf
      (runStages fixed start o.1 r).map (o.2 :: ·)

/-- the builder before each round's spawn, from the builder calls alone -/
def buildersOf (fixed start : Bool) : Builder → List (List BOp) → Option (List Builder)
  | _, [] => some []
  | b, ops :: r => (applyAllB fixed start b ops).bind fun b1 => (buildersOf fixed start b1 r).map (b1 :: ·)

/-! ## Child::wait / try_wait -/

structure Proc where
  pid : Nat
  status : Option Int
deriving DecidableEq, Repr

/-- the kernel's answer to one wait4: error, still running (only with WNOHANG), or reaped with a status -/
inductive WaitAns where
  | err (e : Nat)
  | running
  | exited (status : Int)
deriving DecidableEq, Repr

/-- result and number of wait4 calls made -/
def wait (p : Proc) (k : WaitAns) : Proc × Except Nat Int × Nat :=
  match p.status with
  | some s => (p, .ok s, 0)
  | Option.none =>
    match k with
    | .exited s => ({ p with status := some s }, .ok s, 1)
    | .err e => (p, .error e, 1)
    | .running => (p, .error 0, 1)

def tryWait (p : Proc) (k : WaitAns) : Proc × Except Nat (Option Int) × Nat :=
  match p.status with
  | some s => (p, .ok (some s), 0)
  | Option.none =>
    match k with
    | .exited s => ({ p with status := some s }, .ok (some s), 1)
    | .running => (p, .ok Option.none, 1)
    | .err e => (p, .error e, 1)

end TinyVerif.Spawn
