/-
C12 — resource scripts.  Import-free executable model.

A `Script` is the control skeleton of ONE public descriptor-creating operation of tiny-std, written by
hand from the code as it is: which system calls it issues in which order, what each does to the
operation's own descriptors (opens / closes), where the code branches on the result (`ifVal`, `ifErr`),
which non-syscall steps can fail (`step`), its retry loops (`loop` / `again` / `exit`), `fork`, and at
every leaf which descriptors are handed to the caller.

`run` executes a script against an oracle (the kernel's answer to every call, the outcome of every
non-syscall step; for `fork` optionally a second oracle to follow the child).  `chk` walks ALL paths of
the script symbolically.  `Props/C12.lean` proves `chk s = true → LeakFree s`.

Resources: a `Var` names one descriptor (or mapping) slot of the operation.  `maps`/`unmaps` are the
same discipline on mappings and share the table.
-/
namespace TinyVerif.FdScript

abbrev Var := Nat

inductive Eff where
  | none
  | opens (v : Var)
  | opens2 (v w : Var)
  /-- one call that installs several descriptors, in this order (recvmsg delivering an SCM_RIGHTS message) -/
  | opensL (vs : List Var)
  | closes (v : Var)
  | maps (v : Var)
  | unmaps (v : Var)
deriving DecidableEq, Repr

/-- the kernel's answer to one call: a non-negative result or an errno -/
inductive Ans where
  | ok (v : Nat)
  | err (e : Nat)
deriving DecidableEq, Repr

inductive Script where
  /-- return to the caller (`ok` = `Ok(..)`/`Err(..)`), handing over these descriptors -/
  | ret (ok : Bool) (handed : List Var)
  /-- the process terminates (forked child) -/
  | exits
  /-- the process image is replaced (forked child; every descriptor of the operation is CLOEXEC) -/
  | execs
  /-- a system call; `eff` happens when it succeeds (a `closes` also when it fails: Linux releases the
      descriptor whatever `close` returns) -/
  | sys (name : String) (eff : Eff) (ok err : Script)
  /-- branch on the value of the most recent successful call -/
  | ifVal (v : Nat) (t f : Script)
  /-- branch on the errno of the most recent failed call -/
  | ifErr (e : Nat) (t f : Script)
  /-- a step that is not a system call but decides the path (argument validation, data read) -/
  | step (name : String) (yes no : Script)
  /-- `loop { body }`; inside, `again` = `continue`, `exit k` = leave the loop and go on with `k` -/
  | loop (body : Script)
  | again
  | exit (k : Script)
  /-- `fork()`: `err` when it fails; otherwise the caller goes on with `parent`, the new process with `child` -/
  | fork (parent child err : Script)
deriving Repr

/-- the operation's view of the descriptor table -/
structure St where
  /-- open and owned by the operation -/
  opn : List Var
  /-- released by the operation -/
  closed : List Var
  /-- released a second time -/
  dbl : List Var
  /-- released although never owned -/
  foreign : List Var
deriving Repr, DecidableEq

def St.init (owned : List Var) : St := ⟨owned, [], [], []⟩

def St.open1 (s : St) (v : Var) : St := { s with opn := v :: s.opn }

def St.close1 (s : St) (v : Var) : St :=
  if v ∈ s.opn then { s with opn := s.opn.erase v, closed := v :: s.closed }
  else if v ∈ s.closed then { s with dbl := v :: s.dbl }
  else { s with foreign := v :: s.foreign }

/-- effect of a call that succeeded -/
def St.applyOk (s : St) : Eff → St
  | .none => s
  | .opens v => s.open1 v
  | .opens2 v w => (s.open1 v).open1 w
  | .opensL vs => vs.foldl St.open1 s
  | .closes v => s.close1 v
  | .maps v => s.open1 v
  | .unmaps v => s.close1 v

/-- effect of a call that failed -/
def St.applyErr (s : St) : Eff → St
  | .closes v => s.close1 v
  | _ => s

inductive Outcome where
  | ret (ok : Bool) (handed : List Var)
  | exits
  | execs
  /-- the oracle ran out (the run is a proper prefix of a longer one) -/
  | starved
  | fuel
  /-- `again`/`exit` outside a loop: a malformed script -/
  | stuck
deriving Repr, DecidableEq

/-- dynamic configuration of the machine -/
structure Cfg where
  st : St
  last : Ans
  ans : List Ans
  steps : List Bool
  /-- `some o`: at the next successful `fork` follow the child, with oracle `o` -/
  child : Option (List Ans × List Bool)
  /-- names of the system calls issued so far, most recent first -/
  trace : List String
  /-- bodies of the enclosing loops -/
  stack : List Script

structure Final where
  out : Outcome
  cfg : Cfg

def run : Nat → Script → Cfg → Final
  | 0, _, c => ⟨.fuel, c⟩
  | _ + 1, .ret ok h, c => ⟨.ret ok h, c⟩
  | _ + 1, .exits, c => ⟨.exits, c⟩
  | _ + 1, .execs, c => ⟨.execs, c⟩
  | n + 1, .sys name eff ok err, c =>
    match c.ans with
    | [] => ⟨.starved, c⟩
    | .ok v :: rest =>
      run n ok { c with st := c.st.applyOk eff, last := .ok v, ans := rest, trace := name :: c.trace }
    | .err e :: rest =>
      run n err { c with st := c.st.applyErr eff, last := .err e, ans := rest, trace := name :: c.trace }
  | n + 1, .ifVal v t f, c =>
    match c.last with
    | .ok w => if w = v then run n t c else run n f c
    | .err _ => run n f c
  | n + 1, .ifErr e t f, c =>
    match c.last with
    | .err w => if w = e then run n t c else run n f c
    | .ok _ => run n f c
  | n + 1, .step _ y no, c =>
    match c.steps with
    | [] => ⟨.starved, c⟩
    | true :: rest => run n y { c with steps := rest }
    | false :: rest => run n no { c with steps := rest }
  | n + 1, .loop body, c => run n body { c with stack := body :: c.stack }
  | n + 1, .again, c =>
    match c.stack with
    | [] => ⟨.stuck, c⟩
    | b :: _ => run n b c
  | n + 1, .exit k, c =>
    match c.stack with
    | [] => ⟨.stuck, c⟩
    | _ :: rest => run n k { c with stack := rest }
  | n + 1, .fork p ch e, c =>
    match c.ans with
    | [] => ⟨.starved, c⟩
    | .err x :: rest => run n e { c with last := .err x, ans := rest, trace := "fork" :: c.trace }
    | .ok v :: rest =>
      match c.child with
      | none => run n p { c with last := .ok v, ans := rest, trace := "fork" :: c.trace }
      | some (ca, cs) =>
        run n ch { c with last := .ok 0, ans := ca, steps := cs, child := none, trace := "fork" :: c.trace }

/-- An oracle: answers to the calls, outcomes of the steps, and whether/with what to follow the child. -/
structure Oracle where
  ans : List Ans
  steps : List Bool
  child : Option (List Ans × List Bool)

def Cfg.init (owned : List Var) (o : Oracle) : Cfg :=
  ⟨St.init owned, .ok 0, o.ans, o.steps, o.child, [], []⟩

/-- run an operation that owns `owned` on entry (descriptors consumed with `self`) -/
def exec (owned : List Var) (s : Script) (fuel : Nat) (o : Oracle) : Final :=
  run fuel s (Cfg.init owned o)

/-! ## the checker: all paths, symbolically -/

def subset (a b : List Var) : Bool := a.all (fun v => b.contains v)

/-- every slot of the list is new (and they are distinct): the table with all of them added -/
def opensAll : List Var → List Var → Option (List Var)
  | o, [] => some o
  | o, v :: r => if o.contains v then none else opensAll (v :: o) r

/-- table after a successful call; `none` = the call breaks the discipline -/
def effOk (o : List Var) : Eff → Option (List Var)
  | .none => some o
  | .opens v => if o.contains v then none else some (v :: o)
  | .opens2 v w => if o.contains v || o.contains w || v == w then none else some (w :: v :: o)
  | .opensL vs => opensAll o vs
  | .closes v => if o.contains v then some (o.erase v) else none
  | .maps v => if o.contains v then none else some (v :: o)
  | .unmaps v => if o.contains v then some (o.erase v) else none

def effErr (o : List Var) : Eff → Option (List Var)
  | .closes v => if o.contains v then some (o.erase v) else none
  | _ => some o

/-- `heads` = the table at the entry of each enclosing loop (the loop invariant: every `again` must
    arrive with exactly that table) -/
def chkAux : Script → List Var → List (List Var) → Bool
  | .ret _ h, o, _ => subset o h && subset h o
  | .exits, _, _ => true
  | .execs, _, _ => true
  | .sys _ eff ok err, o, hs =>
    match effOk o eff, effErr o eff with
    | some o1, some o2 => chkAux ok o1 hs && chkAux err o2 hs
    | _, _ => false
  | .ifVal _ t f, o, hs => chkAux t o hs && chkAux f o hs
  | .ifErr _ t f, o, hs => chkAux t o hs && chkAux f o hs
  | .step _ y n, o, hs => chkAux y o hs && chkAux n o hs
  | .loop b, o, hs => chkAux b o (o :: hs)
  | .again, o, hs =>
    match hs with
    | [] => false
    | h :: _ => o == h
  | .exit k, o, hs =>
    match hs with
    | [] => false
    | _ :: t => chkAux k o t
  | .fork p c e, o, hs => chkAux p o hs && chkAux c o hs && chkAux e o hs

def nodupB : List Var → Bool
  | [] => true
  | v :: t => !t.contains v && nodupB t

def chk (owned : List Var) (s : Script) : Bool := nodupB owned && chkAux s owned []

/-! ## leak search: the first leaking/stealing path of a script, as an oracle (used for the witnesses) -/

/-- what the run left behind, in the vocabulary of the property -/
structure Verdict where
  returned : Bool
  ok : Bool
  handed : Nat
  leaked : List Var
  /-- handed to the caller although not open -/
  dangling : List Var
  dbl : List Var
  foreign : List Var
deriving Repr, DecidableEq

def verdict (f : Final) : Verdict :=
  match f.out with
  | .ret ok h => ⟨true, ok, h.length, f.cfg.st.opn.filter (fun v => !h.contains v),
      h.filter (fun v => !f.cfg.st.opn.contains v), f.cfg.st.dbl, f.cfg.st.foreign⟩
  | _ => ⟨false, false, 0, [], [], f.cfg.st.dbl, f.cfg.st.foreign⟩

def Verdict.clean (v : Verdict) : Bool := v.leaked.isEmpty && v.dangling.isEmpty && v.dbl.isEmpty && v.foreign.isEmpty

/-! ## number level: the process's descriptor table, whatever it holds at entry

`run` knows slots, not numbers.  `runK` is the same machine run against a kernel table: the numbers open
in the process (`tab`), the number each slot of the operation is bound to (`bind`), and the numbers the
kernel handed out (`nums`).  A creation receives the LOWEST number that is free — so with 0, 1 or 2 free
at entry the operation's descriptors land on the standard numbers; a release frees the number its slot is
bound to.  `Props/C12.lean` proves that `runK` is `run` plus bookkeeping, and that for EVERY entry table an
accepted script leaves the table as it found it, plus exactly one fresh number per descriptor handed out. -/

/-- lowest number `≥ n` that is not in `t`, trying at most `fuel` candidates -/
def lfGo (t : List Nat) : Nat → Nat → Nat
  | 0, n => n
  | f + 1, n => if t.contains n then lfGo t f (n + 1) else n

/-- the number the kernel hands out next: the lowest one not in the table -/
def lowestFree (t : List Nat) : Nat := lfGo t t.length 0

/-- `some n`: a descriptor, number `n`; `none`: a mapping (takes no number) -/
abbrev Binding := Var × Option Nat

def lookupB : List Binding → Var → Option (Option Nat)
  | [], _ => none
  | (w, m) :: r, v => if w = v then some m else lookupB r v

def unbind : List Binding → Var → List Binding
  | [], _ => []
  | (w, m) :: r, v => if w = v then r else (w, m) :: unbind r v

/-- the numbers held through the bindings -/
def numsOf : List Binding → List Nat
  | [] => []
  | (_, some n) :: r => n :: numsOf r
  | (_, none) :: r => numsOf r

structure KTab where
  /-- every number open in the process -/
  tab : List Nat
  /-- the operation's slots -/
  bind : List Binding
  /-- the numbers its creations received, most recent first -/
  nums : List Nat
deriving Repr, DecidableEq

def KTab.open1 (k : KTab) (v : Var) : KTab :=
  let n := lowestFree k.tab
  ⟨n :: k.tab, (v, some n) :: k.bind, n :: k.nums⟩

def KTab.map1 (k : KTab) (v : Var) : KTab := { k with bind := (v, none) :: k.bind }

/-- release of slot `v`: its number leaves the table.  For a slot the operation does not hold the model
    cannot say which number the code passes: the table is left alone (`St` records it as foreign/double) -/
def KTab.close1 (k : KTab) (v : Var) : KTab :=
  match lookupB k.bind v with
  | some (some n) => { k with tab := k.tab.erase n, bind := unbind k.bind v }
  | some none => { k with bind := unbind k.bind v }
  | none => k

def KTab.applyOk (k : KTab) : Eff → KTab
  | .none => k
  | .opens v => k.open1 v
  | .opens2 v w => (k.open1 v).open1 w
  | .opensL vs => vs.foldl KTab.open1 k
  | .closes v => k.close1 v
  | .maps v => k.map1 v
  | .unmaps v => k.close1 v

def KTab.applyErr (k : KTab) : Eff → KTab
  | .closes v => k.close1 v
  | _ => k

/-- `run`, against a kernel table (the forked child starts from a copy of the caller's table) -/
def runK : Nat → Script → Cfg → KTab → Final × KTab
  | 0, _, c, k => (⟨.fuel, c⟩, k)
  | _ + 1, .ret ok h, c, k => (⟨.ret ok h, c⟩, k)
  | _ + 1, .exits, c, k => (⟨.exits, c⟩, k)
  | _ + 1, .execs, c, k => (⟨.execs, c⟩, k)
  | n + 1, .sys name eff ok err, c, k =>
    match c.ans with
    | [] => (⟨.starved, c⟩, k)
    | .ok v :: rest =>
      runK n ok { c with st := c.st.applyOk eff, last := .ok v, ans := rest, trace := name :: c.trace } (k.applyOk eff)
    | .err e :: rest =>
      runK n err { c with st := c.st.applyErr eff, last := .err e, ans := rest, trace := name :: c.trace } (k.applyErr eff)
  | n + 1, .ifVal v t f, c, k =>
    match c.last with
    | .ok w => if w = v then runK n t c k else runK n f c k
    | .err _ => runK n f c k
  | n + 1, .ifErr e t f, c, k =>
    match c.last with
    | .err w => if w = e then runK n t c k else runK n f c k
    | .ok _ => runK n f c k
  | n + 1, .step _ y no, c, k =>
    match c.steps with
    | [] => (⟨.starved, c⟩, k)
    | true :: rest => runK n y { c with steps := rest } k
    | false :: rest => runK n no { c with steps := rest } k
  | n + 1, .loop body, c, k => runK n body { c with stack := body :: c.stack } k
  | n + 1, .again, c, k =>
    match c.stack with
    | [] => (⟨.stuck, c⟩, k)
    | b :: _ => runK n b c k
  | n + 1, .exit kk, c, k =>
    match c.stack with
    | [] => (⟨.stuck, c⟩, k)
    | _ :: rest => runK n kk { c with stack := rest } k
  | n + 1, .fork p ch e, c, k =>
    match c.ans with
    | [] => (⟨.starved, c⟩, k)
    | .err x :: rest => runK n e { c with last := .err x, ans := rest, trace := "fork" :: c.trace } k
    | .ok v :: rest =>
      match c.child with
      | none => runK n p { c with last := .ok v, ans := rest, trace := "fork" :: c.trace } k
      | some (ca, cs) =>
        runK n ch { c with last := .ok 0, ans := ca, steps := cs, child := none, trace := "fork" :: c.trace } k

/-- the table at entry: `foreign` = the numbers open that are not the operation's (ANY set: 0, 1, 2 may be
    missing), `own` = the slots it is given with their numbers -/
def KTab.init (foreign : List Nat) (own : List (Var × Nat)) : KTab :=
  ⟨own.map (·.2) ++ foreign, own.map (fun p => (p.1, some p.2)), []⟩

/-- run an operation entered with the table `foreign` + `own` -/
def execK (foreign : List Nat) (own : List (Var × Nat)) (s : Script) (fuel : Nat) (o : Oracle) : Final × KTab :=
  runK fuel s (Cfg.init (own.map (·.1)) o) (KTab.init foreign own)

/-! ## The operations of tiny-std, one script each (read off the code as it is)

`cur` = the code as it is now (after the `fix:` commits of this property); `old` = the same operation
before its repair, kept for the leak witnesses.  Variable numbering is local to a script. -/
namespace Ops

abbrev EINTR := 4
abbrev EAGAIN := 11
abbrev EINPROGRESS := 115

def closeThen (v : Var) (k : Script) : Script := .sys "close" (.closes v) k k

def closeAll : List Var → Script → Script
  | [], k => k
  | v :: vs, k => closeThen v (closeAll vs k)

def ok (h : List Var) : Script := .ret true h
def err : Script := .ret false []

/-- `sock::sock_nonblock_op_poll_if_not_ready(sock, block_errno, .., timeout, op)`: `op`; if it reports
    `block_errno`: `ppoll` (EINTR: again; 0: timeout) then `op` once more. -/
def sockOp (timeout : Bool) (name : String) (blockErrno : Nat) (eff : Eff) (kOk kErr : Script) : Script :=
  let body :=
    Script.sys name eff kOk
      (.ifErr blockErrno
        (.loop (.sys "ppoll" .none
          (.ifVal 0 (.exit kErr) (.sys name eff (.exit kOk) (.exit kErr)))
          (.ifErr EINTR .again (.exit kErr))))
        kErr)
  if timeout then .step "timeout fits a TimeSpec" body kErr else body

/-- File::open / OpenOptions::open: option validation, then `openat` -/
def fileOpen : Script := .step "open options valid" (.sys "openat" (.opens 0) (ok [0]) err) err

/-- Directory::open, DirEntry::open_file/open_dir (the step is the entry-type test) -/
def dirOpen : Script := .sys "openat" (.opens 0) (ok [0]) err
def direntOpen : Script := .step "entry has the requested type" dirOpen err

/-- fs::read / fs::read_to_string: open, read until 0 (EINTR retried), [utf-8 check], close on every path -/
def fsRead (utf8 : Bool) : Script :=
  .step "open options valid"
    (.sys "openat" (.opens 0)
      (.loop (.sys "read" .none
        (.ifVal 0
          (.exit (if utf8 then .step "valid utf-8" (closeThen 0 (ok [])) (closeThen 0 err) else closeThen 0 (ok [])))
          .again)
        (.ifErr EINTR .again (.exit (closeThen 0 err)))))
      err)
    err

/-- fs::write: open(create, truncate), write_all (0 = error, EINTR retried), close on every path -/
def fsWrite : Script :=
  .step "open options valid"
    (.sys "openat" (.opens 0)
      (.loop (.sys "write" .none
        (.ifVal 0 (.exit (closeThen 0 err))
          (.step "buffer fully written" (.exit (closeThen 0 (ok []))) .again))
        (.ifErr EINTR .again (.exit (closeThen 0 err)))))
      err)
    err

/-- File::copy(&self, dest): fstat, open dest (var 0), copy_file_range until done; `k` finishes -/
def fileCopyK (k : Bool → List Var → Script) : Script :=
  .sys "newfstatat" .none
    (.step "open options valid"
      (.sys "openat" (.opens 0)
        (.loop (.step "bytes remaining"
          (.sys "copy_file_range" .none
            (.ifVal 0 (.exit (k true [0])) .again)
            (.exit (closeThen 0 (k false []))))
          (.exit (k true [0]))))
        (k false []))
      (k false []))
    (k false [])

def fileCopy : Script := fileCopyK (fun o h => .ret o h)

/-- fs::copy_file: open src (var 1), File::copy, drop src -/
def fsCopyFile : Script :=
  .step "open options valid"
    (.sys "openat" (.opens 1) (fileCopyK (fun o h => closeThen 1 (.ret o h))) err)
    err

/-- Directory::open + full iteration of read() + drop -/
def dirRead : Script :=
  .sys "openat" (.opens 0)
    (.loop (.sys "getdents64" .none
      (.ifVal 0 (.exit (closeThen 0 (ok []))) .again)
      (.exit (closeThen 0 err))))
    err

/-- Directory::remove_all on an open directory: one loop per level; a sub-directory is opened (var `v`),
    emptied by the same loop one level down, removed, closed.  At depth 0 the recursive call is the
    induction hypothesis: a step without effect on the table. -/
def removeAll : Nat → Var → Script → Script → Script
  | 0, _, kOk, kErr =>
    .loop (.step "entry left in buffer"
      (.step "entry is a directory"
        (.step "entry is . or .." .again
          (.step "(recursive remove_all of the sub-directory, by induction) ok" .again (.exit kErr)))
        (.sys "unlinkat" .none .again (.exit kErr)))
      (.sys "getdents64" .none (.ifVal 0 (.exit kOk) .again) (.exit kErr)))
  | d + 1, v, kOk, kErr =>
    .loop (.step "entry left in buffer"
      (.step "entry is a directory"
        (.step "entry is . or .." .again
          (.sys "openat" (.opens v)
            (removeAll d (v + 1)
              (.sys "unlinkat" .none (closeThen v .again) (closeThen v (.exit kErr)))
              (closeThen v (.exit kErr)))
            (.exit kErr)))
        (.sys "unlinkat" .none .again (.exit kErr)))
      (.sys "getdents64" .none (.ifVal 0 (.exit kOk) .again) (.exit kErr)))

def dirRemoveAll : Script := removeAll 3 0 (ok []) err

/-- fs::remove_dir_all: open (var 0), remove_all, rmdir, drop -/
def removeDirAll : Script :=
  .sys "openat" (.opens 0)
    (removeAll 3 1
      (.sys "unlinkat" .none (closeThen 0 (ok [])) (closeThen 0 err))
      (closeThen 0 err))
    err

/-- fs::create_dir_all: only path-level calls (`mkdirat`, and `newfstatat` to tell an existing directory
    from another EEXIST), nothing opened; which call comes next is data -/
def createDirAll : Script :=
  .step "path not empty"
    (.loop (.step "another mkdir to try"
      (.sys "path-call" .none .again (.step "this failure ends the walk" (.exit err) .again))
      (.exit (ok []))))
    err

/-- UnixStream::connect -/
def unixConnect (fixed : Bool) : Script :=
  .sys "socket" (.opens 0)
    (.step "path fits sockaddr_un"
      (sockOp false "connect" EAGAIN .none (ok [0]) (closeThen 0 err))
      (if fixed then closeThen 0 err else err))
    err

/-- UnixStream::try_connect -/
def unixTryConnect (fixed : Bool) : Script :=
  .sys "socket" (.opens 0)
    (.step "path fits sockaddr_un"
      (.sys "connect" .none (ok [0]) (.ifErr EAGAIN (closeThen 0 (ok [])) (closeThen 0 err)))
      (if fixed then closeThen 0 err else err))
    err

/-- UnixListener::bind (the old code listened twice, the second time with a bare `?`) -/
def unixBind (fixed : Bool) : Script :=
  .sys "socket" (.opens 0)
    (.step "path fits sockaddr_un"
      (.sys "bind" .none
        (.sys "listen" .none
          (if fixed then ok [0] else .sys "listen" .none (ok [0]) err)
          (closeThen 0 err))
        (closeThen 0 err))
      (if fixed then closeThen 0 err else err))
    err

/-- {Unix,Tcp}Listener::accept / accept_with_timeout -/
def accept (timeout : Bool) : Script := sockOp timeout "accept4" EAGAIN (.opens 0) (ok [0]) err

/-- {Unix,Tcp}Listener::try_accept -/
def tryAccept : Script := .sys "accept4" (.opens 0) (ok [0]) (.ifErr EAGAIN (ok []) err)

/-- TcpStream::connect / connect_with_timeout -/
def tcpConnect (timeout : Bool) : Script :=
  .sys "socket" (.opens 0) (sockOp timeout "connect" EINPROGRESS .none (ok [0]) (closeThen 0 err)) err

/-- TcpStream::try_connect (an in-progress stream owns the socket too) -/
def tcpTryConnect : Script :=
  .sys "socket" (.opens 0)
    (.sys "connect" .none (ok [0]) (.ifErr EINPROGRESS (ok [0]) (closeThen 0 err)))
    err

/-- TcpStreamInProgress::try_connect(self): owns var 0 on entry -/
def inProgressTry : Script :=
  .sys "connect" .none (ok [0]) (.ifErr EINPROGRESS (ok [0]) (closeThen 0 err))

/-- TcpStreamInProgress::connect_blocking(self): owns var 0 on entry -/
def inProgressBlock : Script := sockOp false "connect" EINPROGRESS .none (ok [0]) (closeThen 0 err)

/-- TcpListener::bind -/
def tcpBind (fixed : Bool) : Script :=
  .sys "socket" (.opens 0)
    (.sys "bind" .none
      (.sys "listen" .none (ok [0]) (if fixed then closeThen 0 err else err))
      (closeThen 0 err))
    err

def pipe2 : Script := .sys "pipe2" (.opens2 0 1) (ok [0, 1]) err

def epollCreate : Script := .sys "epoll_create1" (.opens 0) (ok [0]) err

/-- create, register, wait, unregister, drop -/
def epollUse : Script :=
  .sys "epoll_create1" (.opens 0)
    (.sys "epoll_ctl" .none
      (.sys "epoll_pwait" .none
        (.sys "epoll_ctl" .none (closeThen 0 (ok [])) (closeThen 0 err))
        (closeThen 0 err))
      (closeThen 0 err))
    err

/-- getpwuid_r: open /etc/passwd, read, search, read more ... (the old code never closed it) -/
def getpwuid (fixed : Bool) : Script :=
  let fin (k : Script) : Script := if fixed then closeThen 0 k else k
  .sys "openat" (.opens 0)
    (.sys "read" .none
      (.loop (.step "search of the buffer ended (found, not listed, malformed)"
        (.step "without error" (.exit (fin (ok []))) (.exit (fin err)))
        (.sys "read" .none .again (.exit (fin err)))))
      (fin err))
    err

/-- openpty(name, termios, winsize): master = var 0, slave = var 1 (the old code closed nothing on failure) -/
def openpty (fixed named tio ws : Bool) : Script :=
  let fin0 : Script := if fixed then closeThen 0 err else err
  let fin1 : Script := if fixed then closeThen 1 (closeThen 0 err) else err
  let tail : Script :=
    let w : Script := if ws then .sys "ioctl" .none (ok [0, 1]) fin1 else ok [0, 1]
    if tio then .sys "ioctl" .none w fin1 else w
  let slave : Script := .sys "openat" (.opens 1) tail fin0
  .sys "openat" (.opens 0)
    (.sys "ioctl" .none
      (.sys "ioctl" .none
        (if named then slave else .step "pty number fits u8" slave fin0)
        fin0)
      fin0)
    err

/-! ### io_uring (rusl): set-up, and `Drop` as an operation of its own

The ring's mappings are not descriptors: `mmap` / `munmap` carry no effect on the descriptor table here (that every
mapping is unmapped exactly once with its own length is C18's `setup_drop_balanced`).  The code ignores the result of
`munmap` and `close` on all of these paths. -/

def munmapThen (k : Script) : Script := .sys "munmap" .none k k

def munmapN : Nat → Script → Script
  | 0, k => k
  | n + 1, k => munmapThen (munmapN n k)

/-- `rusl::io_uring::setup_io_uring`: `io_uring_setup` (ring fd = var 0), the submission ring's mapping, the completion
    ring's unless the kernel reported IORING_FEAT_SINGLE_MMAP, the entries' mapping; a failing `mmap` returns through
    `SetupGuard::drop` (unmap what was mapped, close the ring fd).  The null checks between the mappings cannot fail
    behind a successful `mmap` and return through the same guard. -/
def ioUringSetup : Script :=
  .sys "io_uring_setup" (.opens 0)
    (.sys "mmap" .none
      (.step "kernel reports IORING_FEAT_SINGLE_MMAP"
        (.sys "mmap" .none (ok [0]) (munmapN 1 (closeThen 0 err)))
        (.sys "mmap" .none
          (.sys "mmap" .none (ok [0]) (munmapN 2 (closeThen 0 err)))
          (munmapN 1 (closeThen 0 err))))
      (closeThen 0 err))
    err

/-- `impl Drop for IoUring`, the operation `drop(ring)`: owns the ring fd (var 0) on entry; unmaps the entries and the
    submission ring, the completion ring when it has a mapping of its own, closes the ring fd; hands out nothing -/
def ioUringDrop : Script :=
  .step "completion ring shares the submission ring's mapping"
    (munmapN 2 (closeThen 0 (ok [])))
    (munmapN 3 (closeThen 0 (ok [])))

/-! ### receiving descriptors: `rusl::network::recvmsg` on a unix socket + `MsgHdrBorrow::control_messages()`

The peer has sent one SCM_RIGHTS message.  KERNEL step: how many of its descriptors the kernel installs in the receiver's
table — as many as the control buffer has room for (0 .. 4 here), decided before the call returns; a failing `recvmsg`
installs none.  API step: the iterator hands every installed descriptor to the caller (slots 0 .. n-1, in the order the
kernel installed them). -/

def recvInstalls (n : Nat) : Script := .sys "recvmsg" (.opensL (List.range n)) (ok (List.range n)) err

def recvmsgRights : Script :=
  .step "kernel installs at least 1 descriptor"
    (.step "kernel installs at least 2 descriptors"
      (.step "kernel installs at least 3 descriptors"
        (.step "kernel installs 4 descriptors" (recvInstalls 4) (recvInstalls 3))
        (recvInstalls 2))
      (recvInstalls 1))
    (recvInstalls 0)

/-! ### Command::spawn -/

inductive Stdio where
  | inherit | null | pipe | rawfd
deriving DecidableEq, Repr

/-- stream `i`: the child's end is var `2i`, the caller's end (MakePipe) var `2i+1`; the CLOEXEC pipe is
    (6 = read end, 7 = write end).  In `opens2 a b`, `a` is the read end (the kernel creates it first).  `Stdio::RawFd(fd)` is wrapped in an `OwnedFd`: owned on entry. -/
def theirs : List Stdio → Nat → List Var
  | [], _ => []
  | .inherit :: r, i => theirs r (i + 1)
  | _ :: r, i => 2 * i :: theirs r (i + 1)

def ours : List Stdio → Nat → List Var
  | [], _ => []
  | .pipe :: r, i => (2 * i + 1) :: ours r (i + 1)
  | _ :: r, i => ours r (i + 1)

def ownedIn : List Stdio → Nat → List Var
  | [], _ => []
  | .rawfd :: r, i => 2 * i :: ownedIn r (i + 1)
  | _ :: r, i => ownedIn r (i + 1)

/-- `setup_io`: `held` = what an early `?` drops -/
def setupIo : List Stdio → Nat → List Var → Script → Script
  | [], _, _, k => k
  | .inherit :: r, i, held, k => setupIo r (i + 1) held k
  | .rawfd :: r, i, held, k => setupIo r (i + 1) (2 * i :: held) k
  | .null :: r, i, held, k =>
    .sys "openat" (.opens (2 * i)) (setupIo r (i + 1) (2 * i :: held) k) (closeAll held err)
  | .pipe :: r, i, held, k =>
    -- `opens2 a b`: `a` = read end (created first).  The child READS stdin (stream 0), writes the others
    .sys "pipe2" (if i = 0 then .opens2 (2 * i) (2 * i + 1) else .opens2 (2 * i + 1) (2 * i))
      (setupIo r (i + 1) ((2 * i + 1) :: 2 * i :: held) k) (closeAll held err)

/-- one child-side set-up call; a failure used to `?`-return from `spawn` INSIDE the child (drops
    `theirs`, `ours`; the read end is already closed, the write end stays open); now it is reported through
    the pipe and the child exits. -/
def childFail (fixed : Bool) (m : List Stdio) : Script :=
  if fixed then .sys "write" .none .exits .exits
  else closeAll (theirs m 0 ++ ours m 0) (.ret false [])

def childCalls (fixed : Bool) (m : List Stdio) : List String → Script → Script
  | [], k => k
  | n :: r, k => .sys n .none (childCalls fixed m r k) (childFail fixed m)

def childClosures (fixed : Bool) (m : List Stdio) : Nat → Script → Script
  | 0, k => k
  | n + 1, k => .step "pre_exec closure ok" (childClosures fixed m n k) (childFail fixed m)

/-- the forked child: close the read end, dup2 each configured stream, chdir/setuid/setgid/setpgid as
    configured (`pre`), the pre-exec closures, execve; an execve failure is written to the pipe -/
def spawnChild (fixed : Bool) (m : List Stdio) (pre : List String) (closures : Nat) : Script :=
  closeThen 6
    (childCalls fixed m ((theirs m 0).map (fun _ => "dup3") ++ pre)
      (childClosures fixed m closures
        (.sys "execve" .none .execs
          (.step "error carries an errno" (.sys "write" .none .exits .exits) .exits))))

/-- the caller after fork: close the write end, read the pipe: 0 = exec happened; 8 = errno + footer;
    EINTR: again; anything else: reap and fail.  The old code never closed the read end. -/
def spawnParent (fixed : Bool) (m : List Stdio) : Script :=
  let rd (k : Script) : Script := if fixed then closeThen 6 k else k
  let fail : Script := rd (closeAll (theirs m 0 ++ ours m 0) err)
  let reapFail : Script := .sys "wait4" .none fail fail
  closeThen 7
    (.loop (.sys "read" .none
      (.ifVal 0 (.exit (rd (closeAll (theirs m 0) (ok (ours m 0)))))
        (.ifVal 8 (.step "footer matches" (.exit reapFail) (.exit fail)) (.exit reapFail)))
      (.ifErr EINTR .again (.exit reapFail))))

def spawn (fixed : Bool) (m : List Stdio) (pre : List String) (closures : Nat) : Script :=
  setupIo m 0 [] <|
    .sys "pipe2" (.opens2 6 7)
      (.fork (spawnParent fixed m) (spawnChild fixed m pre closures)
        ((if fixed then closeThen 7 ∘ closeThen 6 else id) (closeAll (theirs m 0 ++ ours m 0) err)))
      (closeAll (theirs m 0 ++ ours m 0) err)

def allInherit : List Stdio := [.inherit, .inherit, .inherit]
def allNull : List Stdio := [.null, .null, .null]
def allPipe : List Stdio := [.pipe, .pipe, .pipe]
def mixed : List Stdio := [.null, .pipe, .inherit]
def rawOut : List Stdio := [.inherit, .rawfd, .inherit]

/-- name → (descriptors owned on entry, script) for the code as it is now -/
def cur : List (String × List Var × Script) := [
  ("file_open", [], fileOpen), ("dir_open", [], dirOpen), ("dirent_open", [], direntOpen),
  ("fs_read", [], fsRead false), ("fs_read_to_string", [], fsRead true), ("fs_write", [], fsWrite),
  ("file_copy", [], fileCopy), ("fs_copy_file", [], fsCopyFile), ("dir_read", [], dirRead),
  ("dir_remove_all", [], dirRemoveAll), ("remove_dir_all", [], removeDirAll), ("create_dir_all", [], createDirAll),
  ("unix_connect", [], unixConnect true), ("unix_try_connect", [], unixTryConnect true), ("unix_bind", [], unixBind true),
  ("accept", [], accept false), ("accept_timeout", [], accept true), ("try_accept", [], tryAccept),
  ("tcp_connect", [], tcpConnect false), ("tcp_connect_timeout", [], tcpConnect true), ("tcp_try_connect", [], tcpTryConnect),
  ("tcp_inprogress_try", [0], inProgressTry), ("tcp_inprogress_block", [0], inProgressBlock), ("tcp_bind", [], tcpBind true),
  ("spawn_inherit", ownedIn allInherit 0, spawn true allInherit [] 0), ("spawn_null", ownedIn allNull 0, spawn true allNull [] 0),
  ("spawn_pipe", ownedIn allPipe 0, spawn true allPipe [] 0), ("spawn_mixed", ownedIn mixed 0, spawn true mixed [] 0),
  ("spawn_rawfd", ownedIn rawOut 0, spawn true rawOut [] 0),
  ("spawn_full", ownedIn mixed 0, spawn true mixed ["chdir", "setuid", "setgid", "setpgid"] 2),
  ("pipe2", [], pipe2), ("epoll_create", [], epollCreate), ("epoll_use", [], epollUse),
  ("getpwuid", [], getpwuid true),
  ("openpty", [], openpty true false false false), ("openpty_named", [], openpty true true false false),
  ("openpty_tio", [], openpty true false true true),
  ("io_uring_setup", [], ioUringSetup), ("io_uring_drop", [0], ioUringDrop),
  ("recvmsg_rights", [], recvmsgRights)]

/-- the same operations before their repair -/
def old : List (String × List Var × Script) := [
  ("unix_connect", [], unixConnect false), ("unix_try_connect", [], unixTryConnect false), ("unix_bind", [], unixBind false),
  ("tcp_bind", [], tcpBind false),
  ("spawn_inherit", ownedIn allInherit 0, spawn false allInherit [] 0), ("spawn_null", ownedIn allNull 0, spawn false allNull [] 0),
  ("spawn_pipe", ownedIn allPipe 0, spawn false allPipe [] 0), ("spawn_mixed", ownedIn mixed 0, spawn false mixed [] 0),
  ("spawn_rawfd", ownedIn rawOut 0, spawn false rawOut [] 0),
  ("getpwuid", [], getpwuid false),
  ("openpty", [], openpty false false false false), ("openpty_named", [], openpty false true false false),
  ("openpty_tio", [], openpty false false true true)]

/-- operations of the current code that are NOT leak-free (recorded as known findings) -/
def knownBad : List (String × List Var × Script) := [
  ("spawn_rawfd_late", ownedIn [.null, .rawfd, .inherit] 0, spawn true [.null, .rawfd, .inherit] [] 0)]

def find (tbl : List (String × List Var × Script)) (n : String) : Option (List Var × Script) :=
  match tbl.find? (fun e => e.1 == n) with
  | some e => some e.2
  | none => none

end Ops

end TinyVerif.FdScript
