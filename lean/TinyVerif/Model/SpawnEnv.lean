/-
C13 — the environment BUILDER of `Command` as a state machine, and the environment the new image receives.

The builder state and the calls are those of Model/Spawn.lean (`Env`, `Cmd`, `env`, `envsL`, `apply`, `applyAll`):
  * `Command::new`      : `Environment::default()` = Inherit with the `start` feature, None without;
  * `Command::env(s)`   : FIRST the mode switch (`start`: Inherit | None -> Provided{vars: [], envp: [NULL]};
                          no `start`: None -> the same), THEN, if Provided, `envp[vars.len()] = s.as_ptr();
                          envp.push(NULL); vars.push(s)`;
  * `Command::envs(it)` : `for s in it { self.env(s) }` — nothing at all happens for an iterator without items;
  * no other public method of `Command` touches `env` (the field is private; there is no env_clear / env_remove;
    a `Provided` environment cannot be built outside the module, its fields are private).
This file adds what the CHILD gets: `spawn` hands execve `ENV.env_p` (Inherit: the caller's own envp),
`[NULL]` (None) or `provided.envp.as_ptr()`; the kernel copies the strings the vector points to, up to the first
NULL, in order, duplicates and all.  A string is a number (`ptr a = a + 1`, NULL = 0), `penv` = the strings of the
caller's own environment, in envp order.
The no-alloc front end `process::spawn(.., env: &Environment, ..)` computes envp by the same match on an
`Environment` the caller passes directly (Inherit | None there): `childEnv penv .inherit` / `childEnv penv .none`.
-/
import TinyVerif.Model.Spawn
namespace TinyVerif.Spawn

/-- what execve reads through an envp vector: the strings up to the first NULL -/
def deref : List Ptr → List Nat
  | [] => []
  | p :: r => if p = 0 then [] else (p - 1) :: deref r

/-- the environment of the new image, given the caller's own (`penv`) -/
def childEnv (penv : List Nat) : Env → List Nat
  | .inherit => penv
  | .none => []
  | .provided _ p => deref p

/-- the same for the `envp` field of an `Image` (`none` = the caller's envp was passed on) -/
def imageEnv (penv : List Nat) (i : Image) : List Nat :=
  match i.envp with
  | Option.none => penv
  | some p => deref p

/-- SPEC.  What a sequence of builder calls asks for: `given` = every variable handed to `env` / `envs`, in call
    order.  Nothing given: the default environment — the caller's own with `start`, the empty one without.
    Otherwise: exactly the given strings, in the order given, each as often as given (the code neither merges
    with the inherited environment nor looks at keys). -/
def specEnv (start : Bool) (penv given : List Nat) : List Nat :=
  if given = [] then (if start then penv else []) else given

/-- the same from an arbitrary builder state (any environment mode): no further variable = unchanged;
    otherwise the variables already held followed by the new ones -/
def specEnvFrom (penv : List Nat) (e : Env) (given : List Nat) : List Nat :=
  if given = [] then childEnv penv e
  else (match e with
    | .provided v _ => v
    | _ => []) ++ given

/-- The alternative reading "`env` EXTENDS the inherited environment" (what `std::process::Command::env` does):
    the caller's environment followed by the given variables.  NOT what the code does — see
    `env_replaces_inherited_witness` in Props/C13.lean. -/
def extendSpecEnv (start : Bool) (penv given : List Nat) : List Nat :=
  (if start then penv else []) ++ given

/-! ### variants of `envs` that a refactoring may produce (for the discrimination examples only) -/

/-- `envs` with the mode switch hoisted in front of the loop ("look the list up once") -/
def envsHoisted (fixed start : Bool) (c : Cmd) (l : List Nat) : Option Cmd :=
  envsL fixed start { c with env := envSwitch fixed start c.env } l

/-- `envs` that stops one item early -/
def envsSkipLast (fixed start : Bool) (c : Cmd) (l : List Nat) : Option Cmd :=
  envsL fixed start c l.dropLast

/-- rounds of builder calls each followed by a spawn that meets no failure: the environment every image gets -/
def envRounds (start : Bool) (penv : List Nat) (b : Builder) (opss : List (List BOp)) : Option (List (Option (List Nat))) :=
  (runStages true start b (opss.map fun ops => ⟨ops, PFault.none, Option.none⟩)).map
    fun outs => outs.map fun o => o.image.map (imageEnv penv)

end TinyVerif.Spawn
