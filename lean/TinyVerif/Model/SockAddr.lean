/-
C16 model, part 2 — rusl/src/platform/compat/socket.rs `SocketAddressInet::{new, ipv4_addr}` and
`SocketAddressUnix::try_from_unix`.  Import-free, executable.  Little-endian target (x86_64 / aarch64).
-/
namespace TinyVerif.SockAddr

abbrev AF_UNIX : Nat := 1
abbrev AF_INET : Nat := 2
abbrev SUN_PATH : Nat := 108

def le : Nat → Nat → List Nat
  | 0, _ => []
  | k + 1, n => n % 256 :: le k (n / 256)

def unle : List Nat → Nat
  | [] => 0
  | b :: t => b + 256 * unle t

/-- `u16::to_be` / `swap_bytes` on a little-endian machine -/
def swap16 (p : Nat) : Nat := (p % 256) * 256 + p / 256 % 256

/-- `struct sockaddr_in` as field values -/
structure Inet where
  family : Nat      -- sin_family : u16
  port : Nat        -- sin_port : u16 (value as the CPU sees it)
  addr : Nat        -- sin_addr.s_addr : u32
  deriving DecidableEq, Repr

/-- `SocketAddressInet::new(ip_addr, port)`: `s_addr = u32::from_le_bytes(ip)`, `sin_port = port.to_be()` -/
def inetNew (ip : List Nat) (port : Nat) : Inet := ⟨AF_INET, swap16 port, unle ip⟩

/-- the 16 bytes in memory (what the kernel reads) -/
def inetImage (a : Inet) : List Nat := le 2 a.family ++ le 2 a.port ++ le 4 a.addr ++ List.replicate 8 0

/-- `ipv4_addr()` (little-endian branch): `(s_addr.to_le_bytes(), u16::from_le_bytes(sin_port.to_be_bytes()))` -/
def ipv4Addr (a : Inet) : List Nat × Nat := (le 4 a.addr, unle [a.port / 256 % 256, a.port % 256])

inductive UnixRes where
  | ok (path : List Nat) (addrLen : Nat)   -- sun_path (108 bytes) and addr_len
  | eightBit                                -- "Socket paths need to be 7-bit ASCII…"
  | tooLong                                 -- "Socket address too long"
  | panic                                   -- index out of bounds / read past the string
  deriving DecidableEq, Repr

/-- the copy loop of `try_from_unix`; `path` = bytes from `ptr` on (a UnixStr ends in NUL), `buf` = bytes written so far -/
def unixLoop : List Nat → List Nat → UnixRes
  | [], _ => .panic                              -- ran past the end of the string's memory
  | c :: rest, buf =>
    if 128 ≤ c then .eightBit                    -- c_char::try_from(u8) fails
    else if SUN_PATH ≤ buf.length then .panic    -- buf[ind] out of bounds
    else if buf.length = 107 ∧ c ≠ 0 then .tooLong
    else if c = 0 then .ok (buf ++ List.replicate (SUN_PATH - buf.length) 0) (buf.length + 1 + 2)
    else unixLoop rest (buf ++ [c])

def tryFromUnix (path : List Nat) : UnixRes := unixLoop path []

/-- `SocketArgUnix` image: sun_family then sun_path -/
def unixImage (path : List Nat) : List Nat := le 2 AF_UNIX ++ path

end TinyVerif.SockAddr
