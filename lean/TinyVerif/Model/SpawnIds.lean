/-
C13 — the caller's IDENTITY STATE and the identity the new image runs as.

do_spawn's child, as written (tiny-std/src/process.rs, after the repair 925c7e5): after the dup2s and chdir
    if let Some(gid) = gid { setgid(gid)?; }          -- FIRST the gid (the privilege is still there)
    if let Some(uid) = uid { setuid(uid)?; }          -- THEN the uid
    if let Some(pgroup) = pgroup { setpgid(0, pgroup)?; }
    closures; execve
Before 925c7e5 the uid step came first (`Legacy.idSteps`): a root caller's `.uid(u).gid(g)` gave the privilege away before
the gid step — Err(EPERM), or Ok with the real gid unchanged.
No setgroups call anywhere: the supplementary groups are never touched (Command has no groups API; a documented fact).

Kernel rules used (Linux, credentials(7), setuid(2), setgid(2), setpgid(2), execve(2)); an ASSUMPTION, itself run
against the kernel by the correspondence:
  * the process holds CAP_SETUID and CAP_SETGID exactly while its EFFECTIVE uid is 0 (true of every state a root
    process reaches with setresuid and without keep-caps/securebits: the effective set is cleared when euid leaves 0,
    restored from the permitted set when it returns to 0, and the permitted set survives as long as one of r/e/s is 0 —
    without any uid 0 left euid cannot return to 0);
  * setuid(u): capable -> r = e = s = u;  else if u = r or u = s -> e = u only;  else EPERM (fsuid follows e);
  * setgid(g): the same on the gids, the capability being that of the uids AT THAT MOMENT;
  * setpgid(0, 0): the process becomes the leader of a new group (pgid = its pid); setpgid(0, p): p must be a group of
    the caller's session, else EPERM;
  * execve of a file without set-id bits: saved ids := effective ids.
-/
import TinyVerif.Model.Spawn
namespace TinyVerif.Spawn

abbrev EPERM : Nat := 1

/-- real / effective / saved -/
structure Ids where
  r : Nat
  e : Nat
  s : Nat
deriving DecidableEq, Repr

structure Cred where
  uid : Ids
  gid : Ids
  /-- supplementary groups -/
  groups : List Nat
deriving DecidableEq, Repr

def capable (c : Cred) : Bool := c.uid.e == 0

def setIds (cap : Bool) (i : Ids) (x : Nat) : Except Nat Ids :=
  if cap then .ok ⟨x, x, x⟩
  else if x = i.r ∨ x = i.s then .ok { i with e := x }
  else .error EPERM

def setuid (c : Cred) (u : Nat) : Except Nat Cred :=
  match setIds (capable c) c.uid u with
  | .ok i => .ok { c with uid := i }
  | .error e => .error e

def setgid (c : Cred) (g : Nat) : Except Nat Cred :=
  match setIds (capable c) c.gid g with
  | .ok i => .ok { c with gid := i }
  | .error e => .error e

/-- execve of a plain file -/
def execCred (c : Cred) : Cred := { c with uid := { c.uid with s := c.uid.e }, gid := { c.gid with s := c.gid.e } }

/-- the process side: the forked child's pid, the group it is born into (the caller's), the other groups of the session -/
structure PCtx where
  self : Nat
  callerPgid : Nat
  session : List Nat
deriving DecidableEq, Repr

def setpgid (p : PCtx) (pg : Nat) : Except Nat Nat :=
  if pg = 0 then .ok p.self
  else if pg = p.callerPgid ∨ pg ∈ p.session then .ok pg
  else .error EPERM

/-- what `Command::uid / gid / pgroup` were given -/
structure IdReq where
  uid : Option Nat
  gid : Option Nat
  pgroup : Option Nat
deriving DecidableEq, Repr

/-- what the image runs as -/
structure ChildId where
  cred : Cred
  pgid : Nat
deriving DecidableEq, Repr

def optStep {α : Type} (st : CStep) (o : Option Nat) (f : Nat → Except Nat α) (dflt : α) : Except (CStep × Nat) α :=
  match o with
  | none => .ok dflt
  | some x =>
    match f x with
    | .ok a => .ok a
    | .error e => .error (st, e)

/-- the identity steps of do_spawn's child IN THE CODE'S ORDER (gid, uid, pgroup), then the exec; an error names the
    failing step -/
def idSteps (p : PCtx) (c : Cred) (q : IdReq) : Except (CStep × Nat) ChildId :=
  match optStep .setgid q.gid (setgid c) c with
  | .error x => .error x
  | .ok c1 =>
    match optStep .setuid q.uid (setuid c1) c1 with
    | .error x => .error x
    | .ok c2 =>
      match optStep .setpgid q.pgroup (setpgid p) p.callerPgid with
      | .error x => .error x
      | .ok pg => .ok ⟨execCred c2, pg⟩

/-- the code before 925c7e5: uid first, then gid -/
def Legacy.idSteps (p : PCtx) (c : Cred) (q : IdReq) : Except (CStep × Nat) ChildId :=
  match optStep .setuid q.uid (setuid c) c with
  | .error x => .error x
  | .ok c1 =>
    match optStep .setgid q.gid (setgid c1) c1 with
    | .error x => .error x
    | .ok c2 =>
      match optStep .setpgid q.pgroup (setpgid p) p.callerPgid with
      | .error x => .error x
      | .ok pg => .ok ⟨execCred c2, pg⟩

/-- the fault the identity steps themselves cause, as the protocol model (`spawn`) takes it: the index of the failing
    step among the child's steps, and its errno -/
def idFault (cfg : Config) : Except (CStep × Nat) ChildId → CFault
  | .ok _ => none
  | .error (st, e) => some ((childSteps cfg).idxOf st, some e)

/-- a Config asks for the identity steps the request names -/
def cfgMatches (cfg : Config) (q : IdReq) : Prop :=
  cfg.uid = q.uid.isSome ∧ cfg.gid = q.gid.isSome ∧ cfg.pgroup = q.pgroup.isSome

/-! ### variants (for witnesses only) -/

/-- seeded C13-m8: the uid step skipped when the REAL uid already is the requested one -/
def idStepsSkipUid (p : PCtx) (c : Cred) (q : IdReq) : Except (CStep × Nat) ChildId :=
  idSteps p c { q with uid := match q.uid with
    | some u => if c.uid.r = u then none else some u
    | none => none }

/-- the same "optimisation" on the gid step -/
def idStepsSkipGid (p : PCtx) (c : Cred) (q : IdReq) : Except (CStep × Nat) ChildId :=
  idSteps p c { q with gid := match q.gid with
    | some g => if c.gid.r = g then none else some g
    | none => none }

end TinyVerif.Spawn
