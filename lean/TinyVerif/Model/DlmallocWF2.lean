import TinyVerif.Model.DlmallocWF
/-!
The conjuncts that `wfb` lacks for being an inductive invariant (`Proofs/DlIndCex.lean`,
`Proofs/DlIndSpec.lean`), as executable checks, so that the driver evaluates them — together with `wfb`
— on every state the correspondence explores (`wf 1`):

  * `recsOkB`   every pushed segment record lies in the payload of an in-use header
  * `fenceOkB`  the header ending where a fencepost starts is a fencepost or a record chunk
  * `tailOkB`   in a non-head segment every header that is neither fencepost nor record chunk ends at
                least `top_foot_size` bytes before the segment end
  * `headOkB`   the first header of a segment is not a fencepost
  * `recInB`    the record of a non-head segment lies inside that segment

`Proofs/DlInvCheck.lean` proves `invB hs = true → Inv hs`.
-/
namespace TinyVerif.Dl

def recsOkB (s : St) : Bool :=
  s.segs.all fun g => decide (g.recAt = 0) ||
    (decide (16 ≤ g.recAt) && match findEnt s.h.ents (g.recAt - 16) with
      | some e => e.cin
      | none => false)

def fenceOkB (s : St) : Bool :=
  s.h.ents.all fun x => s.h.ents.all fun y =>
    !(decide (y.size = 8) && decide (y.addr = x.addr + x.size)) || decide (x.size = 8) || isRecord s.segs x

def tailOkB (s : St) : Bool :=
  s.segs.all fun g => decide (g.recAt = 0) || s.h.ents.all fun e =>
    !inSeg g e || decide (e.size = 8) || isRecord s.segs e || decide (e.addr + e.size + 80 ≤ g.base + g.size)

def headOkB (s : St) : Bool :=
  s.segs.all fun g => s.h.ents.all fun e => !(decide (e.addr = g.base)) || !(decide (e.size = 8))

def recInB (s : St) : Bool :=
  s.segs.all fun g => decide (g.recAt = 0) || (decide (g.base + 16 ≤ g.recAt) && decide (g.recAt < g.base + g.size))

def invParts (hs : Hist) : List (String × Bool) :=
  wfParts hs ++ [("recsOk", recsOkB hs.st), ("fenceOk", fenceOkB hs.st), ("tailOk", tailOkB hs.st),
    ("headOk", headOkB hs.st), ("recIn", recInB hs.st)]

def invB (hs : Hist) : Bool := (invParts hs).all (·.2)

def invFirstFailure (hs : Hist) : Option String :=
  ((invParts hs).find? fun p => !p.2).map (·.1)

end TinyVerif.Dl
