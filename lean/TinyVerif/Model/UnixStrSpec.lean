/-
Byte-string definitions (the *spec* side of C10/C11).  Import-free, executable, written for
obviousness, not for speed; each has a characterisation theorem in Props/C11.lean.
All functions work on CONTENT bytes (no terminator) unless stated.
-/
namespace TinyVerif.UnixStr

/-- `naiveFind n h` = the least `i` such that `n` is a prefix of `h.drop i` -/
def naiveFind (n : List Nat) : List Nat → Option Nat
  | [] => if n.isPrefixOf [] then some 0 else none
  | a :: t => if n.isPrefixOf (a :: t) then some 0 else (naiveFind n t).map (· + 1)

/-- `o` is a suffix of `s` -/
def isSuffix (o s : List Nat) : Bool := o.reverse.isPrefixOf s.reverse

/-- longest common prefix -/
def lcp : List Nat → List Nat → List Nat
  | a :: x, b :: y => if a = b then a :: lcp x y else []
  | _, _ => []

/-- the bytes before the last `'/'` (`none`: no `'/'`) -/
def beforeLastSlash : List Nat → Option (List Nat)
  | [] => none
  | b :: rest =>
    match beforeLastSlash rest with
    | some r => some (b :: r)
    | none => if b = 47 then some [] else none

/-- the bytes after the last `'/'` (`none`: no `'/'`) -/
def afterLastSlash : List Nat → Option (List Nat)
  | [] => none
  | b :: rest =>
    match afterLastSlash rest with
    | some r => some r
    | none => if b = 47 then some rest else none

def stripTrailingSlash (a : List Nat) : List Nat := if a.getLast? = some 47 then a.dropLast else a
def stripLeadingSlash (b : List Nat) : List Nat := if b.head? = some 47 then b.drop 1 else b

/-- join: either side empty ⇒ the other; else exactly one separator at the boundary (one slash of
each side is absorbed, every other slash is left alone) -/
def joinSpec (a b : List Nat) : List Nat :=
  if b = [] then a else if a = [] then b
  else stripTrailingSlash a ++ [47] ++ stripLeadingSlash b

/-- parent: split at the last `'/'`; `none` when there is no `'/'`, when the path is shorter than two
bytes (root only / single byte), or when the separator is doubled (`"a//b"`); a separator at index 0
gives the root `"/"` -/
def parentSpec (c : List Nat) : Option (List Nat) :=
  if c.length < 2 then none
  else match beforeLastSlash c with
    | none => none
    | some p => if p.getLast? = some 47 then none else if p = [] then some [47] else some p

/-- file name: the bytes after the last `'/'`; `none` when there is no `'/'` or nothing follows it -/
def fileNameSpec (c : List Nat) : Option (List Nat) :=
  match afterLastSlash c with
  | none => none
  | some r => if r = [] then none else some r

end TinyVerif.UnixStr
