/-
Model of tiny-std's program start (C07).  Import-free.

  tiny-std/src/start.rs        `_start` hands (rsp, &_DYNAMIC) to `__proxy_main` (assembly: modelled, not verified)
  tiny-start/src/start.rs      `resolve`
  tiny-start/src/elf/aux.rs    `AuxValues::from_auxv`
  tiny-start/src/elf/dynlink.rs `relocate_symbols`, `DynSection::init_from_dynv`, `DynSection::relocate`
  tiny-std/src/env.rs          `args_os` / `args` iterators (var / var_unix are in Model/Env.lean)

Memory is a partial byte map `Mem = address → Option byte` (`none` = unmapped: a read or write there is a
`fault`).  Words are little-endian (`rdLE`).  Every function mirrors the Rust code AS WRITTEN: the loops keep
their index variables, `usize` arithmetic is the debug build's checked arithmetic (`chk`: overflow = `panic`;
the theorems show it unreachable under the stated hypotheses, so the wrapping release build agrees), loops
that walk memory up to a terminator take fuel (`fuel` outcome, shown unreachable).

The spec side (`buildStack`, `StackAt`) is written from the x86-64 SysV ABI / Linux `create_elf_tables`:
  sp: argc | argv[0..argc) | NULL | envp[..] | NULL | (key,value)* | (AT_NULL, _) | ... strings ...
-/
namespace TinyVerif.Start

abbrev Bytes := List Nat
abbrev Mem := Nat → Option Nat
abbrev W64 : Nat := 18446744073709551616

/-- outcome of a modelled call -/
inductive R (α : Type) where
  | ok (a : α)
  | fault        -- access to unmapped memory (SIGSEGV / undefined behaviour in the code)
  | panic        -- debug-build arithmetic overflow
  | fuel         -- model artefact: loop fuel exhausted (proved unreachable)
  deriving DecidableEq

@[inline] def R.bind {α β : Type} (x : R α) (f : α → R β) : R β :=
  match x with
  | .ok a => f a
  | .fault => .fault
  | .panic => .panic
  | .fuel => .fuel

/-- `usize` arithmetic result in a debug build -/
def chk (n : Nat) : R Nat := if n < W64 then .ok n else .panic

/-! ## memory -/

def rd8 (m : Mem) (a : Nat) : R Nat :=
  match m a with
  | some b => .ok b
  | none => .fault

/-- little-endian read of `n` bytes -/
def rdLE (m : Mem) (a : Nat) : Nat → R Nat
  | 0 => .ok 0
  | n + 1 => (rd8 m a).bind fun b => (rdLE m (a + 1) n).bind fun r => .ok (b + 256 * r)

def rd64 (m : Mem) (a : Nat) : R Nat := rdLE m a 8
def rd32 (m : Mem) (a : Nat) : R Nat := rdLE m a 4

/-- memory after an 8-byte little-endian store -/
def st64 (m : Mem) (a v : Nat) : Mem :=
  fun x => if a ≤ x ∧ x < a + 8 then some (v / 256 ^ (x - a) % 256) else m x

/-- `*(a as *mut usize) = v`: the eight bytes must be mapped -/
def wr64 (m : Mem) (a v : Nat) : R Mem :=
  (rd64 m a).bind fun _ => .ok (st64 m a v)

/-- the image `img` placed at address `base`, nothing else mapped -/
def memOf (base : Nat) (img : Bytes) : Mem :=
  fun a => if a < base then none else img[a - base]?

/-- `UnixStr::from_ptr(p)` / `strlen(p)`: the bytes before the first NUL at `p` -/
def cstrLoop (m : Mem) (p : Nat) : Nat → Nat → R Bytes
  | 0, _ => .fuel
  | f + 1, i => (rd8 m (p + i)).bind fun b =>
      if b = 0 then .ok [] else (cstrLoop m p f (i + 1)).bind fun r => .ok (b :: r)

def cstr (m : Mem) (p fuel : Nat) : R Bytes := cstrLoop m p fuel 0

/-! ## `resolve` (tiny-start/src/start.rs, feature "aux") -/

structure Env where
  argc : Nat
  argv : Nat
  envp : Nat
  deriving Repr, DecidableEq

structure AuxValues where
  at_base : Nat
  at_gid : Nat
  at_uid : Nat
  at_phdr : Nat
  at_phent : Nat
  at_phnum : Nat
  at_random : Nat
  at_secure : Nat
  at_sysinfo_ehdr : Nat
  at_execfn : Nat
  deriving Repr, DecidableEq

def AuxValues.zeroed : AuxValues := ⟨0, 0, 0, 0, 0, 0, 0, 0, 0, 0⟩

abbrev AT_PHDR : Nat := 3
abbrev AT_PHENT : Nat := 4
abbrev AT_PHNUM : Nat := 5
abbrev AT_BASE : Nat := 7
abbrev AT_UID : Nat := 11
abbrev AT_GID : Nat := 13
abbrev AT_SECURE : Nat := 23
abbrev AT_RANDOM : Nat := 25
abbrev AT_EXECFN : Nat := 31
abbrev AT_SYSINFO_EHDR : Nat := 33
/-- the keys `from_auxv` has a match arm for -/
def keptKeys : List Nat := [AT_PHDR, AT_PHENT, AT_PHNUM, AT_BASE, AT_UID, AT_GID, AT_SECURE, AT_RANDOM,
  AT_SYSINFO_EHDR, AT_EXECFN]

/-- the `match key as i32 { AT_… => collected.at_… = value, _ => {} }` arms, guarded by `key <= 51` -/
def auxSet (c : AuxValues) (key v : Nat) : AuxValues :=
  if key ≤ 51 then
    if key = AT_PHDR then { c with at_phdr := v }
    else if key = AT_PHENT then { c with at_phent := v }
    else if key = AT_PHNUM then { c with at_phnum := v }
    else if key = AT_BASE then { c with at_base := v }
    else if key = AT_UID then { c with at_uid := v }
    else if key = AT_GID then { c with at_gid := v }
    else if key = AT_SECURE then { c with at_secure := v }
    else if key = AT_RANDOM then { c with at_random := v }
    else if key = AT_SYSINFO_EHDR then { c with at_sysinfo_ehdr := v }
    else if key = AT_EXECFN then { c with at_execfn := v }
    else c
  else c

/-- the field a kept key is stored in (0 for any other key: there is no such field) -/
def AuxValues.get (c : AuxValues) (key : Nat) : Nat :=
  if key = AT_PHDR then c.at_phdr
  else if key = AT_PHENT then c.at_phent
  else if key = AT_PHNUM then c.at_phnum
  else if key = AT_BASE then c.at_base
  else if key = AT_UID then c.at_uid
  else if key = AT_GID then c.at_gid
  else if key = AT_SECURE then c.at_secure
  else if key = AT_RANDOM then c.at_random
  else if key = AT_SYSINFO_EHDR then c.at_sysinfo_ehdr
  else if key = AT_EXECFN then c.at_execfn
  else 0

/-- `while key != 0 { …; i += 2; key = *(auxv.add(i)) }`; the value word is read only in a matching arm -/
def auxLoop (m : Mem) (auxv : Nat) : Nat → Nat → Nat → AuxValues → R AuxValues
  | 0, _, _, _ => .fuel
  | f + 1, i, key, c =>
    if key = 0 then .ok c
    else
      (if key ≤ 51 ∧ key ∈ keptKeys then (rd64 m (auxv + 8 * (i + 1))).bind fun v => .ok (auxSet c key v)
       else .ok c).bind fun c' =>
      (rd64 m (auxv + 8 * (i + 2))).bind fun key' => auxLoop m auxv f (i + 2) key' c'

def fromAuxv (m : Mem) (auxv fuel : Nat) : R AuxValues :=
  (rd64 m auxv).bind fun key => auxLoop m auxv fuel 0 key AuxValues.zeroed

/-- `loop { if *(envp.add(null_offset)) == 0 { break }; null_offset += 1 }` -/
def nullLoop (m : Mem) (envp : Nat) : Nat → Nat → R Nat
  | 0, _ => .fuel
  | f + 1, off => (rd64 m (envp + 8 * off)).bind fun v =>
      if v = 0 then .ok off else nullLoop m envp f (off + 1)

/-! ## static-PIE self relocation (tiny-start/src/elf/dynlink.rs) -/

abbrev PT_DYNAMIC : Nat := 2
abbrev DT_RELA : Nat := 7
abbrev DT_RELASZ : Nat := 8
abbrev DT_REL : Nat := 17
abbrev DT_RELSZ : Nat := 18
/-- `relative_type(REL_RELATIVE)` = `8 & 0x7fff_ffff` on x86-64 -/
abbrev R_RELATIVE : Nat := 8
abbrev SZ_REL : Nat := 16
abbrev SZ_RELA : Nat := 24
/-- offset of `p_vaddr` in `Elf64_Phdr` (`p_type` u32 at 0, `p_flags` u32 at 4, `p_offset` u64 at 8) -/
abbrev OFF_P_VADDR : Nat := 16

structure DynSection where
  rel : Nat
  relSz : Nat
  rela : Nat
  relaSz : Nat
  deriving Repr, DecidableEq

def dynSet (d : DynSection) (key v : Nat) : DynSection :=
  if key < 19 then
    if key = DT_RELA then { d with rela := v }
    else if key = DT_RELASZ then { d with relaSz := v }
    else if key = DT_REL then { d with rel := v }
    else if key = DT_RELSZ then { d with relSz := v }
    else d
  else d

def dynLoop (m : Mem) (dynv : Nat) : Nat → Nat → Nat → DynSection → R DynSection
  | 0, _, _, _ => .fuel
  | f + 1, i, key, d =>
    if key = 0 then .ok d
    else
      (if key < 19 ∧ key ∈ [DT_RELA, DT_RELASZ, DT_REL, DT_RELSZ] then
         (rd64 m (dynv + 8 * (i + 1))).bind fun v => .ok (dynSet d key v)
       else .ok d).bind fun d' =>
      (rd64 m (dynv + 8 * (i + 2))).bind fun key' => dynLoop m dynv f (i + 2) key' d'

def initFromDynv (m : Mem) (dynv fuel : Nat) : R DynSection :=
  (rd64 m dynv).bind fun key => dynLoop m dynv fuel 0 key ⟨0, 0, 0, 0⟩

/-- the PT_DYNAMIC search AS WRITTEN:
    `let mut i = ph_num - 1; while i > 0 { phdr = *(phdr_base + phent); phdr_base += phent; if PT_DYNAMIC {…; break}; i -= 1 }`
    — the header at `phdr_base` itself (index 0) is never examined; headers 1 … ph_num-1 are.
    First argument = `i`.  `none` = loop ended without a hit (`base` keeps `aux.at_base` = 0). -/
def findBaseLoop (m : Mem) (dynv phent : Nat) : Nat → Nat → R (Option Nat)
  | 0, _ => .ok none
  | i + 1, phdrBase =>
    (chk (phdrBase + phent)).bind fun a =>
    (rd32 m a).bind fun ty =>
      if ty = PT_DYNAMIC then
        (rd64 m (a + OFF_P_VADDR)).bind fun vaddr =>
          if vaddr ≤ dynv then .ok (some (dynv - vaddr)) else .panic
      else findBaseLoop m dynv phent i a

/-- REL entries `i … i+n-1`: `if r_info == 8 { *(base + r_offset) += base }` -/
def relLoop (base tbl : Nat) : Nat → Nat → Mem → R Mem
  | 0, _, m => .ok m
  | n + 1, i, m =>
    (rd64 m (tbl + SZ_REL * i + 8)).bind fun info =>
      if info = R_RELATIVE then
        (rd64 m (tbl + SZ_REL * i)).bind fun off =>
        (chk (base + off)).bind fun addr =>
        (rd64 m addr).bind fun old =>
        (chk (old + base)).bind fun new =>
        (wr64 m addr new).bind fun m' => relLoop base tbl n (i + 1) m'
      else relLoop base tbl n (i + 1) m

/-- RELA entries: `if r_info == 8 { *(base + r_offset) = base + r_addend as usize }` -/
def relaLoop (base tbl : Nat) : Nat → Nat → Mem → R Mem
  | 0, _, m => .ok m
  | n + 1, i, m =>
    (rd64 m (tbl + SZ_RELA * i + 8)).bind fun info =>
      if info = R_RELATIVE then
        (rd64 m (tbl + SZ_RELA * i)).bind fun off =>
        (chk (base + off)).bind fun addr =>
        (rd64 m (tbl + SZ_RELA * i + 16)).bind fun addend =>
        (chk (base + addend)).bind fun new =>
        (wr64 m addr new).bind fun m' => relaLoop base tbl n (i + 1) m'
      else relaLoop base tbl n (i + 1) m

/-- `DynSection::relocate(base_addr)` -/
def relocate (m : Mem) (d : DynSection) (base : Nat) : R Mem :=
  (if d.relSz / SZ_REL = 0 then .ok m
   else (chk (base + d.rel)).bind fun tbl => relLoop base tbl (d.relSz / SZ_REL) 0 m).bind fun m1 =>
  if d.relaSz / SZ_RELA = 0 then .ok m1
  else (chk (base + d.rela)).bind fun tbl => relaLoop base tbl (d.relaSz / SZ_RELA) 0 m1

/-- `relocate_symbols(dynv, aux)`: only when `_DYNAMIC != 0` and `AT_BASE == 0` -/
def relocateSymbols (m : Mem) (dynv : Nat) (aux : AuxValues) (fuel : Nat) : R Mem :=
  if dynv ≠ 0 then
    if aux.at_base = 0 then
      (if aux.at_phnum > 0 then
         (findBaseLoop m dynv aux.at_phent (aux.at_phnum - 1) aux.at_phdr).bind fun r =>
           .ok (match r with | some b => b | none => 0)
       else .ok 0).bind fun base =>
      (initFromDynv m dynv fuel).bind fun ds => relocate m ds base
    else .ok m
  else .ok m

/-- `resolve(stack_ptr, _dynv)`: returns the three pointers, the aux values and the (relocated) memory -/
def resolve (m : Mem) (sp dynv fuel : Nat) : R (Env × AuxValues × Mem) :=
  (rd64 m sp).bind fun argc =>
  let argv := sp + 8
  (chk (argc * 8)).bind fun a8 =>
  (chk (8 + a8)).bind fun a9 =>
  (chk (a9 + 8)).bind fun envOffset =>
  let envp := sp + envOffset
  (nullLoop m envp fuel 0).bind fun nullOffset =>
  let auxv := envp + 8 * nullOffset + 8
  (fromAuxv m auxv fuel).bind fun aux =>
  (relocateSymbols m dynv aux fuel).bind fun m' =>
  .ok (⟨argc, argv, envp⟩, aux, m')

/-! ## `args_os()` / `args()` (tiny-std/src/env.rs) -/

structure ArgsOs where
  ind : Nat
  numArgs : Nat
  deriving Repr, DecidableEq

def argsOs (e : Env) : ArgsOs := ⟨0, e.argc⟩

/-- `ArgsOs::next` -/
def ArgsOs.next (m : Mem) (e : Env) (fuel : Nat) (it : ArgsOs) : R (Option Bytes × ArgsOs) :=
  if it.ind < it.numArgs then
    let argPtr := e.argv + 8 * it.ind
    let it' : ArgsOs := { it with ind := it.ind + 1 }
    if argPtr = 0 then .ok (none, it')
    else (rd64 m argPtr).bind fun arg =>
      if arg = 0 then .ok (none, it')
      else (cstr m arg fuel).bind fun s => .ok (some s, it')
  else .ok (none, it)

/-- `ExactSizeIterator::len`: `self.num_args - self.ind`, the arguments `next` has not yielded yet (since the
    `fix:` commit d3e06ee; before it the body was `self.num_args`, kept as `Env.Legacy.itStep`) -/
def ArgsOs.len (it : ArgsOs) : Nat := it.numArgs - it.ind

/-- `for a in args_os()`: call `next` until it answers `None` (first argument bounds the number of calls) -/
def collectOs (m : Mem) (e : Env) (fuel : Nat) : Nat → ArgsOs → R (List Bytes)
  | 0, _ => .fuel
  | k + 1, it => (it.next m e fuel).bind fun r =>
      match r with
      | (none, _) => .ok []
      | (some s, it') => (collectOs m e fuel k it').bind fun rest => .ok (s :: rest)

/-- `core::str::from_utf8(..).is_ok()` — well-formed UTF-8 (Unicode 15 table 3-7): no overlong forms,
    no surrogates, nothing above U+10FFFF -/
def utf8Valid : Bytes → Bool
  | [] => true
  | b0 :: rest =>
    if b0 < 128 then utf8Valid rest
    else if 194 ≤ b0 ∧ b0 ≤ 223 then
      match rest with
      | b1 :: r => (128 ≤ b1 ∧ b1 ≤ 191) && utf8Valid r
      | _ => false
    else if 224 ≤ b0 ∧ b0 ≤ 239 then
      match rest with
      | b1 :: b2 :: r =>
        ((if b0 = 224 then 160 else 128) ≤ b1 ∧ b1 ≤ (if b0 = 237 then 159 else 191)) && (128 ≤ b2 ∧ b2 ≤ 191) && utf8Valid r
      | _ => false
    else if 240 ≤ b0 ∧ b0 ≤ 244 then
      match rest with
      | b1 :: b2 :: b3 :: r =>
        ((if b0 = 240 then 144 else 128) ≤ b1 ∧ b1 ≤ (if b0 = 244 then 143 else 191)) && (128 ≤ b2 ∧ b2 ≤ 191) &&
          (128 ≤ b3 ∧ b3 ≤ 191) && utf8Valid r
      | _ => false
    else false

/-- an item of `Args`: `UnixStr::as_str(e)` -/
inductive StrItem where
  | ok (s : Bytes)
  | err
  deriving Repr, DecidableEq

def asStr (s : Bytes) : StrItem := if utf8Valid s then .ok s else .err

/-- `Args::next` = `self.0.next().map(|e| Ok(UnixStr::as_str(e)?))` -/
def Args.next (m : Mem) (e : Env) (fuel : Nat) (it : ArgsOs) : R (Option StrItem × ArgsOs) :=
  (it.next m e fuel).bind fun r => .ok (r.1.map asStr, r.2)

def collectArgs (m : Mem) (e : Env) (fuel : Nat) : Nat → ArgsOs → R (List StrItem)
  | 0, _ => .fuel
  | k + 1, it => (Args.next m e fuel it).bind fun r =>
      match r with
      | (none, _) => .ok []
      | (some s, it') => (collectArgs m e fuel k it').bind fun rest => .ok (s :: rest)

/-- the walk every environment reader performs (`env_ptr.read()`, NULL ends it, `UnixStr::from_ptr`) -/
def envWalk (m : Mem) (fuel : Nat) : Nat → Nat → R (List Bytes)
  | 0, _ => .fuel
  | k + 1, envPtr =>
    if envPtr = 0 then .ok []
    else (rd64 m envPtr).bind fun p =>
      if p = 0 then .ok []
      else (cstr m p fuel).bind fun s => (envWalk m fuel k (envPtr + 8)).bind fun rest => .ok (s :: rest)

/-! ## spec side: the kernel's initial stack image -/

/-- little-endian encoding in `n` bytes -/
def le : Nat → Nat → Bytes
  | 0, _ => []
  | n + 1, w => w % 256 :: le n (w / 256)

def leWords (ws : List Nat) : Bytes := ws.flatMap (le 8)

/-- NUL-terminated strings laid out back to back -/
def strBytes (ss : List Bytes) : Bytes := ss.flatMap (· ++ [0])

/-- their addresses when the first starts at `p` -/
def ptrsFrom (p : Nat) : List Bytes → List Nat
  | [] => []
  | s :: r => p :: ptrsFrom (p + s.length + 1) r

def auxFlat (aux : List (Nat × Nat)) : List Nat := aux.flatMap fun kv => [kv.1, kv.2]

/-- the word block of the initial stack, given where the strings are -/
def stackWords (argc : Nat) (aptrs eptrs : List Nat) (aux : List (Nat × Nat)) : List Nat :=
  [argc] ++ aptrs ++ [0] ++ eptrs ++ [0] ++ auxFlat aux ++ [0, 0]

def nWords (argv env : List Bytes) (aux : List (Nat × Nat)) : Nat :=
  1 + argv.length + 1 + env.length + 1 + 2 * aux.length + 2

/-- the initial stack image at `sp`: word block, then the argument strings, then the environment strings -/
def buildStack (sp : Nat) (argv env : List Bytes) (aux : List (Nat × Nat)) : Bytes :=
  let sb := sp + 8 * nWords argv env aux
  leWords (stackWords argv.length (ptrsFrom sb argv) (ptrsFrom (sb + (strBytes argv).length) env) aux)
    ++ strBytes argv ++ strBytes env

/-- the last value listed for `key`, 0 when it is not listed -/
def auxLast (aux : List (Nat × Nat)) (key : Nat) : Nat :=
  aux.foldl (fun acc kv => if kv.1 = key then kv.2 else acc) 0

end TinyVerif.Start
