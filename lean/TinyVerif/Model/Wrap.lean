/-
Model of rusl's raw system-call wrappers (C09).  Import-free.

A 64-bit return register is a `Nat` below 2^64.  The decode idioms of rusl
(`is_syscall_error`, `bail_on_below_zero!`, `NonNegativeI32::coerce_from_register`) are
interpreted under a `Cfg` whose fields are *extracted from the source on every run*
(`Gen/Wrappers.lean`, written by `checks/c09_extract.py`), and each wrapper's code between the
`syscall!` and its return is a term of the tiny AST `Skel`, also extracted.  `run` interprets a
skeleton against a stream of kernel results and counts the calls it issues.
-/
namespace TinyVerif.Wrap

abbrev TWO64 : Nat := 18446744073709551616
abbrev TWO63 : Nat := 9223372036854775808
abbrev TWO32 : Nat := 4294967296
abbrev TWO31 : Nat := 2147483648
/-- fuel of a retry loop in the model = call cap of the harness (after which it reports `diverge`) -/
abbrev FUEL : Nat := 64

/-- integer types a register is cast to (`usize` = `u64`, `isize` = `i64` on the 64-bit targets) -/
inductive Ty where
  | i32 | u32 | i64 | u64
  deriving DecidableEq, Repr

/-- `r as t` for a 64-bit register `r` -/
def castTo (t : Ty) (r : Nat) : Int :=
  match t with
  | .i32 => if r % TWO32 < TWO31 then ((r % TWO32 : Nat) : Int) else ((r % TWO32 : Nat) : Int) - (TWO32 : Int)
  | .u32 => ((r % TWO32 : Nat) : Int)
  | .i64 => if r % TWO64 < TWO63 then ((r % TWO64 : Nat) : Int) else ((r % TWO64 : Nat) : Int) - (TWO64 : Int)
  | .u64 => ((r % TWO64 : Nat) : Int)

/-- how the `Ok` payload is obtained from the register -/
inductive Proj where
  | unit            -- `Ok(())`
  | mem             -- `Ok(<value read from kernel-written memory>)`, the register is not used
  | id              -- `Ok(res)`
  | cast (t : Ty)   -- `Ok(res as t)` (also inside a struct literal / tuple)
  deriving DecidableEq, Repr

/-- observable payload of a success -/
inductive Pay where
  | unit
  | mem
  | num (v : Int)
  deriving DecidableEq, Repr

inductive Outcome where
  | ok (p : Pay)        -- `Ok(..)`
  | err (code : Int)    -- `Err(Error { code: Some(code), .. })`
  | ret (p : Pay)       -- the wrapper has no `Result`: plain return value
  | noret               -- never returns
  | panic
  | diverge             -- more than `FUEL` calls
  | unknown             -- a construct the extractor did not recognise
  deriving DecidableEq, Repr

/-- expression the error code is built from -/
inductive Code where
  | negI32              -- `0 - res as i32`
  | rawI32              -- `res as i32`
  | custom (s : String)
  deriving DecidableEq, Repr

/-- the shared decode idioms, as extracted from macros.rs / platform/compat.rs / non_negative_i32.rs -/
structure Cfg where
  /-- `LINUX_ERROR_RESV` -/
  resv : Nat
  /-- `true`: `res > usize::MAX - resv`;  `false`: `res >= usize::MAX - resv` -/
  strict : Bool
  /-- code expression of `bail_on_below_zero!` -/
  bailCode : Code
  /-- code expression of `coerce_from_register`'s error branch -/
  coerceCode : Code
  /-- cast in `coerce_from_register`'s success branch (`Ok(Self(val as i32))`) -/
  coerceOk : Ty
  /-- `Errno::EBUSY.raw()` -/
  ebusy : Int
  deriving DecidableEq, Repr

/-- post-syscall decode skeleton of one wrapper -/
inductive Skel where
  /-- `bail_on_below_zero!(res, _); Ok(proj res)` -/
  | bail (p : Proj)
  /-- `Fd::coerce_from_register(res, _)` (possibly re-wrapped: `Ok(T(..?))`, `let fd = ..?; Ok((fd, mem))`) -/
  | coerceFd
  /-- no `Result`: `res as t` / `res` / memory returned as is -/
  | retRaw (p : Proj)
  /-- no `Result`, the register is discarded -/
  | ignored
  /-- never returns (`-> !`) -/
  | noRet
  /-- `Err(Error::with_code(_, code res))` unconditionally (execve) -/
  | errAlways (c : Code)
  /-- `loop { res = syscall; if res as t == v { continue; } k }` -/
  | retryIfEq (t : Ty) (v : Int) (k : Skel)
  /-- anything the extractor does not recognise -/
  | custom (s : String)
  deriving DecidableEq, Repr

/-- `is_syscall_error(res)` -/
def isSyscallError (c : Cfg) (r : Nat) : Bool :=
  if c.strict then decide (r > TWO64 - 1 - c.resv) else decide (r ≥ TWO64 - 1 - c.resv)

/-- the error built from a code expression; `0 - x` on `i32` panics on overflow (debug build) -/
def evalCode (c : Code) (r : Nat) : Outcome :=
  match c with
  | .negI32 => if castTo .i32 r = -2147483648 then .panic else .err (-(castTo .i32 r))
  | .rawI32 => .err (castTo .i32 r)
  | .custom _ => .unknown

def projPay (p : Proj) (r : Nat) : Pay :=
  match p with
  | .unit => .unit
  | .mem => .mem
  | .id => .num (castTo .u64 r)
  | .cast t => .num (castTo t r)

/-- what a loop-free skeleton returns for kernel result `r` -/
def step (c : Cfg) (k : Skel) (r : Nat) : Outcome :=
  match k with
  | .bail p => if isSyscallError c r then evalCode c.bailCode r else .ok (projPay p r)
  | .coerceFd => if isSyscallError c r then evalCode c.coerceCode r else .ok (.num (castTo c.coerceOk r))
  | .retRaw p => .ret (projPay p r)
  | .ignored => .ret .mem
  | .noRet => .noret
  | .errAlways code => evalCode code r
  | .retryIfEq _ _ _ => .unknown
  | .custom _ => .unknown

/-- the retry loop: `i` = index of the next kernel result = number of calls issued so far -/
def retryLoop (c : Cfg) (t : Ty) (v : Int) (k : Skel) (kr : Nat → Nat) : Nat → Nat → Outcome × Nat
  | 0, i => (.diverge, i)
  | fuel + 1, i =>
    if castTo t (kr i) = v then retryLoop c t v k kr fuel (i + 1) else (step c k (kr i), i + 1)

/-- run a wrapper against the stream of kernel results `kr`; second component = calls issued -/
def run (c : Cfg) (k : Skel) (kr : Nat → Nat) : Outcome × Nat :=
  match k with
  | .retryIfEq t v k' => retryLoop c t v k' kr FUEL 0
  | k => (step c k (kr 0), 1)

/-! ## the syntactic check -/

/-- the decode idioms are the ones the proofs are about -/
def stdCfg : Cfg := { resv := 4095, strict := true, bailCode := .negI32, coerceCode := .negI32, coerceOk := .i32, ebusy := 16 }

def cfgOk (c : Cfg) : Bool := decide (c = stdCfg)

def chkSimple : Skel → Bool
  | .bail _ => true
  | .coerceFd => true
  | _ => false

/-- a skeleton that decodes exactly (sound by `Props/C09.chk_sound`) -/
def chk : Skel → Bool
  | .bail _ => true
  | .coerceFd => true
  | .retRaw _ => true
  | .ignored => true
  | .noRet => true
  | .errAlways c => decide (c = .negI32)
  | .retryIfEq t v k => ((decide (t = .i64) && decide (v = -16)) || (decide (t = .u64) && decide (v = 18446744073709551600))) && chkSimple k
  | .custom _ => false

def usesRetry : Skel → Bool
  | .retryIfEq _ _ _ => true
  | _ => false

/-- one row of the regenerated table -/
structure Wrapper where
  /-- `module::fn` as exported by rusl -/
  name : String
  file : String
  skel : Skel
  deriving Repr

/-- wrappers whose documentation allows re-issuing the call (dup's EBUSY race with open) -/
def retryDocumented : List String := ["unistd::dup3", "unistd::dup2"]

def wrapperOk (w : Wrapper) : Bool :=
  chk w.skel && (!usesRetry w.skel || retryDocumented.contains w.name)

/-! ## rendering (shared by the driver) -/

def showPay : Pay → String
  | .unit => "-"
  | .mem => "mem"
  | .num v => toString v

def showOutcome : Outcome → String
  | .ok p => "ok " ++ showPay p
  | .err c => "err " ++ toString c
  | .ret p => "ret " ++ showPay p
  | .noret => "noreturn"
  | .panic => "panic"
  | .diverge => "diverge"
  | .unknown => "unknown"

end TinyVerif.Wrap
