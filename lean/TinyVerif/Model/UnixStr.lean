/-
Model of rusl/src/string/unix_str.rs (+ strlen.rs::buf_strlen) for C10 / C11.  Import-free.

A `UnixStr`/`UnixString`/`&[u8]`/`&str` value is its RAW byte list (`List Nat`, bytes < 256),
terminator included.  Every function mirrors the Rust code *as written*: the loops keep their index
variables, `len - 1`-style subtractions are checked (`sub`, debug-build underflow = `panic`), slice
indexing is `idx` (`panic` when out of range), raw-pointer reads (`ptr.add(i).read()`,
`get_unchecked`) are `rd` (`oob` when past the end of the operand), and loops whose trip count is
not structurally bounded take fuel (`fuel` outcome; theorems show it unreachable).

The model follows the code after the four `fix:` commits (parent_path NUL-terminated, find uses the
whole needle, empty needle found at 0, match_up_to_str checks the key length before reading); the
pre-fix bodies are kept in `namespace Legacy` with the witnesses of the defects they had.
-/
namespace TinyVerif.UnixStr

abbrev SLASH : Nat := 47

inductive ErrKind where
  | interior   -- "a null byte was found but out of place"
  | noterm     -- "not null terminated"
  deriving Repr, DecidableEq

/-- outcome of a modelled call -/
inductive R (α : Type) where
  | ok (a : α)
  | err (e : ErrKind)
  | panic        -- Rust panic (index out of range, arithmetic underflow, failed assert)
  | oob          -- a raw read outside the operand's bytes (undefined behaviour in the code)
  | fuel         -- model artefact: loop fuel exhausted (proved unreachable)
  deriving Repr, DecidableEq

@[inline] def R.bind {α β : Type} (x : R α) (f : α → R β) : R β :=
  match x with
  | .ok a => f a
  | .err e => .err e
  | .panic => .panic
  | .oob => .oob
  | .fuel => .fuel

instance : Monad R where
  pure := R.ok
  bind := R.bind

/-- `a - b` on `usize` in a debug build -/
def sub (a b : Nat) : R Nat := if b ≤ a then .ok (a - b) else .panic
/-- `l[i]` (bounds-checked slice index) -/
def idx (l : List Nat) (i : Nat) : R Nat :=
  match l[i]? with
  | some b => .ok b
  | none => .panic
/-- `l.as_ptr().add(i).read()` / `get_unchecked(i)` -/
def rd (l : List Nat) (i : Nat) : R Nat :=
  match l[i]? with
  | some b => .ok b
  | none => .oob

/-! ## constructors -/

inductive Scan where
  | nulAtEnd | nulInterior | noNul | panic
  deriving Repr, DecidableEq

/-- `for (ind, byte) in s.iter().enumerate() { if *byte == 0 { return if ind == len - 1 {..} else {..} } }` -/
def scanNul (len : Nat) : Nat → List Nat → Scan
  | _, [] => .noNul
  | ind, b :: rest =>
    if b = 0 then
      match sub len 1 with
      | .ok m => if ind = m then .nulAtEnd else .nulInterior
      | _ => .panic
    else scanNul len (ind + 1) rest

/-- `UnixStr::try_from_bytes` / `try_from_str` (borrowed: the terminator must be present) -/
def tryFromBorrowed (s : List Nat) : R (List Nat) :=
  match scanNul s.length 0 s with
  | .nulAtEnd => .ok s
  | .nulInterior => .err .interior
  | .noNul => .err .noterm
  | .panic => .panic

/-- `UnixString::try_from_bytes` / `try_from_vec` / `try_from_str` / `try_from_string` / `from_str`
(owned: a missing terminator is appended) -/
def tryFromOwned (s : List Nat) : R (List Nat) :=
  match scanNul s.length 0 s with
  | .nulAtEnd => .ok s
  | .nulInterior => .err .interior
  | .noNul => .ok (s ++ [0])
  | .panic => .panic

/-- `while i > 0 { i -= 1; assert!(s[i] != 0) }` -/
def constLoop (s : List Nat) : Nat → R Unit
  | 0 => .ok ()
  | i + 1 => (idx s i).bind fun b => if b = 0 then .panic else constLoop s i

/-- `const_null_term_validate`: `ok ()` = accepted, `panic` = the (compile-time) rejection -/
def constValidate (s : List Nat) : R Unit :=
  if s.isEmpty then .panic
  else (sub s.length 1).bind fun len =>
    (idx s len).bind fun b => if b ≠ 0 then .panic else constLoop s len

/-- `UnixStr::from_str_checked` -/
def fromStrChecked (s : List Nat) : R (List Nat) := (constValidate s).bind fun _ => .ok s
/-- `unix_lit!(lit)` = `from_str_checked(concat!(lit, "\0"))` -/
def unixLit (c : List Nat) : R (List Nat) := fromStrChecked (c ++ [0])

/-- `if !matches!(v.last(), Some(&0)) { v.push(0) }` -/
def ensureNul (v : List Nat) : List Nat := if v.getLast? = some 0 then v else v ++ [0]

/-- `UnixString::from_format` on the formatted bytes -/
def fromFormat (p : List Nat) : R (List Nat) := .ok (ensureNul p)

/-- `buf_strlen` loop: `while ind < buf.len() { if buf[ind] == 0 { return Ok(ind) } ind += 1 }` -/
def bufStrlenLoop : Nat → List Nat → R Nat
  | _, [] => .err .noterm
  | ind, b :: rest => if b = 0 then .ok ind else bufStrlenLoop (ind + 1) rest

def bufStrlen (buf : List Nat) : R Nat := bufStrlenLoop 0 buf

/-- `DirEntry::file_unix_name`: `d_name.get_unchecked(..=buf_strlen(d_name)?)` -/
def fileUnixName (buf : List Nat) : R (List Nat) :=
  (bufStrlen buf).bind fun len => if len + 1 ≤ buf.length then .ok (buf.take (len + 1)) else .oob

/-! ## path operations -/

/-- `UnixStr::path_join` -/
def pathJoin (s e : List Nat) : R (List Nat) :=
  let asString := s.dropLast          -- `to_vec(); pop()`
  match asString.getLast? with
  | none => .ok e                     -- `UnixString::from(ext)`
  | some last =>
    if e.length = 1 then .ok s        -- `UnixString::from(self)`
    else if last = SLASH then
      (rd e 0).bind fun e0 =>
        if e0 = SLASH then
          if 1 ≤ e.length then .ok (asString ++ e.drop 1) else .oob   -- `get_unchecked(1..)`
        else .ok (asString ++ e)
    else (rd e 0).bind fun e0 =>
      if e0 = SLASH then .ok (asString ++ e)
      else .ok (asString ++ [SLASH] ++ e)

/-- `UnixStr::path_join_fmt` on the formatted bytes `p` -/
def pathJoinFmt (s p : List Nat) : R (List Nat) :=
  if p.isEmpty then .ok s
  else
    let asString := s.dropLast
    match asString.getLast? with
    | none => .ok (ensureNul p)
    | some last =>
      if last = SLASH then
        let start := if p.head? = some SLASH then 1 else 0
        -- `if let Some(add) = container_vec.get(start_from..)` : `None` only when start > len
        let added := if start ≤ p.length then asString ++ p.drop start else asString
        .ok (ensureNul added)
      else if p.head? = some SLASH then .ok (ensureNul (asString ++ p))
      else .ok (ensureNul (asString ++ [SLASH] ++ p))

/-- `for (ind, byte) in self.0.iter().enumerate().rev()`; `k` = number of bytes not yet visited -/
def fileNameLoop (s : List Nat) : Nat → R (Option (List Nat))
  | 0 => .ok none
  | k + 1 => (idx s k).bind fun b =>
    if b = SLASH then
      if k + 2 < s.length then
        (if k + 1 ≤ s.length then .ok (some (s.drop (k + 1))) else .panic)   -- `&self.0[ind + 1..]`
      else .ok none
    else fileNameLoop s k

/-- `UnixStr::path_file_name` -/
def pathFileName (s : List Nat) : R (Option (List Nat)) := fileNameLoop s s.length

inductive PLoop where
  | retNone          -- `return None` inside the loop
  | exit (nsb : Nat) -- loop left (break / `while let` failed) with this `next_slash_back`
  deriving Repr, DecidableEq

/-- the `while let Some(byte) = self.0.get(next_slash_back).copied()` loop of `parent_path`;
`next_slash_back -= 1` happens only after the `== 0` test, so the recursion is structural -/
def parentLoop (s : List Nat) : Nat → PLoop
  | 0 =>
    match s[0]? with
    | none => .exit 0
    | some byte => if byte = SLASH then .exit 0 else .retNone
  | n + 1 =>
    match s[n + 1]? with
    | none => .exit (n + 1)
    | some byte =>
      if byte = SLASH then
        if s[n]? = some SLASH then .retNone else .exit (n + 1)
      else parentLoop s n

/-- `UnixStr::parent_path` (after the fix: `get_unchecked(..next_slash_back)` + `push(0)`) -/
def parentPath (s : List Nat) : R (Option (List Nat)) :=
  if s.length < 3 then .ok none
  else (sub s.length 2).bind fun last =>
    match parentLoop s last with
    | .retNone => .ok none
    | .exit nsb =>
      let nsb := if nsb = 0 then nsb + 1 else nsb
      if nsb ≤ s.length then .ok (some (s.take nsb ++ [0])) else .oob

/-! ## search -/

/-- `match_up_to`: both operands read through raw pointers -/
def matchLoop (s o : List Nat) : Nat → Nat → R Nat
  | 0, _ => .fuel
  | f + 1, it =>
    (rd s it).bind fun a => (rd o it).bind fun b =>
      if a ≠ b ∨ a = 0 then .ok it else matchLoop s o f (it + 1)

def matchUpTo (s o : List Nat) : R Nat := matchLoop s o (s.length + 1) 0

/-- `match_up_to_str` after the fix: `if it == other_len { return it }` precedes the reads -/
def matchStrLoop (s o : List Nat) : Nat → Nat → R Nat
  | 0, _ => .fuel
  | f + 1, it =>
    if it = o.length then .ok it
    else (rd s it).bind fun a => (rd o it).bind fun b =>
      if a ≠ b ∨ a = 0 then .ok it else matchStrLoop s o f (it + 1)

def matchUpToStr (s o : List Nat) : R Nat := matchStrLoop s o (s.length + 1) 0

inductive Inner where
  | matched | noMatch | retNone
  deriving Repr, DecidableEq

/-- `for j in 1..other_buf.len()`; `k` = iterations left -/
def innerLoop (h n : List Nat) (i : Nat) : Nat → Nat → R Inner
  | 0, _ => .ok .matched
  | k + 1, j =>
    match h[i + j]? with
    | some this => (idx n j).bind fun nj => if this ≠ nj then .ok .noMatch else innerLoop h n i k (j + 1)
    | none => .ok .retNone

/-- `for i in 0..this_buf.len()`; `k` = iterations left -/
def outerLoop (h n : List Nat) (first : Nat) : Nat → Nat → R (Option Nat)
  | 0, _ => .ok none
  | k + 1, i =>
    (idx h i).bind fun hi =>
      if hi = first then
        (innerLoop h n i (n.length - 1) 1).bind fun r =>
          match r with
          | .matched => .ok (some i)
          | .retNone => .ok none
          | .noMatch => outerLoop h n first k (i + 1)
      else outerLoop h n first k (i + 1)

/-- `buf_find` after the fix: an empty needle is found at 0 -/
def bufFind (h n : List Nat) : R (Option Nat) :=
  match n.head? with
  | none => .ok (some 0)
  | some first => outerLoop h n first h.length 0

/-- `UnixStr::find` after the fix: needle = `other.0[..len - 1]` -/
def find (s o : List Nat) : R (Option Nat) :=
  if o.length > s.length then .ok none
  else (sub o.length 1).bind fun m =>
    if m ≤ o.length then bufFind s (o.take m) else .panic

/-- `UnixStr::find_buf` -/
def findBuf (s n : List Nat) : R (Option Nat) :=
  if n.length > s.length then .ok none else bufFind s n

/-- the `while let (Some(this), Some(that)) = (self.0.get(len-1-ind), other.0.get(olen-1-ind))` loop -/
def endsLoop (s o : List Nat) : Nat → Nat → R Bool
  | 0, _ => .fuel
  | f + 1, ind =>
    (sub s.length 1).bind fun a => (sub a ind).bind fun si =>
    (sub o.length 1).bind fun b => (sub b ind).bind fun oi =>
      match s[si]?, o[oi]? with
      | some this, some that =>
        if this ≠ that then .ok false
        else if oi = 0 then .ok true
        else endsLoop s o f (ind + 1)
      | _, _ => .ok true

/-- `UnixStr::ends_with` -/
def endsWith (s o : List Nat) : R Bool :=
  if o.length > s.length then .ok false else endsLoop s o (o.length + 1) 0

/-! ## `fmt::Arguments` shapes

`from_format` and `path_join_fmt` take a `core::fmt::Arguments`: a format string that is a LITERAL
in the caller's source (`lit`, its rendered bytes) interleaved with run-time arguments (`x`, `y`).
The code has ONE body for all of them (`alloc::fmt::format(args)` first, everything else works on
the rendered bytes), so the model of a call with a shaped `Arguments` is the model of the call on
the rendering.  (`Arguments::as_str()` is `Some` exactly for `FmtShape.lit`; the code as it exists
never asks.) -/

inductive FmtShape where
  | lit          -- `format_args!(L)`
  | litArg       -- `format_args!("L{}", x)`
  | argLit       -- `format_args!("{}L", x)`
  | litArgLit    -- `format_args!("L{}L", x)`
  | arg          -- `format_args!("{}", x)`
  | argLitArg    -- `format_args!("{}L{}", x, y)`
  | litArgArg    -- `format_args!("L{}{}", x, y)`
  | argArgLit    -- `format_args!("{}{}L", x, y)`
  deriving Repr, DecidableEq

/-- number of run-time arguments of a shape -/
def FmtShape.arity : FmtShape → Nat
  | .lit => 0
  | .litArg | .argLit | .litArgLit | .arg => 1
  | .argLitArg | .litArgArg | .argArgLit => 2

/-- `alloc::fmt::format(args)`: the pieces in order (`Display` of a `&str` is its bytes) -/
def render (sh : FmtShape) (lit x y : List Nat) : List Nat :=
  match sh with
  | .lit => lit
  | .litArg => lit ++ x
  | .argLit => x ++ lit
  | .litArgLit => lit ++ x ++ lit
  | .arg => x
  | .argLitArg => x ++ lit ++ y
  | .litArgArg => lit ++ x ++ y
  | .argArgLit => x ++ y ++ lit

/-- `UnixString::from_format(args)` for a shaped `Arguments` -/
def fromFormatArgs (sh : FmtShape) (lit x y : List Nat) : R (List Nat) := fromFormat (render sh lit x y)

/-- `self.path_join_fmt(args)` for a shaped `Arguments` -/
def pathJoinFmtArgs (s : List Nat) (sh : FmtShape) (lit x y : List Nat) : R (List Nat) :=
  pathJoinFmt s (render sh lit x y)

/-! ## the code before the fixes (witnesses of the defects live in Props/C10, Props/C11) -/
namespace Legacy

/-- `parent_path` before the fix: `get_unchecked(..=next_slash_back).to_vec()` — no terminator -/
def parentPath (s : List Nat) : R (Option (List Nat)) :=
  if s.length < 3 then .ok none
  else (sub s.length 2).bind fun last =>
    match parentLoop s last with
    | .retNone => .ok none
    | .exit nsb =>
      let nsb := if nsb = 0 then nsb + 1 else nsb
      if nsb + 1 ≤ s.length then .ok (some (s.take (nsb + 1))) else .oob

/-- `buf_find` before the fix: `other_buf[0]` unconditionally -/
def outerLoop (h n : List Nat) : Nat → Nat → R (Option Nat)
  | 0, _ => .ok none
  | k + 1, i =>
    (idx h i).bind fun hi => (idx n 0).bind fun first =>
      if hi = first then
        (innerLoop h n i (n.length - 1) 1).bind fun r =>
          match r with
          | .matched => .ok (some i)
          | .retNone => .ok none
          | .noMatch => outerLoop h n k (i + 1)
      else outerLoop h n k (i + 1)

def bufFind (h n : List Nat) : R (Option Nat) := outerLoop h n h.length 0

/-- `find` before the fix: needle = `other.0[..len - 2]` -/
def find (s o : List Nat) : R (Option Nat) :=
  if o.length > s.length then .ok none
  else (sub o.length 2).bind fun m =>
    if m ≤ o.length then bufFind s (o.take m) else .panic

def findBuf (s n : List Nat) : R (Option Nat) :=
  if n.length > s.length then .ok none else bufFind s n

/-- `match_up_to_str` before the fix: both reads happen before the length test -/
def matchStrLoop (s o : List Nat) : Nat → Nat → R Nat
  | 0, _ => .fuel
  | f + 1, it =>
    (rd s it).bind fun a => (rd o it).bind fun b =>
      if a ≠ b ∨ a = 0 then .ok it
      else if it + 1 = o.length then .ok (it + 1)
      else matchStrLoop s o f (it + 1)

def matchUpToStr (s o : List Nat) : R Nat := matchStrLoop s o (s.length + 1) 0

end Legacy

end TinyVerif.UnixStr
