/-
Model of tiny-std/src/sync/mutex.rs + sync.rs `futex_wait_fast` (C01).  Import-free.

Small-step system for an arbitrary number `n` of threads at the granularity of single atomic
operations and futex calls.  The environment's choices are part of each event: which value a relaxed
load observed (any value: this subsumes stale reads), whether a futex wait parked, which waiter a wake
released, spurious returns.  Memory is a release/acquire *view* model restricted to what the code
uses: every write to the lock word is an RMW, so the word carries one released data-view that RMWs
pass on (release sequences); an acquire RMW joins it into the thread's view; the protected value is a
non-atomic location whose access races unless the accessor's view covers the latest write.
-/
namespace TinyVerif.Mutex

/-- one `lock`/`try_lock` … `unlock` bracket with `acc` guarded data accesses -/
structure Txn where
  try_ : Bool
  acc : Nat
  deriving Repr, DecidableEq

inductive Pc where
  | idle
  | fastCas (try_ : Bool)      -- about to `compare_exchange(0,1)` of `lock`/`try_lock`
  | spin (n : Nat) (first : Bool)  -- about to `load(Relaxed)` in `spin()`, `n` spins left
  | casAfterSpin               -- `state == 0` after the first spin: `compare_exchange(0,1)`
  | swap2                      -- about to `swap(2, Acquire)`
  | waitLoad                   -- `futex_wait_fast`: about to `load(Relaxed)`
  | waitSys                    -- about to issue the futex wait syscall
  | parked                     -- blocked in the kernel
  | acquired                   -- lock()/try_lock() is returning a guard
  | hold (k : Nat)             -- holds the guard, `k` data accesses left
  | unlockSwap                 -- guard dropped: about to `swap(0, Release)`
  | wake                       -- old value was 2: about to `futex_wake(1)`
  | tryFailed                  -- try_lock is returning None
  deriving Repr, DecidableEq

structure Th where
  pc : Pc
  dv : Nat            -- data view: timestamp of the latest data write this thread has synchronised with
  prog : List Txn
  deriving Repr

/-- orderings taken from the source (regenerated table): does the site have acquire / release semantics -/
structure Cfg where
  lockAcq : Bool      -- `lock`: compare_exchange success ordering ⊇ Acquire
  tryAcq : Bool       -- `try_lock`
  cas2Acq : Bool      -- CAS after the first spin
  swap2Acq : Bool     -- `swap(2, _)`
  unlockRel : Bool    -- `swap(0, _)` ⊇ Release
  spinMax : Nat
  deriving Repr, DecidableEq

structure St where
  n : Nat
  wval : Nat          -- latest value of the futex word
  wview : Nat         -- data view released with the word's latest message (release sequence head)
  dlatest : Nat       -- timestamp of the latest write to the protected data
  raced : Bool
  ths : Nat → Th

inductive Ev where
  | callLock | callTry | acq | rel | tryfail | data
  | cas (ok : Bool) (old : Nat)
  | load (v : Nat)
  | swap (new old : Nat)
  | fwait (expect : Nat) (park : Bool)
  | fwake (num : Nat) (woken : Option Nat)
  | spur (eintr : Bool)
  deriving Repr, DecidableEq

def setTh (s : St) (i : Nat) (t : Th) : St :=
  { s with ths := fun j => if j = i then t else s.ths j }

def isParked (t : Th) : Bool := t.pc == .parked

def anyParked (s : St) : Bool := (List.range s.n).any (fun i => isParked (s.ths i))

/-- where control goes when `spin()` returned `v` inside the `loop` (or after a failed CAS) -/
def loopTop (v : Nat) : Pc := if v ≠ 2 then .swap2 else .waitLoad

/-- an RMW on the lock word by thread `t`: it reads the latest message -/
def rmw (s : St) (i : Nat) (t : Th) (acq rel : Bool) (new : Nat) (pc' : Pc) : St :=
  let dv' := if acq then max t.dv s.wview else t.dv
  let wview' := if rel then max s.wview t.dv else s.wview
  setTh { s with wval := new, wview := wview' } i { t with pc := pc', dv := dv' }

def popTxn (t : Th) : List Txn := t.prog.tail

/-- one step of thread `i` performing event `e`; `none` = the model's thread would not do that -/
def step (c : Cfg) (s : St) (i : Nat) (e : Ev) : Option St :=
  if i ≥ s.n then none else
  let t := s.ths i
  match t.pc, e with
  | .idle, .callLock =>
      match t.prog with
      | tx :: _ => if tx.try_ then none else some (setTh s i { t with pc := .fastCas false })
      | [] => none
  | .idle, .callTry =>
      match t.prog with
      | tx :: _ => if tx.try_ then some (setTh s i { t with pc := .fastCas true }) else none
      | [] => none
  | .fastCas tr, .cas ok old =>
      if old ≠ s.wval then none else
      if ok then
        if s.wval = 0 then some (rmw s i t (if tr then c.tryAcq else c.lockAcq) false 1 .acquired) else none
      else
        if s.wval = 0 then none else
        some (setTh s i { t with pc := if tr then .tryFailed else .spin c.spinMax true })
  | .tryFailed, .tryfail => some (setTh s i { t with pc := .idle, prog := popTxn t })
  | .spin n first, .load v =>
      if v ≠ 1 ∨ n = 0 then
        some (setTh s i { t with pc := if first ∧ v = 0 then .casAfterSpin else loopTop v })
      else some (setTh s i { t with pc := .spin (n - 1) first })
  | .casAfterSpin, .cas ok old =>
      if old ≠ s.wval then none else
      if ok then
        if s.wval = 0 then some (rmw s i t c.cas2Acq false 1 .acquired) else none
      else
        if s.wval = 0 then none else some (setTh s i { t with pc := loopTop old })
  | .swap2, .swap new old =>
      if new ≠ 2 ∨ old ≠ s.wval then none else
      some (rmw s i t c.swap2Acq false 2 (if old = 0 then .acquired else .waitLoad))
  | .waitLoad, .load v =>
      some (setTh s i { t with pc := if v ≠ 2 then .spin c.spinMax false else .waitSys })
  | .waitSys, .fwait expect park =>
      if expect ≠ 2 then none else
      if park then
        if s.wval = 2 then some (setTh s i { t with pc := .parked }) else none
      else
        if s.wval = 2 then none else some (setTh s i { t with pc := .spin c.spinMax false })
  | .parked, .spur eintr =>
      some (setTh s i { t with pc := if eintr then .waitLoad else .spin c.spinMax false })
  | .acquired, .acq =>
      match t.prog with
      | tx :: _ => some (setTh s i { t with pc := .hold tx.acc })
      | [] => none
  | .hold (k + 1), .data =>
      some (setTh { s with raced := s.raced || (t.dv != s.dlatest), dlatest := s.dlatest + 1 } i
              { t with pc := .hold k, dv := s.dlatest + 1 })
  | .hold 0, .rel => some (setTh s i { t with pc := .unlockSwap })
  | .unlockSwap, .swap new old =>
      if new ≠ 0 ∨ old ≠ s.wval then none else
      some (rmw s i { t with prog := if old = 2 then t.prog else popTxn t } false c.unlockRel 0
              (if old = 2 then .wake else .idle))
  | .wake, .fwake num woken =>
      if num ≠ 1 then none else
      match woken with
      | none =>
          if anyParked s then none else some (setTh s i { t with pc := .idle, prog := popTxn t })
      | some j =>
          if j ≥ s.n ∨ j = i then none else
          let u := s.ths j
          if u.pc ≠ .parked then none else
          let s1 := setTh s j { u with pc := .spin c.spinMax false }
          some (setTh s1 i { t with pc := .idle, prog := popTxn t })
  | _, _ => none

def run (c : Cfg) : St → List (Nat × Ev) → Option St
  | s, [] => some s
  | s, (i, e) :: rest =>
      match step c s i e with
      | some s' => run c s' rest
      | none => none

def init (progs : List (List Txn)) : St :=
  { n := progs.length, wval := 0, wview := 0, dlatest := 0, raced := false,
    ths := fun i => { pc := .idle, dv := 0, prog := progs.getD i [] } }

/-- the configuration the theorems need: acquire on every acquiring RMW, release on unlock -/
def Cfg.Good (c : Cfg) : Prop :=
  c.lockAcq = true ∧ c.tryAcq = true ∧ c.cas2Acq = true ∧ c.swap2Acq = true ∧ c.unlockRel = true

instance (c : Cfg) : Decidable c.Good := by unfold Cfg.Good; infer_instance

/-- thread `t` is between winning the lock and its unlocking swap -/
def holds (t : Th) : Bool :=
  match t.pc with
  | .acquired | .hold _ | .unlockSwap => true
  | _ => false

/-- a thread inside `lock_contended`'s loop that is awake: before it can park it will either put 2 into
the word or see the kernel refuse the wait because the word is not 2 -/
def contender (t : Th) : Bool :=
  match t.pc with
  | .spin _ false | .swap2 | .waitLoad | .waitSys => true
  | _ => false

def wakePending (t : Th) : Bool := t.pc == .wake

/-- finished: nothing left to run -/
def finished (t : Th) : Bool := t.pc == .idle && t.prog.isEmpty

/-- a thread that can take a step of its own (everything except parked and finished threads) -/
def enabled (t : Th) : Bool := !(isParked t) && !(finished t)

end TinyVerif.Mutex
