import TinyVerif.Gen.DlmallocPure
/-!
Address-explicit, chunk-level executable model of `tiny-std/src/allocator/dlmalloc.rs`
(the dlmalloc-rs port behind tiny-std's global allocator), mirroring the code's decisions branch
for branch.  It is *not* a tidy specification: it keeps

* `ents`   — every header word the code has written and that is still reachable, as an
             address-ordered table `addr ↦ (size, cinuse, pinuse, prev_foot)`; this includes the
             wilderness chunk `top`, the foot word after `top` (`head = top_foot_size`, no flag
             bits), the in-use chunk holding a pushed segment record, and the fenceposts
             (`head = FENCEPOST_HEAD`, i.e. "size 8, both in-use bits");
* `sbins`  — the 32 small bins as lists, newest first (the ring read through `prev` from the head);
* `tbins`  — the 32 tree bins as the actual bitwise tries, each node with its same-size ring in
             `next` order;
* `dv`, `dvsize`, `top`, `topsize`, the segment list (head first, with the address where each
  pushed record lives), `footprint`, `max_footprint`, `trim_check`, `release_checks`,
  `least_addr`.

`smallmap` / `treemap` are derived (bit i ⇔ bin i non-empty) and compared with the real words by the
correspondence.  Writing a header at `a` with size `n` forgets the stale header words strictly
inside `(a, a+n)` (they are unreachable garbage in the real heap).  Reading a header that was never
written, a failed `debug_assert!`, an arithmetic underflow, the dead direct-mmap branches
(`Chunk::mmapped`) and an OS answer of the wrong kind are explicit `error` outcomes.

OS answers (address or refusal for each mmap, success or refusal for each mremap / munmap) are
inputs (`osq`); every call made is recorded in `evs` with its arguments.

Sizes and index arithmetic are the *generated* definitions of `Gen/DlmallocPure.lean`.
-/
namespace TinyVerif.Dl

abbrev M := Except String

/-- one header word (`Chunk.head`, decoded) plus the last value stored in the chunk's `prev_foot` -/
structure Ent where
  addr : Nat
  size : Nat
  cin : Bool
  pin : Bool
  pfoot : Nat
deriving DecidableEq, Repr

inductive Tree where
  | nil : Tree
  | node (addr size : Nat) (ring : List Nat) (l r : Tree) : Tree
deriving DecidableEq, Repr

/-- `recAt` = address at which this `Segment` record is stored (0 for the head record, which lives
inside the `Dlmalloc` struct, outside every segment) -/
structure Seg where
  base : Nat
  size : Nat
  recAt : Nat
deriving DecidableEq, Repr

inductive OsDir where
  | m (res : Option Nat)
  | r (ok : Bool)
  | u (ok : Bool)
deriving DecidableEq, Repr

inductive OsEv where
  | mmap (len : Nat) (res : Option Nat)
  | mremap (addr old new : Nat) (ok : Bool)
  | munmap (addr len : Nat) (ok : Bool)
deriving DecidableEq, Repr

/-- the part of the allocator state touched by bin / chunk operations -/
structure Heap where
  ents : List Ent
  sbins : List (List Nat)
  tbins : List Tree
  dv : Nat
  dvsize : Nat
  top : Nat
  topsize : Nat
  tr : List String          -- ghost: branch tags of the current operation (coverage only)
deriving DecidableEq, Repr

structure St where
  h : Heap
  segs : List Seg
  footprint : Nat
  maxfp : Nat
  trim_check : Nat
  release_checks : Nat
  least_addr : Nat
  osq : List OsDir          -- environment: answers for the syscalls still to come
  evs : List OsEv           -- ghost: syscalls made by the current operation
deriving DecidableEq, Repr

def emptyBins : List (List Nat) := List.replicate NSMALLBINS []
def emptyTrees : List Tree := List.replicate NTREEBINS Tree.nil

/-- `Dlmalloc::new()` -/
def init : St :=
  { h := { ents := [], sbins := emptyBins, tbins := emptyTrees, dv := 0, dvsize := 0, top := 0,
           topsize := 0, tr := [] },
    segs := [], footprint := 0, maxfp := 0, trim_check := 0, release_checks := 0, least_addr := 0,
    osq := [], evs := [] }

/-- early exit: `if c { panic / error }` -/
def failIf (c : Bool) (msg : String) : M Unit := if c then throw msg else pure ()

def Heap.tag (h : Heap) (t : String) : Heap := { h with tr := h.tr ++ [t] }
def St.tag (s : St) (t : String) : St := { s with h := s.h.tag t }

/-! ### header table -/

def findEnt : List Ent → Nat → Option Ent
  | [], _ => none
  | e :: es, a => if e.addr = a then some e else findEnt es a

/-- insert / replace the header at `e.addr`; headers strictly inside `(e.addr, e.addr+e.size)` vanish -/
def putEnt : List Ent → Ent → List Ent
  | [], e => [e]
  | x :: xs, e =>
    if x.addr < e.addr then x :: putEnt xs e
    else e :: (x :: xs).dropWhile (fun y => y.addr = e.addr || y.addr < e.addr + e.size)

def modEnt (f : Ent → Ent) : List Ent → Nat → Option (List Ent)
  | [], _ => none
  | e :: es, a =>
    if e.addr = a then some (f e :: es)
    else match modEnt f es a with
      | some es' => some (e :: es')
      | none => none

def getE (h : Heap) (a : Nat) : M Ent :=
  match findEnt h.ents a with
  | some e => pure e
  | none => throw s!"read-of-unwritten-header@{a}"

/-- `(*a).head = size | flags` -/
def writeHead (h : Heap) (a size : Nat) (c p : Bool) : M Heap :=
  if size % 8 ≠ 0 then throw s!"size-with-flag-bits@{a}"
  else
    let pf := match findEnt h.ents a with
      | some e => e.pfoot
      | none => 0
    pure { h with ents := putEnt h.ents { addr := a, size := size, cin := c, pin := p, pfoot := pf } }

/-- `(*a).prev_foot = v` -/
def setFoot (h : Heap) (a v : Nat) : M Heap :=
  match modEnt (fun e => { e with pfoot := v }) h.ents a with
  | some es => pure { h with ents := es }
  | none => throw s!"set_foot-without-header@{a}"

/-- `(*a).head |= PINUSE`; on a word that holds no header yet this leaves a header-less word with
only the bit set (size 0), which the code overwrites right afterwards -/
def orPin (h : Heap) (a : Nat) : Heap :=
  match modEnt (fun e => { e with pin := true }) h.ents a with
  | some es => { h with ents := es }
  | none => { h with ents := putEnt h.ents { addr := a, size := 0, cin := false, pin := true, pfoot := 0 } }

/-- `Chunk::clear_pinuse` -/
def clearPin (h : Heap) (a : Nat) : M Heap :=
  match modEnt (fun e => { e with pin := false }) h.ents a with
  | some es => pure { h with ents := es }
  | none => throw s!"clear_pinuse-without-header@{a}"

/-- `Chunk::inuse`: `head & INUSE != PINUSE` -/
def Ent.inuse (e : Ent) : Bool := !(e.pin && !e.cin)
/-- `Chunk::mmapped`: `head & INUSE == 0` -/
def Ent.mmapped (e : Ent) : Bool := !e.cin && !e.pin

/-- `Chunk::set_inuse` (reads the PINUSE bit of the word already there; a word never written reads
as garbage — modelled as bit clear; the code always sets it afterwards through the predecessor) -/
def set_inuse (h : Heap) (me size : Nat) : M Heap := do
  let p := match findEnt h.ents me with
    | some e => e.pin
    | none => false
  let h ← writeHead h me size true p
  pure (orPin h (me + size))

def set_inuse_and_pinuse (h : Heap) (me size : Nat) : M Heap := do
  let h ← writeHead h me size true true
  pure (orPin h (me + size))

def set_size_and_pinuse_of_inuse_chunk (h : Heap) (me size : Nat) : M Heap :=
  writeHead h me size true true

def set_size_and_pinuse_of_free_chunk (h : Heap) (me size : Nat) : M Heap := do
  let h ← writeHead h me size false true
  setFoot h (me + size) size

def set_free_with_pinuse (h : Heap) (p size n : Nat) : M Heap := do
  let h ← clearPin h n
  set_size_and_pinuse_of_free_chunk h p size

/-! ### bitmaps (derived) -/

def mapBits {α : Type} (empty : α → Bool) : List α → Nat → Nat
  | [], _ => 0
  | b :: bs, w => (if empty b then 0 else w) + mapBits empty bs (2 * w)

def smallmap (h : Heap) : Nat := mapBits (fun (l : List Nat) => l.isEmpty) h.sbins 1
def treemap (h : Heap) : Nat :=
  mapBits (fun (t : Tree) => match t with | .nil => true | _ => false) h.tbins 1

/-! ### small bins -/

def getBin (h : Heap) (i : Nat) : M (List Nat) :=
  match h.sbins[i]? with
  | some l => pure l
  | none => throw s!"smallbin-index-out-of-range:{i}"

def setBin (h : Heap) (i : Nat) (l : List Nat) : Heap := { h with sbins := h.sbins.set i l }

def insert_small_chunk (h : Heap) (chunk size : Nat) : M Heap := do
  let idx := small_index size
  failIf (size < MIN_CHUNK_SIZE) "debug_assert:insert_small_chunk-size"
  let l ← getBin h idx
  pure (setBin h idx (chunk :: l))

/-- `b.prev` + `unlink_first_small_chunk`: take the newest chunk of bin `idx` -/
def take_first_small (h : Heap) (idx : Nat) : M (Heap × Nat) := do
  let l ← getBin h idx
  match l with
  | [] => throw s!"smallbin-empty:{idx}"
  | p :: rest =>
    let e ← getE h p
    failIf (e.size ≠ small_index2size idx) "debug_assert:unlink_first_small_chunk-size"
    pure (setBin h idx rest, p)

def unlink_small_chunk (h : Heap) (chunk size : Nat) : M Heap := do
  let idx := small_index size
  let l ← getBin h idx
  let e ← getE h chunk
  failIf (e.size ≠ small_index2size idx) "debug_assert:unlink_small_chunk-size"
  if l.contains chunk then pure (setBin h idx (l.erase chunk))
  else throw s!"unlink_small_chunk-not-in-bin@{chunk}"

/-! ### tree bins -/

def getTree (h : Heap) (i : Nat) : M Tree :=
  match h.tbins[i]? with
  | some t => pure t
  | none => throw s!"treebin-index-out-of-range:{i}"

def setTree (h : Heap) (i : Nat) (t : Tree) : Heap := { h with tbins := h.tbins.set i t }

/-- the descent of `insert_large_chunk` below the bin root; `k` = size bits still to consume -/
def Tree.insert : Tree → Nat → Nat → Nat → Tree
  | .nil, _, c, sz => .node c sz [] .nil .nil
  | .node a s ring l r, k, c, sz =>
    if s = sz then .node a s (ring ++ [c]) l r
    else if (k >>> (SIZEOF_USIZE * 8 - 1)) &&& 1 = 0 then .node a s ring (l.insert ((k <<< 1) % U64) c sz) r
    else .node a s ring l (r.insert ((k <<< 1) % U64) c sz)

def insert_large_chunk (h : Heap) (chunk size : Nat) : M Heap := do
  let idx := compute_tree_index size
  let t ← getTree h idx
  pure (setTree h idx (t.insert ((size <<< leftshift_for_tree_index idx) % U64) chunk size))

/-- the replacement search of `unlink_large_chunk`: follow `child[1]` if present else `child[0]` down
to a node without children; returns that node (address, size, ring) and the tree without it -/
def Tree.takeLeaf : Tree → Option (Nat × Nat × List Nat × Tree)
  | .nil => none
  | .node a s ring l r =>
    match r.takeLeaf with
    | some (xa, xs, xr, r') => some (xa, xs, xr, .node a s ring l r')
    | none =>
      match l.takeLeaf with
      | some (xa, xs, xr, l') => some (xa, xs, xr, .node a s ring l' r)
      | none => some (a, s, ring, .nil)

/-- what `unlink_large_chunk` leaves in the place of the tree node `(_, s, ring, l, r)`: the next
chunk of its same-size ring if there is one, else the leaf found by `takeLeaf` below it -/
def Tree.unlinkRoot (s : Nat) (ring : List Nat) (l r : Tree) : Tree :=
  match ring with
  | n :: rest => .node n s rest l r
  | [] =>
    match r.takeLeaf with
    | some (xa, xs, xr, r') => .node xa xs xr l r'
    | none =>
      match l.takeLeaf with
      | some (xa, xs, xr, l') => .node xa xs xr l' r
      | none => .nil

/-- remove the chunk at address `x` (a tree node or a member of a node's ring) -/
def Tree.remove : Tree → Nat → Option Tree
  | .nil, _ => none
  | .node a s ring l r, x =>
    if a = x then some (Tree.unlinkRoot s ring l r)
    else if ring.contains x then some (.node a s (ring.erase x) l r)
    else match l.remove x with
      | some l' => some (.node a s ring l' r)
      | none =>
        match r.remove x with
        | some r' => some (.node a s ring l r')
        | none => none

def unlink_large_chunk (h : Heap) (chunk : Nat) : M Heap := do
  let e ← getE h chunk
  let idx := compute_tree_index e.size          -- `(*chunk).index`
  let t ← getTree h idx
  match t.remove chunk with
  | some t' => pure (setTree h idx t')
  | none => throw s!"unlink_large_chunk-not-in-tree@{chunk}"

def insert_chunk (h : Heap) (chunk size : Nat) : M Heap :=
  if is_small size then insert_small_chunk h chunk size else insert_large_chunk h chunk size

def unlink_chunk (h : Heap) (chunk size : Nat) : M Heap :=
  if is_small size then unlink_small_chunk h chunk size else unlink_large_chunk h chunk

def replace_dv (h : Heap) (chunk size : Nat) : M Heap := do
  let dvs := h.dvsize
  failIf (!is_small dvs) "debug_assert:replace_dv-dvsize-small"
  let h ← if dvs ≠ 0 then insert_small_chunk h h.dv dvs else pure h
  pure { h with dvsize := size, dv := chunk }

/-- `t = leftmost_child(t)` loop shared by `tmalloc_small` and the tail of `tmalloc_large`:
keeps the best fit `(v, rsize)` seen on the way -/
def Tree.lmBest : Tree → Nat → Option Nat → Nat → Option Nat × Nat
  | .nil, _, v, rs => (v, rs)
  | .node a s _ l r, size, v, rs =>
    let hit := decide (s ≥ size) && decide (s - size < rs)
    let v' := if hit then some a else v
    let rs' := if hit then s - size else rs
    match l with
    | .nil => r.lmBest size v' rs'
    | .node .. => l.lmBest size v' rs'

/-- after choosing the victim `v` (size `rsize + size`) in a tree: unlink, split or exhaust -/
def tmalloc_small (h : Heap) (size : Nat) : M (Heap × Nat) := do
  let leastbit := least_bit (treemap h)
  let i := trailing_zeros32 leastbit
  let t ← getTree h i
  match t with
  | .nil => throw "tmalloc_small-empty-bin"
  | .node a s _ l r =>
    failIf (s < size) "underflow:tmalloc_small"
    let first := match l with
      | .nil => r
      | .node .. => l
    let (v, rsize) := first.lmBest size (some a) (s - size)
    match v with
    | none => throw "tmalloc_small-no-victim"
    | some vc =>
      let e ← getE h vc
      failIf (e.size ≠ rsize + size) "debug_assert:tmalloc_small-size"
      let rr := vc + size
      let h ← unlink_large_chunk h vc
      if rsize < MIN_CHUNK_SIZE then
        let h ← set_inuse_and_pinuse h vc (rsize + size)
        pure (h.tag "tsmall-exhaust", vc + MEM_OFFSET)
      else
        let h ← set_size_and_pinuse_of_inuse_chunk h vc size
        let h ← set_size_and_pinuse_of_free_chunk h rr rsize
        let h ← replace_dv h rr rsize
        pure (h.tag "tsmall-split", vc + MEM_OFFSET)

/-- first loop of `tmalloc_large`: descend along the size bits, remembering the best fit and the
deepest untaken right subtree; result `(v, rsize, t)` with `t` as left by the loop -/
def Tree.tlDescend : Tree → Nat → Nat → Option Nat → Nat → Tree → Option Nat × Nat × Tree
  | .nil, _, _, v, rs, rst => (v, rs, rst)
  | .node a s ring l r, size, sb, v, rs, rst =>
    let hit := decide (s ≥ size) && decide (s - size < rs)
    let v' := if hit then some a else v
    let rs' := if hit then s - size else rs
    if hit && rs' = 0 then (v', rs', .node a s ring l r)
    else if (sb >>> (SIZEOF_USIZE * 8 - 1)) &&& 1 = 0 then
      -- t = child[0]; rt = child[1] differs from t unless both are null
      let rst' := match r with
        | .nil => rst
        | .node .. => r
      match l with
      | .nil => (v', rs', rst')
      | .node .. => l.tlDescend size ((sb <<< 1) % U64) v' rs' rst'
    else
      -- t = child[1] = rt
      match r with
      | .nil => (v', rs', rst)
      | .node .. => r.tlDescend size ((sb <<< 1) % U64) v' rs' rst

/-- start of the search of `tmalloc_large` in the bin `size` indexes -/
def tlStart (root : Tree) (size idx rsize0 : Nat) : Option Nat × Nat × Tree :=
  match root with
  | .nil => (none, rsize0, Tree.nil)
  | .node .. => root.tlDescend size ((size <<< leftshift_for_tree_index idx) % U64) none rsize0 .nil

/-- "set t to the root of the next non-empty treebin" (only when the descent found nothing) -/
def tlNext (h : Heap) (idx : Nat) (t : Tree) (v : Option Nat) : M Tree :=
  match t, v with
  | .nil, none =>
    let leftbits := left_bits ((1 <<< idx) % U32) &&& treemap h
    if leftbits ≠ 0 then getTree h (trailing_zeros32 (least_bit leftbits)) else pure Tree.nil
  | _, _ => pure t

/-- the search of `tmalloc_large`: the best-fitting chunk (if any) and its excess over `size` -/
def tl_search (h : Heap) (size : Nat) : M (Option Nat × Nat) := do
  let rsize0 := (U64 - 1 - size) + 1
  let idx := compute_tree_index size
  let root ← getTree h idx
  let d := tlStart root size idx rsize0
  let t ← tlNext h idx d.2.2 d.1
  pure (t.lmBest size d.1 d.2.1)

def tmalloc_large (h : Heap) (size : Nat) : M (Option (Heap × Nat)) := do
  let (v, rsize) ← tl_search h size
  match v with
  | none => pure none
  | some vc =>
    if h.dvsize ≥ size && rsize ≥ h.dvsize - size then pure none else
    let e ← getE h vc
    failIf (e.size ≠ rsize + size) "debug_assert:tmalloc_large-size"
    let rr := vc + size
    let h ← unlink_large_chunk h vc
    if rsize < MIN_CHUNK_SIZE then
      let h ← set_inuse_and_pinuse h vc (rsize + size)
      pure (some (h.tag "tlarge-exhaust", vc + MEM_OFFSET))
    else
      let h ← set_size_and_pinuse_of_inuse_chunk h vc size
      let h ← set_size_and_pinuse_of_free_chunk h rr rsize
      let h ← insert_chunk h rr rsize
      pure (some (h.tag "tlarge-split", vc + MEM_OFFSET))

/-! ### `inner_malloc` up to (not including) `sys_alloc` -/

inductive MRes where
  | done (h : Heap) (mem : Nat)
  | tooBig                       -- `size >= MAX_REQUEST`: null without touching anything
  | needSys (nb : Nat)           -- nothing free fits: nothing was touched, go to `sys_alloc(nb)`

/-- the `dv` / `top` tail of `inner_malloc` -/
def malloc_dv_top (h : Heap) (nb : Nat) : M MRes := do
  if nb ≤ h.dvsize then
    let rsize := h.dvsize - nb
    let p := h.dv
    if rsize ≥ MIN_CHUNK_SIZE then
      let r := p + nb
      let h := { h with dv := r, dvsize := rsize }
      let h ← set_size_and_pinuse_of_free_chunk h r rsize
      let h ← set_size_and_pinuse_of_inuse_chunk h p nb
      pure (.done (h.tag "dv-split") (p + MEM_OFFSET))
    else
      let dvs := h.dvsize
      let h := { h with dvsize := 0, dv := 0 }
      let h ← set_inuse_and_pinuse h p dvs
      pure (.done (h.tag "dv-exhaust") (p + MEM_OFFSET))
  else if nb < h.topsize then
    let rsize := h.topsize - nb
    let p := h.top
    let r := p + nb
    let h := { h with topsize := rsize, top := r }
    let h ← writeHead h r rsize false true
    let h ← set_size_and_pinuse_of_inuse_chunk h p nb
    pure (.done (h.tag "top-split") (p + MEM_OFFSET))
  else pure (.needSys nb)

def malloc_nosys (h : Heap) (size : Nat) : M MRes := do
  if size ≤ MAX_SMALL_REQUEST then
    let nb := request2size size
    let idx := small_index nb
    let smallbits := smallmap h >>> idx
    if smallbits &&& 3 ≠ 0 then
      let idx := idx + ((U32 - 1 - smallbits) &&& 1)
      let (h, p) ← take_first_small h idx
      let smallsize := small_index2size idx
      let h ← set_inuse_and_pinuse h p smallsize
      pure (.done (h.tag "small-bin") (p + MEM_OFFSET))
    else if nb > h.dvsize then
      if smallbits ≠ 0 then
        let leftbits := ((smallbits <<< idx) % U32) &&& left_bits ((1 <<< idx) % U32)
        let leastbit := least_bit leftbits
        let i := trailing_zeros32 leastbit
        let (h, p) ← take_first_small h i
        let smallsize := small_index2size i
        failIf (smallsize < nb) "underflow:inner_malloc-smallsize"
        let rsize := smallsize - nb
        if rsize < MIN_CHUNK_SIZE then
          let h ← set_inuse_and_pinuse h p smallsize
          pure (.done (h.tag "small-next-exhaust") (p + MEM_OFFSET))
        else
          let h ← set_size_and_pinuse_of_inuse_chunk h p nb
          let r := p + nb
          let h ← set_size_and_pinuse_of_free_chunk h r rsize
          let h ← replace_dv h r rsize
          pure (.done (h.tag "small-next-split") (p + MEM_OFFSET))
      else if treemap h ≠ 0 then
        let (h, mem) ← tmalloc_small h nb
        pure (.done h mem)
      else malloc_dv_top h nb
    else malloc_dv_top h nb
  else if size ≥ MAX_REQUEST then pure .tooBig
  else
    let nb := pad_request size
    if treemap h ≠ 0 then
      match ← tmalloc_large h nb with
      | some (h, mem) => pure (.done h mem)
      | none => malloc_dv_top h nb
    else malloc_dv_top h nb

/-! ### consolidation -/

/-- `dispose_chunk` (used by realloc / memalign; unlike `free` it never trims) -/
def dispose_chunk (h : Heap) (p0 psize0 : Nat) : M Heap := do
  let next := p0 + psize0
  let e ← getE h p0
  let en ← getE h next
  -- backward consolidation
  let (h, p, psize, stop) ← (do
    if !e.pin then
      let prevsize := e.pfoot
      failIf (e.mmapped) "mmapped-branch:dispose_chunk"
      failIf (p0 < prevsize) "underflow:dispose_chunk-prev"
      let prev := p0 - prevsize
      let psize := psize0 + prevsize
      if prev ≠ h.dv then
        let h ← unlink_chunk h prev prevsize
        pure (h, prev, psize, false)
      else if en.cin && en.pin then
        let h := { h with dvsize := psize }
        let h ← set_free_with_pinuse h prev psize next
        pure (h.tag "dispose-back-dv", prev, psize, true)
      else pure (h, prev, psize, false)
    else pure (h, p0, psize0, false) : M (Heap × Nat × Nat × Bool))
  if stop then pure h else
  if en.cin then
    let h ← set_free_with_pinuse h p psize next
    insert_chunk (h.tag "dispose-bin") p psize
  else if next = h.top then
    let tsize := h.topsize + psize
    let h := { h with topsize := tsize, top := p }
    let h ← writeHead h p tsize false true
    let h := if p = h.dv then { h with dv := 0, dvsize := 0 } else h
    pure (h.tag "dispose-into-top")
  else if next = h.dv then
    let dsize := h.dvsize + psize
    let h := { h with dvsize := dsize, dv := p }
    let h ← set_size_and_pinuse_of_free_chunk h p dsize
    pure (h.tag "dispose-into-dv")
  else
    let nsize := en.size
    let psize := psize + nsize
    let h ← unlink_chunk h next nsize
    let h ← set_size_and_pinuse_of_free_chunk h p psize
    if p = h.dv then pure ({ h with dvsize := psize }.tag "dispose-fwd-dv")
    else insert_chunk (h.tag "dispose-fwd-bin") p psize

/-! ### segments and the OS -/

def popM (s : St) (len : Nat) : M (Option Nat × St) :=
  match s.osq with
  | .m res :: q => pure (res, { s with osq := q, evs := s.evs ++ [.mmap len res] })
  | _ => throw "os-desync:mmap"

def popR (s : St) (addr old new : Nat) : M (Bool × St) :=
  match s.osq with
  | .r ok :: q => pure (ok, { s with osq := q, evs := s.evs ++ [.mremap addr old new ok] })
  | _ => throw "os-desync:mremap"

def popU (s : St) (addr len : Nat) : M (Bool × St) :=
  match s.osq with
  | .u ok :: q => pure (ok, { s with osq := q, evs := s.evs ++ [.munmap addr len ok] })
  | _ => throw "os-desync:munmap"

/-- `align_as_chunk` -/
def align_as_chunk (a : Nat) : Nat := a + align_offset_usize (a + MEM_OFFSET)

def Seg.top (g : Seg) : Nat := g.base + g.size
def Seg.holds (g : Seg) (a : Nat) : Bool := decide (g.base ≤ a) && decide (a < g.top)

def segment_holding (segs : List Seg) (a : Nat) : Option Seg := segs.find? (fun g => g.holds a)

def has_segment_link (segs : List Seg) (g : Seg) : Bool := segs.any (fun x => g.holds x.recAt)

def init_top (s : St) (ptr size : Nat) : M St := do
  let offset := align_offset_usize (ptr + MEM_OFFSET)
  let p := ptr + offset
  failIf (size < offset) "underflow:init_top"
  let size := size - offset
  let h := { s.h with top := p, topsize := size }
  let h ← writeHead h p size false true
  let h ← writeHead h (p + size) top_foot_size false false
  pure { s with h := h, trim_check := DEFAULT_TRIM_THRESHOLD }

def prepend_alloc (s : St) (newbase oldbase size : Nat) : M (St × Nat) := do
  let p := align_as_chunk newbase
  let oldfirst := align_as_chunk oldbase
  failIf (oldfirst < p + size) "underflow:prepend_alloc"
  let psize := oldfirst - p
  let q := p + size
  let qsize := psize - size
  let h ← set_size_and_pinuse_of_inuse_chunk s.h p size
  let eo ← getE h oldfirst
  failIf (!(oldfirst > q)) "debug_assert:prepend-oldfirst>q"
  failIf (!eo.pin) "debug_assert:prepend-pinuse(oldfirst)"
  failIf (qsize < MIN_CHUNK_SIZE) "debug_assert:prepend-qsize"
  let h ← (do
    if oldfirst = h.top then
      let tsize := h.topsize + qsize
      let h := { h with topsize := tsize, top := q }
      let h ← writeHead h q tsize false true
      pure (h.tag "prepend-top")
    else if oldfirst = h.dv then
      let dsize := h.dvsize + qsize
      let h := { h with dvsize := dsize, dv := q }
      let h ← set_size_and_pinuse_of_free_chunk h q dsize
      pure (h.tag "prepend-dv")
    else if !eo.inuse then
      let nsize := eo.size
      let h ← unlink_chunk h oldfirst nsize
      let h ← set_free_with_pinuse h q (qsize + nsize) (oldfirst + nsize)
      insert_chunk (h.tag "prepend-free") q (qsize + nsize)
    else
      let h ← set_free_with_pinuse h q qsize oldfirst
      insert_chunk (h.tag "prepend-inuse") q qsize : M Heap)
  pure ({ s with h := h }, p + MEM_OFFSET)

/-- the fencepost loop of `add_segment` -/
def fences : Nat → Heap → Nat → Nat → Nat → M (Heap × Nat)
  | 0, _, _, _, _ => throw "fencepost-loop-fuel"
  | fuel + 1, h, p, old_end, n => do
    let nextp := p + SIZEOF_USIZE
    let h ← writeHead h p (FENCEPOST_HEAD - INUSE) true true
    if nextp + SIZEOF_USIZE < old_end then fences fuel h nextp old_end (n + 1)
    else pure (h, n + 1)

/-- the end of `add_segment`: what is left of the old `top` below the record becomes an ordinary
binned free chunk -/
def add_segment_oldtop (h : Heap) (csp old_top : Nat) : M Heap := do
  if csp ≠ old_top then
    let q := old_top
    let psize := csp - old_top
    let tn := q + psize
    let h ← set_free_with_pinuse h q psize tn
    insert_chunk (h.tag "addseg-oldtop-binned") q psize
  else pure (h.tag "addseg-oldtop-consumed")

/-- where `add_segment` puts the record of the old head segment: at the end of the old `top`
(`old_end - 80`), or over the old `top` itself when that has fewer than MIN_CHUNK_SIZE bytes -/
def addseg_csp (old_top old_end : Nat) : Nat :=
  let ssize := pad_request SIZEOF_SEGMENT
  let offset := ssize + SIZEOF_USIZE * 4 + MALLOC_ALIGNMENT - 1
  let rawsp := old_end - offset
  let offset := align_offset_usize (rawsp + MEM_OFFSET)
  let asp := rawsp + offset
  if asp < old_top + MIN_CHUNK_SIZE then old_top else asp

def add_segment (s : St) (tbase tsize : Nat) : M St := do
  let old_top := s.h.top
  match segment_holding s.segs old_top with
  | none => throw "add_segment-no-segment-holds-top"
  | some oldsp =>
    let old_end := oldsp.top
    let ssize := pad_request SIZEOF_SEGMENT
    failIf (old_end < ssize + SIZEOF_USIZE * 4 + MALLOC_ALIGNMENT - 1) "underflow:add_segment"
    let csp := addseg_csp old_top old_end
    let sp := csp
    let ss := sp + MEM_OFFSET
    let tnext := sp + ssize
    failIf (tsize < top_foot_size) "underflow:add_segment-tsize"
    let s ← init_top s tbase (tsize - top_foot_size)
    failIf (!is_aligned ss) "debug_assert:add_segment-aligned"
    let h ← set_size_and_pinuse_of_inuse_chunk s.h sp ssize
    let segs := match s.segs with
      | [] => []
      | g :: rest => { g with recAt := ss } :: rest
    let s := { s with segs := { base := tbase, size := tsize, recAt := 0 } :: segs }
    let (h, nf) ← fences 64 h tnext old_end 0
    failIf (nf < 2) "debug_assert:nfences"
    let h ← add_segment_oldtop h csp old_top
    pure { s with h := h }

/-- `(*sp).base = ..; (*sp).size += ..` on the record the search loop stopped at (the first match) -/
def replaceSeg : List Seg → Seg → Seg → List Seg
  | [], _, _ => []
  | g :: gs, old, new => if g = old then new :: gs else g :: replaceSeg gs old new

/-- the middle of `sys_alloc`: put the fresh mapping `[tbase, tbase+tsize)` to use — first heap
initialisation, extension of the segment holding `top`, prepending to the segment that starts where
the mapping ends (which then serves the request itself: `inr`), or a new segment -/
def sys_alloc_place (s : St) (tbase tsize nb : Nat) : M (Sum St (St × Nat)) := do
  if s.h.top = 0 then
    -- `top` null means "never initialised"; with a non-empty segment list the code would overwrite
    -- the head record and lose a segment: an explicit error outcome here
    failIf (!s.segs.isEmpty) "null-top-with-segments"
    let la := if s.least_addr = 0 || tbase < s.least_addr then tbase else s.least_addr
    let s := { s with least_addr := la, segs := [{ base := tbase, size := tsize, recAt := 0 }],
                      release_checks := MAX_RELEASE_CHECK_RATE }
    failIf (tsize < top_foot_size) "underflow:sys_alloc-tsize"
    let s ← init_top s tbase (tsize - top_foot_size)
    pure (Sum.inl (s.tag "sys-init"))
  else
    let ext := match s.segs.find? (fun g => g.top = tbase) with
      | some sp => if sp.holds s.h.top then some sp else none
      | none => none
    match ext with
    | some sp =>
      let s := { s with segs := replaceSeg s.segs sp { sp with size := sp.size + tsize } }
      let s ← init_top s s.h.top (s.h.topsize + tsize)
      pure (Sum.inl (s.tag "sys-extend"))
    | none =>
      let s := { s with least_addr := min tbase s.least_addr }
      match s.segs.find? (fun g => g.base = tbase + tsize) with
      | some sq =>
        let s := { s with segs := replaceSeg s.segs sq { sq with base := tbase, size := sq.size + tsize } }
        let r ← prepend_alloc (s.tag "sys-prepend") tbase sq.base nb
        pure (Sum.inr r)
      | none =>
        let s ← add_segment s tbase tsize
        pure (Sum.inl (s.tag "sys-addseg"))

/-- `sys_alloc` -/
def sys_alloc (s : St) (nb : Nat) : M (St × Nat) := do
  let asize := align_up (nb + top_foot_size + MALLOC_ALIGNMENT) DEFAULT_GRANULARITY
  let (res, s) ← popM s asize
  match res with
  | none => pure (s, 0)
  | some tbase =>
    let tsize := asize
    let fp := s.footprint + tsize
    let s := { s with footprint := fp, maxfp := max s.maxfp fp }
    match ← sys_alloc_place s tbase tsize nb with
    | .inr r => pure r
    | .inl s =>
      if nb < s.h.topsize then
        let rsize := s.h.topsize - nb
        let p := s.h.top
        let r := p + nb
        let h := { s.h with topsize := rsize, top := r }
        let h ← writeHead h r rsize false true
        let h ← set_size_and_pinuse_of_inuse_chunk h p nb
        pure ({ s with h := h }, p + MEM_OFFSET)
      else pure (s.tag "sys-alloc-too-small", 0)

def inner_malloc (s : St) (size : Nat) : M (St × Nat) := do
  match ← malloc_nosys s.h size with
  | .done h mem => pure ({ s with h := h }, mem)
  | .tooBig => pure (s, 0)
  | .needSys nb => sys_alloc s nb

def dropEnts (h : Heap) (lo hi : Nat) : Heap :=
  { h with ents := h.ents.filter (fun e => !(decide (lo ≤ e.addr) && decide (e.addr < hi))) }

/-- the loop of `release_unused_segments` over the non-head segments; returns the surviving tail -/
def releaseLoop : List Seg → St → Nat → Nat → M (List Seg × St × Nat × Nat)
  | [], s, released, nsegs => pure ([], s, released, nsegs)
  | g :: rest, s, released, nsegs => do
    let p := align_as_chunk g.base
    let e ← getE s.h p
    let psize := e.size
    let chunk_top := p + psize
    failIf (g.size < top_foot_size) "underflow:release_unused_segments"
    let top := g.base + (g.size - top_foot_size)
    if !e.inuse && chunk_top ≥ top then
      failIf (!g.holds g.recAt) "debug_assert:segment-holds-its-record"
      let h ← (do
        if p = s.h.dv then pure { s.h with dv := 0, dvsize := 0 }
        else unlink_large_chunk s.h p : M Heap)
      let (ok, s) ← popU { s with h := h } g.base g.size
      if ok then
        failIf (s.footprint < g.size) "underflow:footprint"
        let s := { s with footprint := s.footprint - g.size, h := (dropEnts s.h g.base g.top).tag "segment-released" }
        let (rest', s, released, nsegs) ← releaseLoop rest s (released + g.size) (nsegs + 1)
        pure (rest', s, released, nsegs)
      else
        let h ← insert_large_chunk s.h p psize
        let (rest', s, released, nsegs) ← releaseLoop rest { s with h := h.tag "segment-unmap-refused" } released (nsegs + 1)
        pure (g :: rest', s, released, nsegs)
    else
      let (rest', s, released, nsegs) ← releaseLoop rest s released (nsegs + 1)
      pure (g :: rest', s, released, nsegs)

def release_unused_segments (s : St) : M (St × Nat) := do
  match s.segs with
  | [] => pure ({ s with release_checks := MAX_RELEASE_CHECK_RATE }, 0)
  | hd :: rest =>
    let (rest', s, released, nsegs) ← releaseLoop rest s 0 0
    let rc := if nsegs > MAX_RELEASE_CHECK_RATE then nsegs else MAX_RELEASE_CHECK_RATE
    pure ({ s with segs := hd :: rest', release_checks := rc }, released)

/-- `syscall_free_part(sp.base, sp.size, sp.size - extra)` under its guard: mremap-shrink, munmap of
the tail when that is refused; returns the number of bytes released (`extra` or 0) -/
def trim_release (s : St) (sp : Seg) (extra : Nat) : M (St × Nat) := do
  if sp.size ≥ extra && !has_segment_link s.segs sp then
    let newsize := sp.size - extra
    let (ok, s) ← popR s sp.base sp.size newsize
    if ok then pure (s, extra)
    else
      let (ok, s) ← popU s (sp.base + newsize) (sp.size - newsize)
      pure (s, if ok then extra else 0)
  else pure (s, 0)

/-- the first half of `sys_trim`: shrink the segment holding `top` (`pad` already includes
`top_foot_size`) -/
def trim_top (s : St) (pad : Nat) : M (St × Nat) := do
  if s.h.topsize > pad then
    let unit := DEFAULT_GRANULARITY
    let extra := ((s.h.topsize - pad + unit - 1) / unit - 1) * unit
    match segment_holding s.segs s.h.top with
    | none => throw "debug_assert:sys_trim-segment_holding"
    | some sp =>
      let (s, released) ← trim_release s sp extra
      if released ≠ 0 then
        failIf (s.footprint < released) "underflow:footprint"
        let s := { s with segs := replaceSeg s.segs sp { sp with size := sp.size - released },
                          footprint := s.footprint - released,
                          h := dropEnts s.h (sp.top - released) sp.top }
        let s ← init_top s s.h.top (s.h.topsize - released)
        pure (s.tag "trimmed", released)
      else pure (s.tag "trim-nothing", released)
  else pure (s, 0)

def sys_trim (s : St) (pad : Nat) : M (St × Bool) := do
  if pad < MAX_REQUEST && s.h.top ≠ 0 then
    let pad := pad + top_foot_size
    let (s, released) ← trim_top s pad
    let (s, r2) ← release_unused_segments s
    let released := released + r2
    let s := if released = 0 && s.h.topsize > s.trim_check then { s with trim_check := U64 - 1 } else s
    pure (s, released ≠ 0)
  else pure (s, false)

/-- what remains to do at the end of `free` once the chunk work is done -/
inductive FreeTail where
  | done
  | intoTop (tsize : Nat)   -- merged into `top`: `should_trim` check follows
  | large                   -- inserted into a tree bin: `release_checks` countdown follows
deriving DecidableEq, Repr

/-- the chunk work of `Dlmalloc::free` (everything except trimming / the segment scan) -/
def free_heap (h : Heap) (mem : Nat) : M (Heap × FreeTail) := do
  failIf (mem < MEM_OFFSET) "underflow:from_mem"
  let p0 := mem - MEM_OFFSET
  let e ← getE h p0
  let psize0 := e.size
  let next := p0 + psize0
  let en ← getE h next
  let (h, p, psize, stop) ← (do
    if !e.pin then
      let prevsize := e.pfoot
      failIf (e.mmapped) "mmapped-branch:free"
      failIf (p0 < prevsize) "underflow:free-prev"
      let prev := p0 - prevsize
      let psize := psize0 + prevsize
      if prev ≠ h.dv then
        let h ← unlink_chunk h prev prevsize
        pure (h, prev, psize, false)
      else if en.cin && en.pin then
        let h := { h with dvsize := psize }
        let h ← set_free_with_pinuse h prev psize next
        pure (h.tag "free-back-dv", prev, psize, true)
      else pure (h, prev, psize, false)
    else pure (h, p0, psize0, false) : M (Heap × Nat × Nat × Bool))
  if stop then pure (h, .done) else
  if en.cin then
    let h ← set_free_with_pinuse h p psize next
    free_bin (h.tag "free-plain") p psize
  else if next = h.top then
    let tsize := h.topsize + psize
    let h := { h with topsize := tsize, top := p }
    let h ← writeHead h p tsize false true
    let h := if p = h.dv then { h with dv := 0, dvsize := 0 } else h
    pure (h.tag "free-into-top", .intoTop tsize)
  else if next = h.dv then
    let dsize := h.dvsize + psize
    let h := { h with dvsize := dsize, dv := p }
    let h ← set_size_and_pinuse_of_free_chunk h p dsize
    pure (h.tag "free-into-dv", .done)
  else
    let nsize := en.size
    let psize := psize + nsize
    let h ← unlink_chunk h next nsize
    let h ← set_size_and_pinuse_of_free_chunk h p psize
    if p = h.dv then pure ({ h with dvsize := psize }.tag "free-fwd-dv", .done)
    else free_bin (h.tag "free-fwd") p psize
where
  free_bin (h : Heap) (p psize : Nat) : M (Heap × FreeTail) := do
    if is_small psize then
      let h ← insert_small_chunk h p psize
      pure (h, .done)
    else
      let h ← insert_large_chunk h p psize
      pure (h, .large)

/-- `Dlmalloc::free`: the chunk work, then `sys_trim(0)` when `top` grew beyond `trim_check`, or the
`release_checks` countdown after a large chunk was binned -/
def free (s : St) (mem : Nat) : M St := do
  let (h, t) ← free_heap s.h mem
  let s := { s with h := h }
  match t with
  | .done => pure s
  | .intoTop tsize =>
    if should_trim tsize s.trim_check then
      let (s, _) ← sys_trim s 0
      pure s
    else pure s
  | .large =>
    failIf (s.release_checks = 0) "underflow:release_checks"
    let s := { s with release_checks := s.release_checks - 1 }
    if s.release_checks = 0 then
      let (s, _) ← release_unused_segments (s.tag "release-check")
      pure s
    else pure s

/-- `try_realloc_chunk` (`can_move` only matters on the dead direct-mmap path); `none` = null,
nothing touched -/
def try_realloc_chunk (h : Heap) (p nb : Nat) : M (Option Heap) := do
  let e ← getE h p
  let oldsize := e.size
  let next := p + oldsize
  failIf (e.mmapped) "mmapped-branch:try_realloc_chunk"
  if oldsize ≥ nb then
    let rsize := oldsize - nb
    if rsize ≥ MIN_CHUNK_SIZE then
      let r := p + nb
      let h ← set_inuse h p nb
      let h ← set_inuse h r rsize
      let h ← dispose_chunk (h.tag "realloc-shrink-split") r rsize
      pure (some h)
    else pure (some (h.tag "realloc-shrink-keep"))
  else if next = h.top then
    if oldsize + h.topsize ≤ nb then pure none else
    let newsize := oldsize + h.topsize
    let newtopsize := newsize - nb
    let newtop := p + nb
    let h ← set_inuse h p nb
    let h ← writeHead h newtop newtopsize false true
    pure (some ({ h with top := newtop, topsize := newtopsize }.tag "realloc-into-top"))
  else if next = h.dv then
    let dvs := h.dvsize
    if oldsize + dvs < nb then pure none else
    let dsize := oldsize + dvs - nb
    if dsize ≥ MIN_CHUNK_SIZE then
      let r := p + nb
      let n := r + dsize
      let h ← set_inuse h p nb
      let h ← set_size_and_pinuse_of_free_chunk h r dsize
      let h ← clearPin h n
      pure (some ({ h with dvsize := dsize, dv := r }.tag "realloc-into-dv-split"))
    else
      let newsize := oldsize + dvs
      let h ← set_inuse h p newsize
      pure (some ({ h with dvsize := 0, dv := 0 }.tag "realloc-into-dv-exhaust"))
  else
    let en ← getE h next
    if !en.cin then
      let nextsize := en.size
      if oldsize + nextsize < nb then pure none else
      let rsize := oldsize + nextsize - nb
      let h ← unlink_chunk h next nextsize
      if rsize < MIN_CHUNK_SIZE then
        let newsize := oldsize + nextsize
        let h ← set_inuse h p newsize
        pure (some (h.tag "realloc-into-next-exhaust"))
      else
        let r := p + nb
        let h ← set_inuse h p nb
        let h ← set_inuse h r rsize
        let h ← dispose_chunk (h.tag "realloc-into-next-split") r rsize
        pure (some h)
    else pure none

/-- a `ptr::copy_nonoverlapping(src, dst, len)` performed by realloc -/
structure Copy where
  src : Nat
  dst : Nat
  len : Nat
deriving DecidableEq, Repr

def inner_realloc (s : St) (oldmem bytes : Nat) : M (St × Nat × Option Copy) := do
  if bytes ≥ MAX_REQUEST then pure (s, 0, none) else
  let nb := request2size bytes
  failIf (oldmem < MEM_OFFSET) "underflow:from_mem"
  let oldp := oldmem - MEM_OFFSET
  match ← try_realloc_chunk s.h oldp nb with
  | some h => pure ({ s with h := h }, oldmem, none)
  | none =>
    let (s, ptr) ← inner_malloc (s.tag "realloc-move") bytes
    if ptr ≠ 0 then
      let e ← getE s.h oldp
      failIf (e.mmapped) "mmapped-branch:overhead_for"
      failIf (e.size < CHUNK_OVERHEAD) "underflow:inner_realloc-oc"
      let oc := e.size - CHUNK_OVERHEAD
      let s ← free s oldmem
      pure (s, ptr, some { src := oldmem, dst := ptr, len := min oc bytes })
    else pure (s, 0, none)

/-- the second half of `memalign`: carve an aligned chunk of `nb` bytes out of the chunk just
obtained at `mem`, giving the leader and the trailer back -/
def memalign_fix (h : Heap) (mem alignment nb : Nat) : M (Heap × Nat) := do
  failIf (mem < MEM_OFFSET) "underflow:from_mem"
  let p0 := mem - MEM_OFFSET
  let (h, p) ← (do
    if mem &&& (alignment - 1) ≠ 0 then
      -- `(mem + alignment - 1) & (!alignment + 1)` = `align_up(mem, alignment)`
      let br := align_up mem alignment - MEM_OFFSET
      let pos := if br - p0 > MIN_CHUNK_SIZE then br else br + alignment
      let newp := pos
      let leadsize := pos - p0
      let e ← getE h p0
      failIf (e.size < leadsize) "underflow:memalign-newsize"
      let newsize := e.size - leadsize
      failIf (e.mmapped) "mmapped-branch:memalign"
      let h ← set_inuse h newp newsize
      let h ← set_inuse h p0 leadsize
      let h ← dispose_chunk (h.tag "memalign-leader") p0 leadsize
      pure (h, newp)
    else pure (h.tag "memalign-aligned", p0) : M (Heap × Nat))
  let e ← getE h p
  failIf (e.mmapped) "mmapped-branch:memalign-trailer"
  let size := e.size
  let h ← (do
    if size > nb + MIN_CHUNK_SIZE then
      let remainder_size := size - nb
      let remainder := p + nb
      let h ← set_inuse h p nb
      let h ← set_inuse h remainder remainder_size
      dispose_chunk (h.tag "memalign-trailer") remainder remainder_size
    else pure h : M Heap)
  let mem := p + MEM_OFFSET
  let e ← getE h p
  failIf (e.size < nb) "debug_assert:memalign-size"
  failIf (align_up mem alignment ≠ mem) "debug_assert:memalign-aligned"
  pure (h, mem)

/-- `memalign` after `if alignment < MIN_CHUNK_SIZE { alignment = MIN_CHUNK_SIZE }` (only called
with a power-of-two `alignment > MALLOC_ALIGNMENT`) -/
def memalign_body (s : St) (alignment bytes : Nat) : M (St × Nat) := do
  failIf (MAX_REQUEST < alignment) "underflow:memalign-max_request"
  if bytes ≥ MAX_REQUEST - alignment then pure (s, 0) else
  let nb := request2size bytes
  let req := nb + alignment + MIN_CHUNK_SIZE - CHUNK_OVERHEAD
  let (s, mem) ← inner_malloc (s.tag "memalign") req
  if mem = 0 then pure (s, 0) else
  let (h, mem) ← memalign_fix s.h mem alignment nb
  pure ({ s with h := h }, mem)

def memalign (s : St) (alignment bytes : Nat) : M (St × Nat) :=
  memalign_body s (if alignment < MIN_CHUNK_SIZE then MIN_CHUNK_SIZE else alignment) bytes

/-- `Dlmalloc::malloc(size, align)` — what `GlobalAlloc::alloc` calls -/
def malloc (s : St) (size align : Nat) : M (St × Nat) :=
  if align ≤ MALLOC_ALIGNMENT then inner_malloc s size else memalign s align size

/-- `Dlmalloc::calloc`: the Bool says whether `size` zero bytes were written at the result
(`calloc_must_clear` = the chunk is not a direct-mmap chunk) -/
def calloc (s : St) (size align : Nat) : M (St × Nat × Bool) := do
  let (s, ptr) ← malloc s size align
  if ptr ≠ 0 then
    failIf (ptr < MEM_OFFSET) "underflow:from_mem"
    let e ← getE s.h (ptr - MEM_OFFSET)
    pure (s, ptr, !e.mmapped)
  else pure (s, 0, false)

/-- `Dlmalloc::realloc(ptr, old_size, old_align, new_size)` -/
def realloc (s : St) (ptr old_size old_align new_size : Nat) : M (St × Nat × Option Copy) := do
  if old_align ≤ MALLOC_ALIGNMENT then inner_realloc s ptr new_size
  else
    let (s, res) ← malloc (s.tag "realloc-overaligned") new_size old_align
    if res ≠ 0 then
      let s ← free s ptr
      pure (s, res, some { src := ptr, dst := res, len := min old_size new_size })
    else pure (s, 0, none)

/-! ### histories: operations on named live blocks -/

structure Block where
  id : Nat
  ptr : Nat
  size : Nat
  align : Nat
deriving DecidableEq, Repr

inductive Op where
  | malloc (id size align : Nat)
  | calloc (id size align : Nat)
  | realloc (id newsize : Nat)
  | free (id : Nat)
deriving DecidableEq, Repr

structure Hist where
  st : St
  live : List Block
deriving DecidableEq, Repr

def Hist.init : Hist := { st := Dl.init, live := [] }

/-- result of one operation: the pointer (0 = null; 1 for `free`), whether calloc zeroed, the copy
a moving realloc made -/
structure Out where
  ptr : Nat
  zeroed : Bool
  copy : Option Copy
deriving DecidableEq, Repr

def findBlock (live : List Block) (id : Nat) : Option Block := live.find? (fun b => b.id = id)

/-- one operation with the OS answers `os` for the syscalls it is going to make -/
def Hist.step (hs : Hist) (op : Op) (os : List OsDir) : M (Hist × Out) := do
  let s := { hs.st with osq := os, evs := [], h := { hs.st.h with tr := [] } }
  match op with
  | .malloc id size align =>
    failIf ((findBlock hs.live id).isSome) "bad-op:id-in-use"
    let (s, p) ← malloc s size align
    failIf (!s.osq.isEmpty) "os-desync:unused-answers"
    let live := if p ≠ 0 then { id := id, ptr := p, size := size, align := align } :: hs.live else hs.live
    pure ({ st := s, live := live }, { ptr := p, zeroed := false, copy := none })
  | .calloc id size align =>
    failIf ((findBlock hs.live id).isSome) "bad-op:id-in-use"
    let (s, p, z) ← calloc s size align
    failIf (!s.osq.isEmpty) "os-desync:unused-answers"
    let live := if p ≠ 0 then { id := id, ptr := p, size := size, align := align } :: hs.live else hs.live
    pure ({ st := s, live := live }, { ptr := p, zeroed := z, copy := none })
  | .realloc id newsize =>
    match findBlock hs.live id with
    | none => throw "bad-op:no-such-block"
    | some b =>
      let (s, p, c) ← realloc s b.ptr b.size b.align newsize
      failIf (!s.osq.isEmpty) "os-desync:unused-answers"
      let live := if p ≠ 0 then
          { b with ptr := p, size := newsize } :: hs.live.filter (fun x => x.id ≠ id)
        else hs.live
      pure ({ st := s, live := live }, { ptr := p, zeroed := false, copy := c })
  | .free id =>
    match findBlock hs.live id with
    | none => throw "bad-op:no-such-block"
    | some b =>
      let s ← free s b.ptr
      failIf (!s.osq.isEmpty) "os-desync:unused-answers"
      pure ({ st := s, live := hs.live.filter (fun x => x.id ≠ id) }, { ptr := 1, zeroed := false, copy := none })

/-- a whole history: operations with the OS answers each one receives; returns the final state and
every OS call made, in order -/
def Hist.run : Hist → List (Op × List OsDir) → M (Hist × List OsEv)
  | hs, [] => pure (hs, [])
  | hs, (op, os) :: rest => do
    let (hs1, _) ← hs.step op os
    let (hs2, evs) ← hs1.run rest
    pure (hs2, hs1.st.evs ++ evs)

end TinyVerif.Dl
