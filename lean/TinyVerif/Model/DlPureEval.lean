import TinyVerif.Gen.DlmallocPure
/-! Differential evaluator for the generated pure allocator functions (`Gen/DlmallocPure.lean`).
`evalPure ["align_up","100","16"] = some "112"`, `evalPure ["const","MAX_REQUEST"]`, Bool results as
"true"/"false".  `none` = unknown name / wrong arity / argument not a decimal number of the parameter's
Rust type (usize < 2^64, u32 < 2^32).  The Rust twin is `harness/c03/src/pure_body.rs` (`eval_pure`). -/
namespace TinyVerif.Dl

/-- plain decimal digits only (no sign, no `_`), like the Rust side -/
private def decArg (s : String) : Option Nat :=
  if s.isEmpty || !(s.all Char.isDigit) then none else s.toNat?

private def usizeArg (s : String) : Option Nat :=
  match decArg s with
  | some n => if n < U64 then some n else none
  | none => none

private def u32Arg (s : String) : Option Nat :=
  match decArg s with
  | some n => if n < U32 then some n else none
  | none => none

private def showB (b : Bool) : String := if b then "true" else "false"

def constValue : String → Option Nat
  | "NSMALLBINS" => some NSMALLBINS
  | "NTREEBINS" => some NTREEBINS
  | "SMALLBIN_SHIFT" => some SMALLBIN_SHIFT
  | "TREEBIN_SHIFT" => some TREEBIN_SHIFT
  | "DEFAULT_GRANULARITY" => some DEFAULT_GRANULARITY
  | "DEFAULT_TRIM_THRESHOLD" => some DEFAULT_TRIM_THRESHOLD
  | "MAX_RELEASE_CHECK_RATE" => some MAX_RELEASE_CHECK_RATE
  | "PAGE_SIZE" => some PAGE_SIZE
  | "PINUSE" => some PINUSE
  | "CINUSE" => some CINUSE
  | "FLAG4" => some FLAG4
  | "INUSE" => some INUSE
  | "FLAG_BITS" => some FLAG_BITS
  | "FENCEPOST_HEAD" => some FENCEPOST_HEAD
  | "MEM_OFFSET" => some MEM_OFFSET
  | "MALLOC_ALIGNMENT" => some MALLOC_ALIGNMENT
  | "CHUNK_OVERHEAD" => some CHUNK_OVERHEAD
  | "MMAP_CHUNK_OVERHEAD" => some MMAP_CHUNK_OVERHEAD
  | "MIN_LARGE_SIZE" => some MIN_LARGE_SIZE
  | "MAX_SMALL_SIZE" => some MAX_SMALL_SIZE
  | "MAX_SMALL_REQUEST" => some MAX_SMALL_REQUEST
  | "MIN_CHUNK_SIZE" => some MIN_CHUNK_SIZE
  | "MIN_REQUEST" => some MIN_REQUEST
  | "MAX_REQUEST" => some MAX_REQUEST
  | "SIZEOF_SEGMENT" => some SIZEOF_SEGMENT
  | "SIZEOF_CHUNK" => some SIZEOF_CHUNK
  | "SIZEOF_USIZE" => some SIZEOF_USIZE
  | _ => none

def evalPure : List String → Option String
  | ["const", n] => (constValue n).map toString
  | ["align_up", a, b] => do
      let a ← usizeArg a; let b ← usizeArg b; pure (toString (align_up a b))
  | ["left_bits", x] => do let x ← u32Arg x; pure (toString (left_bits x))
  | ["least_bit", x] => do let x ← u32Arg x; pure (toString (least_bit x))
  | ["leftshift_for_tree_index", x] => do
      let x ← u32Arg x; pure (toString (leftshift_for_tree_index x))
  | ["const_max_request"] => some (toString const_max_request)
  | ["pad_request", a] => do let a ← usizeArg a; pure (toString (pad_request a))
  | ["small_index", a] => do let a ← usizeArg a; pure (toString (small_index a))
  | ["small_index2size", i] => do let i ← u32Arg i; pure (toString (small_index2size i))
  | ["is_small", a] => do let a ← usizeArg a; pure (showB (is_small a))
  | ["is_aligned", a] => do let a ← usizeArg a; pure (showB (is_aligned a))
  | ["align_offset_usize", a] => do let a ← usizeArg a; pure (toString (align_offset_usize a))
  | ["top_foot_size"] => some (toString top_foot_size)
  | ["mmap_foot_pad"] => some (toString mmap_foot_pad)
  | ["request2size", a] => do let a ← usizeArg a; pure (toString (request2size a))
  | ["mmap_align", a] => do let a ← usizeArg a; pure (toString (mmap_align a))
  | ["compute_tree_index", a] => do let a ← usizeArg a; pure (toString (compute_tree_index a))
  | ["min_size_for_tree_index", i] => do
      -- the real code shifts by (idx >> 1) + 8: shift overflow (a panic) from idx = 112 on; the
      -- domain of interest is 0..32, so both sides reject idx > 64
      let i ← u32Arg i
      if i > 64 then none else pure (toString (min_size_for_tree_index i))
  | ["should_trim", a, b] => do
      let a ← usizeArg a; let b ← usizeArg b; pure (showB (should_trim a b))
  | _ => none

end TinyVerif.Dl
