/-
C16 model, part 3 — control messages: rusl/src/platform/compat/socket.rs
`cmsg_align!/cmsg_len!/cmsg_space!/cmsg_firsthdr!/cmsg_nxthdr!/__cmsg_len!/__cmsg_next!/__mhdr_end!/cmsg_data!`,
`MsgHdrBorrow::create_send` (SCM_RIGHTS) and `ControlMessageIterator::next`.

Import-free, executable.  Memory is a list of bytes starting at `msg_control`; it may be *longer* than
`msg_controllen` (what happens to follow the buffer in memory) — every read is logged as `(offset, length)` so that
"no read outside the supplied buffer" is a statement about the log; a read past the end of the list is a `fault`
(unmapped page).  x86_64/aarch64 layout: `size_of::<CmsgHdr>() = 16`, `size_of::<usize>() = 8`, `size_of::<Fd>() = 4`,
little endian.

The iterator is modelled — as repaired in commit 8263fff (`fixed = true`) and as it was before (`fixed = false`) —
for EVERY content of the memory (the header fields are whatever the bytes say): all `usize`
arithmetic of the macros and of `next` is checked as in the debug build the harness uses (`.panic`), as is the
`slice::from_raw_parts` precondition (`.abort`); `base` is the numeric address of `msg_control` (only `cmsg as usize +
cmsg_len` depends on it).  The consumer reads every slice it is handed (logged; `.fault` if unmapped).  Assumed, not
modelled: `msg_control` 8-byte aligned; stack depth of the recursive skip over non-SCM_RIGHTS headers.
The specification side (`cmsgOk`, `wfWalk`, `rightsOf`) is the kernel's CMSG_OK walk over the same memory.
-/
namespace TinyVerif.Cmsg

abbrev HDR : Nat := 16          -- size_of::<CmsgHdr>()
abbrev FD : Nat := 4            -- size_of::<Fd>()
abbrev SOL_SOCKET : Nat := 1
abbrev SCM_RIGHTS : Nat := 1

/-- `cmsg_align!(len) = (len + size_of::<usize>() - 1) & !(size_of::<usize>() - 1)` -/
def cmsgAlign (len : Nat) : Nat := (len + 7) - (len + 7) % 8
/-- `cmsg_len!(len) = cmsg_align!(size_of::<CmsgHdr>()) + len` -/
def cmsgLen (len : Nat) : Nat := cmsgAlign HDR + len
/-- `cmsg_space!(len) = cmsg_align!(len) + cmsg_align!(size_of::<CmsgHdr>())` -/
def cmsgSpace (len : Nat) : Nat := cmsgAlign len + cmsgAlign HDR

/-- `k` bytes little endian -/
def le : Nat → Nat → List Nat
  | 0, _ => []
  | k + 1, n => n % 256 :: le k (n / 256)

def unle : List Nat → Nat
  | [] => 0
  | b :: t => b + 256 * unle t

def encHdr (len level typ : Nat) : List Nat := le 8 len ++ le 4 level ++ le 4 typ

def encFds : List Nat → List Nat
  | [] => []
  | f :: t => le 4 f ++ encFds t

/-- overwrite `bs` at offset `off` of `buf` (the caller guarantees it fits; otherwise the tail is dropped, which the
`send_layout` theorem shows never happens) -/
def writeAt (buf : List Nat) (off : Nat) (bs : List Nat) : List Nat :=
  buf.take off ++ bs ++ buf.drop (off + bs.length)

/-- `MsgHdrBorrow::create_send(.., Some(ScmRights(fds)))`: the control buffer it builds (`vec![0u8; spc]`, header through
`cmsg_firsthdr!`, descriptors copied to `cmsg_data!`) and `msg_controllen` -/
def createSend (fds : List Nat) : List Nat × Nat :=
  let spc := cmsgSpace (FD * fds.length)
  let raw := List.replicate spc 0
  let raw := writeAt raw 0 (encHdr (cmsgLen (FD * fds.length)) SOL_SOCKET SCM_RIGHTS)
  let raw := writeAt raw HDR (encFds fds)
  (raw, spc)

structure Hdr where
  len : Nat
  level : Nat
  typ : Nat
  deriving DecidableEq, Repr

/-- read a `CmsgHdr` at the start of `m` (`none`: the 16 bytes are not all mapped) -/
def decHdr (m : List Nat) : Option Hdr :=
  if m.length < HDR then none
  else some ⟨unle (m.take 8), unle ((m.drop 8).take 4), unle ((m.drop 12).take 4)⟩

/-- `n` descriptors from the start of `m` -/
def groups4 : Nat → List Nat → List Nat
  | 0, _ => []
  | n + 1, m => unle (m.take 4) :: groups4 n (m.drop 4)

inductive Bad where
  | fault       -- read of unmapped memory (SIGSEGV)
  | panic       -- debug-build arithmetic overflow (the harness is built with overflow-checks)
  | abort       -- debug-build `slice::from_raw_parts` precondition check (non-unwinding panic, SIGABRT)
  | fuel        -- model artefact
  deriving DecidableEq, Repr

structure IterOut where
  msgs : List (List Nat)        -- the `ScmRights(&[fd..])` items, in order
  reads : List (Nat × Nat)      -- every (offset, length) read relative to msg_control
  bad : Option Bad
  deriving DecidableEq, Repr

abbrev U64 : Nat := 18446744073709551616            -- 2^64: `usize` arithmetic overflows at this value
abbrev ISIZE_MAX : Nat := 9223372036854775807       -- 2^63 - 1

/-- `cmsg_nxthdr!` with pointer VALUES (the repaired macros; = musl's CMSG_NXTHDR quoted in the source):
`cmsg_len < 16 || __cmsg_len + 16 >= (msg_control + msg_controllen) - cmsg ? null : cmsg + __cmsg_len`;
offsets are relative to `msg_control`, `base` is the numeric value of `msg_control`.  Every `usize` operation of the
macro is checked in the debug build (`.panic`): `cmsg_len + 8`, `__cmsg_len + 16`, `msg_control + msg_controllen`,
`… - cmsg`.  (`cmsg + __cmsg_len` cannot overflow once `__cmsg_len + 16 < end - cmsg` has been established.) -/
def nxthdr (base ctl off : Nat) (h : Hdr) : Except Bad (Option Nat) :=
  if h.len < HDR then .ok none
  else if U64 ≤ h.len + 8 then .error .panic
  else if U64 ≤ cmsgAlign h.len + HDR then .error .panic
  else if U64 ≤ base + ctl then .error .panic
  else if ctl < off then .error .panic
  else if cmsgAlign h.len + HDR ≥ ctl - off then .ok none
  else .ok (some (cmsgAlign h.len))

/-- one call of `ControlMessageIterator::next` AS IT WAS BEFORE commit 8263fff on the header `h` read at offset `off`
(`m` = memory from `off` on), followed by the consumer reading the slice it was given.  `.error o`: the run ends here
with `o` (crash); `.ok (item, reads, next)`: the item yielded (if the header is tagged SOL_SOCKET/SCM_RIGHTS), the reads
made, and the distance to the next header (`none`: `cmsg_nxthdr!` returned null).  Order of the checks = order of
evaluation in the source: `cmsg as usize + r.cmsg_len`, `- data as usize`, `cmsg_nxthdr!`, `from_raw_parts`.
No CMSG_OK test: `cmsg_len` is used as found. -/
def hdrStepOrig (base ctl off : Nat) (m : List Nat) (h : Hdr) :
    Except IterOut (Option (List Nat) × List (Nat × Nat) × Option Nat) :=
  if h.typ = SCM_RIGHTS ∧ h.level = SOL_SOCKET then
    if U64 ≤ base + off + h.len then .error ⟨[], [(off, HDR)], some .panic⟩
    else if h.len < HDR then .error ⟨[], [(off, HDR)], some .panic⟩
    else
      -- len = (cmsg + cmsg_len - data) / size_of::<Fd>()
      let n := (h.len - HDR) / FD
      match nxthdr base ctl off h with
      | .error b => .error ⟨[], [(off, HDR)], some b⟩
      | .ok nx =>
        if ISIZE_MAX < FD * n then .error ⟨[], [(off, HDR)], some .abort⟩
        else if (m.drop HDR).length < FD * n then .error ⟨[], [(off, HDR), (off + HDR, FD * n)], some .fault⟩
        else .ok (some (groups4 n (m.drop HDR)), [(off, HDR), (off + HDR, FD * n)], nx)
  else
    match nxthdr base ctl off h with
    | .error b => .error ⟨[], [(off, HDR)], some b⟩
    | .ok nx => .ok (none, [(off, HDR)], nx)

/-- `ControlMessageIterator::next` on one header.  `fixed = true`: the code as it is since commit 8263fff — directly after
the header is read, for EVERY header:
  `let remaining = __mhdr_end!(self.msghdr).saturating_sub(cmsg as usize);`   (`msg_control + msg_controllen` is checked
                                                                               arithmetic: `.panic` if it wraps)
  `if r.cmsg_len < size_of::<CmsgHdr>() || r.cmsg_len > remaining { self.cmsg_prev = None; return None; }`
and only then the old body.  `fixed = false`: the code before the repair. -/
def hdrStep (fixed : Bool) (base ctl off : Nat) (m : List Nat) (h : Hdr) :
    Except IterOut (Option (List Nat) × List (Nat × Nat) × Option Nat) :=
  if fixed = true then
    if U64 ≤ base + ctl then .error ⟨[], [(off, HDR)], some .panic⟩
    else if h.len < HDR ∨ ctl - off < h.len then .ok (none, [(off, HDR)], none)
    else hdrStepOrig base ctl off m h
  else hdrStepOrig base ctl off m h

/-- `ControlMessageIterator::next` iterated to exhaustion; `m` is the memory from offset `off` on -/
def iterFrom (fixed : Bool) : Nat → Nat → Nat → Nat → List Nat → IterOut
  | 0, _, _, _, _ => ⟨[], [], some .fuel⟩
  | fuel + 1, base, ctl, off, m =>
    match decHdr m with
    | none => ⟨[], [(off, HDR)], some .fault⟩
    | some h =>
      match hdrStep fixed base ctl off m h with
      | .error o => o
      | .ok (item, rd, nx) =>
        let rest : IterOut :=
          match nx with
          | none => ⟨[], [], none⟩
          | some d => iterFrom fixed fuel base ctl (off + d) (m.drop d)
        ⟨item.toList ++ rest.msgs, rd ++ rest.reads, rest.bad⟩

/-- `control_messages()` + the iterator: `cmsg_firsthdr!` = `msg_controllen >= 16 ? msg_control : null` -/
def iterate (fixed : Bool) (base : Nat) (mem : List Nat) (ctl : Nat) : IterOut :=
  if ctl < HDR then ⟨[], [], none⟩ else iterFrom fixed (ctl + 1) base ctl 0 mem

/-- the address the driver assumes for `msg_control` (the repaired code's answers do not depend on it as long as the
buffer does not wrap the address space; the code before the repair depended on it through `cmsg + cmsg_len`) -/
abbrev NOMINAL_BASE : Nat := 70368744177664     -- 2^46

/-! ## specification side: the kernel's view of a control buffer

`CMSG_OK(mhdr, cmsg)` (include/linux/socket.h):
  `cmsg_len >= sizeof(struct cmsghdr) && cmsg_len <= msg_controllen - ((char *)cmsg - (char *)msg_control)`.
The walk is `for (cmsg = CMSG_FIRSTHDR; cmsg; cmsg = CMSG_NXTHDR) { if (!CMSG_OK) stop; … }` over the WHOLE memory
with absolute offsets; `uNext` is the userland CMSG_NXTHDR (musl, quoted in the source: strictly more than a header
must remain), `kNext` the kernel's `__cmsg_nxthdr` (a header must fit).  They differ only in whether a header
occupying exactly the last 16 bytes is visited (`trailing_slot_*` theorems). -/

def cmsgOk (ctl off : Nat) (h : Hdr) : Bool := decide (HDR ≤ h.len) && decide (h.len ≤ ctl - off)

def isRights (h : Hdr) : Bool := decide (h.typ = SCM_RIGHTS) && decide (h.level = SOL_SOCKET)

def uNext (ctl off : Nat) (h : Hdr) : Option Nat :=
  if ctl ≤ off + cmsgAlign h.len + HDR then none else some (off + cmsgAlign h.len)

def kNext (ctl off : Nat) (h : Hdr) : Option Nat :=
  if ctl < off + cmsgAlign h.len + HDR then none else some (off + cmsgAlign h.len)

inductive Stop where
  | done                                  -- the walk ran off the end of the buffer
  | malformed (off : Nat) (h : Hdr)       -- first header that is not CMSG_OK
  | unmapped                              -- (header not readable: excluded by `ctl ≤ mem.length`)
  | fuel
  deriving DecidableEq, Repr

/-- the well-formed prefix: the (offset, header) pairs visited while every header is CMSG_OK, and why it ends;
`next` is the stepping macro -/
def wfWalk (next : Nat → Nat → Hdr → Option Nat) : Nat → List Nat → Nat → Nat → List (Nat × Hdr) × Stop
  | 0, _, _, _ => ([], .fuel)
  | fuel + 1, mem, ctl, off =>
    match decHdr (mem.drop off) with
    | none => ([], .unmapped)
    | some h =>
      if cmsgOk ctl off h then
        match next ctl off h with
        | none => ([(off, h)], .done)
        | some o => let r := wfWalk next fuel mem ctl o; ((off, h) :: r.1, r.2)
      else ([], .malformed off h)

def wfPrefix (next : Nat → Nat → Hdr → Option Nat) (mem : List Nat) (ctl : Nat) : List (Nat × Hdr) × Stop :=
  if ctl < HDR then ([], .done) else wfWalk next (ctl + 1) mem ctl 0

/-- the descriptor lists carried by the SCM_RIGHTS headers of a walk, in order -/
def rightsOf (mem : List Nat) : List (Nat × Hdr) → List (List Nat)
  | [] => []
  | (off, h) :: t =>
    if isRights h then groups4 ((h.len - HDR) / FD) (mem.drop (off + HDR)) :: rightsOf mem t else rightsOf mem t

/-! ## the macros as they were before the repair

`__mhdr_end!` took `addr_of!(mhdr.msg_control)` — the address of the FIELD — and `cmsg_nxthdr!` subtracted
`addr_of!(cmsg)` — the address of the LOCAL VARIABLE holding the pointer.  Both are stack addresses unrelated to the
buffer: `fieldAddr` and `localAddr` are environment inputs here. -/

def nxthdrOld (fieldAddr localAddr ctl : Nat) (h : Hdr) : Except Bad (Option Nat) :=
  if h.len < HDR then .ok none
  else if fieldAddr + ctl < localAddr then .error .panic
  else if cmsgAlign h.len + HDR ≥ fieldAddr + ctl - localAddr then .ok none
  else .ok (some (cmsgAlign h.len))

def iterFromOld (fieldAddr localAddr : Nat) : Nat → Nat → Nat → List Nat → IterOut
  | 0, _, _, _ => ⟨[], [], some .fuel⟩
  | fuel + 1, ctl, off, m =>
    match decHdr m with
    | none => ⟨[], [(off, HDR)], some .fault⟩
    | some h =>
      let rest : IterOut :=
        match nxthdrOld fieldAddr localAddr ctl h with
        | .error b => ⟨[], [], some b⟩
        | .ok none => ⟨[], [], none⟩
        | .ok (some d) => iterFromOld fieldAddr localAddr fuel ctl (off + d) (m.drop d)
      if h.typ = SCM_RIGHTS ∧ h.level = SOL_SOCKET then
        if h.len < HDR then ⟨[], [(off, HDR)], some .panic⟩ else
        let n := (h.len - HDR) / FD
        if (m.drop HDR).length < FD * n then ⟨[], [(off, HDR), (off + HDR, FD * n)], some .fault⟩ else
        ⟨groups4 n (m.drop HDR) :: rest.msgs, (off, HDR) :: (off + HDR, FD * n) :: rest.reads, rest.bad⟩
      else ⟨rest.msgs, (off, HDR) :: rest.reads, rest.bad⟩

def iterateOld (fieldAddr localAddr : Nat) (mem : List Nat) (ctl : Nat) : IterOut :=
  if ctl < HDR then ⟨[], [], none⟩ else iterFromOld fieldAddr localAddr (mem.length + 1) ctl 0 mem

/-! ## what the kernel leaves in the receive buffer (net/core/scm.c `scm_detach_fds`)

For each SCM_RIGHTS message, with `rem` bytes of control buffer left: nothing if `rem < 16`; otherwise
`k = min(n, (rem - 16) / 4)` descriptors are installed; if `k > 0` a header `(CMSG_LEN(4k), SOL_SOCKET, SCM_RIGHTS)` and
the `k` descriptors are written and the buffer advances by `min(CMSG_SPACE(4k), rem)`.  Padding and everything after
the consumed part keep whatever the caller's buffer held (`g`).  The reported `msg_controllen` is the number of bytes
consumed. -/

/-- `g` = caller's memory from the current position on (control buffer remainder, then whatever follows it) -/
def kfill : List (List Nat) → Nat → List Nat → List Nat × Nat
  | [], _, g => (g, 0)
  | fds :: t, rem, g =>
    if rem < HDR then kfill t rem g else
    let k := min fds.length ((rem - HDR) / FD)
    if k = 0 then kfill t rem g else
    let body := encHdr (cmsgLen (FD * k)) SOL_SOCKET SCM_RIGHTS ++ encFds (fds.take k)
    let adv := min (cmsgSpace (FD * k)) rem
    let r := kfill t (rem - adv) (g.drop adv)
    (body ++ (g.drop body.length).take (adv - body.length) ++ r.1, adv + r.2)

/-- the descriptors that fit: what a correct receiver must see -/
def delivered : List (List Nat) → Nat → List (List Nat)
  | [], _ => []
  | fds :: t, rem =>
    if rem < HDR then delivered t rem else
    let k := min fds.length ((rem - HDR) / FD)
    if k = 0 then delivered t rem else
    fds.take k :: delivered t (rem - min (cmsgSpace (FD * k)) rem)

/-- receive buffer of `len` bytes with previous content `g` (`g.length ≥ len`; the rest of `g` follows it in memory) -/
def kernelFill (msgs : List (List Nat)) (len : Nat) (g : List Nat) : List Nat × Nat := kfill msgs len g

end TinyVerif.Cmsg
