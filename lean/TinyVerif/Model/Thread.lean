/-
Model of tiny-std/src/thread/spawn.rs (C05, C06).  Import-free.

Part 1 — the layout arithmetic of the shared block `Tsm` (`padding`, `push_aligned`,
`layout_thread_shared_memory`, the `*_OFFSET` constants, `value_offset`) as executable definitions over
`Nat` with the two ways the Rust code can fail made explicit (`% 0`, `usize` overflow = `none`).

Part 2 — the three-party protocol of one spawned thread: handle side H (spawn, join, drop of the
`JoinHandle`), thread side T (the epilogue closure `df`, `start_fn`, the `__clone` trampoline's tail, the
panic handler), kernel K (CLONE_CHILD_CLEARTID at thread exit), at the granularity of the atomic
operations, heap calls and system calls of spawn.rs as written, over a per-thread **resource ledger**
{tsm (join state incl. the result slot), tls, stack, closureBox}: every step says which resources it
touches; touching or freeing a resource that is not live sets `bad`.  Arbitrarily many instances run
concurrently (`St.inst : Nat → Inst`); instances share nothing but the heap and the address space, whose
ledger is the family of per-instance ledgers.

What the extractor (checks/thread_extract.py) reads off the source is a parameter (`Cfg`): whether spawn
inspects `__clone`'s result / cleans up after a failed `mmap`, the futex values `join`/`drop` wait on and
the word's initial value, whether the losing thread resets its clear-tid address before freeing the
block.  Two environment parameters are not constrained by the proofs for the repaired code: `spurious`
(a futex waiter may be woken without a wake on its word — the futex contract allows it) and `loadSync`
(hardware ordering for a Relaxed load; only the code before the repair depended on it).
The assembly (`__clone`, the stack-unmap epilogue) is modelled as single steps (`hClone`, `tMunmap`,
`tExit`), observed by strace, not verified.

A panic can start in two places on T: in the closure (`tPanic`, from `run`) and *inside the epilogue*, at the one
point where the epilogue runs user code — `drop_in_place` of the result nobody joined (`dropVal`, reached only by
a thread that lost the CAS, i.e. whose handle was dropped first): `tDropPanic` enters the panic handler (`pRead`)
from there, with whatever the epilogue has and has not released at that point.  `panicked` = T entered the
handler; the ghost `dpanic` = it did so from the destructor.  (A destructor that panics on the handle's thread —
`Drop for JoinHandle` after a lost CAS, or the caller dropping what `join` returned — is the caller's panic, not
a step of this protocol.)
-/
namespace TinyVerif.Thread

/-! ## Part 1: layout arithmetic -/

abbrev USIZE : Nat := 18446744073709551616

/-- checked `usize` addition (`none` = overflow: a debug-build / const-eval panic) -/
def uadd (a b : Nat) : Option Nat := if a + b < USIZE then some (a + b) else none

/-- `const fn padding(base, align)`; `base % 0` panics -/
def padding (base align : Nat) : Option Nat :=
  if align = 0 then none else
  if base % align = 0 then some 0 else some (align - base % align)

structure Layout where
  size : Nat
  align : Nat
  deriving Repr, DecidableEq

/-- `push_aligned::<T>(base, max_align)` with `T`'s size and alignment as arguments -/
def pushAligned (tSize tAlign base maxAlign : Nat) : Option Layout :=
  match padding base tAlign with
  | none => none
  | some pad =>
    match uadd base pad with
    | none => none
    | some b =>
      match uadd b tSize with
      | none => none
      | some sz => some ⟨sz, max maxAlign tAlign⟩

/-- the four fixed fields: AtomicBool, AtomicU32, usize, usize -/
def headLayout : Option Layout :=
  match pushAligned 1 1 0 0 with
  | none => none
  | some b =>
    match pushAligned 4 4 b.size b.align with
    | none => none
    | some b =>
      match pushAligned 8 8 b.size b.align with
      | none => none
      | some b => pushAligned 8 8 b.size b.align

/-- `Tsm::layout_thread_shared_memory::<T>()`, `vSize`/`vAlign` = size/alignment of `UnsafeCell<Option<T>>` -/
def layoutTsm (vSize vAlign : Nat) : Option Layout :=
  match headLayout with
  | none => none
  | some b =>
    match pushAligned vSize vAlign b.size b.align with
    | none => none
    | some last =>
      match padding last.size last.align with
      | none => none
      | some pad =>
        match uadd last.size pad with
        | none => none
        | some padded => some ⟨padded, last.align⟩

/-- `offset = prev_end + padding(prev_end, align)` — the shape of every `*_OFFSET` constant -/
def offsetAfter (prevEnd align : Nat) : Option Nat :=
  match padding prevEnd align with
  | none => none
  | some p => uadd prevEnd p

def futexOffset : Option Nat := offsetAfter 1 4
def selfSzOffset : Option Nat :=
  match futexOffset with
  | none => none
  | some f => match uadd f 4 with
    | none => none
    | some e => offsetAfter e 8
def selfAlignOffset : Option Nat :=
  match selfSzOffset with
  | none => none
  | some f => match uadd f 8 with
    | none => none
    | some e => offsetAfter e 8
/-- `Tsm::value_offset::<UnsafeCell<Option<T>>>()` -/
def valueOffset (vAlign : Nat) : Option Nat :=
  match selfAlignOffset with
  | none => none
  | some f => match uadd f 8 with
    | none => none
    | some e => offsetAfter e vAlign

/-! ## Part 2: the protocol -/

inductive RSt where
  | unalloc | live | freed
  deriving Repr, DecidableEq

inductive HPc where
  | fresh                       -- spawn not called yet
  | sp1                         -- Tsm::init done
  | sp2                         -- wrapper closure boxed
  | sp3                         -- stack mapped
  | sp4                         -- start args on the stack, tls boxed: about to `__clone`
  | uTls | uStack               -- error path of the repaired spawn after a failed clone: release tls, stack, ...
  | uBox (cl : Bool) | uTsm (cl : Bool)   -- ... closure and tsm (cl: reached from the clone failure, else from the mmap failure)
  | failed (cl : Bool)          -- spawn returned Err
  | handle                      -- spawn returned Ok(JoinHandle)
  | wLoad (j : Bool)            -- futex_wait_fast (j: from join, else from drop): `load(Relaxed)`
  | wSys (j : Bool)             -- about to issue FUTEX_WAIT
  | wParked (j : Bool)          -- blocked in the kernel
  | jRead                       -- join: read the result slot
  | jFree                       -- join: tsm.dealloc()
  | joined                      -- join returned
  | dCas                        -- drop: compare_exchange on the flag
  | dFree                       -- drop lost the CAS and has waited: tsm.dealloc()
  | detached                    -- drop won the CAS and returned: H never touches tsm again
  | dropped                     -- drop returned after freeing
  deriving Repr, DecidableEq

inductive TPc where
  | notStarted
  | run                         -- in `start_fn`, about to call the closure
  | write (v : Nat)             -- closure returned v: `*tsm.value_mut() = Some(v)`
  | pRead                       -- panic handler: `tls.read()`
  | cas | setTid
  | dropVal                     -- epilogue, CAS lost: `drop_in_place(tsm.value_mut())` — the destructor of the unread result (user code) runs here
  | freeTsm | freeTls | freeBox | munmap | exit
  | dead                        -- exit system call issued
  deriving Repr, DecidableEq

inductive Ev where
  | hAllocTsm | hBox | hMmap (ok : Bool) | hAllocTls | hClone (ok : Bool)
  | hUndoTls | hUndoStack | hUndoBox | hUndoTsm
  | hJoin | hDrop
  | hLoad (v : Nat) | hFwait (park : Bool) | hEintr | hSpur
  | hReadSlot | hFreeTsm | hCas (ok : Bool)
  | tRet (v : Nat) | tPanic | tWrite | tPanicRead | tCas (ok : Bool) | tSetTid | tFreeTsm | tFreeTls
  | tFreeBox | tMunmap | tExit
  | tDropVal                    -- the destructor of the unread result runs on T (epilogue, CAS lost) and returns
  | tDropPanic                  -- ... and panics: `#[panic_handler]` runs on T from this point of the epilogue
  | kExit
  deriving Repr, DecidableEq

/-- who flipped the `sync` flag -/
inductive Party where
  | H | T
  deriving Repr, DecidableEq

structure Cfg where
  checkClone : Bool     -- spawn returns Err and releases everything when `__clone` fails (repaired code)
  mmapCleanup : Bool    -- spawn releases tsm + closure when the stack mmap fails (repaired code)
  initWord : Nat        -- `UNFINISHED`, the futex word's initial value
  joinExpect : Nat      -- the value `join` passes to futex_wait_fast
  dropExpect : Nat      -- the value `drop` passes to futex_wait_fast
  setTidRet : Bool      -- epilogue: `set_tid_address(0)` before the losing thread frees tsm
  setTidPanic : Bool    -- panic handler: likewise
  dropValH : Bool       -- `Drop for JoinHandle`: after a lost CAS the unread result is dropped before the block is freed
  dropValT : Bool       -- epilogue: a thread that lost the CAS drops its result before it frees the block
  recheck : Bool        -- join/drop wait in `wait_for_exit`: the word is re-read (Acquire) after every return of futex_wait_fast
  loadSync : Bool       -- hardware assumption (only needed when `recheck` is off): a Relaxed load that observes the kernel's 0 orders later accesses
  spurious : Bool       -- environment: FUTEX_WAIT may return 0 without a wake on the word
  deriving Repr, DecidableEq

structure Inst where
  h : HPc
  t : TPc
  panicked : Bool           -- T has entered the panic handler (the closure panicked, or the destructor of its unread result did)
  -- contents of the shared block
  flag : Bool               -- `sync`
  word : Nat                -- futex word
  slot : Option Nat         -- `UnsafeCell<Option<T>>`
  ctid : Bool               -- T's clear_child_tid points at the futex word
  kdone : Bool              -- the kernel has finished T's exit
  winner : Option Party     -- ghost: who won the flag CAS
  -- ledger
  tsm : RSt
  tls : RSt
  stack : RSt
  box : RSt
  val : RSt                 -- the closure's return value as an owned object (moved into the slot, out of it by join)
  tsmFrees : Nat
  tlsFrees : Nat
  stackFrees : Nat
  boxFrees : Nat
  bad : Bool                -- some touch / free hit a resource that was not live
  -- ghosts for the property statements
  runs : Nat                        -- how often the closure body was entered
  ret : Option (Option Nat)         -- closure outcome: some (some v) returned v, some none panicked
  hsees : Bool                      -- H has synchronised with T's exit
  raced : Bool                      -- H read the slot / freed the block without having synchronised
  joinRes : Option (Option Nat)     -- what `join` returned
  dpanic : Bool                     -- the panic came from the destructor of the unread result, in T's epilogue
  deriving Repr, DecidableEq

def Inst.init : Inst :=
  { h := .fresh, t := .notStarted, panicked := false, flag := false, word := 0, slot := none, ctid := false,
    kdone := false, winner := none, tsm := .unalloc, tls := .unalloc, stack := .unalloc, box := .unalloc, val := .unalloc,
    tsmFrees := 0, tlsFrees := 0, stackFrees := 0, boxFrees := 0, bad := false, runs := 0, ret := none,
    hsees := false, raced := false, joinRes := none, dpanic := false }

def notLive (r : RSt) : Bool := r != .live

/-- touches -/
def touchTsm (x : Inst) : Inst := { x with bad := x.bad || notLive x.tsm }
def touchTls (x : Inst) : Inst := { x with bad := x.bad || notLive x.tls }
def touchStack (x : Inst) : Inst := { x with bad := x.bad || notLive x.stack }
def touchBox (x : Inst) : Inst := { x with bad := x.bad || notLive x.box }
/-- releases -/
def freeTsm (x : Inst) : Inst := { x with bad := x.bad || notLive x.tsm, tsm := .freed, tsmFrees := x.tsmFrees + 1 }
def freeTls (x : Inst) : Inst := { x with bad := x.bad || notLive x.tls, tls := .freed, tlsFrees := x.tlsFrees + 1 }
def freeStack (x : Inst) : Inst := { x with bad := x.bad || notLive x.stack, stack := .freed, stackFrees := x.stackFrees + 1 }
def freeBox (x : Inst) : Inst := { x with bad := x.bad || notLive x.box, box := .freed, boxFrees := x.boxFrees + 1 }
/-- the value in the slot (if any) leaves the runtime's hands: handed to join's caller, or dropped in place -/
def takeVal (x : Inst) : Inst :=
  if x.slot = none then x else { x with bad := x.bad || notLive x.val, val := .freed }

def expectOf (c : Cfg) (j : Bool) : Nat := if j then c.joinExpect else c.dropExpect
def afterWait (j : Bool) : HPc := if j then .jRead else .dFree
/-- where H continues when futex_wait_fast returns because of the system call's result -/
def retTo (c : Cfg) (j : Bool) : HPc := if c.recheck then .wLoad j else afterWait j

/-- where T goes after it is done with the flag (won the CAS, or lost it and freed the block) -/
def afterFlag (panicked : Bool) : TPc := if panicked then .munmap else .freeTls

/-- where T goes once its clear-tid address is reset (or at once, when the code does not reset it): the epilogue
drops the unread result before it frees the block, the panic handler frees at once -/
def afterTid (c : Cfg) (panicked : Bool) : TPc := if panicked then .freeTsm else if c.dropValT then .dropVal else .freeTsm

/-- one step of one instance; `none` = this party of the model would not do that now -/
def stepI (c : Cfg) (x : Inst) (e : Ev) : Option Inst :=
  match e with
  /- ---- H: spawn ---- -/
  | .hAllocTsm =>       -- Tsm::init: alloc + initialising writes (flag = false, futex = UNFINISHED, slot = None)
      if x.h = .fresh then
        some (touchTsm { x with h := .sp1, tsm := .live, flag := false, word := c.initWord, slot := none })
      else none
  | .hBox =>            -- Box::new(df)
      if x.h = .sp1 then some { x with h := .sp2, box := .live } else none
  | .hMmap ok =>        -- the stack: ONE resource of fixed extent (what mmap(len) mapped is what munmap(addr, len) releases): valid for the
                        -- flags of Props/C06 `fixedExtentFlags` only — not MAP_GROWSDOWN / MAP_HUGETLB / MAP_FIXED (`gen_stack_mapping_fixed_extent`)
      if x.h = .sp2 then
        if ok then some { x with h := .sp3, stack := .live }
        else some { x with h := if c.mmapCleanup then .uBox false else .failed false }   -- `?`: as written returns at once
      else none
  | .hAllocTls =>       -- (*args).start_arg = fn_caller (on the new stack); Box::new(ThreadLocalStorage{..})
      if x.h = .sp3 then some (touchStack { x with h := .sp4, tls := .live }) else none
  | .hClone ok =>       -- the `__clone` trampoline up to the system call's return in the parent
      if x.h = .sp4 then
        if ok then some { x with h := .handle, t := .run, ctid := true }
        else some { x with h := if c.checkClone then .uTls else .handle }    -- as written: result ignored
      else none
  | .hUndoTls => if x.h = .uTls then some (freeTls { x with h := .uStack }) else none
  | .hUndoStack => if x.h = .uStack then some (freeStack { x with h := .uBox true }) else none
  | .hUndoBox =>
      match x.h with
      | .uBox cl => some (freeBox { x with h := .uTsm cl })
      | _ => none
  | .hUndoTsm =>
      match x.h with
      | .uTsm cl => some (freeTsm (touchTsm { x with h := .failed cl }))
      | _ => none
  /- ---- H: join / drop ---- -/
  | .hJoin => if x.h = .handle then some { x with h := .wLoad true } else none
  | .hDrop => if x.h = .handle then some { x with h := .dCas } else none
  | .hCas ok =>         -- compare_exchange(false, true): an RMW, reads the latest value
      if x.h = .dCas then
        if ok then
          if x.flag = false then some (touchTsm { x with h := .detached, flag := true, winner := some .H }) else none
        else
          if x.flag = true then some (touchTsm { x with h := .wLoad false }) else none
      else none
  | .hLoad v =>         -- futex.load(Relaxed): may be stale, but only reads values that were written
      match x.h with
      | .wLoad j =>
          if v = x.word ∨ v = c.initWord then
            if v ≠ expectOf c j then
              some (touchTsm { x with h := afterWait j,
                                      hsees := x.hsees || ((c.recheck || c.loadSync) && x.kdone && x.ctid && v == x.word && v != c.initWord) })
            else some (touchTsm { x with h := .wSys j })
          else none
      | _ => none
  | .hFwait park =>     -- FUTEX_WAIT: the kernel compares the current value and enqueues atomically
      match x.h with
      | .wSys j =>
          if park then
            if x.word = expectOf c j then some (touchTsm { x with h := .wParked j }) else none
          else
            if x.word ≠ expectOf c j then some (touchTsm { x with h := retTo c j, hsees := x.hsees || (x.kdone && x.ctid) }) else none
      | _ => none
  | .hEintr =>          -- interrupted wait: Err(EINTR), loop
      match x.h with
      | .wParked j => some { x with h := .wLoad j }
      | _ => none
  | .hSpur =>           -- a wake that is not the kernel's clear-tid wake: Ok(()), futex_wait_fast returns
      match x.h with
      | .wParked j => if c.spurious then some { x with h := retTo c j } else none
      | _ => none
  | .hReadSlot =>       -- tsm.get_value().into_inner()
      if x.h = .jRead then
        some (takeVal (touchTsm { x with h := .jFree, joinRes := some x.slot, raced := x.raced || !x.hsees }))
      else none
  | .hFreeTsm =>        -- tsm.dealloc(): reads the layout fields, frees
      if x.h = .jFree then some (freeTsm (touchTsm { x with h := .joined, raced := x.raced || !x.hsees }))
      else if x.h = .dFree then
        let y := touchTsm { x with h := .dropped, raced := x.raced || !x.hsees }
        some (freeTsm (if c.dropValH then takeVal y else y))
      else none
  /- ---- T ---- -/
  | .tRet v =>          -- start_fn: Box::from_raw, call; the closure body runs and returns v
      if x.t = .run then
        some (touchBox (touchStack { x with t := .write v, runs := x.runs + 1, ret := some (some v), val := .live }))
      else none
  | .tPanic =>          -- the closure body runs and panics: #[panic_handler]
      if x.t = .run then
        some (touchBox (touchStack { x with t := .pRead, runs := x.runs + 1, ret := some none, panicked := true }))
      else none
  | .tWrite =>
      match x.t with
      | .write v => some (touchTsm (touchStack { x with t := .cas, slot := some v }))
      | _ => none
  | .tPanicRead =>      -- get_tls_ptr(); tls.read(): copies stack_info out of the block
      if x.t = .pRead then some (touchTls (touchStack { x with t := .freeTls })) else none
  | .tFreeTls =>        -- dealloc(get_tls_ptr()) / dealloc(tls)
      if x.t = .freeTls then
        some (freeTls (touchTls (touchStack { x with t := if x.panicked then .cas else .freeBox })))
      else none
  | .tCas ok =>
      if x.t = .cas then
        if ok then
          if x.flag = false then
            some (touchTsm (touchStack { x with t := afterFlag x.panicked, flag := true, winner := some .T }))
          else none
        else
          if x.flag = true then
            some (touchTsm (touchStack { x with t := if (if x.panicked then c.setTidPanic else c.setTidRet) then .setTid else afterTid c x.panicked }))
          else none
      else none
  | .tSetTid =>         -- set_tid_address(0)
      if x.t = .setTid then some (touchStack { x with t := afterTid c x.panicked, ctid := false }) else none
  | .tDropVal =>        -- core::ptr::drop_in_place(tsm.value_mut::<T>()): the value's destructor runs (in the block) and returns
      if x.t = .dropVal then some (takeVal (touchTsm (touchStack { x with t := .freeTsm }))) else none
  | .tDropPanic =>      -- the destructor panics: on_panic starts here, with whatever the epilogue has (not) released so far
      if x.t = .dropVal then
        if x.slot = none then none
        else some (takeVal (touchTsm (touchStack { x with t := .pRead, panicked := true, dpanic := true })))
      else none
  | .tFreeTsm =>        -- tsm.dealloc()
      if x.t = .freeTsm then some (freeTsm (touchTsm (touchStack { x with t := afterFlag x.panicked }))) else none
  | .tFreeBox =>        -- the Box<F> allocation is released when `start_fn`'s call returns
      if x.t = .freeBox then some (freeBox (touchStack { x with t := .munmap })) else none
  | .tMunmap =>         -- asm: munmap(own stack); nothing below touches the stack
      if x.t = .munmap then some (freeStack (touchStack { x with t := .exit })) else none
  | .tExit =>           -- asm: exit(0), registers only
      if x.t = .exit then some { x with t := .dead } else none
  /- ---- K: CLONE_CHILD_CLEARTID ---- -/
  | .kExit =>
      if x.t = .dead ∧ x.kdone = false then
        if x.ctid then
          -- *clear_child_tid = 0; futex_wake(clear_child_tid): every waiter on the word returns Ok(())
          let y := touchTsm { x with kdone := true, word := 0 }
          match x.h with
          | .wParked j => some { y with h := retTo c j, hsees := true }
          | _ => some y
        else some { x with kdone := true }
      else none

structure St where
  inst : Nat → Inst

def St.init : St := { inst := fun _ => Inst.init }

def setInst (s : St) (i : Nat) (x : Inst) : St := { inst := fun j => if j = i then x else s.inst j }

def step (c : Cfg) (s : St) (i : Nat) (e : Ev) : Option St :=
  match stepI c (s.inst i) e with
  | some x => some (setInst s i x)
  | none => none

def run (c : Cfg) : St → List (Nat × Ev) → Option St
  | s, [] => some s
  | s, (i, e) :: rest =>
      match step c s i e with
      | some s' => run c s' rest
      | none => none

/-- what the proofs need of the source-derived parameters and of the environment -/
def Cfg.Good (c : Cfg) : Prop :=
  c.checkClone = true ∧ c.mmapCleanup = true ∧ c.initWord = 1 ∧ c.joinExpect = 1 ∧ c.dropExpect = 1 ∧
  c.setTidRet = true ∧ c.setTidPanic = true ∧ c.recheck = true ∧ c.dropValH = true ∧ c.dropValT = true

instance (c : Cfg) : Decidable c.Good := by unfold Cfg.Good; infer_instance

/-- H will not act on this instance any more -/
def hFinal (h : HPc) : Bool :=
  match h with
  | .fresh => false
  | .sp1 => false
  | .sp2 => false
  | .sp3 => false
  | .sp4 => false
  | .uTls => false
  | .uStack => false
  | .uBox _ => false
  | .uTsm _ => false
  | .failed _ => true
  | .handle => false
  | .wLoad _ => false
  | .wSys _ => false
  | .wParked _ => false
  | .jRead => false
  | .jFree => false
  | .joined => true
  | .dCas => false
  | .dFree => false
  | .detached => true
  | .dropped => true

def isFailed (h : HPc) : Bool :=
  match h with
  | .fresh => false
  | .sp1 => false
  | .sp2 => false
  | .sp3 => false
  | .sp4 => false
  | .uTls => false
  | .uStack => false
  | .uBox _ => false
  | .uTsm _ => false
  | .failed _ => true
  | .handle => false
  | .wLoad _ => false
  | .wSys _ => false
  | .wParked _ => false
  | .jRead => false
  | .jFree => false
  | .joined => false
  | .dCas => false
  | .dFree => false
  | .detached => false
  | .dropped => false

/-- a complete execution of one instance: H is done with it and, if a thread was created, the thread is gone
and the kernel has finished its exit -/
def complete (x : Inst) : Bool :=
  hFinal x.h && (isFailed x.h || (x.t == .dead && x.kdone))

/-- spawn returned Ok(handle) -/
def spawnedOk (h : HPc) : Bool :=
  match h with
  | .fresh => false
  | .sp1 => false
  | .sp2 => false
  | .sp3 => false
  | .sp4 => false
  | .uTls => false
  | .uStack => false
  | .uBox _ => false
  | .uTsm _ => false
  | .failed _ => false
  | .handle => true
  | .wLoad _ => true
  | .wSys _ => true
  | .wParked _ => true
  | .jRead => true
  | .jFree => true
  | .joined => true
  | .dCas => true
  | .dFree => true
  | .detached => true
  | .dropped => true

/-- heap blocks / mappings of this instance that are live -/
def b2n (b : Bool) : Nat := if b then 1 else 0
def liveHeap (x : Inst) : Nat := b2n (x.tsm == .live) + b2n (x.tls == .live) + b2n (x.box == .live) + b2n (x.val == .live)
def liveMaps (x : Inst) : Nat := b2n (x.stack == .live)

def sumTo (f : Nat → Nat) : Nat → Nat
  | 0 => 0
  | n + 1 => sumTo f n + f n

/-! ## Part 3: thread topology — who executes the handle side

The handle side of an instance (spawn, join, drop of its `JoinHandle`) is executed by *some thread*: the main thread,
or another spawned instance inside its closure.  `Topo.owner i = some j`: instance `i` is spawned, joined and
dropped by the thread of instance `j`, which must then be inside its closure (`t = .run`: created, closure neither
returned nor panicked yet).  Two facts make the topology matter: (1) a blocked join blocks the owner's thread, not
"the handle side" in the abstract; (2) `set_tid_address` acts on the CALLING thread — if handle-side code issues it,
it resets the clear-tid address of the *owner's* thread, not of the thread whose join state is being freed.  In
spawn.rs as it is no handle-side code does (`hTidDrop = hTidDealloc = false`, re-derived from the source by
Props/C05 `gen_handle_side_never_resets_tid`); the two parameters describe the variants in which the reset has been
moved into `Drop for JoinHandle` / into `Tsm::dealloc`. -/

def isHEv : Ev → Bool
  | .hAllocTsm | .hBox | .hMmap _ | .hAllocTls | .hClone _ | .hUndoTls | .hUndoStack | .hUndoBox | .hUndoTsm
  | .hJoin | .hDrop | .hLoad _ | .hFwait _ | .hEintr | .hSpur | .hReadSlot | .hFreeTsm | .hCas _ => true
  | _ => false

structure Topo where
  owner : Nat → Option Nat
  hTidDrop : Bool          -- `Drop for JoinHandle`, lost CAS: set_tid_address(0) before the block is freed
  hTidDealloc : Bool       -- `Tsm::dealloc()` (join, drop, spawn's error paths): set_tid_address(0) before the free

def Topo.Good (tp : Topo) : Prop := tp.hTidDrop = false ∧ tp.hTidDealloc = false
instance (tp : Topo) : Decidable tp.Good := by unfold Topo.Good; infer_instance

/-- the thread that would execute a handle-side step exists and is inside its closure -/
def ownerIn (s : St) : Option Nat → Bool
  | none => true
  | some j => (s.inst j).t == .run

/-- this handle-side step ends in `set_tid_address(0)` on the executing thread -/
def hWipes (tp : Topo) (x : Inst) (e : Ev) : Bool :=
  match e with
  | .hFreeTsm => tp.hTidDealloc || (tp.hTidDrop && x.h == .dFree)
  | .hUndoTsm => tp.hTidDealloc
  | _ => false

/-- `set_tid_address(0)` executed by the owner's thread: the main thread has no clear-tid address to lose -/
def wipeTid (s : St) : Option Nat → St
  | none => s
  | some j => setInst s j { s.inst j with ctid := false }

def stepN (c : Cfg) (tp : Topo) (s : St) (i : Nat) (e : Ev) : Option St :=
  if isHEv e && !ownerIn s (tp.owner i) then none else
  match step c s i e with
  | none => none
  | some s' => some (if hWipes tp (s.inst i) e then wipeTid s' (tp.owner i) else s')

def runN (c : Cfg) (tp : Topo) : St → List (Nat × Ev) → Option St
  | s, [] => some s
  | s, (i, e) :: rest =>
      match stepN c tp s i e with
      | some s' => runN c tp s' rest
      | none => none

end TinyVerif.Thread
