/-
Model of tiny-std/src/env.rs `var` / `var_unix` and of the argument iterators `ArgsOs` / `Args` as stateful
objects (every `Iterator` / `ExactSizeIterator` method a program can call on them) (C07).  Imports only
Model/Start.lean (itself import-free).

An environment entry is the byte list before its terminating NUL, as `UnixStr::from_ptr` reads it from the
block `resolve` located (`Start.envWalk`).  `matchUpTo` / `matchUpToStr` mirror
rusl/src/string/unix_str.rs `match_up_to` / `match_up_to_str` (raw-pointer reads = `rdl`, a read past the
operand's bytes is a `fault`); they are the same loops as Model/UnixStr.lean's (kept local so that this
model stays self-contained).

The model follows the code AFTER the `fix:` commits (10a4869: the matched prefix must be the whole key; d3e06ee:
`len()` / `size_hint()` of the argument iterators report what remains); the pre-fix bodies are in
`namespace Legacy`, the witnesses of the defects in Props/C07.lean.
-/
import TinyVerif.Model.Start
namespace TinyVerif.Env
open TinyVerif.Start

abbrev EQ : Nat := 61

/-- `ptr.add(i).read()` inside an operand -/
def rdl (l : Bytes) (i : Nat) : R Nat :=
  match l[i]? with
  | some b => .ok b
  | none => .fault

/-- `UnixStr::match_up_to`: `loop { a = slf[it]; b = other[it]; if a != b || a == 0 { return it }; it += 1 }` -/
def matchLoop (s o : Bytes) : Nat → Nat → R Nat
  | 0, _ => .fuel
  | f + 1, it =>
    (rdl s it).bind fun a => (rdl o it).bind fun b =>
      if a ≠ b ∨ a = 0 then .ok it else matchLoop s o f (it + 1)

def matchUpTo (s o : Bytes) : R Nat := matchLoop s o (s.length + 1) 0

/-- `UnixStr::match_up_to_str`: `if it == other_len { return it }` precedes the reads -/
def matchStrLoop (s o : Bytes) : Nat → Nat → R Nat
  | 0, _ => .fuel
  | f + 1, it =>
    if it = o.length then .ok it
    else (rdl s it).bind fun a => (rdl o it).bind fun b =>
      if a ≠ b ∨ a = 0 then .ok it else matchStrLoop s o f (it + 1)

def matchUpToStr (s o : Bytes) : R Nat := matchStrLoop s o (s.length + 1) 0

inductive VarRes where
  | missing                -- Err(VarError::Missing)
  | found (v : Bytes)      -- Ok(value)
  | notUnicode             -- Err(VarError::NotUnicode(_))   (`var` only)
  deriving Repr, DecidableEq

/-- one iteration of `var_unix`'s loop on the entry `e`: `some v` = `return Ok(v)`, `none` = next entry.
    `key` is the key's bytes without its terminator (`key.len()` in Rust counts the terminator). -/
def entryUnix (key e : Bytes) : R (Option Bytes) :=
  (matchUpTo (key ++ [0]) (e ++ [0])).bind fun m =>
    if m ≠ 0 ∧ m + 1 = (key ++ [0]).length then
      (rdl (e ++ [0]) m).bind fun b =>
        if b = EQ then .ok (some (e.drop (m + 1))) else .ok none
    else .ok none

/-- `var_unix(key)` over the entries in block order; the NULL pointer that ends the block = `[]` -/
def varUnix (key : Bytes) : List Bytes → R VarRes
  | [] => .ok .missing
  | e :: rest => (entryUnix key e).bind fun r =>
      match r with
      | some v => .ok (.found v)
      | none => varUnix key rest

/-- one iteration of `var`'s loop (`key : &str`, no terminator) -/
def entryStr (key e : Bytes) : R (Option Bytes) :=
  (matchUpToStr (e ++ [0]) key).bind fun m =>
    if m ≠ 0 ∧ m = key.length then
      (rdl (e ++ [0]) m).bind fun b =>
        if b = EQ then .ok (some (e.drop (m + 1))) else .ok none
    else .ok none

/-- `var(key)`: the value must also be UTF-8 (`from_utf8(..).map_err(NotUnicode)` returns at once) -/
def var (key : Bytes) : List Bytes → R VarRes
  | [] => .ok .missing
  | e :: rest => (entryStr key e).bind fun r =>
      match r with
      | some v => .ok (if utf8Valid v then .found v else .notUnicode)
      | none => var key rest

/-- `var_unix` AS WRITTEN over memory: `while !env_ptr.is_null() { var_ptr = env_ptr.read(); if null → Missing;
    …; env_ptr = env_ptr.add(1) }` (first argument bounds the number of iterations) -/
def varUnixMem (m : Mem) (fuel : Nat) (key : Bytes) : Nat → Nat → R VarRes
  | 0, _ => .fuel
  | k + 1, envPtr =>
    if envPtr = 0 then .ok .missing
    else (rd64 m envPtr).bind fun p =>
      if p = 0 then .ok .missing
      else (cstr m p fuel).bind fun e => (entryUnix key e).bind fun r =>
        match r with
        | some v => .ok (.found v)
        | none => varUnixMem m fuel key k (envPtr + 8)

def varMem (m : Mem) (fuel : Nat) (key : Bytes) : Nat → Nat → R VarRes
  | 0, _ => .fuel
  | k + 1, envPtr =>
    if envPtr = 0 then .ok .missing
    else (rd64 m envPtr).bind fun p =>
      if p = 0 then .ok .missing
      else (cstr m p fuel).bind fun e => (entryStr key e).bind fun r =>
        match r with
        | some v => .ok (if utf8Valid v then .found v else .notUnicode)
        | none => varMem m fuel key k (envPtr + 8)

/-! ## spec -/

/-- the name of an entry: its bytes before the first '=' -/
def nameOf (e : Bytes) : Bytes := e.takeWhile (· ≠ EQ)
/-- its value: the bytes after the first '=' -/
def valueOf (e : Bytes) : Bytes := (e.dropWhile (· ≠ EQ)).drop 1

/-- the value of the first entry (that has a '=') whose name equals `key` exactly -/
def lookup (key : Bytes) : List Bytes → Option Bytes
  | [] => none
  | e :: rest => if EQ ∈ e ∧ nameOf e = key then some (valueOf e) else lookup key rest

/-! ## the argument iterators as stateful objects (`ArgsOs`, `Args` — tiny-std/src/env.rs)

`ArgsOs { ind, num_args }` (Model/Start.lean `ArgsOs`) implements `Iterator::next`, overrides
`Iterator::size_hint` (`let remaining = self.len(); (remaining, Some(remaining))`) and
`ExactSizeIterator::len` (`self.num_args - self.ind`); `Args(ArgsOs)` implements `next`
(`self.0.next().map(as_str)`) and delegates `size_hint` (`self.0.size_hint()`) and `len` (`self.0.len()`).
NOTHING else is overridden, so every other method a program can call is `core`'s default body over that `next`;
those bodies are mirrored here over an arbitrary `next` function `nx` (`ArgsOs.next m e fuel` for `ArgsOs`,
`Args.next m e fuel` for `Args`):

  nth(n)            `self.advance_by(n).ok()?; self.next()`   (advance_by: `n ×` next, stop at the first None)
  skip(k).next()    `if self.n > 0 { self.iter.nth(take(&mut self.n)) } else { self.iter.next() }`
  step_by(k)        `assert!(k != 0)`; each call: `self.iter.nth(if first_take { 0 } else { k - 1 })`
  fold / for_each   `while let Some(x) = self.next() { … }`;  count = fold(+1);  last = fold(Some)
  len()             `num_args - ind`  (a `usize` subtraction: overflow panic in a debug build should `ind` ever
                    exceed `num_args`; `next` only increments `ind` below `num_args`, the theorems show the
                    branch is never taken)
  size_hint()       `(len(), Some(len()))`

Both `len` and `size_hint` are the code AFTER the `fix:` commit d3e06ee; before it `len()` was `num_args` (the
total, whatever had been yielded) and `size_hint()` the default `(0, None)`: `Legacy.itStep`.
-/

abbrev Nx (α : Type) := ArgsOs → R (Option α × ArgsOs)

/-- default `Iterator::nth` -/
def nthWith {α : Type} (nx : Nx α) : Nat → ArgsOs → R (Option α × ArgsOs)
  | 0, it => nx it
  | n + 1, it => (nx it).bind fun r =>
      match r.1 with
      | none => .ok (none, r.2)
      | some _ => nthWith nx n r.2

/-- `Skip::next` on a `skip(k)` adapter that has not been polled yet -/
def skipNextWith {α : Type} (nx : Nx α) (k : Nat) (it : ArgsOs) : R (Option α × ArgsOs) :=
  if k > 0 then nthWith nx k it else nx it

/-- default `fold` (= `for x in it`): the items `next` yields until its first `None`, and the iterator
    left behind (first argument bounds the number of calls) -/
def drainWith {α : Type} (nx : Nx α) : Nat → ArgsOs → R (List α × ArgsOs)
  | 0, _ => .fuel
  | f + 1, it => (nx it).bind fun r =>
      match r.1 with
      | none => .ok ([], r.2)
      | some x => (drainWith nx f r.2).bind fun q => .ok (x :: q.1, q.2)

/-- `for x in it.step_by(sm1 + 1)`: `StepBy::next` until its first `None` -/
def stepLoopWith {α : Type} (nx : Nx α) (sm1 : Nat) : Nat → Bool → ArgsOs → R (List α × ArgsOs)
  | 0, _, _ => .fuel
  | f + 1, first, it => (nthWith nx (if first then 0 else sm1) it).bind fun r =>
      match r.1 with
      | none => .ok ([], r.2)
      | some x => (stepLoopWith nx sm1 f false r.2).bind fun q => .ok (x :: q.1, q.2)

/-- one call on the iterator object -/
inductive ItOp where
  | next
  | nth (k : Nat)
  | skip (k : Nat)        -- `it.by_ref().skip(k).next()`
  | stepBy (k : Nat)      -- `it.by_ref().step_by(k)` polled until `None`
  | len
  | sizeHint
  | count
  | last
  | fold                  -- every remaining item, in order
  deriving Repr, DecidableEq

/-- what the call answered -/
inductive ItOut (α : Type) where
  | item (o : Option α)
  | items (l : List α)
  | num (n : Nat)
  | hint (lo : Nat) (hi : Option Nat)
  deriving Repr, DecidableEq

/-- `last` of the default `fold(None, |_, x| Some(x))` -/
def lastOf {α : Type} : List α → Option α
  | [] => none
  | [x] => some x
  | _ :: y :: r => lastOf (y :: r)

/-- one op on the iterator `it`: its answer and the iterator afterwards -/
def itStep {α : Type} (nx : Nx α) (fuel : Nat) (op : ItOp) (it : ArgsOs) : R (ItOut α × ArgsOs) :=
  match op with
  | .next => (nx it).bind fun r => .ok (.item r.1, r.2)
  | .nth k => (nthWith nx k it).bind fun r => .ok (.item r.1, r.2)
  | .skip k => (skipNextWith nx k it).bind fun r => .ok (.item r.1, r.2)
  | .stepBy k =>
    if k = 0 then .panic          -- `assert!(step != 0)`
    else (stepLoopWith nx (k - 1) fuel true it).bind fun r => .ok (.items r.1, r.2)
  | .len => if it.numArgs < it.ind then .panic else .ok (.num it.len, it)
  | .sizeHint => if it.numArgs < it.ind then .panic else .ok (.hint it.len (some it.len), it)
  | .count => (drainWith nx fuel it).bind fun r => .ok (.num r.1.length, r.2)
  | .last => (drainWith nx fuel it).bind fun r => .ok (.item (lastOf r.1), r.2)
  | .fold => (drainWith nx fuel it).bind fun r => .ok (.items r.1, r.2)

/-- a script of calls on ONE iterator object, answers in order -/
def runOps {α : Type} (nx : Nx α) (fuel : Nat) : List ItOp → ArgsOs → R (List (ItOut α))
  | [], _ => .ok []
  | op :: rest, it => (itStep nx fuel op it).bind fun r =>
      (runOps nx fuel rest r.2).bind fun outs => .ok (r.1 :: outs)

/-! ## the code before the fixes -/
namespace Legacy

def entryUnix (key e : Bytes) : R (Option Bytes) :=
  (matchUpTo (key ++ [0]) (e ++ [0])).bind fun m =>
    if m ≠ 0 then
      (rdl (e ++ [0]) m).bind fun b =>
        if b = EQ then .ok (some (e.drop (m + 1))) else .ok none
    else .ok none

def varUnix (key : Bytes) : List Bytes → R VarRes
  | [] => .ok .missing
  | e :: rest => (entryUnix key e).bind fun r =>
      match r with
      | some v => .ok (.found v)
      | none => varUnix key rest

def entryStr (key e : Bytes) : R (Option Bytes) :=
  (matchUpToStr (e ++ [0]) key).bind fun m =>
    if m ≠ 0 then
      (rdl (e ++ [0]) m).bind fun b =>
        if b = EQ then .ok (some (e.drop (m + 1))) else .ok none
    else .ok none

def var (key : Bytes) : List Bytes → R VarRes
  | [] => .ok .missing
  | e :: rest => (entryStr key e).bind fun r =>
      match r with
      | some v => .ok (if utf8Valid v then .found v else .notUnicode)
      | none => var key rest

/-- the iterator calls before the `fix:` commit d3e06ee: `ExactSizeIterator::len` was `self.num_args` (Args:
    `self.0.num_args`) and `size_hint` was not overridden (`core`'s default `(0, None)`); every other call as now -/
def itStep {α : Type} (nx : Nx α) (fuel : Nat) (op : ItOp) (it : ArgsOs) : R (ItOut α × ArgsOs) :=
  match op with
  | .len => .ok (.num it.numArgs, it)
  | .sizeHint => .ok (.hint 0 none, it)
  | op => TinyVerif.Env.itStep nx fuel op it

def runOps {α : Type} (nx : Nx α) (fuel : Nat) : List ItOp → ArgsOs → R (List (ItOut α))
  | [], _ => .ok []
  | op :: rest, it => (itStep nx fuel op it).bind fun r =>
      (runOps nx fuel rest r.2).bind fun outs => .ok (r.1 :: outs)

end Legacy

end TinyVerif.Env
