/-
Model of tiny-std/src/env.rs `var` / `var_unix` (C07).  Imports only Model/Start.lean (itself import-free).

An environment entry is the byte list before its terminating NUL, as `UnixStr::from_ptr` reads it from the
block `resolve` located (`Start.envWalk`).  `matchUpTo` / `matchUpToStr` mirror
rusl/src/string/unix_str.rs `match_up_to` / `match_up_to_str` (raw-pointer reads = `rdl`, a read past the
operand's bytes is a `fault`); they are the same loops as Model/UnixStr.lean's (kept local so that this
model stays self-contained).

The model follows the code AFTER the `fix:` commit (the matched prefix must be the whole key); the pre-fix
bodies are in `namespace Legacy` together with the witness of the defect.
-/
import TinyVerif.Model.Start
namespace TinyVerif.Env
open TinyVerif.Start

abbrev EQ : Nat := 61

/-- `ptr.add(i).read()` inside an operand -/
def rdl (l : Bytes) (i : Nat) : R Nat :=
  match l[i]? with
  | some b => .ok b
  | none => .fault

/-- `UnixStr::match_up_to`: `loop { a = slf[it]; b = other[it]; if a != b || a == 0 { return it }; it += 1 }` -/
def matchLoop (s o : Bytes) : Nat → Nat → R Nat
  | 0, _ => .fuel
  | f + 1, it =>
    (rdl s it).bind fun a => (rdl o it).bind fun b =>
      if a ≠ b ∨ a = 0 then .ok it else matchLoop s o f (it + 1)

def matchUpTo (s o : Bytes) : R Nat := matchLoop s o (s.length + 1) 0

/-- `UnixStr::match_up_to_str`: `if it == other_len { return it }` precedes the reads -/
def matchStrLoop (s o : Bytes) : Nat → Nat → R Nat
  | 0, _ => .fuel
  | f + 1, it =>
    if it = o.length then .ok it
    else (rdl s it).bind fun a => (rdl o it).bind fun b =>
      if a ≠ b ∨ a = 0 then .ok it else matchStrLoop s o f (it + 1)

def matchUpToStr (s o : Bytes) : R Nat := matchStrLoop s o (s.length + 1) 0

inductive VarRes where
  | missing                -- Err(VarError::Missing)
  | found (v : Bytes)      -- Ok(value)
  | notUnicode             -- Err(VarError::NotUnicode(_))   (`var` only)
  deriving Repr, DecidableEq

/-- one iteration of `var_unix`'s loop on the entry `e`: `some v` = `return Ok(v)`, `none` = next entry.
    `key` is the key's bytes without its terminator (`key.len()` in Rust counts the terminator). -/
def entryUnix (key e : Bytes) : R (Option Bytes) :=
  (matchUpTo (key ++ [0]) (e ++ [0])).bind fun m =>
    if m ≠ 0 ∧ m + 1 = (key ++ [0]).length then
      (rdl (e ++ [0]) m).bind fun b =>
        if b = EQ then .ok (some (e.drop (m + 1))) else .ok none
    else .ok none

/-- `var_unix(key)` over the entries in block order; the NULL pointer that ends the block = `[]` -/
def varUnix (key : Bytes) : List Bytes → R VarRes
  | [] => .ok .missing
  | e :: rest => (entryUnix key e).bind fun r =>
      match r with
      | some v => .ok (.found v)
      | none => varUnix key rest

/-- one iteration of `var`'s loop (`key : &str`, no terminator) -/
def entryStr (key e : Bytes) : R (Option Bytes) :=
  (matchUpToStr (e ++ [0]) key).bind fun m =>
    if m ≠ 0 ∧ m = key.length then
      (rdl (e ++ [0]) m).bind fun b =>
        if b = EQ then .ok (some (e.drop (m + 1))) else .ok none
    else .ok none

/-- `var(key)`: the value must also be UTF-8 (`from_utf8(..).map_err(NotUnicode)` returns at once) -/
def var (key : Bytes) : List Bytes → R VarRes
  | [] => .ok .missing
  | e :: rest => (entryStr key e).bind fun r =>
      match r with
      | some v => .ok (if utf8Valid v then .found v else .notUnicode)
      | none => var key rest

/-- `var_unix` AS WRITTEN over memory: `while !env_ptr.is_null() { var_ptr = env_ptr.read(); if null → Missing;
    …; env_ptr = env_ptr.add(1) }` (first argument bounds the number of iterations) -/
def varUnixMem (m : Mem) (fuel : Nat) (key : Bytes) : Nat → Nat → R VarRes
  | 0, _ => .fuel
  | k + 1, envPtr =>
    if envPtr = 0 then .ok .missing
    else (rd64 m envPtr).bind fun p =>
      if p = 0 then .ok .missing
      else (cstr m p fuel).bind fun e => (entryUnix key e).bind fun r =>
        match r with
        | some v => .ok (.found v)
        | none => varUnixMem m fuel key k (envPtr + 8)

def varMem (m : Mem) (fuel : Nat) (key : Bytes) : Nat → Nat → R VarRes
  | 0, _ => .fuel
  | k + 1, envPtr =>
    if envPtr = 0 then .ok .missing
    else (rd64 m envPtr).bind fun p =>
      if p = 0 then .ok .missing
      else (cstr m p fuel).bind fun e => (entryStr key e).bind fun r =>
        match r with
        | some v => .ok (if utf8Valid v then .found v else .notUnicode)
        | none => varMem m fuel key k (envPtr + 8)

/-! ## spec -/

/-- the name of an entry: its bytes before the first '=' -/
def nameOf (e : Bytes) : Bytes := e.takeWhile (· ≠ EQ)
/-- its value: the bytes after the first '=' -/
def valueOf (e : Bytes) : Bytes := (e.dropWhile (· ≠ EQ)).drop 1

/-- the value of the first entry (that has a '=') whose name equals `key` exactly -/
def lookup (key : Bytes) : List Bytes → Option Bytes
  | [] => none
  | e :: rest => if EQ ∈ e ∧ nameOf e = key then some (valueOf e) else lookup key rest

/-! ## the code before the fix -/
namespace Legacy

def entryUnix (key e : Bytes) : R (Option Bytes) :=
  (matchUpTo (key ++ [0]) (e ++ [0])).bind fun m =>
    if m ≠ 0 then
      (rdl (e ++ [0]) m).bind fun b =>
        if b = EQ then .ok (some (e.drop (m + 1))) else .ok none
    else .ok none

def varUnix (key : Bytes) : List Bytes → R VarRes
  | [] => .ok .missing
  | e :: rest => (entryUnix key e).bind fun r =>
      match r with
      | some v => .ok (.found v)
      | none => varUnix key rest

def entryStr (key e : Bytes) : R (Option Bytes) :=
  (matchUpToStr (e ++ [0]) key).bind fun m =>
    if m ≠ 0 then
      (rdl (e ++ [0]) m).bind fun b =>
        if b = EQ then .ok (some (e.drop (m + 1))) else .ok none
    else .ok none

def var (key : Bytes) : List Bytes → R VarRes
  | [] => .ok .missing
  | e :: rest => (entryStr key e).bind fun r =>
      match r with
      | some v => .ok (if utf8Valid v then .found v else .notUnicode)
      | none => var key rest

end Legacy

end TinyVerif.Env
