/-
Model of tiny-start/src/symbols/mem.rs (C08): memcpy / memmove / memset / memcmp / bcmp.
Import-free, executable (the driver `drv_c08` runs exactly these definitions).

Conventions
* An address is a `Nat`; `usize` operations that the code performs with explicit wrapping
  (`wrapping_neg`, `wrapping_sub`) are modelled modulo 2^64; pointer `add`/`sub` are plain
  `Nat` `+`/`-` (Rust: in-bounds pointer arithmetic never wraps; the theorems assume
  `dest + n ≤ 2^64`, `src + n ≤ 2^64` and under that assumption no `-` here truncates).
* `x & WORD_MASK` is `x &&& WORD_MASK`; `n & !WORD_MASK` is `n - (n &&& WORD_MASK)` (an identity
  of two's-complement words: clearing the bits of a mask subtracts exactly those bits).
* A word access is 8 byte reads (little endian) followed by 8 byte writes — read-all-then-write-all,
  as the hardware does.  A word access that the code makes by dereferencing a `*mut usize`
  (`*dest_usize = …`, `*src_usize`) requires an 8-aligned address (Rust UB otherwise; the debug build
  of the harness aborts with "misaligned pointer dereference"): the model records it in `Mem.bad`.
* Every `while` loop is a recursion on fuel with the loop's own pointer comparison as the guard;
  running out of fuel is recorded in `Mem.bad`, never silently ignored.
* `Mem.bad`: 0 = nothing happened; 1 = misaligned word dereference; 2 = a loop ran out of fuel;
  3 = `usize` subtraction underflow (`n -= dest_misalignment`; a panic in a debug build).
* Access logs: every load the code makes is recorded, byte address by byte address, in `Mem.rlog`
  (`Mem.note` for `*p` on a `*const u8`, `noteWord` for a `usize` load = its 8 byte addresses) right
  before the value is taken with `Mem.rd`/`rdWord`; every store is recorded in `Mem.wlog` by `Mem.wr`
  itself.  The logs are what "accesses no memory outside `[s, s+n)` of any operand" is stated about
  (Props/C08.lean, `*_reads_in_bounds`, `*_writes_in_bounds`); they do not influence any value.
-/
namespace TinyVerif.MemFns

abbrev TWO64 : Nat := 18446744073709551616
abbrev WORD_SIZE : Nat := 8
abbrev WORD_MASK : Nat := WORD_SIZE - 1
abbrev WORD_COPY_THRESHOLD : Nat := if 2 * WORD_SIZE > 16 then 2 * WORD_SIZE else 16

/-! ## memory -/

/-- A byte memory: an arena `data` at addresses `[base, base+size)`, plus an association list of the
writes that fell outside the arena (newest first); unwritten bytes outside the arena read 0. -/
structure Mem where
  base : Nat
  data : Array UInt8
  oob : List (Nat × UInt8)
  bad : Nat
  /-- byte addresses loaded by the code under test, newest first -/
  rlog : List Nat
  /-- byte addresses stored to by the code under test, newest first -/
  wlog : List Nat

def lookup (a : Nat) : List (Nat × UInt8) → UInt8
  | [] => 0
  | (k, v) :: r => if k = a then v else lookup a r

def Mem.rd (m : Mem) (a : Nat) : UInt8 :=
  if a < m.base then lookup a m.oob
  else if h : a - m.base < m.data.size then m.data[a - m.base]
  else lookup a m.oob

def Mem.wr (m : Mem) (a : Nat) (v : UInt8) : Mem :=
  if a < m.base then { m with oob := (a, v) :: m.oob, wlog := a :: m.wlog }
  else if a - m.base < m.data.size then { m with data := m.data.setIfInBounds (a - m.base) v, wlog := a :: m.wlog }
  else { m with oob := (a, v) :: m.oob, wlog := a :: m.wlog }

/-- record a byte load at `a` (the value is then taken with `rd`) -/
def Mem.note (m : Mem) (a : Nat) : Mem := { m with rlog := a :: m.rlog }

/-- record a `usize` load at `a`: the 8 byte addresses `a .. a+7` -/
def noteWord (m : Mem) (a : Nat) : Mem :=
  { m with rlog := (a + 7) :: (a + 6) :: (a + 5) :: (a + 4) :: (a + 3) :: (a + 2) :: (a + 1) :: a :: m.rlog }

/-- forget the logs (the driver does this after it has set the arena up) -/
def Mem.clearLogs (m : Mem) : Mem := { m with rlog := [], wlog := [] }

/-- record the first bad event -/
def Mem.flag (m : Mem) (code : Nat) : Mem :=
  if m.bad = 0 then { m with bad := code } else m

/-- the alignment requirement of `*p` for `p : *mut usize` -/
def chkAligned (m : Mem) (a : Nat) : Mem :=
  if a % WORD_SIZE = 0 then m else m.flag 1

/-- little-endian word at `a` (8 byte reads) -/
def rdWord (m : Mem) (a : Nat) : Nat :=
  (m.rd a).toNat + 256 * ((m.rd (a + 1)).toNat + 256 * ((m.rd (a + 2)).toNat + 256 * ((m.rd (a + 3)).toNat
  + 256 * ((m.rd (a + 4)).toNat + 256 * ((m.rd (a + 5)).toNat + 256 * ((m.rd (a + 6)).toNat
  + 256 * (m.rd (a + 7)).toNat))))))

/-- byte `j` of a word -/
def byteOf (w j : Nat) : UInt8 := UInt8.ofNat (w / 256 ^ j % 256)

/-- store a little-endian word at `a` (8 byte writes) -/
def wrWord (m : Mem) (a w : Nat) : Mem :=
  ((((((((m.wr a (byteOf w 0)).wr (a + 1) (byteOf w 1)).wr (a + 2) (byteOf w 2)).wr (a + 3) (byteOf w 3)).wr
    (a + 4) (byteOf w 4)).wr (a + 5) (byteOf w 5)).wr (a + 6) (byteOf w 6)).wr (a + 7) (byteOf w 7))

/-- `(x as usize).wrapping_neg()` -/
def wrappingNeg (x : Nat) : Nat := (TWO64 - x % TWO64) % TWO64
/-- `a.wrapping_sub(b)` on usize -/
def wrappingSub (a b : Nat) : Nat := (a % TWO64 + (TWO64 - b % TWO64)) % TWO64
/-- `n & !WORD_MASK` -/
def andNotMask (n : Nat) : Nat := n - (n &&& WORD_MASK)

/-! ## copy_forward -/

/-- `copy_forward_bytes`: `while dest < dest_end { *dest = *src; dest += 1; src += 1 }` -/
def copyForwardBytesLoop : Nat → Mem → Nat → Nat → Nat → Mem
  | 0, m, dest, _, dest_end => if dest < dest_end then m.flag 2 else m
  | f + 1, m, dest, src, dest_end =>
    if dest < dest_end then
      let m := m.note src
      copyForwardBytesLoop f (m.wr dest (m.rd src)) (dest + 1) (src + 1) dest_end
    else m

def copyForwardBytes (m : Mem) (dest src n : Nat) : Mem :=
  let dest_end := dest + n
  copyForwardBytesLoop n m dest src dest_end

/-- `copy_forward_aligned_words`: `while dest_usize < dest_end { *dest_usize = *src_usize; … }` (step 8) -/
def copyForwardAlignedWordsLoop : Nat → Mem → Nat → Nat → Nat → Mem
  | 0, m, dest, _, dest_end => if dest < dest_end then m.flag 2 else m
  | f + 1, m, dest, src, dest_end =>
    if dest < dest_end then
      let m := chkAligned m src
      let m := noteWord m src
      let w := rdWord m src
      let m := chkAligned m dest
      copyForwardAlignedWordsLoop f (wrWord m dest w) (dest + WORD_SIZE) (src + WORD_SIZE) dest_end
    else m

def copyForwardAlignedWords (m : Mem) (dest src n : Nat) : Mem :=
  let dest_end := dest + n
  copyForwardAlignedWordsLoop n m dest src dest_end

/-- `copy_forward_misaligned_words`: `*dest_usize = read_usize_unaligned(src_usize)` -/
def copyForwardMisalignedWordsLoop : Nat → Mem → Nat → Nat → Nat → Mem
  | 0, m, dest, _, dest_end => if dest < dest_end then m.flag 2 else m
  | f + 1, m, dest, src, dest_end =>
    if dest < dest_end then
      let m := noteWord m src
      let w := rdWord m src
      let m := chkAligned m dest
      copyForwardMisalignedWordsLoop f (wrWord m dest w) (dest + WORD_SIZE) (src + WORD_SIZE) dest_end
    else m

def copyForwardMisalignedWords (m : Mem) (dest src n : Nat) : Mem :=
  let dest_end := dest + n
  copyForwardMisalignedWordsLoop n m dest src dest_end

def copyForward (m : Mem) (dest src n : Nat) : Mem :=
  if n ≥ WORD_COPY_THRESHOLD then
    let dest_misalignment := wrappingNeg dest &&& WORD_MASK
    let m := copyForwardBytes m dest src dest_misalignment
    let dest := dest + dest_misalignment
    let src := src + dest_misalignment
    let m := if dest_misalignment > n then m.flag 3 else m
    let n := n - dest_misalignment
    let n_words := andNotMask n
    let src_misalignment := src &&& WORD_MASK
    let m := if src_misalignment = 0 then copyForwardAlignedWords m dest src n_words
             else copyForwardMisalignedWords m dest src n_words
    let dest := dest + n_words
    let src := src + n_words
    let n := n - n_words
    copyForwardBytes m dest src n
  else
    copyForwardBytes m dest src n

/-! ## copy_backward (the helpers take the pointers *past the end*) -/

/-- `copy_backward_bytes`: `while dest_start < dest { dest -= 1; src -= 1; *dest = *src }` -/
def copyBackwardBytesLoop : Nat → Mem → Nat → Nat → Nat → Mem
  | 0, m, dest, _, dest_start => if dest_start < dest then m.flag 2 else m
  | f + 1, m, dest, src, dest_start =>
    if dest_start < dest then
      let dest := dest - 1
      let src := src - 1
      let m := m.note src
      copyBackwardBytesLoop f (m.wr dest (m.rd src)) dest src dest_start
    else m

def copyBackwardBytes (m : Mem) (dest src n : Nat) : Mem :=
  let dest_start := dest - n
  copyBackwardBytesLoop n m dest src dest_start

def copyBackwardAlignedWordsLoop : Nat → Mem → Nat → Nat → Nat → Mem
  | 0, m, dest, _, dest_start => if dest_start < dest then m.flag 2 else m
  | f + 1, m, dest, src, dest_start =>
    if dest_start < dest then
      let dest := dest - WORD_SIZE
      let src := src - WORD_SIZE
      let m := chkAligned m src
      let m := noteWord m src
      let w := rdWord m src
      let m := chkAligned m dest
      copyBackwardAlignedWordsLoop f (wrWord m dest w) dest src dest_start
    else m

def copyBackwardAlignedWords (m : Mem) (dest src n : Nat) : Mem :=
  let dest_start := dest - n
  copyBackwardAlignedWordsLoop n m dest src dest_start

def copyBackwardMisalignedWordsLoop : Nat → Mem → Nat → Nat → Nat → Mem
  | 0, m, dest, _, dest_start => if dest_start < dest then m.flag 2 else m
  | f + 1, m, dest, src, dest_start =>
    if dest_start < dest then
      let dest := dest - WORD_SIZE
      let src := src - WORD_SIZE
      let m := noteWord m src
      let w := rdWord m src
      let m := chkAligned m dest
      copyBackwardMisalignedWordsLoop f (wrWord m dest w) dest src dest_start
    else m

def copyBackwardMisalignedWords (m : Mem) (dest src n : Nat) : Mem :=
  let dest_start := dest - n
  copyBackwardMisalignedWordsLoop n m dest src dest_start

def copyBackward (m : Mem) (dest src n : Nat) : Mem :=
  let dest := dest + n
  let src := src + n
  if n ≥ WORD_COPY_THRESHOLD then
    let dest_misalignment := dest &&& WORD_MASK
    let m := copyBackwardBytes m dest src dest_misalignment
    let dest := dest - dest_misalignment
    let src := src - dest_misalignment
    let m := if dest_misalignment > n then m.flag 3 else m
    let n := n - dest_misalignment
    let n_words := andNotMask n
    let src_misalignment := src &&& WORD_MASK
    let m := if src_misalignment = 0 then copyBackwardAlignedWords m dest src n_words
             else copyBackwardMisalignedWords m dest src n_words
    let dest := dest - n_words
    let src := src - n_words
    let n := n - n_words
    copyBackwardBytes m dest src n
  else
    copyBackwardBytes m dest src n

/-! ## set_bytes -/

def setBytesBytesLoop : Nat → Mem → Nat → UInt8 → Nat → Mem
  | 0, m, s, _, e => if s < e then m.flag 2 else m
  | f + 1, m, s, c, e => if s < e then setBytesBytesLoop f (m.wr s c) (s + 1) c e else m

def setBytesBytes (m : Mem) (s : Nat) (c : UInt8) (n : Nat) : Mem :=
  let e := s + n
  setBytesBytesLoop n m s c e

/-- `while bits < WORD_SIZE * 8 { broadcast |= broadcast << bits; bits *= 2 }` (`<<` drops the bits
shifted out of the 64-bit word) -/
def broadcastLoop : Nat → Nat → Nat → Nat
  | 0, b, _ => b
  | f + 1, b, bits =>
    if bits < WORD_SIZE * 8 then broadcastLoop f (b ||| (b <<< bits) % TWO64) (bits * 2) else b

def broadcast (c : UInt8) : Nat := broadcastLoop 8 c.toNat 8

def setBytesWordsLoop : Nat → Mem → Nat → Nat → Nat → Mem
  | 0, m, s, _, e => if s < e then m.flag 2 else m
  | f + 1, m, s, b, e =>
    if s < e then
      let m := chkAligned m s
      setBytesWordsLoop f (wrWord m s b) (s + WORD_SIZE) b e
    else m

def setBytesWords (m : Mem) (s : Nat) (c : UInt8) (n : Nat) : Mem :=
  let b := broadcast c
  let e := s + n
  setBytesWordsLoop n m s b e

def setBytes (m : Mem) (s : Nat) (c : UInt8) (n : Nat) : Mem :=
  if n ≥ WORD_COPY_THRESHOLD then
    let misalignment := wrappingNeg s &&& WORD_MASK
    let m := setBytesBytes m s c misalignment
    let s := s + misalignment
    let m := if misalignment > n then m.flag 3 else m
    let n := n - misalignment
    let n_words := andNotMask n
    let m := setBytesWords m s c n_words
    let s := s + n_words
    let n := n - n_words
    setBytesBytes m s c n
  else
    setBytesBytes m s c n

/-! ## compare_bytes -/

/-- `while i < n { a = s1[i]; b = s2[i]; if a != b { return a as i32 - b as i32 } i += 1 } 0`;
`none` = out of fuel.  The memory comes back with the two byte loads of every iteration logged. -/
def compareBytesLoop : Nat → Mem → Nat → Nat → Nat → Nat → Mem × Option Int
  | 0, m, _, _, n, i => (m, if i < n then none else some 0)
  | f + 1, m, s1, s2, n, i =>
    if i < n then
      let m := m.note (s1 + i)
      let a := m.rd (s1 + i)
      let m := m.note (s2 + i)
      let b := m.rd (s2 + i)
      if a ≠ b then (m, some ((a.toNat : Int) - (b.toNat : Int)))
      else compareBytesLoop f m s1 s2 n (i + 1)
    else (m, some 0)

def compareBytes (m : Mem) (s1 s2 n : Nat) : Mem × Option Int := compareBytesLoop n m s1 s2 n 0

/-! ## the exported symbols -/

def memcpy (m : Mem) (dest src n : Nat) : Mem × Nat := (copyForward m dest src n, dest)

def memmove (m : Mem) (dest src n : Nat) : Mem × Nat :=
  let delta := wrappingSub dest src
  if delta ≥ n then (copyForward m dest src n, dest) else (copyBackward m dest src n, dest)

def memcmp (m : Mem) (s1 s2 n : Nat) : Mem × Option Int := compareBytes m s1 s2 n

def bcmp (m : Mem) (s1 s2 n : Nat) : Mem × Option Int := memcmp m s1 s2 n

/-- `c as u8` for a `c_int` -/
def asU8 (c : Int) : UInt8 := UInt8.ofNat (c % 256).toNat

def memset (m : Mem) (s : Nat) (c : Int) (n : Nat) : Mem × Nat := (setBytes m s (asU8 c) n, s)

/-! ## arena plumbing shared with the driver (pattern fill, hash) -/

/-- initial content of arena byte `i` for a seed: period 251, all bytes of a period distinct -/
def pattern (seed i : Nat) : UInt8 := UInt8.ofNat (((i % 251) * 7 + seed * 13 + 3) % 256)

def mkArena (base size seed : Nat) : Mem :=
  { base := base, data := Array.ofFn (n := size) (fun i => pattern seed i.val), oob := [], bad := 0, rlog := [], wlog := [] }

abbrev HASH_P : Nat := 36028797018963913  -- 2^55 - 55, prime

/-- the arena as a little-endian integer, modulo `HASH_P` -/
def hashArena (m : Mem) : Nat :=
  m.data.foldr (fun b h => (h * 256 + b.toNat) % HASH_P) 0

end TinyVerif.MemFns
