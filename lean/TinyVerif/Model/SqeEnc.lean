/-
C18: the shape of an `IoUringSubmissionQueueEntry::new_*` constructor (regenerated into
Gen/SqeCtors.lean from the Rust source) and the 64-byte `struct io_uring_sqe` image it produces.
Import-free.
-/
namespace TinyVerif.Sqe

/-- value domain of a constructor operand (a Rust parameter, or a field of a struct parameter) -/
inductive Kind where
  | fd | optfd | u8 | u16 | u32 | u64 | i16 | i32 | nni32 | bool | optu64 | ptr
  deriving DecidableEq, Repr

/-- `Option` operands use -1 for `None` -/
def Kind.lo : Kind → Int
  | .optfd => -1 | .i16 => -32768 | .i32 => -2147483648 | .optu64 => -1 | _ => 0
def Kind.hi : Kind → Int
  | .fd => 2147483647 | .optfd => 2147483647 | .u8 => 255 | .u16 => 65535 | .u32 => 4294967295
  | .u64 => 18446744073709551615 | .i16 => 32767 | .i32 => 2147483647 | .nni32 => 2147483647
  | .bool => 1 | .optu64 => 18446744073709551615 | .ptr => 18446744073709551615

/-- what a constructor stores into one SQE field -/
inductive Src where
  | const (n : Int)
  | arg (i : Nat)                  -- operand i (any `as` cast is a truncation to the field width)
  | optFd (i : Nat)                -- `unpack_dir_fd`: `None` ↦ AT_FDCWD (-100)
  | optU64 (i : Nat)               -- `unwrap_or_default`
  | ite (i : Nat) (t e : Int)      -- `if operand { t } else { e }`
  deriving DecidableEq, Repr

structure Ctor where
  name : String
  operands : List (String × Kind)
  opcode : Src
  flags : Src
  ioprio : Src
  fd : Src
  off : Src
  addr : Src
  len : Src
  opflags : Src
  /-- width of the union member written at offset 28 (2 for `poll_events: u16`, else 4) -/
  opflagsBytes : Nat
  userData : Src
  bufIndex : Src
  personality : Src
  fileIndex : Src
  deriving Repr

def evalSrc (a : Nat → Int) : Src → Int
  | .const n => n
  | .arg i => a i
  | .optFd i => if a i = -1 then -100 else a i
  | .optU64 i => if a i = -1 then 0 else a i
  | .ite i t e => if a i ≠ 0 then t else e

/-- two's-complement truncation to `bytes` bytes -/
def wrap (bytes : Nat) (v : Int) : Nat := (v % (256 ^ bytes : Nat)).toNat

/-- `struct io_uring_sqe` as unsigned field values -/
structure Sqe where
  opcode : Nat      -- u8  @0
  flags : Nat       -- u8  @1
  ioprio : Nat      -- u16 @2
  fd : Nat          -- i32 @4
  off : Nat         -- u64 @8   off / addr2
  addr : Nat        -- u64 @16  addr / splice_off_in
  len : Nat         -- u32 @24
  opflags : Nat     -- u32 @28  rw_flags / open_flags / poll32_events / …
  userData : Nat    -- u64 @32
  bufIndex : Nat    -- u16 @40  buf_index / buf_group
  personality : Nat -- u16 @42
  fileIndex : Nat   -- u32 @44  splice_fd_in / file_index
  addr3 : Nat       -- u64 @48
  pad : Nat         -- u64 @56
  deriving DecidableEq, Repr

def fieldsOf (c : Ctor) (a : Nat → Int) : Sqe :=
  { opcode := wrap 1 (evalSrc a c.opcode), flags := wrap 1 (evalSrc a c.flags),
    ioprio := wrap 2 (evalSrc a c.ioprio), fd := wrap 4 (evalSrc a c.fd),
    off := wrap 8 (evalSrc a c.off), addr := wrap 8 (evalSrc a c.addr),
    len := wrap 4 (evalSrc a c.len), opflags := wrap c.opflagsBytes (evalSrc a c.opflags),
    userData := wrap 8 (evalSrc a c.userData), bufIndex := wrap 2 (evalSrc a c.bufIndex),
    personality := wrap 2 (evalSrc a c.personality), fileIndex := wrap 4 (evalSrc a c.fileIndex),
    addr3 := 0, pad := 0 }

/-- little-endian bytes -/
def le : Nat → Nat → List Nat
  | 0, _ => []
  | w + 1, v => v % 256 :: le w (v / 256)

def un : List Nat → Nat
  | [] => 0
  | b :: bs => b + 256 * un bs

def serialize (s : Sqe) : List Nat :=
  le 1 s.opcode ++ (le 1 s.flags ++ (le 2 s.ioprio ++ (le 4 s.fd ++ (le 8 s.off ++ (le 8 s.addr ++
  (le 4 s.len ++ (le 4 s.opflags ++ (le 8 s.userData ++ (le 2 s.bufIndex ++ (le 2 s.personality ++
  (le 4 s.fileIndex ++ (le 8 s.addr3 ++ le 8 s.pad))))))))))))

/-- split `w` bytes off the front -/
def takeLE (w : Nat) (bs : List Nat) : Option (Nat × List Nat) :=
  if w ≤ bs.length then some (un (bs.take w), bs.drop w) else none

/-- the kernel's reading of a 64-byte entry -/
def parse (bs : List Nat) : Option Sqe := do
  let (opcode, r) ← takeLE 1 bs
  let (flags, r) ← takeLE 1 r
  let (ioprio, r) ← takeLE 2 r
  let (fd, r) ← takeLE 4 r
  let (off, r) ← takeLE 8 r
  let (addr, r) ← takeLE 8 r
  let (len, r) ← takeLE 4 r
  let (opflags, r) ← takeLE 4 r
  let (userData, r) ← takeLE 8 r
  let (bufIndex, r) ← takeLE 2 r
  let (personality, r) ← takeLE 2 r
  let (fileIndex, r) ← takeLE 4 r
  let (addr3, r) ← takeLE 8 r
  let (pad, r) ← takeLE 8 r
  if r = [] then
    some { opcode, flags, ioprio, fd, off, addr, len, opflags, userData, bufIndex, personality,
           fileIndex, addr3, pad }
  else none

/-- the image a constructor produces -/
def encode (c : Ctor) (a : Nat → Int) : List Nat := serialize (fieldsOf c a)

end TinyVerif.Sqe
