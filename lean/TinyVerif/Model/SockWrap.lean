/-
C16 model, part 1 — tiny-std/src/sock.rs (`sock_nonblock_op_poll_if_not_ready`, `blocking_read_nonblock_sock`,
`blocking_write_nonblock_sock`) and the try-variants of tiny-std/src/net.rs, AS WRITTEN:

    ts = timeout.map(TimeSpec::try_from)?          -- u64 seconds must fit an i64, else Err before any syscall
    match op(sock) {
      Ok(o) => Ok(o),
      Err(block_errno) => loop { match ppoll([sock, event], ts, None) {
            Ok(0) => return Err(Timeout),
            Ok(_) => return op(sock),               -- the op ONCE MORE, whatever it returns
            Err(EINTR) => continue,                 -- the FULL timeout again
            Err(e) => return Err(e) } },
      Err(e) => Err(e) }

Import-free, executable.  The wrapper is a three-phase state machine `wstep` driven by the kernel's answers; `run`
iterates it over a response script (the sc-shim correspondence feeds the very same scripts to the real code and
compares outcome + issued calls), and the stream system at the bottom (`Sys`) drives the *same* `wstep` for a
writer (`Write::write_all`) and a reader (read loop) over a FIFO byte queue of arbitrary capacity under an
arbitrary scheduler / adversarial kernel.
-/
namespace TinyVerif.SockWrap

abbrev EINTR : Nat := 4
abbrev EAGAIN : Nat := 11
abbrev EFAULT : Nat := 14
abbrev EINPROGRESS : Nat := 115
abbrev POLLIN : Nat := 1
abbrev POLLOUT : Nat := 4
abbrev I64_MAX : Nat := 9223372036854775807

/-- decoded result of one syscall: `Ok(v)` / `Err(errno)` (decoding itself is property C09) -/
inductive R where
  | ok (v : Nat)
  | err (e : Nat)
  deriving DecidableEq, Repr

/-- the timespec handed to ppoll: `none` = null pointer = wait for ever -/
abbrev TS := Option (Nat × Nat)

inductive Call where
  | op                         -- the underlying read / write / connect / accept4
  | ppoll (ts : TS) (ev : Nat) -- ppoll([{fd, ev}], ts, NULL)
  deriving DecidableEq, Repr

inductive Out where
  | ok (v : Nat)        -- Ok(count) / Ok(fd) / Ok(())
  | timeout             -- Err(Error::Timeout)
  | os (e : Nat)        -- Err(Os{code})
  | badTimeout          -- Duration does not fit a TimeSpec: Err before any syscall
  | exhausted           -- model artefact: the response script ran out
  deriving DecidableEq, Repr

structure Cfg where
  blockErrno : Nat      -- EAGAIN, or EINPROGRESS for TCP connect
  event : Nat           -- POLLIN / POLLOUT
  deriving DecidableEq, Repr

def readCfg : Cfg := ⟨EAGAIN, POLLIN⟩
def writeCfg : Cfg := ⟨EAGAIN, POLLOUT⟩
def acceptCfg : Cfg := ⟨EAGAIN, POLLIN⟩
def unixConnectCfg : Cfg := ⟨EAGAIN, POLLOUT⟩
def tcpConnectCfg : Cfg := ⟨EINPROGRESS, POLLOUT⟩

inductive Phase where
  | first     -- about to issue the op for the first time
  | polling   -- got the blocking errno; inside the ppoll loop
  | retry     -- ppoll said ready; about to issue the op once more
  deriving DecidableEq, Repr

/-- the call issued in a phase -/
def callOf (cfg : Cfg) (ts : TS) : Phase → Call
  | .first => .op
  | .polling => .ppoll ts cfg.event
  | .retry => .op

/-- one transition: phase × kernel answer → next phase or the wrapper's result -/
def wstep (cfg : Cfg) : Phase → R → Sum Phase Out
  | .first, .ok v => .inr (.ok v)
  | .first, .err e => if e = cfg.blockErrno then .inl .polling else .inr (.os e)
  | .polling, .ok 0 => .inr .timeout
  | .polling, .ok (_ + 1) => .inl .retry
  | .polling, .err e => if e = EINTR then .inl .polling else .inr (.os e)
  | .retry, .ok v => .inr (.ok v)
  | .retry, .err e => .inr (.os e)

abbrev Trace := List (Call × R)

/-- iterate `wstep` over a response script.  An exhausted script answers EFAULT once and the run is marked
`exhausted` (the harness does the same). -/
def runFrom (cfg : Cfg) (ts : TS) : Phase → List R → Out × Trace
  | p, [] => (.exhausted, [(callOf cfg ts p, .err EFAULT)])
  | p, r :: rest =>
    match wstep cfg p r with
    | .inr o => (o, [(callOf cfg ts p, r)])
    | .inl p' =>
      let (o, tr) := runFrom cfg ts p' rest
      (o, (callOf cfg ts p, r) :: tr)

/-- `Option<Duration>` → `Option<TimeSpec>` (`TimeSpec::try_from`): seconds must fit an i64 -/
def convTimeout : Option (Nat × Nat) → Option TS
  | none => some none
  | some (s, n) => if s ≤ I64_MAX then some (some (s, n)) else none

/-- a whole wrapper call -/
def run (cfg : Cfg) (timeout : Option (Nat × Nat)) (script : List R) : Out × Trace :=
  match convTimeout timeout with
  | none => (.badTimeout, [])
  | some ts => runFrom cfg ts .first script

/-! ## try-variants (net.rs): the op once, the blocking errno becomes `None` / `InProgress` -/

inductive TryOut where
  | some (v : Nat)      -- Ok(Some(stream)) / Connected
  | wouldBlock          -- Ok(None) / InProgress
  | os (e : Nat)
  | exhausted
  deriving DecidableEq, Repr

def tryRun (cfg : Cfg) : List R → TryOut × Trace
  | [] => (.exhausted, [(.op, .err EFAULT)])
  | .ok v :: _ => (.some v, [(.op, .ok v)])
  | .err e :: _ => (if e = cfg.blockErrno then .wouldBlock else .os e, [(.op, .err e)])

/-! ## observations on traces used by the theorems -/

/-- counts returned by the successful underlying ops of a trace -/
def okOps : Trace → List Nat
  | [] => []
  | (.op, .ok v) :: t => v :: okOps t
  | _ :: t => okOps t

def isPoll : Call → Bool
  | .ppoll _ _ => true
  | .op => false

/-! ## stream system: write_all ‖ read-loop over a FIFO byte queue

`Write::write_all`:  while !buf.is_empty() { match write(buf) { Ok(0) => Err(WriteZero), Ok(n) => buf = &buf[n..],
                                                            Err(EINTR) => {}, Err(e) => return Err(e) } }
read loop (`read_exact` / `read_to_end` shape): read(chunk) until `want` bytes or Ok(0); EINTR retried.

The kernel is adversarial: every answer to ppoll is arbitrary; an op may fail with any errno at any time; a
successful write appends exactly the first `m` offered bytes (1 ≤ m ≤ min(offered, free space)), a successful read
removes exactly the first `m` queued bytes (1 ≤ m ≤ min(len, queued)); a read on an empty queue is EAGAIN, or 0 once
the writer has closed.  The scheduler is an arbitrary list of steps.
-/

inductive WDone where
  | ok | writeZero | timeout | os (e : Nat)
  deriving DecidableEq, Repr

inductive RDone where
  | full | eof | timeout | os (e : Nat)
  deriving DecidableEq, Repr

inductive WSt where
  | run (p : Phase)
  | done (d : WDone)
  deriving DecidableEq, Repr

inductive RSt where
  | idle                        -- between two read calls
  | run (p : Phase) (len : Nat) -- inside a read call with a buffer of `len` bytes
  | done (d : RDone)
  deriving DecidableEq, Repr

structure Sys where
  data : List Nat       -- what write_all was asked to write
  cap : Nat             -- socket buffer capacity
  want : Nat            -- reader stops after this many bytes (≥ data.length: reads to EOF)
  pos : Nat             -- write_all's cursor: `buf = &data[pos..]`, advanced by the counts `write` RETURNS
  sent : Nat            -- ghost: bytes of `data` the kernel has accepted
  q : List Nat          -- bytes in flight
  deq : List Nat        -- ghost: bytes the kernel has handed out, in order
  rbuf : List Nat       -- what the kernel put into the buffer of the reader's current call
  rcvd : List Nat       -- reader's result: `buf[..n]` appended for every `Ok(n)` its read RETURNED
  closed : Bool         -- writer closed its end
  w : WSt
  r : RSt
  deriving DecidableEq, Repr

def Sys.init (data : List Nat) (cap want : Nat) : Sys :=
  { data := data, cap := cap, want := want, pos := 0, sent := 0, q := [], deq := [], rbuf := [], rcvd := [],
    closed := false, w := if data.length = 0 then .done .ok else .run .first,
    r := if want = 0 then .done .full else .idle }

/-- the environment's choice for one answer -/
inductive Env where
  | succeed (m : Nat)
  | fail (e : Nat)
  deriving DecidableEq, Repr

inductive Step where
  | w (env : Env)               -- the writer performs its next syscall
  | r (chunk : Nat) (env : Env) -- the reader performs its next syscall (chunk = buffer size if a new call starts)
  | close                       -- the writer, once done, closes
  deriving DecidableEq, Repr

def clamp (m lo hi : Nat) : Nat := max lo (min m hi)

/-- write_all's reaction to the result of one `write` (= one wrapper call) -/
def wAfter (s : Sys) : Out → Sys
  | .ok 0 => { s with w := .done .writeZero }
  | .ok (n + 1) =>
    if s.pos + (n + 1) < s.data.length then { s with pos := s.pos + (n + 1), w := .run .first }
    else { s with pos := s.pos + (n + 1), w := .done .ok }
  | .timeout => { s with w := .done .timeout }
  | .os e => if e = EINTR then { s with w := .run .first } else { s with w := .done (.os e) }
  | .badTimeout => { s with w := .done (.os 0) }
  | .exhausted => { s with w := .done (.os 0) }

/-- the read loop's reaction to the result of one `read` -/
def rAfter (s : Sys) : Out → Sys
  | .ok 0 => { s with rbuf := [], r := .done .eof }
  | .ok (n + 1) =>
    let rc := s.rcvd ++ s.rbuf.take (n + 1)
    if rc.length < s.want then { s with rcvd := rc, rbuf := [], r := .idle }
    else { s with rcvd := rc, rbuf := [], r := .done .full }
  | .timeout => { s with rbuf := [], r := .done .timeout }
  | .os e => if e = EINTR then { s with rbuf := [], r := .idle } else { s with rbuf := [], r := .done (.os e) }
  | .badTimeout => { s with rbuf := [], r := .done (.os 0) }
  | .exhausted => { s with rbuf := [], r := .done (.os 0) }

/-- the kernel's answer to the writer's call in phase `p`, with its effect on the socket -/
def kWrite (s : Sys) (p : Phase) (env : Env) : R × Sys :=
  match callOf writeCfg none p, env with
  | .ppoll _ _, .succeed m => (.ok m, s)
  | _, .fail e => (.err e, s)
  | .op, .succeed m =>
    let offered := s.data.drop s.pos
    let free := s.cap - s.q.length
    if free = 0 ∨ offered.length = 0 then (.err EAGAIN, s) else
    let k := clamp m 1 (min offered.length free)
    (.ok k, { s with q := s.q ++ offered.take k, sent := s.sent + k })

/-- the kernel's answer to the reader's call in phase `p` on a buffer of `len` bytes -/
def kRead (s : Sys) (p : Phase) (len : Nat) (env : Env) : R × Sys :=
  match callOf readCfg none p, env with
  | .ppoll _ _, .succeed m => (.ok m, s)
  | _, .fail e => (.err e, s)
  | .op, .succeed m =>
    if s.q.length = 0 ∨ len = 0 then (if s.closed ∨ len = 0 then (.ok 0, s) else (.err EAGAIN, s)) else
    let k := clamp m 1 (min len s.q.length)
    (.ok k, { s with rbuf := s.q.take k, deq := s.deq ++ s.q.take k, q := s.q.drop k })

/-- continue / finish the writer's wrapper call after one kernel answer -/
def wFinish (s1 : Sys) : Sum Phase Out → Sys
  | .inl p' => { s1 with w := .run p' }
  | .inr o => wAfter s1 o

def rFinish (s1 : Sys) (len : Nat) : Sum Phase Out → Sys
  | .inl p' => { s1 with r := .run p' len }
  | .inr o => rAfter s1 o

def step (s : Sys) : Step → Sys
  | .w env =>
    match s.w with
    | .done _ => s
    | .run p =>
      let a := kWrite s p env
      wFinish a.2 (wstep writeCfg p a.1)
  | .r chunk env =>
    match s.r with
    | .done _ => s
    | .idle =>
      -- a new read call with a buffer of min(chunk, want - rcvd) ≥ 1 bytes: its first syscall
      let len := max 1 (min chunk (s.want - s.rcvd.length))
      let a := kRead s .first len env
      rFinish a.2 len (wstep readCfg .first a.1)
    | .run p len =>
      let a := kRead s p len env
      rFinish a.2 len (wstep readCfg p a.1)
  | .close =>
    match s.w with
    | .done _ => { s with closed := true }
    | .run _ => s

def exec (s : Sys) : List Step → Sys
  | [] => s
  | st :: rest => exec (step s st) rest

end TinyVerif.SockWrap
