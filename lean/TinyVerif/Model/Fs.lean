/-
C14 — file-system post-conditions.  Import-free executable model.

Part 1 (ASSUMPTION, the kernel contract; exercised against the running kernel by checks/c14.py):
a small POSIX tree (directories, files, symlinks, fifos, sockets, character and block devices) and the syscalls tiny-std/src/fs.rs uses, as total functions with errno-classified
results.  Modelled domain: paths whose components are ordinary names (no `.`/`..`), no symlink is
traversed or followed, no fifo is opened; everything else yields the outcome `E.unmodelled`.

Part 2: byte-level mirrors of the tiny-std code AS WRITTEN (fs.rs, rusl dirent.rs): OpenOptions → flags,
fs::write, fs::read, File::copy / copy_file, create_dir_all + write_all_sub_paths, ReadDir::next +
Dirent::try_from_bytes, Directory::remove_all / remove_dir_all.  `…Old` are the mirrors of the code before the
two `fix:` commits (kept for the model-level defect witnesses).

Environment inputs (chosen by the kernel, not by the code): the short counts of `write` / `copy_file_range`
(`clamp`, one script entry per call) and the way a directory's records are split over successive `getdents64`
answers (`Dents`, one script entry per call; `kernelDents` is the split the running kernel is observed to choose).
-/
namespace TinyVerif.Fs

abbrev Bytes := List Nat
abbrev Name := List Nat

/-- node kinds beyond dir/file/symlink/fifo that can sit at a path: unix socket, character device, block device -/
inductive Special where
  | sock | chr | blk
  deriving DecidableEq, Repr

inductive Node where
  | dir (es : List (Name × Node))
  | file (b : Bytes)
  | symlink (t : Bytes)
  | fifo
  | special (s : Special)

/-- what an observer sees at one path (directories without their children) -/
inductive Kind where
  | dir | file (b : Bytes) | symlink (t : Bytes) | fifo | special (s : Special)
  deriving DecidableEq, Repr

def Node.kind : Node → Kind
  | .dir _ => .dir
  | .file b => .file b
  | .symlink t => .symlink t
  | .fifo => .fifo
  | .special s => .special s

abbrev ENOENT : Nat := 2
abbrev ENXIO : Nat := 6
abbrev EBADF : Nat := 9
abbrev EBUSY : Nat := 16
abbrev EEXIST : Nat := 17
abbrev ENOTDIR : Nat := 20
abbrev EISDIR : Nat := 21
abbrev EINVAL : Nat := 22
abbrev ENAMETOOLONG : Nat := 36
abbrev ENOTEMPTY : Nat := 39
abbrev ELOOP : Nat := 40

inductive E where
  | os (n : Nat)      -- errno
  | nocode            -- tiny-std error without an errno
  | panic             -- a Rust panic (only the unrepaired mirrors reach it)
  | unmodelled        -- outside the modelled domain (symlink traversal, `.`/`..`, fifo open, same-file copy)
  deriving DecidableEq, Repr

abbrev Out (α : Type) := Except E α

/-! ## directory entries -/

def assoc : List (Name × Node) → Name → Option Node
  | [], _ => none
  | (n, x) :: r, c => if n = c then some x else assoc r c

/-- replace every entry named `c` (append when there is none) -/
def put (es : List (Name × Node)) (c : Name) (x : Node) : List (Name × Node) :=
  match assoc es c with
  | some _ => es.map (fun e => if e.1 = c then (c, x) else e)
  | none => es ++ [(c, x)]

def del (es : List (Name × Node)) (c : Name) : List (Name × Node) :=
  es.filter (fun e => e.1 ≠ c)

/-- the node at a location (list of names from the root); symlinks are never followed -/
def getAt : Node → List Name → Option Node
  | n, [] => some n
  | .dir es, c :: r =>
    match assoc es c with
    | some x => getAt x r
    | none => none
  | .file _, _ :: _ => none
  | .symlink _, _ :: _ => none
  | .fifo, _ :: _ => none
  | .special _, _ :: _ => none

/-- set (`some`) or delete (`none`) the node at a location whose parent is a directory -/
def setAt : Node → List Name → Option Node → Node
  | n, [], o => (match o with | some x => x | none => n)
  | .dir es, c :: r, o =>
    match r with
    | [] => .dir (match o with | some x => put es c x | none => del es c)
    | _ :: _ =>
      match assoc es c with
      | some x => .dir (put es c (setAt x r o))
      | none => .dir es
  | .file b, _ :: _, _ => .file b
  | .symlink t, _ :: _, _ => .symlink t
  | .fifo, _ :: _, _ => .fifo
  | .special s, _ :: _, _ => .special s

def view (root : Node) (q : List Name) : Option Kind := (getAt root q).map Node.kind

/-! ## paths -/

structure FS where
  root : Node
  cwd : List Name

abbrev SLASH : Nat := 47
abbrev DOT : Nat := 46
abbrev PATH_MAX : Nat := 4096
abbrev NAME_MAX : Nat := 255

/-- split on '/', keeping empty pieces -/
def splitSlash : Bytes → List Name
  | [] => [[]]
  | b :: r =>
    if b = SLASH then [] :: splitSlash r
    else match splitSlash r with
      | [] => [[b]]
      | h :: t => (b :: h) :: t

def comps (p : Bytes) : List Name := (splitSlash p).filter (fun c => c ≠ [])

def isDots (c : Name) : Bool := c == [DOT] || c == [DOT, DOT]

/-- location (from the model root) and "has a trailing slash" -/
def parsePath (st : FS) (p : Bytes) : Out (List Name × Bool) :=
  if p = [] then .error (.os ENOENT)
  else if p.length ≥ PATH_MAX then .error (.os ENAMETOOLONG)
  else
    let cs := comps p
    if cs.any isDots then .error .unmodelled
    else
      let base := if p.head? = some SLASH then [] else st.cwd
      .ok (base ++ cs, p.getLast? = some SLASH && cs ≠ [])

inductive W where
  | found (n : Node)
  | missing            -- every component but the last resolved to a directory; the last one is absent
  | err (e : E)

def walk : Node → List Name → W
  | n, [] => .found n
  | .dir es, c :: r =>
    if c.length > NAME_MAX then .err (.os ENAMETOOLONG)
    else match assoc es c with
      | none => (match r with | [] => .missing | _ :: _ => .err (.os ENOENT))
      | some x => walk x r
  | .symlink _, _ :: _ => .err .unmodelled
  | .file _, _ :: _ => .err (.os ENOTDIR)
  | .fifo, _ :: _ => .err (.os ENOTDIR)
  | .special _, _ :: _ => .err (.os ENOTDIR)

/-! ## syscalls (the assumed kernel contract) -/

abbrev O_RDONLY : Nat := 0
abbrev O_WRONLY : Nat := 1
abbrev O_RDWR : Nat := 2
abbrev O_CREAT : Nat := 64
abbrev O_EXCL : Nat := 128
abbrev O_TRUNC : Nat := 512
abbrev O_APPEND : Nat := 1024
abbrev O_DIRECTORY : Nat := 65536
abbrev O_NOFOLLOW : Nat := 131072
abbrev O_CLOEXEC : Nat := 524288

def hasBit (flags bit : Nat) : Bool := flags / bit % 2 == 1

/-- mkdirat(AT_FDCWD, p, 0o755) -/
def mkdirat (st : FS) (p : Bytes) : FS × Out Unit :=
  match parsePath st p with
  | .error e => (st, .error e)
  | .ok (loc, tr) =>
    match walk st.root loc with
    | .found (.symlink _) => (st, .error (if tr then .unmodelled else .os EEXIST))
    | .found _ => (st, .error (.os EEXIST))
    | .missing => ({ st with root := setAt st.root loc (some (.dir [])) }, .ok ())
    | .err e => (st, .error e)

/-- newfstatat(AT_FDCWD, p) following symlinks: the kind found -/
def stat (st : FS) (p : Bytes) : Out Kind :=
  match parsePath st p with
  | .error e => .error e
  | .ok (loc, tr) =>
    match walk st.root loc with
    | .found (.symlink _) => .error .unmodelled
    | .found (.dir _) => .ok .dir
    | .found n => if tr then .error (.os ENOTDIR) else .ok n.kind
    | .missing => .error (.os ENOENT)
    | .err e => .error e

/-! ### `st_mode` and the `Metadata` predicates -/

abbrev S_IFMT : Nat := 0o170000
abbrev S_IFSOCK : Nat := 0o140000
abbrev S_IFLNK : Nat := 0o120000
abbrev S_IFREG : Nat := 0o100000
abbrev S_IFBLK : Nat := 0o060000
abbrev S_IFDIR : Nat := 0o040000
abbrev S_IFCHR : Nat := 0o020000
abbrev S_IFIFO : Nat := 0o010000

/-- the `st_mode` the kernel reports for a node: its file-type code (an ENUMERATION in the S_IFMT field, not a flag
set) or-ed with permission bits (0o755 for what `mkdir` creates, 0o644 otherwise — the model tracks no permissions) -/
def Kind.stMode : Kind → Nat
  | .dir => S_IFDIR ||| 0o755
  | .file _ => S_IFREG ||| 0o644
  | .symlink _ => S_IFLNK ||| 0o777
  | .fifo => S_IFIFO ||| 0o644
  | .special .sock => S_IFSOCK ||| 0o755
  | .special .chr => S_IFCHR ||| 0o644
  | .special .blk => S_IFBLK ||| 0o644

/-- `Metadata::is_dir`: `Mode::from(st_mode) & Mode::S_IFMT == Mode::S_IFDIR` -/
def metaIsDir (mode : Nat) : Bool := mode &&& S_IFMT == S_IFDIR
/-- `Metadata::is_file`: `Mode::from(st_mode) & Mode::S_IFMT == Mode::S_IFREG` -/
def metaIsFile (mode : Nat) : Bool := mode &&& S_IFMT == S_IFREG
/-- `Metadata::is_symlink`: `Mode::from(st_mode) & Mode::S_IFMT == Mode::S_IFLNK` -/
def metaIsSymlink (mode : Nat) : Bool := mode &&& S_IFMT == S_IFLNK

/-- an open file description: where it points, whether it is a directory, its flags and offset -/
structure Handle where
  loc : List Name
  isDir : Bool
  flags : Nat
  off : Nat

/-- openat(AT_FDCWD, p, flags, mode) for the flag subset tiny-std uses -/
def openat (st : FS) (p : Bytes) (flags : Nat) : FS × Out Handle :=
  match parsePath st p with
  | .error e => (st, .error e)
  | .ok (loc, tr) =>
    let creat := hasBit flags O_CREAT
    let excl := hasBit flags O_EXCL
    let acc := flags % 4
    match walk st.root loc with
    | .err e => (st, .error e)
    | .missing =>
      if creat then
        if tr then (st, .error (.os EISDIR))
        else ({ st with root := setAt st.root loc (some (.file [])) }, .ok ⟨loc, false, flags, 0⟩)
      else (st, .error (.os ENOENT))
    | .found (.symlink _) =>
      if creat && excl then (st, .error (.os EEXIST))
      else if hasBit flags O_NOFOLLOW then (st, .error (.os ELOOP))
      else (st, .error .unmodelled)
    | .found .fifo => (st, .error .unmodelled)
    | .found (.special .sock) =>          -- a socket cannot be opened: ENXIO, after the checks every non-directory gets
      if creat && excl then (st, .error (.os EEXIST))
      else if creat && tr then (st, .error (.os EISDIR))
      else if tr || hasBit flags O_DIRECTORY then (st, .error (.os ENOTDIR))
      else (st, .error (.os ENXIO))
    | .found (.special _) => (st, .error .unmodelled)     -- opening a device node: the driver's business
    | .found (.dir _) =>
      if creat && excl then (st, .error (.os EEXIST))
      else if creat || acc ≠ 0 || hasBit flags O_TRUNC then (st, .error (.os EISDIR))
      else (st, .ok ⟨loc, true, flags, 0⟩)
    | .found (.file _) =>
      if creat && excl then (st, .error (.os EEXIST))
      else if creat && tr then (st, .error (.os EISDIR))
      else if tr || hasBit flags O_DIRECTORY then (st, .error (.os ENOTDIR))
      else if hasBit flags O_TRUNC && acc ≠ 0 then
        ({ st with root := setAt st.root loc (some (.file [])) }, .ok ⟨loc, false, flags, 0⟩)
      else (st, .ok ⟨loc, false, flags, 0⟩)

/-- overwrite `chunk` into `b` at offset `off` (zero-filling a gap) -/
def writeAt (b : Bytes) (off : Nat) (chunk : Bytes) : Bytes :=
  b.take off ++ List.replicate (off - b.length) 0 ++ chunk ++ b.drop (off + chunk.length)

/-- a transfer of `want` bytes cut short by the environment's choice `k` (0 = no cut) -/
def clamp (k want : Nat) : Nat := if 0 < k ∧ k < want then k else want

/-- write(fd, data) with the environment's short-count choice `k`: (new state, new handle, bytes written) -/
def sysWrite (st : FS) (h : Handle) (data : Bytes) (k : Nat) : FS × Out (Handle × Nat) :=
  if h.isDir || h.flags % 4 = 0 then (st, .error (.os EBADF))
  else match getAt st.root h.loc with
    | some (.file b) =>
      let n := clamp k data.length
      let off := if hasBit h.flags O_APPEND then b.length else h.off
      ({ st with root := setAt st.root h.loc (some (.file (writeAt b off (data.take n)))) },
       .ok ({ h with off := off + n }, n))
    | _ => (st, .error (.os EBADF))

/-- fstat(fd).st_size of a regular file -/
def fstatSize (st : FS) (h : Handle) : Out Nat :=
  match getAt st.root h.loc with
  | some (.file b) => .ok b.length
  | _ => .error .unmodelled

/-- copy_file_range(src, off, dst, off, len, 0) with short-count choice `k` -/
def copyFileRange (st : FS) (src : Handle) (dst : Handle) (off len k : Nat) : FS × Out Nat :=
  if src.loc = dst.loc then (st, .error .unmodelled)
  else match getAt st.root src.loc, getAt st.root dst.loc with
    | some (.file s), some (.file d) =>
      let n := clamp k (min len (s.length - off))
      ({ st with root := setAt st.root dst.loc (some (.file (writeAt d off ((s.drop off).take n)))) }, .ok n)
    | _, _ => (st, .error .unmodelled)

/-- unlinkat(AT_FDCWD, p, flags) -/
def unlinkat (st : FS) (p : Bytes) (removedir : Bool) : FS × Out Unit :=
  match parsePath st p with
  | .error e => (st, .error e)
  | .ok (loc, tr) =>
    match walk st.root loc with
    | .err e => (st, .error e)
    | .missing => (st, .error (.os ENOENT))
    | .found (.dir es) =>
      if !removedir then (st, .error (.os EISDIR))
      else if loc = [] || loc = st.cwd then (st, .error (.os EBUSY))
      else if es ≠ [] then (st, .error (.os ENOTEMPTY))
      else ({ st with root := setAt st.root loc none }, .ok ())
    | .found (.symlink _) =>
      if tr then (st, .error .unmodelled)
      else if removedir then (st, .error (.os ENOTDIR))
      else ({ st with root := setAt st.root loc none }, .ok ())
    | .found _ =>
      if removedir || tr then (st, .error (.os ENOTDIR))
      else ({ st with root := setAt st.root loc none }, .ok ())

/-- unlinkat(dirfd, name, flags) relative to an open directory `d`, single-component name -/
def unlinkatN (d : Node) (name : Name) (removedir : Bool) : Node × Out Unit :=
  match d with
  | .dir es =>
    -- `.` / `..` as the last component: plain unlink answers EISDIR (rmdir would answer EINVAL / ENOTEMPTY: never asked)
    if isDots name then (d, .error (if removedir then .unmodelled else .os EISDIR))
    else match assoc es name with
    | none => (d, .error (.os ENOENT))
    | some (.dir ces) =>
      if !removedir then (d, .error (.os EISDIR))
      else if ces ≠ [] then (d, .error (.os ENOTEMPTY))
      else (.dir (del es name), .ok ())
    | some _ =>
      if removedir then (d, .error (.os ENOTDIR))
      else (.dir (del es name), .ok ())
  | _ => (d, .error (.os ENOTDIR))

/-! ### getdents64 -/

abbrev DT_FIFO : Nat := 1
abbrev DT_CHR : Nat := 2
abbrev DT_DIR : Nat := 4
abbrev DT_BLK : Nat := 6
abbrev DT_SOCK : Nat := 12
abbrev DT_REG : Nat := 8
abbrev DT_LNK : Nat := 10

structure Rec where
  ino : Nat
  off : Nat
  dtype : Nat
  name : Name
  deriving DecidableEq

def Node.dtype : Node → Nat
  | .dir _ => DT_DIR
  | .file _ => DT_REG
  | .symlink _ => DT_LNK
  | .fifo => DT_FIFO
  | .special .sock => DT_SOCK
  | .special .chr => DT_CHR
  | .special .blk => DT_BLK

/-- the entries a directory stream returns (order is the file system's; here: list order) -/
def dirRecs (es : List (Name × Node)) : List Rec :=
  ⟨0, 0, DT_DIR, [DOT]⟩ :: ⟨0, 0, DT_DIR, [DOT, DOT]⟩ :: es.map (fun e => ⟨0, 0, e.2.dtype, e.1⟩)

abbrev DT_UNKNOWN : Nat := 0

/-- WHAT `getdents64` puts into `d_type` is a property of the FILE SYSTEM the directory lives on (environment):
`exact = true` — the entry's type (ext4, tmpfs, btrfs, …); `exact = false` — DT_UNKNOWN for every entry, `.` and `..`
included (ext2/3/4 made without the `filetype` feature, XFS ftype=0, minix, NFSv3 without READDIRPLUS, many FUSE servers) -/
def dirRecsOn (exact : Bool) (es : List (Name × Node)) : List Rec :=
  if exact then dirRecs es else (dirRecs es).map (fun r => { r with dtype := DT_UNKNOWN })

/-- d_reclen = align8(offsetof(d_name) + strlen + 1) -/
def reclen (r : Rec) : Nat := (19 + r.name.length + 1 + 7) / 8 * 8

def le8 (n : Nat) : Bytes :=
  [n % 256, n / 256 % 256, n / 65536 % 256, n / 16777216 % 256, n / 4294967296 % 256,
   n / 1099511627776 % 256, n / 281474976710656 % 256, n / 72057594037927936 % 256]

/-- one `linux_dirent64` record -/
def encode (r : Rec) : Bytes :=
  le8 r.ino ++ (le8 r.off ++ ([reclen r % 256, reclen r / 256 % 256] ++ (r.dtype ::
    (r.name ++ List.replicate (reclen r - 19 - r.name.length) 0))))

/-- the bytes of a run of records as the kernel stores them back to back -/
def encodeAll (c : List Rec) : Bytes := c.flatMap encode

/-- ONE answer of `getdents64(fd, buf, size)`.  How many whole records a call returns is the kernel's choice (file
system, directory layout, a signal, …): the answers are an ENVIRONMENT INPUT of the iterator's model. -/
inductive Dents where
  | recs (chunk : List Rec)    -- these records stored at the start of the buffer, return value = their total length
  | eod                        -- return value 0: end of directory
  | err (e : Nat)              -- return value -e (EINTR, EIO, …); `ReadDir::next` does not retry any of them

/-- `getdents64` against the scripted stream: (script left, bytes stored | errno).  An exhausted script is the end of
the directory; a chunk that does not fit is answered EINVAL (the kernel's answer when not even one record fits). -/
def sysGetdents (answers : List Dents) (size : Nat) : List Dents × Out Bytes :=
  match answers with
  | [] => ([], .ok [])
  | .eod :: rest => (rest, .ok [])
  | .err e :: rest => (rest, .error (.os e))
  | .recs c :: rest =>
    if (encodeAll c).length ≤ size then (rest, .ok (encodeAll c)) else (rest, .error (.os EINVAL))

/-- the longest prefix of the stream whose records fit into `space` bytes, and what is left -/
def fillRecs : List Rec → Nat → List Rec × List Rec
  | [], _ => ([], [])
  | r :: rs, space =>
    if reclen r ≤ space then ((r :: (fillRecs rs (space - reclen r)).1), (fillRecs rs (space - reclen r)).2)
    else ([], r :: rs)

/-- how the kernel answers the successive `getdents64(fd, buf, size)` calls on a quiescent directory stream (observed
on ext4/tmpfs and compared on every run): as many whole records as fit, each time; then 0; EINVAL when the next record
does not fit at all.  One instance of the environment input. -/
def kernelDents (size : Nat) : Nat → List Rec → List Dents
  | _, [] => [.eod]
  | 0, _ :: _ => []
  | fuel + 1, r :: rs =>
    if reclen r ≤ size then
      .recs (fillRecs (r :: rs) size).1 :: kernelDents size fuel (fillRecs (r :: rs) size).2
    else [.err EINVAL]

/-! ## tiny-std mirrors -/

structure Opts where
  read : Bool
  write : Bool
  append : Bool
  truncate : Bool
  create : Bool
  createNew : Bool
  deriving DecidableEq, Repr

/-- `OpenOptions::get_access_mode` (none = `Err("Bad OpenOptions …")`) -/
def accessMode (o : Opts) : Option Nat :=
  match o.read, o.write, o.append with
  | true, false, false => some O_RDONLY
  | false, true, false => some O_WRONLY
  | true, true, false => some O_RDWR
  | false, _, true => some (O_WRONLY ||| O_APPEND)
  | true, _, true => some (O_RDWR ||| O_APPEND)
  | false, false, false => none

/-- `OpenOptions::get_creation_mode` -/
def creationMode (o : Opts) : Option Nat :=
  let bad :=
    match o.write, o.append with
    | true, false => false
    | false, false => o.truncate || o.create || o.createNew
    | _, true => o.truncate && !o.createNew
  if bad then none
  else some (match o.create, o.truncate, o.createNew with
    | false, false, false => 0
    | true, false, false => O_CREAT
    | false, true, false => O_TRUNC
    | true, true, false => O_CREAT ||| O_TRUNC
    | _, _, true => O_CREAT ||| O_EXCL)

/-- `File::open_with_options`: `O_CLOEXEC | access | creation | custom` -/
def openFlags (o : Opts) (custom : Nat) : Option Nat :=
  match accessMode o, creationMode o with
  | some a, some c => some (O_CLOEXEC ||| a ||| c ||| custom)
  | _, _ => none

def optsOpen (st : FS) (o : Opts) (p : Bytes) : FS × Out Handle :=
  match openFlags o 0 with
  | none => (st, .error .nocode)
  | some f => openat st p f

/-- `Write::write_all` over `File::write`; one environment choice per `write` call, an exhausted script means
the kernel takes everything (after which the buffer is empty and the loop ends) -/
def writeAll (st : FS) (h : Handle) (data : Bytes) : List Nat → FS × Out Unit
  | [] =>
    if data = [] then (st, .ok ())
    else match sysWrite st h data 0 with
      | (st', .ok _) => (st', .ok ())
      | (st', .error e) => (st', .error e)
  | k :: ks =>
    if data = [] then (st, .ok ())
    else match sysWrite st h data k with
      | (st', .ok (h', n)) =>
        if n = 0 then (st', .error .nocode)      -- WriteZero
        else writeAll st' h' (data.drop n) ks
      | (st', .error e) => (st', .error e)

def writeOpts : Opts := ⟨false, true, false, true, true, false⟩

/-- `fs::write` -/
def fsWrite (st : FS) (p : Bytes) (data : Bytes) (script : List Nat) : FS × Out Unit :=
  match optsOpen st writeOpts p with
  | (st1, .error e) => (st1, .error e)
  | (st1, .ok h) => writeAll st1 h data script

/-- `fs::read` = `File::open` + `read_to_end` (the latter's exactness is property C15): whole content -/
def fsRead (st : FS) (p : Bytes) : Out Bytes :=
  match optsOpen st ⟨true, false, false, false, false, false⟩ p with
  | (_, .error e) => .error e
  | (st1, .ok h) =>
    if h.isDir then .error (.os EISDIR)
    else match getAt st1.root h.loc with
      | some (.file b) => .ok b
      | _ => .error .unmodelled

/-- the `while remaining > 0` loop of `File::copy`; one environment choice per `copy_file_range` call -/
def copyLoop (st : FS) (src dst : Handle) (size : Nat) (offset : Nat) : List Nat → FS × Out Unit
  | [] =>
    if size - offset = 0 then (st, .ok ())
    else match copyFileRange st src dst offset (size - offset) 0 with
      | (st', .ok _) => (st', .ok ())
      | (st', .error e) => (st', .error e)
  | k :: ks =>
    if size - offset = 0 then (st, .ok ())
    else match copyFileRange st src dst offset (size - offset) k with
      | (st', .ok w) => if w = 0 then (st', .ok ()) else copyLoop st' src dst size (offset + w) ks
      | (st', .error e) => (st', .error e)

/-- `File::copy` on an open source; `trunc` = destination opened with `truncate(true)` (the repaired code) -/
def fileCopy (trunc : Bool) (st : FS) (src : Handle) (dst : Bytes) (script : List Nat) : FS × Out Unit :=
  match fstatSize st src with
  | .error e => (st, .error e)
  | .ok size =>
    match optsOpen st ⟨false, true, false, trunc, true, false⟩ dst with
    | (st1, .error e) => (st1, .error e)
    | (st1, .ok d) => copyLoop st1 src d size 0 script

/-- `fs::copy_file` -/
def copyFileG (trunc : Bool) (st : FS) (src dst : Bytes) (script : List Nat) : FS × Out Unit :=
  match optsOpen st ⟨true, false, false, false, false, false⟩ src with
  | (st0, .error e) => (st0, .error e)
  | (st0, .ok h) => if h.isDir then (st0, .error .unmodelled) else fileCopy trunc st0 h dst script

def copyFile := copyFileG true

/-- ORIGINAL `rusl::unistd::copy_file_range` put the offset VALUES into the registers where the kernel expects
`loff_t *`: offset 0 is a NULL pointer (use and advance the descriptors' own offsets, which here equal the intended
ones), any other offset is a bad address ⇒ EFAULT. -/
def copyLoopOld (st : FS) (src dst : Handle) (size : Nat) (offset : Nat) : List Nat → FS × Out Unit
  | [] =>
    if size - offset = 0 then (st, .ok ())
    else if offset ≠ 0 then (st, .error (.os 14))
    else match copyFileRange st src dst offset (size - offset) 0 with
      | (st', .ok _) => (st', .ok ())
      | (st', .error e) => (st', .error e)
  | k :: ks =>
    if size - offset = 0 then (st, .ok ())
    else if offset ≠ 0 then (st, .error (.os 14))
    else match copyFileRange st src dst offset (size - offset) k with
      | (st', .ok w) => if w = 0 then (st', .ok ()) else copyLoopOld st' src dst size (offset + w) ks
      | (st', .error e) => (st', .error e)

/-- ORIGINAL `copy_file`: destination opened without `truncate`, offsets passed by value -/
def copyFileOld (st : FS) (src dst : Bytes) (script : List Nat) : FS × Out Unit :=
  match optsOpen st ⟨true, false, false, false, false, false⟩ src with
  | (st0, .error e) => (st0, .error e)
  | (st0, .ok h) =>
    if h.isDir then (st0, .error .unmodelled)
    else match fstatSize st0 h with
      | .error e => (st0, .error e)
      | .ok size =>
        match optsOpen st0 ⟨false, true, false, false, true, false⟩ dst with
        | (st1, .error e) => (st1, .error e)
        | (st1, .ok d) => copyLoopOld st1 h d size 0 script

/-! ### metadata / exists -/

/-- `rusl::unistd::stat(path)` = `newfstatat(AT_FDCWD, path, AT_EMPTY_PATH)`: the flag is always passed, so the EMPTY
path does not fail with ENOENT but names the working directory itself.  (`write_all_sub_paths` calls the same function,
never with an empty path: there `stat` is used directly.) -/
def statE (st : FS) (p : Bytes) : Out Kind :=
  if p = [] then
    match getAt st.root st.cwd with
    | some n => .ok n.kind
    | none => .error (.os ENOENT)
  else stat st p

/-- `fs::metadata(path)` seen through `Metadata::{is_dir, is_file, is_symlink}` and, for a regular file, `len` -/
def fsMetadata (st : FS) (p : Bytes) : Out (Bool × Bool × Bool × Option Nat) :=
  match statE st p with
  | .error e => .error e
  | .ok k =>
    .ok (metaIsDir k.stMode, metaIsFile k.stMode, metaIsSymlink k.stMode,
         match k with | .file b => some b.length | _ => none)

/-- `fs::exists(path)`: ENOENT is `Ok(false)`, any other error is returned -/
def fsExists (st : FS) (p : Bytes) : Out Bool :=
  match statE st p with
  | .ok _ => .ok true
  | .error e => if e = .os ENOENT then .ok false else .error e

/-! ### create_dir_all -/

/-- repaired code's `mkdir_or_exists`: `Ok(None)` created, `Ok(Some(EEXIST))` something is there -/
def mkdirOrExists (st : FS) (p : Bytes) : FS × Out Bool :=
  match mkdirat st p with
  | (st', .ok ()) => (st', .ok false)
  | (st', .error e) => if e = .os EEXIST then (st', .ok true) else (st', .error e)

/-- the downward scan `while ind > 0`: result = (index to continue from, "last mkdir said EEXIST") -/
def scanDown (st : FS) (buf : Bytes) : Nat → FS × Out (Nat × Bool)
  | 0 => (st, .ok (0, false))
  | ind + 1 =>
    if (buf.drop (ind + 1)).head? = some SLASH then
      match mkdirOrExists st (buf.take (ind + 1)) with
      | (st', .ok ex) => (st', .ok (ind + 1, ex))
      | (st', .error e) => if e = .os ENOENT then scanDown st' buf ind else (st', .error e)
    else scanDown st buf ind

/-- the upward loop `for i in ind+1..len`: `done` = bytes before position `i`, `rest` = bytes from `i` on -/
def scanUp (st : FS) (done : Bytes) (ex : Bool) : Bytes → FS × Out Bool
  | [] => (st, .ok ex)
  | b :: rest =>
    if b = SLASH then
      match mkdirOrExists st done with
      | (st', .ok ex') => scanUp st' (done ++ [b]) ex' rest
      | (st', .error e) => (st', .error e)
    else scanUp st (done ++ [b]) ex rest

/-- repaired `write_all_sub_paths(buf, raw)` (`buf` = the path bytes without the NUL) -/
def writeAllSubPaths (st : FS) (buf : Bytes) : FS × Out Unit :=
  match scanDown st buf (buf.length - 1) with
  | (st1, .error e) => (st1, .error e)
  | (st1, .ok (ind, ex)) =>
    match scanUp st1 (buf.take (ind + 1)) ex (buf.drop (ind + 1)) with
    | (st2, .error e) => (st2, .error e)
    | (st2, .ok ex2) =>
      let last : FS × Out Bool :=
        if buf.getLast? = some SLASH then (st2, .ok ex2) else mkdirOrExists st2 buf
      match last with
      | (st3, .error e) => (st3, .error e)
      | (st3, .ok false) => (st3, .ok ())
      | (st3, .ok true) =>
        match stat st3 buf with
        | .error e => (st3, .error e)
        | .ok k => if metaIsDir k.stMode then (st3, .ok ()) else (st3, .error (.os EEXIST))

/-- `create_dir_all`: both arms of the 512-byte stack/heap split run the same walk over a copy of the path -/
def createDirAll (st : FS) (p : Bytes) : FS × Out Unit :=
  if p.length = 0 then (st, .error .nocode)
  else if p.length > 512 then writeAllSubPaths st p
  else writeAllSubPaths st p

/-- upward phase of the ORIGINAL code (after the first successful mkdir): any error, EEXIST included, is returned -/
def scanUpOld (st : FS) (done : Bytes) : Bytes → FS × Out Unit
  | [] => (st, .ok ())
  | b :: rest =>
    if b = SLASH then
      match mkdirat st done with
      | (st', .ok ()) => scanUpOld st' (done ++ [b]) rest
      | (st', .error e) => (st', .error e)
    else scanUpOld st (done ++ [b]) rest

/-- ORIGINAL `write_all_sub_paths`: EEXIST on a prefix returns Ok at once; no '/' found returns Ok -/
def writeAllSubPathsOld (st : FS) (buf : Bytes) : Nat → FS × Out Unit
  | 0 => (st, .ok ())
  | ind + 1 =>
    if (buf.drop (ind + 1)).head? = some SLASH then
      match mkdirat st (buf.take (ind + 1)) with
      | (st', .ok ()) =>
        match scanUpOld st' (buf.take (ind + 2)) (buf.drop (ind + 2)) with
        | (st2, .error e) => (st2, .error e)
        | (st2, .ok ()) =>
          if buf.getLast? = some SLASH then (st2, .ok ()) else mkdirat st2 buf
      | (st', .error (.os 2)) => writeAllSubPathsOld st' buf ind
      | (st', .error (.os 17)) => (st', .ok ())
      | (st', .error e) => (st', .error e)
    else writeAllSubPathsOld st buf ind

/-- ORIGINAL `create_dir_all`: the heap arm (`len > 512`) built its slice from a `Vec::with_capacity(len)` whose
length was never set, i.e. an EMPTY slice: `len - it` underflows at once (panic with overflow checks). -/
def createDirAllOld (st : FS) (p : Bytes) : FS × Out Unit :=
  if p.length = 0 then (st, .error .nocode)
  else if p.length > 512 then (st, .error .panic)
  else writeAllSubPathsOld st p (p.length - 1)

/-! ### ReadDir -/

structure Dirent where
  reclen : Nat
  dtype : Nat
  name : Name

inductive Parse where
  | none                -- `buf.get(0..HEADER_SIZE)?` failed
  | panic               -- index out of bounds (`name[ind]`, or the unchecked read of d_type)
  | some (d : Dirent)

/-- `Dirent::try_from_bytes` on `buf` (HEADER_SIZE = 18, d_type at 18, name from 19 up to the first NUL) -/
def tryFromBytes (buf : Bytes) : Parse :=
  if buf.length < 18 then .none
  else match buf.drop 16 with
    | lo :: hi :: ty :: rest =>
      let name := rest.takeWhile (fun b => b ≠ 0)
      if name.length > 256 then .panic else .some ⟨lo + 256 * hi, ty, name⟩
    | _ => .panic

structure ReadDir where
  answers : List Dents     -- environment: what the kernel answers to the `getdents64` calls still to come
  buf : Bytes              -- `filled_buf: [u8; 512]`
  offset : Nat
  readSize : Nat
  eod : Bool

def ReadDir.new (answers : List Dents) : ReadDir := ⟨answers, List.replicate 512 0, 0, 0, false⟩

inductive Item where
  | done
  | err (e : E)
  | panic
  | entry (dtype : Nat) (name : Name)

/-- the tail of `next`: `Dirent::try_from_bytes(&self.filled_buf[self.offset..])` and `offset += d_reclen` -/
def ReadDir.parse (s : ReadDir) : ReadDir × Item :=
  if s.offset > s.buf.length then (s, .panic)        -- slice start out of range
  else match tryFromBytes (s.buf.drop s.offset) with
    | .none => (s, .done)
    | .panic => (s, .panic)
    | .some de => ({ s with offset := s.offset + de.reclen }, .entry de.dtype de.name)

/-- `<ReadDir as Iterator>::next` -/
def ReadDir.next (s : ReadDir) : ReadDir × Item :=
  if s.readSize = s.offset then
    if s.eod then (s, .done)
    else match sysGetdents s.answers s.buf.length with
      | (rest, .ok bytes) =>
        if bytes.length = 0 then ({ s with answers := rest, eod := true }, .done)
        else ReadDir.parse { s with answers := rest, buf := bytes ++ s.buf.drop bytes.length,
                                    readSize := bytes.length, offset := 0 }
      | (rest, .error e) => ({ s with answers := rest, eod := true }, .err e)
  else s.parse

/-- the items of `n` successive `next` calls -/
def ReadDir.run : Nat → ReadDir → List Item
  | 0, _ => []
  | n + 1, s => s.next.2 :: ReadDir.run n s.next.1

/-- drain the iterator (fuel = an upper bound on the number of `next` calls) -/
def ReadDir.collect : Nat → ReadDir → Out (List (Nat × Name))
  | 0, _ => .error .unmodelled
  | fuel + 1, s =>
    match s.next with
    | (_, .done) => .ok []
    | (_, .err e) => .error e
    | (_, .panic) => .error .unmodelled
    | (s', .entry t n) =>
      match ReadDir.collect fuel s' with
      | .ok l => .ok ((t, n) :: l)
      | .error e => .error e

/-- everything the iterator yields for a directory stream answered the kernel's way (`kernelDents`) -/
def readDirAll (stream : List Rec) : Out (List (Nat × Name)) :=
  ReadDir.collect (stream.length + 1) (ReadDir.new (kernelDents 512 stream.length stream))

/-- `tiny_std::fs::FileType` -/
inductive FType where
  | fifo | chr | dir | blk | reg | lnk | sock | unknown
  deriving DecidableEq, Repr

/-- `DirEntry::file_type`: the match on `d_type`; everything else, DT_UNKNOWN included, is `FileType::Unknown` -/
def fileType (t : Nat) : FType :=
  if t = DT_FIFO then .fifo else if t = DT_CHR then .chr else if t = DT_DIR then .dir else if t = DT_BLK then .blk
  else if t = DT_REG then .reg else if t = DT_LNK then .lnk else if t = DT_SOCK then .sock else .unknown

/-- `DirEntry::is_relative_reference` -/
def isRelRef (name : Name) : Bool := name == [DOT] || name == [DOT, DOT]

/-! ### remove_dir_all -/

/-- the `for sub_dir in self.read()` body of `Directory::remove_all` over the yielded entries; `recur` is the
recursive `next.remove_all()` on the child opened with `openat(dirfd, name, O_RDONLY)`.  The directory stream
is a snapshot taken when the directory is opened (only entries already returned are removed meanwhile). -/
def removeEntries (recur : Node → Node × Out Unit) : List (Nat × Name) → Node → Node × Out Unit
  | [], d => (d, .ok ())
  | (t, name) :: ys, d =>
    if fileType t = .dir then                    -- `FileType::Directory == sub_dir.file_type()`
      if isRelRef name then removeEntries recur ys d
      else match d with
        | .dir es =>
          match assoc es name with
          | none => (d, .error (.os ENOENT))
          | some child =>
            match recur child with
            | (child', .error e) => (.dir (put es name child'), .error e)
            | (child', .ok ()) =>
              match unlinkatN (.dir (put es name child')) name true with
              | (d2, .ok ()) => removeEntries recur ys d2
              | (d2, .error e) => (d2, .error e)
        | _ => (d, .error (.os ENOTDIR))
    else match unlinkatN d name false with
      | (d2, .ok ()) => removeEntries recur ys d2
      | (d2, .error e) => (d2, .error e)

/-- `Directory::remove_all` on an open directory node (fuel = recursion depth available) of a file system that does
(`exact`) or does not fill in `d_type`.  On a DT_UNKNOWN mount no entry is `FileType::Directory`: every entry, `.`
first, goes to the plain `unlinkat`. -/
def removeAllN (exact : Bool) : Nat → Node → Node × Out Unit
  | 0, d => (d, .error .unmodelled)
  | fuel + 1, d =>
    match d with
    | .dir es =>
      match readDirAll (dirRecsOn exact es) with
      | .ok ys => removeEntries (removeAllN exact fuel) ys d
      | .error e => (d, .error e)
    | _ => (d, .error (.os ENOTDIR))     -- getdents on a non-directory

mutual
def depth : Node → Nat
  | .dir es => 1 + depthL es
  | .file _ => 0
  | .symlink _ => 0
  | .fifo => 0
  | .special _ => 0
def depthL : List (Name × Node) → Nat
  | [] => 0
  | (_, x) :: r => max (depth x) (depthL r)
end

/-- `fs::remove_dir_all`: `Directory::open(path)`, `remove_all`, `remove_dir(path)` -/
def removeDirAllOn (exact : Bool) (st : FS) (p : Bytes) : FS × Out Unit :=
  match openat st p (O_CLOEXEC ||| O_RDONLY) with
  | (st0, .error e) => (st0, .error e)
  | (st0, .ok h) =>
    match getAt st0.root h.loc with
    | none => (st0, .error .unmodelled)
    | some d =>
      match removeAllN exact (depth d + 1) d with
      | (d', .error e) => ({ st0 with root := setAt st0.root h.loc (some d') }, .error e)
      | (d', .ok ()) => unlinkat { st0 with root := setAt st0.root h.loc (some d') } p true

/-- on a file system that fills in `d_type` -/
def removeDirAll (st : FS) (p : Bytes) : FS × Out Unit := removeDirAllOn true st p

end TinyVerif.Fs
