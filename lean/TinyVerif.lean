-- Root of the `TinyVerif` library: models, proofs and property theorems.
import TinyVerif.Model.Time
