//! C13 probe (`start` build).  Reads builder-call sequences from stdin, one per line, runs each on the REAL `Command`
//! (see harness/c13/src/envseq.rs, shared with the std-hosted harness) and answers one line per request.
//! With `start` the default environment of a Command is Inherit: the child gets THIS process's envp, which the check
//! chooses when it launches the probe.
#![no_std]
#![no_main]
extern crate alloc;

use alloc::vec::Vec;
use rusl::platform::{STDIN, STDOUT};

#[path = "../../../harness/c13/src/envseq.rs"]
mod envseq;

fn read_all_stdin() -> Vec<u8> {
    let mut v = Vec::new();
    let mut buf = [0u8; 4096];
    loop {
        match rusl::unistd::read(STDIN, &mut buf) {
            Ok(0) => break,
            Ok(n) => v.extend_from_slice(&buf[..n]),
            Err(_) => break,
        }
    }
    v
}

fn flush(out: &mut Vec<u8>) {
    let mut off = 0;
    while off < out.len() {
        match rusl::unistd::write(STDOUT, &out[off..]) {
            Ok(n) => off += n,
            Err(_) => tiny_std::process::exit(3),
        }
    }
    out.clear();
}

#[no_mangle]
pub fn main() -> i32 {
    let input = read_all_stdin();
    let mut out = Vec::new();
    for line in input.split(|b| *b == b'\n') {
        let Ok(l) = core::str::from_utf8(line) else {
            out.extend_from_slice(b"bad-op\n");
            continue;
        };
        let l = l.trim();
        if l.is_empty() {
            continue;
        }
        envseq::run_line(l, &mut out);
        out.push(b'\n');
        // nothing buffered may be carried into a forked child
        flush(&mut out);
    }
    0
}
