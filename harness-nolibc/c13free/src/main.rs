//! C13 probe, no allocator: `process::spawn` (the no-alloc front end of do_spawn) with an explicitly passed
//! `Environment`.  Output: `<inherit>` + the child's /proc/self/environ + `<status N>` + `<none>` + the same +
//! `<status N>` + `<end>`; the child is `cat /proc/self/environ` writing to this process's own stdout.
#![no_std]
#![no_main]

use rusl::platform::STDOUT;
use tiny_std::process::{spawn, Environment};
use tiny_std::UnixStr;

const CAT: &UnixStr = UnixStr::from_str_checked("/bin/cat\0");
const ENVIRON: &UnixStr = UnixStr::from_str_checked("/proc/self/environ\0");

fn put(b: &[u8]) {
    let mut off = 0;
    while off < b.len() {
        match rusl::unistd::write(STDOUT, &b[off..]) {
            Ok(n) => off += n,
            Err(_) => tiny_std::process::exit(3),
        }
    }
}

fn one(tag: &[u8], env: &Environment) {
    put(tag);
    // "arg_v must be null terminated ... the last value is discarded"
    match spawn::<3, ()>(CAT, [CAT, ENVIRON, UnixStr::EMPTY], env, None, None, None, &mut [], None, None, None, None) {
        Ok(mut child) => match child.wait() {
            Ok(s) => {
                put(b"<status ");
                let d = [b'0' + ((s / 100) % 10) as u8, b'0' + ((s / 10) % 10) as u8, b'0' + (s % 10) as u8];
                put(&d);
                put(b">");
            }
            Err(_) => put(b"<waiterr>"),
        },
        Err(_) => put(b"<spawnerr>"),
    }
}

#[no_mangle]
pub fn main() -> i32 {
    one(b"<inherit>", &Environment::Inherit);
    one(b"<none>", &Environment::None);
    put(b"<end>");
    0
}
