//! C07 probe.  A no-libc executable started through tiny-std's real `_start` -> `__proxy_main` ->
//! `tiny_start::start::resolve` (-> `relocate_symbols` when linked static-pie).  It echoes what the
//! program observes, one record per line, byte strings in hex ("-" = empty):
//!
//!   sp <addr>                      initial stack pointer (mm->start_stack from /proc/self/stat)
//!   stack <hex>                    raw bytes from &argc to the end of the highest string (probe's own raw walk)
//!   argslen <n> <n>                args_os().len() args().len()
//!   args_os <hex>*                 what the ArgsOs iterator yields (terminator stripped)
//!   args <ok:hex|err>*             what the Args iterator yields
//!   var <keyhex> <missing|ok <hex>|notunicode>      tiny_std::env::var   (only for UTF-8 keys)
//!   varu <keyhex> <missing|ok <hex>>                tiny_std::env::var_unix
//!   aux <uid> <gid> <random hex|none> <execfn hex|none>
//!   procauxv <hex>                 /proc/self/auxv
//!   consts <name=value>*           the rusl constants the start code matches on
//!   clock <n> <mono_bad> <real_bad> <max_ns>   vDSO-path now() sandwiched between two clock_gettime syscalls
//!   phdr/dyn/rel/rela/relv ...     the executable's own program headers, dynamic section, relocation tables
//!                                  and the *current* words at the R_RELATIVE targets
//!   it <tag>=<answer>*            answers of one script of calls on ONE fresh iterator object (see `run_script`)
//! Requests come on stdin: `k <keyhex>`, `clock <n>`, `reloc`, `stack`, `it <os|args> <op>*`.
#![no_std]
#![no_main]
extern crate alloc;

use alloc::vec::Vec;
use rusl::platform::{STDIN, STDOUT};
use tiny_std::UnixStr;

struct Out(Vec<u8>);

impl Out {
    fn s(&mut self, s: &str) {
        self.0.extend_from_slice(s.as_bytes());
    }
    fn hex(&mut self, b: &[u8]) {
        if b.is_empty() {
            self.0.push(b'-');
            return;
        }
        const D: &[u8; 16] = b"0123456789abcdef";
        for x in b {
            self.0.push(D[(x >> 4) as usize]);
            self.0.push(D[(x & 15) as usize]);
        }
    }
    fn num(&mut self, mut n: u128) {
        let mut buf = [0u8; 40];
        let mut i = 40;
        loop {
            i -= 1;
            buf[i] = b'0' + (n % 10) as u8;
            n /= 10;
            if n == 0 {
                break;
            }
        }
        self.0.extend_from_slice(&buf[i..]);
    }
    fn nl(&mut self) {
        self.0.push(b'\n');
    }
    fn flush(&mut self) {
        let mut off = 0;
        while off < self.0.len() {
            match rusl::unistd::write(STDOUT, &self.0[off..]) {
                Ok(n) => off += n,
                Err(_) => tiny_std::process::exit(3),
            }
        }
        self.0.clear();
    }
}

fn read_all_stdin() -> Vec<u8> {
    let mut v = Vec::new();
    let mut buf = [0u8; 4096];
    loop {
        match rusl::unistd::read(STDIN, &mut buf) {
            Ok(0) => break,
            Ok(n) => v.extend_from_slice(&buf[..n]),
            Err(_) => break,
        }
    }
    v
}

fn unhex(s: &[u8]) -> Option<Vec<u8>> {
    if s == b"-" {
        return Some(Vec::new());
    }
    if s.len() % 2 != 0 {
        return None;
    }
    fn d(c: u8) -> Option<u8> {
        match c {
            b'0'..=b'9' => Some(c - b'0'),
            b'a'..=b'f' => Some(c - b'a' + 10),
            _ => None,
        }
    }
    let mut v = Vec::with_capacity(s.len() / 2);
    let mut i = 0;
    while i < s.len() {
        v.push(d(s[i])? * 16 + d(s[i + 1])?);
        i += 2;
    }
    Some(v)
}

fn parse_dec(s: &[u8]) -> Option<usize> {
    let mut n: usize = 0;
    if s.is_empty() {
        return None;
    }
    for c in s {
        if !c.is_ascii_digit() {
            return None;
        }
        n = n.checked_mul(10)?.checked_add((c - b'0') as usize)?;
    }
    Some(n)
}

unsafe fn rd(a: usize) -> usize {
    (a as *const usize).read_unaligned()
}

unsafe fn cstr_end(p: usize) -> usize {
    let mut q = p;
    while (q as *const u8).read() != 0 {
        q += 1;
    }
    q + 1
}

/// mm->start_stack: field 28 of /proc/self/stat = the stack pointer the kernel handed to the entry point
fn start_stack() -> Option<usize> {
    let st = tiny_std::fs::read(UnixStr::from_str_checked("/proc/self/stat\0")).ok()?;
    let close = st.iter().rposition(|c| *c == b')')?;
    let rest = &st[close + 2..];
    // rest starts at field 3
    let f = rest.split(|c| *c == b' ').nth(28 - 3)?;
    parse_dec(f)
}

struct Aux {
    base: usize,
    phdr: usize,
    phent: usize,
    phnum: usize,
}

/// the probe's own walk over the raw kernel image (independent of tiny-start's)
unsafe fn dump_stack(o: &mut Out, sp: usize) -> Aux {
    let argc = rd(sp);
    let mut end = sp + 8;
    let mut p = sp + 8;
    for _ in 0..argc {
        let s = rd(p);
        if s != 0 {
            end = end.max(cstr_end(s));
        }
        p += 8;
    }
    p += 8; // NULL after argv
    while rd(p) != 0 {
        end = end.max(cstr_end(rd(p)));
        p += 8;
    }
    p += 8; // NULL after envp
    let mut aux = Aux { base: 0, phdr: 0, phent: 0, phnum: 0 };
    loop {
        let k = rd(p);
        let v = rd(p + 8);
        p += 16;
        end = end.max(p);
        match k {
            0 => break,
            3 => aux.phdr = v,
            4 => aux.phent = v,
            5 => aux.phnum = v,
            7 => aux.base = v,
            25 => end = end.max(v + 16),
            15 | 31 | 24 => {
                if v != 0 {
                    end = end.max(cstr_end(v));
                }
            }
            _ => {}
        }
    }
    o.s("stack ");
    o.hex(core::slice::from_raw_parts(sp as *const u8, end - sp));
    o.nl();
    aux
}

unsafe fn dump_reloc(o: &mut Out, aux: &Aux) {
    // program headers as the kernel reported them
    o.s("phdr ");
    o.num(aux.phdr as u128);
    o.s(" ");
    o.num(aux.phent as u128);
    o.s(" ");
    o.num(aux.phnum as u128);
    o.s(" ");
    o.hex(core::slice::from_raw_parts(aux.phdr as *const u8, aux.phent * aux.phnum));
    o.nl();
    if aux.base != 0 {
        // started through ld.so, which relocated the image and rewrote .dynamic's pointers in place
        o.s("dyn interp");
        o.nl();
        return;
    }
    // load bias from PT_PHDR (the standard way, independent of tiny-start's `dynv - p_vaddr`)
    let mut bias: Option<usize> = None;
    let mut dynv: Option<(usize, usize)> = None; // (index, p_vaddr)
    for i in 0..aux.phnum {
        let ph = aux.phdr + i * aux.phent;
        let p_type = (ph as *const u32).read_unaligned();
        let p_vaddr = rd(ph + 16);
        if p_type == 6 {
            bias = Some(aux.phdr.wrapping_sub(p_vaddr));
        }
        if p_type == 2 && dynv.is_none() {
            dynv = Some((i, p_vaddr));
        }
    }
    let (Some(bias), Some((dyn_idx, dyn_vaddr))) = (bias, dynv) else {
        o.s("dyn none");
        o.nl();
        return;
    };
    let dynv = bias.wrapping_add(dyn_vaddr);
    let mut n = 0;
    let (mut rel, mut relsz, mut rela, mut relasz) = (0usize, 0usize, 0usize, 0usize);
    loop {
        let k = rd(dynv + 16 * n);
        let v = rd(dynv + 16 * n + 8);
        n += 1;
        match k {
            0 => break,
            7 => rela = v,
            8 => relasz = v,
            17 => rel = v,
            18 => relsz = v,
            _ => {}
        }
    }
    o.s("dyn ");
    o.num(dynv as u128);
    o.s(" ");
    o.num(bias as u128);
    o.s(" ");
    o.num(dyn_idx as u128);
    o.s(" ");
    o.hex(core::slice::from_raw_parts(dynv as *const u8, 16 * n));
    o.nl();
    o.s("rel ");
    o.num((bias + rel) as u128);
    o.s(" ");
    o.hex(core::slice::from_raw_parts((bias + rel) as *const u8, relsz));
    o.nl();
    o.s("rela ");
    o.num((bias + rela) as u128);
    o.s(" ");
    o.hex(core::slice::from_raw_parts((bias + rela) as *const u8, relasz));
    o.nl();
    // current words at the R_X86_64_RELATIVE (type 8) targets, REL entries first, then RELA
    o.s("relv");
    for i in 0..relsz / 16 {
        let e = bias + rel + 16 * i;
        if rd(e + 8) == 8 {
            o.s(" ");
            o.num(rd(bias + rd(e)) as u128);
        }
    }
    for i in 0..relasz / 24 {
        let e = bias + rela + 24 * i;
        if rd(e + 8) == 8 {
            o.s(" ");
            o.num(rd(bias + rd(e)) as u128);
        }
    }
    o.nl();
}

fn ts_ns(t: &rusl::platform::TimeSpec) -> i128 {
    t.seconds() as i128 * 1_000_000_000 + t.nanoseconds() as i128
}

fn clock(o: &mut Out, n: usize) {
    let mut mono_bad = 0u128;
    let mut real_bad = 0u128;
    let mut max_ns: i128 = 0;
    let mut last: i128 = i128::MIN;
    for _ in 0..n {
        let a = ts_ns(&rusl::time::clock_get_monotonic_time());
        let v = ts_ns(tiny_std::time::MonotonicInstant::now().as_instant().as_ref());
        let b = ts_ns(&rusl::time::clock_get_monotonic_time());
        if !(a <= v && v <= b) || v < last {
            mono_bad += 1;
        }
        last = v;
        max_ns = max_ns.max(b - a);
        let a = ts_ns(&rusl::time::clock_get_real_time());
        let v = tiny_std::time::SystemTime::now().duration_since_unix_time().as_nanos() as i128;
        let b = ts_ns(&rusl::time::clock_get_real_time());
        if !(a <= v && v <= b) {
            real_bad += 1;
        }
        max_ns = max_ns.max(b - a);
    }
    o.s("clock ");
    o.num(n as u128);
    o.s(" ");
    o.num(mono_bad);
    o.s(" ");
    o.num(real_bad);
    o.s(" ");
    o.num(max_ns as u128);
    o.nl();
}

/// more items than any argument vector this mode is run with: an adapter that yields this many never ends
const ITEM_CAP: usize = 64;

fn show_os(o: &mut Out, x: &'static UnixStr) {
    let sl = x.as_slice();
    o.hex(&sl[..sl.len() - 1]);
}

fn show_arg(o: &mut Out, x: Result<&'static str, tiny_std::Error>) {
    match x {
        Ok(s) => {
            o.s("ok:");
            o.hex(s.as_bytes());
        }
        Err(_) => o.s("err"),
    }
}

fn show_opt<T>(o: &mut Out, x: Option<T>, show: fn(&mut Out, T)) {
    match x {
        Some(v) => {
            o.s("S:");
            show(o, v);
        }
        None => o.s("None"),
    }
}

fn show_list<T>(o: &mut Out, v: Vec<T>, show: fn(&mut Out, T)) {
    o.s("[");
    let mut first = true;
    for x in v {
        if !first {
            o.s(",");
        }
        first = false;
        show(o, x);
    }
    o.s("]");
}

/// A script of calls on ONE iterator object, every call through the method a program would use (so that an
/// override of `nth`, `count`, `last`, `fold`, `size_hint`, `len` in the library is the code that runs):
///   n        it.next()                          l   it.len()            (ExactSizeIterator)
///   N:<k>    it.nth(k)                          h   it.size_hint()
///   s:<k>    it.by_ref().skip(k).next()         c   it.count()          (by value: last op of a script)
///   t:<k>    it.by_ref().step_by(k) polled      L   it.last()           (by value)
///            until None (k > 0)                 f   it.fold(..) collecting every item (by value)
fn run_script<'a, I: ExactSizeIterator>(
    o: &mut Out,
    mut it: I,
    toks: &mut dyn Iterator<Item = &'a [u8]>,
    show: fn(&mut Out, I::Item),
) {
    while let Some(t) = toks.next() {
        o.s(" ");
        let (op, arg) = match t.iter().position(|c| *c == b':') {
            Some(i) => (&t[..i], parse_dec(&t[i + 1..])),
            None => (t, None),
        };
        match (op, arg) {
            (b"n", None) => {
                o.s("n=");
                show_opt(o, it.next(), show);
            }
            (b"N", Some(k)) => {
                o.s("N=");
                show_opt(o, it.nth(k), show);
            }
            (b"s", Some(k)) => {
                o.s("s=");
                show_opt(o, it.by_ref().skip(k).next(), show);
            }
            (b"t", Some(k)) if k > 0 => {
                o.s("t=");
                let mut v = Vec::new();
                let mut st = it.by_ref().step_by(k);
                loop {
                    match st.next() {
                        Some(x) => v.push(x),
                        None => break,
                    }
                    if v.len() > ITEM_CAP {
                        o.s("overrun");
                        show_list(o, v, show);
                        return;
                    }
                }
                show_list(o, v, show);
            }
            (b"l", None) => {
                o.s("l=");
                o.num(it.len() as u128);
            }
            (b"h", None) => {
                let (lo, hi) = it.size_hint();
                o.s("h=");
                o.num(lo as u128);
                o.s(",");
                match hi {
                    Some(h) => o.num(h as u128),
                    None => o.s("none"),
                }
            }
            (b"c", None) => {
                o.s("c=");
                o.num(it.count() as u128);
                if toks.next().is_some() {
                    o.s(" bad-op");
                }
                return;
            }
            (b"L", None) => {
                o.s("L=");
                show_opt(o, it.last(), show);
                if toks.next().is_some() {
                    o.s(" bad-op");
                }
                return;
            }
            (b"f", None) => {
                o.s("f=");
                let v = it.fold(Vec::new(), |mut v, x| {
                    if v.len() <= ITEM_CAP {
                        v.push(x);
                    }
                    v
                });
                if v.len() > ITEM_CAP {
                    o.s("overrun");
                }
                show_list(o, v, show);
                if toks.next().is_some() {
                    o.s(" bad-op");
                }
                return;
            }
            _ => {
                o.s("bad-op");
                return;
            }
        }
    }
}

#[no_mangle]
pub fn main() -> i32 {
    let input = read_all_stdin();
    let mut o = Out(Vec::new());
    let sp = start_stack();
    match sp {
        Some(sp) => {
            o.s("sp ");
            o.num(sp as u128);
        }
        None => o.s("sp none"),
    }
    o.nl();

    let a = tiny_std::env::args_os();
    let b = tiny_std::env::args();
    o.s("argslen ");
    o.num(a.len() as u128);
    o.s(" ");
    o.num(b.len() as u128);
    o.nl();
    o.s("args_os");
    for x in a {
        o.s(" ");
        let sl = x.as_slice();
        o.hex(&sl[..sl.len() - 1]);
    }
    o.nl();
    o.s("args");
    for x in b {
        match x {
            Ok(s) => {
                o.s(" ok:");
                o.hex(s.as_bytes());
            }
            Err(_) => o.s(" err"),
        }
    }
    o.nl();

    #[cfg(feature = "full")]
    {
    o.s("aux ");
    o.num(tiny_std::elf::aux::get_uid() as u128);
    o.s(" ");
    o.num(tiny_std::elf::aux::get_gid() as u128);
    o.s(" ");
    match tiny_std::elf::aux::get_random() {
        Some(r) => o.hex(&r.to_ne_bytes()),
        None => o.s("none"),
    }
    o.s(" ");
    match tiny_std::elf::aux::get_exec_fn() {
        Some(f) => {
            let sl = f.as_slice();
            o.hex(&sl[..sl.len() - 1]);
        }
        None => o.s("none"),
    }
    o.nl();
    }
    #[cfg(not(feature = "full"))]
    {
        o.s("aux na na na na");
        o.nl();
    }
    o.s("procauxv ");
    match tiny_std::fs::read(UnixStr::from_str_checked("/proc/self/auxv\0")) {
        Ok(v) => o.hex(&v),
        Err(_) => o.s("none"),
    }
    o.nl();
    o.s("consts");
    for (n, v) in [
        ("AT_PHDR", rusl::platform::AT_PHDR),
        ("AT_PHENT", rusl::platform::AT_PHENT),
        ("AT_PHNUM", rusl::platform::AT_PHNUM),
        ("AT_BASE", rusl::platform::AT_BASE),
        ("AT_UID", rusl::platform::AT_UID),
        ("AT_GID", rusl::platform::AT_GID),
        ("AT_SECURE", rusl::platform::AT_SECURE),
        ("AT_RANDOM", rusl::platform::AT_RANDOM),
        ("AT_EXECFN", rusl::platform::AT_EXECFN),
        ("AT_SYSINFO_EHDR", rusl::platform::AT_SYSINFO_EHDR),
        ("PT_DYNAMIC", rusl::platform::PT_DYNAMIC),
        ("DT_RELA", rusl::platform::DT_RELA),
        ("DT_RELASZ", rusl::platform::DT_RELASZ),
        ("DT_REL", rusl::platform::DT_REL),
        ("DT_RELSZ", rusl::platform::DT_RELSZ),
        ("REL_RELATIVE", rusl::platform::REL_RELATIVE as i32),
        ("SZ_REL", core::mem::size_of::<rusl::platform::Elf64Rel>() as i32),
        ("SZ_RELA", core::mem::size_of::<rusl::platform::Elf64Rela>() as i32),
        ("SZ_PHDR", core::mem::size_of::<rusl::platform::ElfPhdr>() as i32),
    ] {
        o.s(" ");
        o.s(n);
        o.s("=");
        o.num(v as u128);
    }
    o.nl();
    o.flush();

    let mut aux: Option<Aux> = None;
    for line in input.split(|c| *c == b'\n') {
        let mut w = line.split(|c| *c == b' ').filter(|x| !x.is_empty());
        let Some(op) = w.next() else { continue };
        match op {
            b"stack" => {
                if let Some(sp) = sp {
                    aux = Some(unsafe { dump_stack(&mut o, sp) });
                } else {
                    o.s("stack none");
                    o.nl();
                }
            }
            b"k" => {
                let Some(key) = w.next().and_then(unhex) else {
                    o.s("bad-op");
                    o.nl();
                    continue;
                };
                if let Ok(ks) = core::str::from_utf8(&key) {
                    o.s("var ");
                    o.hex(&key);
                    match tiny_std::env::var(ks) {
                        Ok(v) => {
                            o.s(" ok ");
                            o.hex(v.as_bytes());
                        }
                        Err(tiny_std::env::VarError::Missing) => o.s(" missing"),
                        Err(tiny_std::env::VarError::NotUnicode(_)) => o.s(" notunicode"),
                    }
                    o.nl();
                }
                let mut kz = key.clone();
                kz.push(0);
                if let Ok(ku) = UnixStr::try_from_bytes(&kz) {
                    o.s("varu ");
                    o.hex(&key);
                    match tiny_std::env::var_unix(ku) {
                        Ok(v) => {
                            o.s(" ok ");
                            let sl = v.as_slice();
                            o.hex(&sl[..sl.len() - 1]);
                        }
                        Err(_) => o.s(" missing"),
                    }
                    o.nl();
                }
            }
            b"it" => {
                o.s("it");
                match w.next() {
                    Some(b"os") => run_script(&mut o, tiny_std::env::args_os(), &mut w, show_os),
                    Some(b"args") => run_script(&mut o, tiny_std::env::args(), &mut w, show_arg),
                    _ => o.s(" bad-op"),
                }
                o.nl();
            }
            b"clock" => {
                let n = w.next().and_then(parse_dec).unwrap_or(100);
                clock(&mut o, n);
            }
            b"reloc" => {
                if aux.is_none() {
                    if let Some(sp) = sp {
                        let mut scratch = Out(Vec::new());
                        aux = Some(unsafe { dump_stack(&mut scratch, sp) });
                    }
                }
                if let Some(a) = &aux {
                    unsafe { dump_reloc(&mut o, a) };
                } else {
                    o.s("dyn none");
                    o.nl();
                }
            }
            _ => {
                o.s("bad-op");
                o.nl();
            }
        }
        o.flush();
    }
    o.s("end");
    o.nl();
    o.flush();
    0
}

/// rustc 1.95 turns `rusl::string::strlen` into a call to the C symbol `strlen` in optimised builds,
/// which a no-libc link cannot resolve (observation, DESIGN §4 #22).  The release-profile probe
/// supplies the symbol itself (volatile reads, so the loop is not turned back into a `strlen` call).
#[cfg(not(debug_assertions))]
#[no_mangle]
pub unsafe extern "C" fn strlen(s: *const u8) -> usize {
    let mut i = 0;
    while core::ptr::read_volatile(s.add(i)) != 0 {
        i += 1;
    }
    i
}
