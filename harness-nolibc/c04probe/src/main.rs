//! C04 probe.  Script on stdin:
//!   b <size> <align>        one block of the workload (in allocation order; at most 256)
//!   order <0 lifo|1 fifo|2 every-other>
//!   rounds <n>
//!   threads <t>             (feature `threaded`): each round is run by t threads concurrently
//!   reps <k>                every thread runs the workload k times per round (contention on the global allocator)
//!   foreign <bytes>         before every round the probe itself maps <bytes> (kept for good, touched): a
//!                           long-lived foreign mapping between the allocator's mappings, so that new segments
//!                           are not adjacent to old ones; these bytes are subtracted from the reported VmSize
//!   go
//! Output: `r <round> <VmSize pages> <bad>` per round (`bad` = number of blocks whose bytes were found
//! altered / not zeroed / misaligned), then `done`.
#![no_std]
#![no_main]
#![allow(static_mut_refs)]
extern crate alloc;
extern crate tiny_std;

use core::alloc::Layout;

#[inline(always)]
unsafe fn sys4(nr: usize, a: usize, b: usize, c: usize, d: usize) -> isize {
    let ret: isize;
    core::arch::asm!("syscall", inlateout("rax") nr as isize => ret, in("rdi") a, in("rsi") b, in("rdx") c,
        in("r10") d, lateout("rcx") _, lateout("r11") _, options(nostack));
    ret
}
const SYS_READ: usize = 0;
const SYS_WRITE: usize = 1;
const SYS_OPEN: usize = 2;
const SYS_CLOSE: usize = 3;
const SYS_MMAP: usize = 9;
const SYS_EXIT_GROUP: usize = 231;

#[inline(always)]
unsafe fn sys6(nr: usize, a: usize, b: usize, c: usize, d: usize, e: usize, f: usize) -> isize {
    let ret: isize;
    core::arch::asm!("syscall", inlateout("rax") nr as isize => ret, in("rdi") a, in("rsi") b, in("rdx") c,
        in("r10") d, in("r8") e, in("r9") f, lateout("rcx") _, lateout("r11") _, options(nostack));
    ret
}

static mut OUT: [u8; 1 << 16] = [0; 1 << 16];
static mut OUT_LEN: usize = 0;

unsafe fn flush() {
    let mut off = 0;
    while off < OUT_LEN {
        let n = sys4(SYS_WRITE, 1, OUT.as_ptr().add(off) as usize, OUT_LEN - off, 0);
        if n <= 0 {
            break;
        }
        off += n as usize;
    }
    OUT_LEN = 0;
}

fn s(x: &str) {
    unsafe {
        for b in x.as_bytes() {
            if OUT_LEN == OUT.len() {
                flush();
            }
            OUT[OUT_LEN] = *b;
            OUT_LEN += 1;
        }
    }
}

fn num(mut n: u64) {
    let mut buf = [0u8; 24];
    let mut i = 24;
    loop {
        i -= 1;
        buf[i] = b'0' + (n % 10) as u8;
        n /= 10;
        if n == 0 {
            break;
        }
    }
    s(" ");
    s(core::str::from_utf8(&buf[i..]).unwrap_or("?"));
}

fn die(code: usize) -> ! {
    unsafe {
        flush();
        sys4(SYS_EXIT_GROUP, code, 0, 0, 0);
    }
    loop {}
}

static mut FILEBUF: [u8; 4096] = [0; 4096];

fn vmsize_pages() -> u64 {
    unsafe {
        let fd = sys4(SYS_OPEN, b"/proc/self/statm\0".as_ptr() as usize, 0, 0, 0);
        if fd < 0 {
            return 0;
        }
        let n = sys4(SYS_READ, fd as usize, FILEBUF.as_mut_ptr() as usize, FILEBUF.len(), 0);
        sys4(SYS_CLOSE, fd as usize, 0, 0, 0);
        let mut v = 0u64;
        for i in 0..(if n > 0 { n as usize } else { 0 }) {
            let c = FILEBUF[i];
            if !c.is_ascii_digit() {
                break;
            }
            v = v * 10 + (c - b'0') as u64;
        }
        v
    }
}

fn parse_usize(b: &[u8]) -> Option<usize> {
    if b.is_empty() || b.len() > 19 {
        return None;
    }
    let mut n = 0usize;
    for c in b {
        if !c.is_ascii_digit() {
            return None;
        }
        n = n * 10 + (*c - b'0') as usize;
    }
    Some(n)
}

const MAXB: usize = 256;
#[derive(Clone, Copy)]
struct Blk {
    size: usize,
    align: usize,
}

#[inline]
fn pat(seed: usize, i: usize) -> u8 {
    ((seed.wrapping_mul(31).wrapping_add(i.wrapping_mul(131))) >> 3) as u8 | 1
}

/// one round of the workload through the global allocator; returns the number of blocks found damaged
fn round(blocks: &[Blk], order: usize, seed: usize) -> usize {
    let mut ptrs = [core::ptr::null_mut::<u8>(); MAXB];
    let mut sizes = [0usize; MAXB];
    let mut bad = 0;
    let n = blocks.len();
    for (k, b) in blocks.iter().enumerate() {
        let l = match Layout::from_size_align(b.size, b.align) {
            Ok(l) => l,
            Err(_) => die(4),
        };
        let p = unsafe {
            if k % 7 == 3 {
                alloc::alloc::alloc_zeroed(l)
            } else {
                alloc::alloc::alloc(l)
            }
        };
        if p.is_null() {
            s("oom\n");
            die(5);
        }
        if p as usize % b.align != 0 {
            bad += 1;
        }
        unsafe {
            if k % 7 == 3 {
                let mut i = 0;
                while i < b.size {
                    if *p.add(i) != 0 {
                        bad += 1;
                        break;
                    }
                    i += 1 + b.size / 64;
                }
            }
            let mut i = 0;
            while i < b.size {
                *p.add(i) = pat(seed + k, i);
                i += 1 + b.size / 4096;
            }
            *p.add(b.size - 1) = pat(seed + k, b.size - 1);
        }
        ptrs[k] = p;
        sizes[k] = b.size;
        // every fifth block is reallocated (grown by half) right away
        if k % 5 == 2 {
            let ns = b.size + b.size / 2 + 1;
            let q = unsafe { alloc::alloc::realloc(p, l, ns) };
            if q.is_null() {
                s("oom\n");
                die(5);
            }
            unsafe {
                if *q != pat(seed + k, 0) || *q.add(b.size - 1) != pat(seed + k, b.size - 1) {
                    bad += 1;
                }
                *q.add(ns - 1) = 0x5a;
            }
            ptrs[k] = q;
            sizes[k] = ns;
        }
    }
    // verify, then free in the requested order
    for k in 0..n {
        unsafe {
            if *ptrs[k] != pat(seed + k, 0) {
                bad += 1;
            }
        }
    }
    let free = |k: usize| unsafe {
        alloc::alloc::dealloc(ptrs[k], Layout::from_size_align_unchecked(sizes[k], blocks[k].align));
    };
    match order {
        0 => (0..n).rev().for_each(free),
        1 => (0..n).for_each(free),
        _ => {
            (0..n).step_by(2).for_each(free);
            (1..n).step_by(2).for_each(free);
        }
    }
    bad
}

static mut BLOCKS: [Blk; MAXB] = [Blk { size: 1, align: 1 }; MAXB];

#[no_mangle]
pub fn main() -> i32 {
    static mut SCRIPT: [u8; 1 << 15] = [0; 1 << 15];
    let script: &[u8] = unsafe {
        let mut len = 0;
        loop {
            let n = sys4(SYS_READ, 0, SCRIPT.as_mut_ptr().add(len) as usize, SCRIPT.len() - len, 0);
            if n <= 0 {
                break;
            }
            len += n as usize;
        }
        &SCRIPT[..len]
    };
    let mut nb = 0usize;
    let mut order = 0usize;
    let mut rounds = 1usize;
    let mut threads = 1usize;
    let mut reps = 1usize;
    let mut foreign = 0usize;
    let mut foreign_pages = 0u64;
    for line in script.split(|c| *c == b'\n') {
        let mut w = line.split(|c| *c == b' ').filter(|x| !x.is_empty());
        match w.next() {
            None => continue,
            Some(b"b") => {
                let (a, b) = (w.next().and_then(parse_usize), w.next().and_then(parse_usize));
                match (a, b) {
                    (Some(size), Some(align)) if nb < MAXB && size > 0 && align.is_power_of_two() => unsafe {
                        BLOCKS[nb] = Blk { size, align };
                        nb += 1;
                    },
                    _ => {
                        s("bad-script\n");
                        die(2)
                    }
                }
            }
            Some(b"order") => order = w.next().and_then(parse_usize).unwrap_or(0),
            Some(b"rounds") => rounds = w.next().and_then(parse_usize).unwrap_or(1),
            Some(b"threads") => threads = w.next().and_then(parse_usize).unwrap_or(1),
            Some(b"reps") => reps = w.next().and_then(parse_usize).unwrap_or(1).max(1),
            Some(b"foreign") => foreign = w.next().and_then(parse_usize).unwrap_or(0),
            Some(b"go") => {
                let blocks: &'static [Blk] = unsafe { &BLOCKS[..nb] };
                for r in 1..=rounds {
                    if foreign != 0 {
                        let len = (foreign + 4095) & !4095;
                        let p = unsafe { sys6(SYS_MMAP, 0, len, 3, 0x22, usize::MAX, 0) };
                        if p < 0 && p > -4096 {
                            s("foreign-mmap-failed\n");
                            die(7);
                        }
                        unsafe { *(p as usize as *mut u8) = 1 };
                        foreign_pages += (len / 4096) as u64;
                    }
                    let bad;
                    #[cfg(feature = "threaded")]
                    {
                        let mut hs = alloc::vec::Vec::new();
                        for t in 0..threads {
                            match tiny_std::thread::spawn(move || {
                                let mut b = 0;
                                for i in 0..reps {
                                    b += round(blocks, order, r * 1000 + t * 17 + i);
                                }
                                b
                            }) {
                                Ok(h) => hs.push(h),
                                Err(_) => {
                                    s("spawn-failed\n");
                                    die(6)
                                }
                            }
                        }
                        let mut b = 0;
                        for h in hs {
                            b += h.join().unwrap_or(1_000_000);
                        }
                        bad = b;
                    }
                    #[cfg(not(feature = "threaded"))]
                    {
                        let _ = threads;
                        let mut b = 0;
                        for i in 0..reps {
                            b += round(blocks, order, r * 1000 + i);
                        }
                        bad = b;
                    }
                    s("r");
                    num(r as u64);
                    num(vmsize_pages().saturating_sub(foreign_pages));
                    num(bad as u64);
                    s("\n");
                }
            }
            Some(_) => {
                s("bad-script\n");
                die(2)
            }
        }
    }
    s("done\n");
    unsafe { flush() };
    0
}
