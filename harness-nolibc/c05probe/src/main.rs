//! C05/C06 probe.  A no-libc executable (tiny-std `_start`, its panic handler, its threads) that runs
//! scenario scripts against the real `tiny_std::thread::spawn` / `JoinHandle::join` / `Drop`.
//!
//! Script (stdin), one batch = the threads that are live together:
//!   t <id> <ret|panic|panic_e|panic_o|panic_d|panic_m|deep|deep_panic> <d_us> <class> <join|drop|dropnow> <d2_us>      (id < 64, class 0..14)
//! `deep` / `deep_panic` in place of ret / panic: the closure first touches the 24 pages just below the mapping its stack lives in
//! (through read(/dev/zero, addr, 8): EFAULT and no effect where the kernel will not map memory on demand; only when the window is
//! unmapped), marker G (aux = pages that could be touched), then returns / panics.  After every batch the mapping list is compared
//! with the one before it, range by range: `mapdiff + <start> <end> <perms>` / `mapdiff - ...` records.
//! WHERE the closure panics: `panic` a plain panic!; `panic_e` / `panic_o` / `panic_d` inside an argument of tiny-std's
//! eprintln! / println! / dbg! (a Display / Debug impl that panics while it is being printed: the thread holds the
//! library's stderr / stdout print lock at that moment, and the panic handler runs with it held); `panic_m` while holding
//! guards of its own tiny_std::sync::Mutex and RwLock.  (A thread that dies inside a print macro never releases that print
//! lock — there is no unwinding — so a script carries at most one panic_e/panic_d and one panic_o thread.)
//! Result classes: 0 (), 1 u8, 2 u64, 3 [u8;4096], 4 align-64 struct, 5 Box<[u64;3]> (size / alignment / ownership
//! sweep) and 6 bool, 7 char, 8 core::cmp::Ordering, 9 field-less enum, 10 Option<u32>, 11 Result<u8,u8>,
//! 12 struct(bool) with a counting destructor: types whose `Option<T>::None` is a NON-zero bit pattern, so that a
//! result slot that was only zeroed (not initialised to `None`) shows as `Some(..)` for a thread that panicked.
//! Classes 13 / 14: a result whose DESTRUCTOR PANICS — 13 wherever it runs, 14 only when it runs on a spawned thread
//! (on the main thread it returns normally).  The runtime runs the destructor of a result nobody joined: on the spawned
//! thread when the handle was dropped before the closure returned (then the panic handler starts in the middle of the
//! thread's epilogue), on the handle's thread otherwise.  A class-13 closure whose handle is dropped holds its return
//! until the handle is gone (so the destructor certainly runs on the spawned thread — on the main thread it would end the
//! probe); a joined class-13 value is forgotten by the probe, a joined class-14 value is dropped by it (no panic on main).
//!   c <parent> <id> <ret|panic..> <d_us> <class> <join|drop|dropnow> <d2_us>   the same, but thread <id> is spawned and then
//!                                                                       joined / dropped BY THE CLOSURE OF THREAD <parent> (any depth): after
//!                                                                       its own d_us sleep a closure runs the handle-side program of its
//!                                                                       children (spawn all in script order, then sleep d2 + join | drop each),
//!                                                                       then returns / panics; its markers S/s/J/R/D/d come from its thread
//!   go                                                                  run the batch collected so far
//! Per batch the main thread: measures a baseline, spawns every thread in script order (`dropnow` handles
//! are dropped right after their spawn), then walks the handles in script order (sleep d2, join | drop),
//! waits until the process is single-threaded again, measures again, prints its records.
//!
//! Everything the check needs *in order* is made visible to `strace -f` as marker system calls
//! (a `pread64` on an invalid descriptor: no effect, EBADF):
//!   pread64(-2, kind, id, aux)                 protocol markers  b/e batch, S/s spawn, J/R join, D/d drop,
//!                                              B/E/P closure begin / end (aux = digest) / about to panic
//!                                              x/X destructor of a class-13/14 value entered: returns / about to panic
//!                                              (aux = 1 on the main thread), f joined class-13 value forgotten
//!   pread64(-1, ptr, size, align << 1 | op)    heap event of the counting allocator (op 0 = alloc, 1 = free),
//!                                              issued while the allocator lock is held (alloc: after, free: before)
//! The allocator wrapper fills every released block with 0xDD and keeps it in a quarantine ring (256 blocks) before it
//! hands it back to Dlmalloc: a read through a dangling pointer sees 0xDD.., and a second release of a quarantined block
//! is reported by its marker like any other release but not passed on (the run continues deterministically).
//! The text records on stdout (flushed once per batch) carry what strace cannot see: values, run counters,
//! visibility of the closure's plain memory write after join, live heap bytes/blocks, VmSize, mapping list.
#![no_std]
#![no_main]
#![allow(static_mut_refs)]
extern crate alloc;

use core::cell::UnsafeCell;
use core::sync::atomic::{AtomicU32, AtomicUsize, Ordering};
use tiny_std::thread::JoinHandle;

// ------------------------------------------------------------------ raw system calls (x86-64)

#[inline(always)]
unsafe fn sys4(nr: usize, a: usize, b: usize, c: usize, d: usize) -> isize {
    let ret: isize;
    core::arch::asm!("syscall", inlateout("rax") nr as isize => ret, in("rdi") a, in("rsi") b, in("rdx") c,
        in("r10") d, lateout("rcx") _, lateout("r11") _, options(nostack));
    ret
}
const SYS_READ: usize = 0;
const SYS_WRITE: usize = 1;
const SYS_OPEN: usize = 2;
const SYS_CLOSE: usize = 3;
const SYS_PREAD64: usize = 17;
const SYS_NANOSLEEP: usize = 35;
const SYS_GETTID: usize = 186;
const SYS_EXIT_GROUP: usize = 231;

#[inline(never)]
fn mark(kind: u8, id: usize, aux: usize) {
    unsafe {
        sys4(SYS_PREAD64, (-2isize) as usize, kind as usize, id, aux);
    }
}

fn sleep_us(us: usize) {
    if us == 0 {
        return;
    }
    let mut ts = [(us / 1_000_000) as i64, ((us % 1_000_000) * 1000) as i64];
    unsafe {
        while sys4(SYS_NANOSLEEP, ts.as_mut_ptr() as usize, ts.as_mut_ptr() as usize, 0, 0) == -4 {}
    }
}

fn die(code: usize) -> ! {
    unsafe {
        flush();
        sys4(SYS_EXIT_GROUP, code, 0, 0, 0);
    }
    loop {}
}

// ------------------------------------------------------------------ counting allocator

static LIVE_BYTES: AtomicUsize = AtomicUsize::new(0);
static LIVE_BLOCKS: AtomicUsize = AtomicUsize::new(0);
static HEAP_LOG: AtomicU32 = AtomicU32::new(0);
static DOUBLE_FREES: AtomicU32 = AtomicU32::new(0);

#[cfg(feature = "counting")]
mod counting {
    use super::*;
    use core::alloc::{GlobalAlloc, Layout};
    use tiny_std::allocator::dlmalloc::Dlmalloc;

    const QN: usize = 256;
    /// released blocks not yet handed back to Dlmalloc (poisoned), oldest first
    pub struct Inner {
        dl: Dlmalloc,
        q: [usize; QN],
        head: usize,
        len: usize,
    }
    impl Inner {
        fn quarantined(&self, p: usize) -> bool {
            let mut i = 0;
            while i < self.len {
                if self.q[(self.head + i) % QN] == p {
                    return true;
                }
                i += 1;
            }
            false
        }
        /// -> the block that leaves the quarantine, if it was full
        fn push(&mut self, p: usize) -> Option<usize> {
            let mut out = None;
            if self.len == QN {
                out = Some(self.q[self.head]);
                self.head = (self.head + 1) % QN;
                self.len -= 1;
            }
            self.q[(self.head + self.len) % QN] = p;
            self.len += 1;
            out
        }
    }

    pub struct Counting(tiny_std::sync::Mutex<Inner>);
    unsafe impl Sync for Counting {}
    unsafe impl Send for Counting {}

    #[global_allocator]
    static GLOBAL: Counting = Counting(tiny_std::sync::Mutex::new(Inner { dl: Dlmalloc::new(), q: [0; QN], head: 0, len: 0 }));

    #[inline(always)]
    unsafe fn note(op: usize, p: *mut u8, l: Layout) {
        if op == 0 {
            LIVE_BYTES.fetch_add(l.size(), Ordering::Relaxed);
            LIVE_BLOCKS.fetch_add(1, Ordering::Relaxed);
        } else {
            LIVE_BYTES.fetch_sub(l.size(), Ordering::Relaxed);
            LIVE_BLOCKS.fetch_sub(1, Ordering::Relaxed);
        }
        if HEAP_LOG.load(Ordering::Relaxed) != 0 {
            sys4(SYS_PREAD64, (-1isize) as usize, p as usize, l.size(), (l.align() << 1) | op);
        }
    }

    unsafe impl GlobalAlloc for Counting {
        unsafe fn alloc(&self, l: Layout) -> *mut u8 {
            let mut g = self.0.lock();
            let p = g.dl.malloc(l.size(), l.align());
            note(0, p, l);
            p
        }
        unsafe fn dealloc(&self, p: *mut u8, l: Layout) {
            let mut g = self.0.lock();
            note(1, p, l);
            if g.quarantined(p as usize) {
                // released a second time while still in quarantine: the marker above reports it; Dlmalloc never sees it
                DOUBLE_FREES.fetch_add(1, Ordering::Relaxed);
                return;
            }
            if l.size() <= (1 << 20) {
                core::ptr::write_bytes(p, 0xDD, l.size());
            }
            if let Some(old) = g.push(p as usize) {
                g.dl.free(old as *mut u8);
            }
        }
        unsafe fn alloc_zeroed(&self, l: Layout) -> *mut u8 {
            let mut g = self.0.lock();
            let p = g.dl.calloc(l.size(), l.align());
            note(0, p, l);
            p
        }
        unsafe fn realloc(&self, p: *mut u8, l: Layout, new_size: usize) -> *mut u8 {
            let mut g = self.0.lock();
            note(1, p, l);
            let q = g.dl.realloc(p, l.size(), l.align(), new_size);
            note(0, q, Layout::from_size_align_unchecked(new_size, l.align()));
            q
        }
    }
}

// ------------------------------------------------------------------ text output (no allocation)

static mut OUT: [u8; 1 << 18] = [0; 1 << 18];
static mut OUT_LEN: usize = 0;

unsafe fn flush() {
    let mut off = 0;
    while off < OUT_LEN {
        let n = sys4(SYS_WRITE, 1, OUT.as_ptr().add(off) as usize, OUT_LEN - off, 0);
        if n <= 0 {
            break;
        }
        off += n as usize;
    }
    OUT_LEN = 0;
}

fn s(x: &str) {
    unsafe {
        for b in x.as_bytes() {
            if OUT_LEN == OUT.len() {
                flush();
            }
            OUT[OUT_LEN] = *b;
            OUT_LEN += 1;
        }
    }
}

fn num(mut n: u64) {
    let mut buf = [0u8; 24];
    let mut i = 24;
    loop {
        i -= 1;
        buf[i] = b'0' + (n % 10) as u8;
        n /= 10;
        if n == 0 {
            break;
        }
    }
    s(" ");
    s(core::str::from_utf8(&buf[i..]).unwrap_or("?"));
}

// ------------------------------------------------------------------ /proc readers (static buffer, no allocation)

static mut FILEBUF: [u8; 1 << 17] = [0; 1 << 17];

unsafe fn slurp(path: &[u8]) -> &'static [u8] {
    let fd = sys4(SYS_OPEN, path.as_ptr() as usize, 0, 0, 0);
    if fd < 0 {
        return &[];
    }
    let mut len = 0;
    loop {
        let n = sys4(SYS_READ, fd as usize, FILEBUF.as_mut_ptr().add(len) as usize, FILEBUF.len() - len, 0);
        if n <= 0 {
            break;
        }
        len += n as usize;
    }
    sys4(SYS_CLOSE, fd as usize, 0, 0, 0);
    &FILEBUF[..len]
}

fn first_num(b: &[u8]) -> u64 {
    let mut n = 0u64;
    for c in b {
        if !c.is_ascii_digit() {
            break;
        }
        n = n * 10 + (c - b'0') as u64;
    }
    n
}

fn vm_pages() -> u64 {
    unsafe { first_num(slurp(b"/proc/self/statm\0")) }
}

fn n_threads() -> u64 {
    unsafe {
        let st = slurp(b"/proc/self/stat\0");
        let close = match st.iter().rposition(|c| *c == b')') {
            Some(c) => c,
            None => return 0,
        };
        // after ") " comes field 3; num_threads is field 20
        match st[close + 2..].split(|c| *c == b' ').nth(20 - 3) {
            Some(f) => first_num(f),
            None => 0,
        }
    }
}

/// (number of mappings, FNV-1a of every line's `range perms` columns)
fn maps() -> (u64, u64) {
    unsafe {
        let m = slurp(b"/proc/self/maps\0");
        let mut h: u64 = 0xcbf29ce484222325;
        let mut n = 0;
        for line in m.split(|c| *c == b'\n') {
            if line.is_empty() {
                continue;
            }
            n += 1;
            let mut sp = 0;
            for c in line {
                if *c == b' ' {
                    sp += 1;
                    if sp == 2 {
                        break;
                    }
                }
                h = (h ^ *c as u64).wrapping_mul(0x100000001b3);
            }
            h = (h ^ 10).wrapping_mul(0x100000001b3);
        }
        (n, h)
    }
}

/// `start end perms` of every mapping, parsed out of a /proc/self/maps image
fn parse_map_line(line: &[u8]) -> Option<(usize, usize, u8)> {
    let mut i = 0;
    let mut a = 0usize;
    while i < line.len() && line[i] != b'-' {
        a = a.checked_mul(16)?.checked_add((line[i] as char).to_digit(16)? as usize)?;
        i += 1;
    }
    i += 1;
    let mut b = 0usize;
    while i < line.len() && line[i] != b' ' {
        b = b.checked_mul(16)?.checked_add((line[i] as char).to_digit(16)? as usize)?;
        i += 1;
    }
    i += 1;
    let mut p = 0u8;
    let mut k = 0;
    while k < 4 && i + k < line.len() {
        if line[i + k] != b'-' {
            p |= 1 << k;
        }
        k += 1;
    }
    Some((a, b, p))
}

const MAXMAPS: usize = 512;
static mut MAPS_BEFORE: [(usize, usize, u8); MAXMAPS] = [(0, 0, 0); MAXMAPS];
static mut MAPS_BEFORE_N: usize = 0;
static mut MAPS_AFTER: [(usize, usize, u8); MAXMAPS] = [(0, 0, 0); MAXMAPS];

unsafe fn snapshot_maps(into: &mut [(usize, usize, u8); MAXMAPS]) -> usize {
    let m = slurp(b"/proc/self/maps\0");
    let mut n = 0;
    for line in m.split(|c| *c == b'\n') {
        if let Some(x) = parse_map_line(line) {
            if n < MAXMAPS && x.1 > x.0 {
                into[n] = x;
                n += 1;
            }
        }
    }
    n
}

fn hexnum(mut n: usize) {
    let mut buf = [0u8; 16];
    let mut i = 16;
    loop {
        i -= 1;
        buf[i] = b"0123456789abcdef"[n & 15];
        n >>= 4;
        if n == 0 {
            break;
        }
    }
    s(" ");
    s(core::str::from_utf8(&buf[i..]).unwrap_or("?"));
}

/// the mapping list after the batch against the one before it: every range that is there now and was not (`mapdiff + ..`),
/// and every range that was and is not (`mapdiff - ..`), whoever created or removed it
unsafe fn print_map_diff() {
    let na = snapshot_maps(&mut MAPS_AFTER);
    let nb = MAPS_BEFORE_N;
    for (list_a, n_a, list_b, n_b, sign) in [(&MAPS_AFTER, na, &MAPS_BEFORE, nb, " +"), (&MAPS_BEFORE, nb, &MAPS_AFTER, na, " -")] {
        for x in list_a[..n_a].iter() {
            if !list_b[..n_b].iter().any(|y| y == x) {
                s("mapdiff");
                s(sign);
                hexnum(x.0);
                hexnum(x.1);
                num(x.2 as u64);
                s("\n");
            }
        }
    }
}

/// A thread that needs a little more stack than it was given, minus the crash: touch the `pages` pages just below the bottom of the
/// mapping this thread's stack lives in, top down, through `read(/dev/zero, addr, 8)` — where nothing is mapped and nothing can be
/// mapped on demand the kernel answers EFAULT and nothing happens; where the stack mapping may grow (MAP_GROWSDOWN) it grows.
/// Only attempted when /proc/self/maps shows the whole window as unmapped.  -> pages touched successfully (0x1000 + that if the window was not free)
static mut DEEPBUF: [u8; 1 << 16] = [0; 1 << 16];
fn touch_below_stack(pages: usize) -> usize {
    let local = 0u8;
    let here = &local as *const u8 as usize;
    unsafe {
        let fd = sys4(SYS_OPEN, b"/proc/self/maps\0".as_ptr() as usize, 0, 0, 0);
        if fd < 0 {
            return 0x2000;
        }
        let mut len = 0;
        loop {
            let n = sys4(SYS_READ, fd as usize, DEEPBUF.as_mut_ptr().add(len) as usize, DEEPBUF.len() - len, 0);
            if n <= 0 {
                break;
            }
            len += n as usize;
        }
        sys4(SYS_CLOSE, fd as usize, 0, 0, 0);
        let mut bottom = 0;
        for line in DEEPBUF[..len].split(|c| *c == b'\n') {
            if let Some((a, b, _)) = parse_map_line(line) {
                if a <= here && here < b {
                    bottom = a;
                }
            }
        }
        if bottom == 0 {
            return 0x2000;
        }
        let lo = bottom - pages * 4096;
        for line in DEEPBUF[..len].split(|c| *c == b'\n') {
            if let Some((a, b, _)) = parse_map_line(line) {
                if a < bottom && b > lo {
                    return 0x1000;
                }
            }
        }
        let zero = sys4(SYS_OPEN, b"/dev/zero\0".as_ptr() as usize, 0, 0, 0);
        if zero < 0 {
            return 0x2000;
        }
        let mut touched = 0;
        while touched < pages {
            if sys4(SYS_READ, zero as usize, bottom - (touched + 1) * 4096, 8, 0) != 8 {
                break;
            }
            touched += 1;
        }
        sys4(SYS_CLOSE, zero as usize, 0, 0, 0);
        touched
    }
}

// ------------------------------------------------------------------ result type classes

trait Val: Send + 'static + Sized {
    fn make(token: u64, id: usize) -> Self;
    fn digest(&self) -> u64;
    /// what the probe does with a value `join` handed to it, once it has taken the digest
    fn finish(self) {
        drop(self)
    }
}
impl Val for () {
    fn make(_: u64, _: usize) -> Self {}
    fn digest(&self) -> u64 {
        0
    }
}
impl Val for u8 {
    fn make(t: u64, _: usize) -> Self {
        t as u8
    }
    fn digest(&self) -> u64 {
        *self as u64
    }
}
impl Val for u64 {
    fn make(t: u64, _: usize) -> Self {
        t
    }
    fn digest(&self) -> u64 {
        *self
    }
}
impl Val for [u8; 4096] {
    fn make(t: u64, _: usize) -> Self {
        let mut a = [0u8; 4096];
        let mut x = t | 1;
        for b in a.iter_mut() {
            x = x.wrapping_mul(6364136223846793005).wrapping_add(1442695040888963407);
            *b = (x >> 56) as u8;
        }
        a
    }
    fn digest(&self) -> u64 {
        let mut h: u64 = 0xcbf29ce484222325;
        for b in self.iter() {
            h = (h ^ *b as u64).wrapping_mul(0x100000001b3);
        }
        h >> 1
    }
}
#[repr(align(64))]
struct A64([u64; 2]);
impl Val for A64 {
    fn make(t: u64, _: usize) -> Self {
        A64([t, !t])
    }
    fn digest(&self) -> u64 {
        if self.0[1] == !self.0[0] && (self as *const Self as usize) % 64 == 0 {
            self.0[0]
        } else {
            0x7fff_ffff_ffff_fff0
        }
    }
}
/// a result that owns heap memory allocated on the spawned thread and released by the joiner
impl Val for alloc::boxed::Box<[u64; 3]> {
    fn make(t: u64, _: usize) -> Self {
        alloc::boxed::Box::new([t, t ^ 0x55, 7])
    }
    fn digest(&self) -> u64 {
        if self[1] == self[0] ^ 0x55 && self[2] == 7 {
            self[0]
        } else {
            0x7fff_ffff_ffff_fff1
        }
    }
}

impl Val for bool {
    fn make(t: u64, _: usize) -> Self {
        (t >> 1) & 1 == 1
    }
    fn digest(&self) -> u64 {
        *self as u64
    }
}
impl Val for char {
    fn make(t: u64, _: usize) -> Self {
        char::from_u32(((t >> 1) % 0xD800) as u32).unwrap_or('?')
    }
    fn digest(&self) -> u64 {
        *self as u64
    }
}
impl Val for core::cmp::Ordering {
    fn make(t: u64, _: usize) -> Self {
        match (t >> 1) % 3 {
            0 => core::cmp::Ordering::Less,
            1 => core::cmp::Ordering::Equal,
            _ => core::cmp::Ordering::Greater,
        }
    }
    fn digest(&self) -> u64 {
        (*self as i8 + 1) as u64
    }
}
#[derive(Clone, Copy)]
enum Colour {
    Red,
    Green,
    Blue,
}
impl Val for Colour {
    fn make(t: u64, _: usize) -> Self {
        match (t >> 1) % 3 {
            0 => Colour::Red,
            1 => Colour::Green,
            _ => Colour::Blue,
        }
    }
    fn digest(&self) -> u64 {
        *self as u64
    }
}
impl Val for Option<u32> {
    fn make(t: u64, _: usize) -> Self {
        if (t >> 1) % 3 == 0 {
            None
        } else {
            Some((t >> 8) as u32)
        }
    }
    fn digest(&self) -> u64 {
        match self {
            None => 0,
            Some(v) => 1 + *v as u64,
        }
    }
}
impl Val for Result<u8, u8> {
    fn make(t: u64, _: usize) -> Self {
        if (t >> 1) & 1 == 1 {
            Ok((t >> 8) as u8)
        } else {
            Err((t >> 8) as u8)
        }
    }
    fn digest(&self) -> u64 {
        match self {
            Ok(v) => 0x100 | *v as u64,
            Err(v) => *v as u64,
        }
    }
}
/// every value of this type that is made is counted, and so is every run of its destructor: the two counts must
/// agree once a batch is over (joined values are dropped by the joiner, unread ones by whoever frees the slot)
static MADE: AtomicU32 = AtomicU32::new(0);
static DROPPED: AtomicU32 = AtomicU32::new(0);
struct Flagged(bool);
impl Drop for Flagged {
    fn drop(&mut self) {
        DROPPED.fetch_add(1, Ordering::Relaxed);
    }
}
impl Val for Flagged {
    fn make(t: u64, _: usize) -> Self {
        MADE.fetch_add(1, Ordering::Relaxed);
        Flagged((t >> 1) & 1 == 1)
    }
    fn digest(&self) -> u64 {
        self.0 as u64
    }
}

/// classes 13 / 14: a value whose destructor panics (ALWAYS: wherever it runs; else: only on a spawned thread)
static MAIN_TID: AtomicUsize = AtomicUsize::new(0);
static BOMB_MADE: AtomicU32 = AtomicU32::new(0);
static BOMB_DROPS: AtomicU32 = AtomicU32::new(0);
static BOMB_FORGOT: AtomicU32 = AtomicU32::new(0);
fn on_main_thread() -> bool {
    (unsafe { sys4(SYS_GETTID, 0, 0, 0, 0) }) as usize == MAIN_TID.load(Ordering::Relaxed)
}
struct Bomb<const ALWAYS: bool> {
    id: u32,
    tok: u64,
}
impl<const ALWAYS: bool> Drop for Bomb<ALWAYS> {
    fn drop(&mut self) {
        let on_main = on_main_thread();
        BOMB_DROPS.fetch_add(1, Ordering::Relaxed);
        if ALWAYS || !on_main {
            mark(b'X', self.id as usize, on_main as usize);
            panic!("c05probe: scripted destructor panic");
        }
        mark(b'x', self.id as usize, on_main as usize);
    }
}
impl Val for Bomb<true> {
    fn make(t: u64, id: usize) -> Self {
        BOMB_MADE.fetch_add(1, Ordering::Relaxed);
        Bomb { id: id as u32, tok: t }
    }
    fn digest(&self) -> u64 {
        self.tok
    }
    /// dropping it on the main thread would end the process: the probe keeps it out of reach of any destructor
    fn finish(self) {
        BOMB_FORGOT.fetch_add(1, Ordering::Relaxed);
        mark(b'f', self.id as usize, 0);
        core::mem::forget(self)
    }
}
impl Val for Bomb<false> {
    fn make(t: u64, id: usize) -> Self {
        BOMB_MADE.fetch_add(1, Ordering::Relaxed);
        Bomb { id: id as u32, tok: t }
    }
    fn digest(&self) -> u64 {
        self.tok
    }
}

enum Handle {
    C0(JoinHandle<()>),
    C1(JoinHandle<u8>),
    C2(JoinHandle<u64>),
    C3(JoinHandle<[u8; 4096]>),
    C4(JoinHandle<A64>),
    C5(JoinHandle<alloc::boxed::Box<[u64; 3]>>),
    C6(JoinHandle<bool>),
    C7(JoinHandle<char>),
    C8(JoinHandle<core::cmp::Ordering>),
    C9(JoinHandle<Colour>),
    C10(JoinHandle<Option<u32>>),
    C11(JoinHandle<Result<u8, u8>>),
    C12(JoinHandle<Flagged>),
    C13(JoinHandle<Bomb<true>>),
    C14(JoinHandle<Bomb<false>>),
}

const MAXT: usize = 64;
const Z: AtomicU32 = AtomicU32::new(0);
static RUNS: [AtomicU32; MAXT] = [Z; MAXT];
/// set by the main thread once the handle of <id> is gone (class 13 with a dropped handle: the closure holds its return until then)
static GATE: [AtomicU32; MAXT] = [Z; MAXT];
struct Cells([UnsafeCell<u64>; MAXT]);
unsafe impl Sync for Cells {}
const ZC: UnsafeCell<u64> = UnsafeCell::new(0);
static EFFECT: Cells = Cells([ZC; MAXT]);

fn token(batch: usize, id: usize) -> u64 {
    let x = ((batch as u64) << 8 | id as u64).wrapping_mul(0x9E3779B97F4A7C15) ^ 0xabcdef;
    (x >> 2) | 1
}

/// a value that panics while it is being formatted
struct Boom;
impl core::fmt::Display for Boom {
    fn fmt(&self, _: &mut core::fmt::Formatter<'_>) -> core::fmt::Result {
        panic!("c05probe: scripted panic inside a print argument");
    }
}
impl core::fmt::Debug for Boom {
    fn fmt(&self, _: &mut core::fmt::Formatter<'_>) -> core::fmt::Result {
        panic!("c05probe: scripted panic inside a print argument");
    }
}

/// panic site: 0 the closure returns, 1 plain panic!, 2 inside eprintln!, 3 inside println!, 4 inside dbg!, 5 holding own lock guards;
/// 6 / 7: the closure first touches memory just below its stack mapping (`touch_below_stack`), then returns / panics plainly
fn spawn_one<T: Val>(batch: usize, id: usize, panics: u8, d: usize, gate: bool) -> tiny_std::Result<JoinHandle<T>> {
    let tok = token(batch, id);
    tiny_std::thread::spawn(move || {
        let local = 0u8;
        mark(b'B', id, &local as *const u8 as usize);
        RUNS[id].fetch_add(1, Ordering::Relaxed);
        sleep_us(d);
        // this thread as the handle side of other threads (nested scripts)
        run_children(batch, id);
        // a plain (non-atomic) memory effect: must be visible to whoever joins this thread
        unsafe { EFFECT.0[id].get().write_volatile(tok) };
        if panics >= 6 {
            // `deep` / `deep_panic`: a thread that reaches a little below its stack mapping before it returns / panics
            mark(b'G', id, touch_below_stack(24));
        }
        if panics != 0 && panics != 6 {
            mark(b'P', id, panics as usize);
            match panics {
                2 => tiny_std::eprintln!("{}", Boom),
                3 => tiny_std::println!("{}", Boom),
                4 => {
                    let _ = tiny_std::dbg!(Boom);
                }
                5 => {
                    let m = tiny_std::sync::Mutex::new(0u32);
                    let rw = tiny_std::sync::RwLock::new(0u32);
                    let _g = m.lock();
                    let _w = rw.write();
                    panic!("c05probe: scripted panic holding lock guards");
                }
                _ => {}
            }
            panic!("c05probe: scripted panic");
        }
        if gate {
            let mut waited = 0;
            while GATE[id].load(Ordering::Acquire) == 0 && waited < 100_000 {
                sleep_us(100);
                waited += 1;
            }
        }
        let v = T::make(tok, id);
        mark(b'E', id, v.digest() as usize);
        v
    })
}

fn join_one<T: Val>(h: JoinHandle<T>) -> Option<u64> {
    h.join().map(|v| {
        let d = v.digest();
        v.finish();
        d
    })
}

#[derive(Clone, Copy)]
struct Spec {
    id: usize,
    panics: u8,
    d: usize,
    class: usize,
    action: u8, // b'j' join, b'd' drop, b'n' dropnow
    d2: usize,
    parent: usize, // MAIN, or the id of the thread whose closure spawns / joins / drops this one
}

fn errno_of(e: &tiny_std::Error) -> u64 {
    match e {
        tiny_std::Error::Os { code, .. } => code.raw() as u64,
        _ => 0,
    }
}

fn spawn_spec(batch: usize, sp: &Spec) -> Result<Handle, u64> {
    let r = match sp.class {
        0 => spawn_one::<()>(batch, sp.id, sp.panics, sp.d, false).map(Handle::C0),
        1 => spawn_one::<u8>(batch, sp.id, sp.panics, sp.d, false).map(Handle::C1),
        2 => spawn_one::<u64>(batch, sp.id, sp.panics, sp.d, false).map(Handle::C2),
        3 => spawn_one::<[u8; 4096]>(batch, sp.id, sp.panics, sp.d, false).map(Handle::C3),
        4 => spawn_one::<A64>(batch, sp.id, sp.panics, sp.d, false).map(Handle::C4),
        5 => spawn_one::<alloc::boxed::Box<[u64; 3]>>(batch, sp.id, sp.panics, sp.d, false).map(Handle::C5),
        6 => spawn_one::<bool>(batch, sp.id, sp.panics, sp.d, false).map(Handle::C6),
        7 => spawn_one::<char>(batch, sp.id, sp.panics, sp.d, false).map(Handle::C7),
        8 => spawn_one::<core::cmp::Ordering>(batch, sp.id, sp.panics, sp.d, false).map(Handle::C8),
        9 => spawn_one::<Colour>(batch, sp.id, sp.panics, sp.d, false).map(Handle::C9),
        10 => spawn_one::<Option<u32>>(batch, sp.id, sp.panics, sp.d, false).map(Handle::C10),
        11 => spawn_one::<Result<u8, u8>>(batch, sp.id, sp.panics, sp.d, false).map(Handle::C11),
        12 => spawn_one::<Flagged>(batch, sp.id, sp.panics, sp.d, false).map(Handle::C12),
        13 => spawn_one::<Bomb<true>>(batch, sp.id, sp.panics, sp.d, sp.action != b'j').map(Handle::C13),
        _ => spawn_one::<Bomb<false>>(batch, sp.id, sp.panics, sp.d, false).map(Handle::C14),
    };
    r.map_err(|e| errno_of(&e))
}

fn measure(tag: &str) {
    let (n, h) = maps();
    s(tag);
    num(LIVE_BYTES.load(Ordering::Relaxed) as u64);
    num(LIVE_BLOCKS.load(Ordering::Relaxed) as u64);
    num(vm_pages());
    num(n);
    num(h);
    num(n_threads());
    s("\n");
}

/// what the owner of a handle saw (written by the thread that spawned / joined / dropped, printed by main after the batch)
static SPAWN_ST: [AtomicU32; MAXT] = [Z; MAXT]; // 0 nothing, 1 ok, 2 + errno
static JOIN_ST: [AtomicU32; MAXT] = [Z; MAXT]; // 0 nothing, 1 None, 2 Some; bit 2: the closure's plain write was visible
static DROP_ST: [AtomicU32; MAXT] = [Z; MAXT];
const Z64: core::sync::atomic::AtomicU64 = core::sync::atomic::AtomicU64::new(0);
static JOIN_DG: [core::sync::atomic::AtomicU64; MAXT] = [Z64; MAXT];
/// the script of the running batch: the closure of thread <id> spawns, joins and drops the threads whose `parent` is <id>
static mut TABLE: [Spec; MAXT] = [Spec { id: 0, panics: 0, d: 0, class: 0, action: b'j', d2: 0, parent: MAIN }; MAXT];
static mut NSPEC: usize = 0;
const MAIN: usize = MAXT;

/// the handle-side program of one thread (the main thread: `me` = MAIN; a spawned thread: inside its closure): spawn every
/// thread of the script whose parent is `me`, in script order (`dropnow` handles are dropped right after their spawn), then walk
/// the handles in script order (sleep d2, join | drop)
fn run_children(batch: usize, me: usize) {
    let specs: &[Spec] = unsafe { &TABLE[..NSPEC] };
    if !specs.iter().any(|sp| sp.parent == me) {
        return;
    }
    const NONE: Option<Handle> = None;
    let mut handles: [Option<Handle>; MAXT] = [NONE; MAXT];
    for sp in specs.iter().filter(|sp| sp.parent == me) {
        mark(b'S', sp.id, sp.class);
        match spawn_spec(batch, sp) {
            Ok(h) => {
                mark(b's', sp.id, 0);
                SPAWN_ST[sp.id].store(1, Ordering::Relaxed);
                if sp.action == b'n' {
                    mark(b'D', sp.id, 0);
                    drop(h);
                    mark(b'd', sp.id, 0);
                    GATE[sp.id].store(1, Ordering::Release);
                    DROP_ST[sp.id].store(1, Ordering::Relaxed);
                } else {
                    handles[sp.id] = Some(h);
                }
            }
            Err(e) => {
                mark(b's', sp.id, 1 + e as usize);
                SPAWN_ST[sp.id].store(2 + e as u32, Ordering::Relaxed);
            }
        }
    }
    for sp in specs.iter().filter(|sp| sp.parent == me) {
        let h = match handles[sp.id].take() {
            Some(h) => h,
            None => continue,
        };
        sleep_us(sp.d2);
        if sp.action == b'j' {
            mark(b'J', sp.id, 0);
            let r = match h {
                Handle::C0(h) => join_one(h),
                Handle::C1(h) => join_one(h),
                Handle::C2(h) => join_one(h),
                Handle::C3(h) => join_one(h),
                Handle::C4(h) => join_one(h),
                Handle::C5(h) => join_one(h),
                Handle::C6(h) => join_one(h),
                Handle::C7(h) => join_one(h),
                Handle::C8(h) => join_one(h),
                Handle::C9(h) => join_one(h),
                Handle::C10(h) => join_one(h),
                Handle::C11(h) => join_one(h),
                Handle::C12(h) => join_one(h),
                Handle::C13(h) => join_one(h),
                Handle::C14(h) => join_one(h),
            };
            // the closure's plain write, read after join returned
            let eff = unsafe { EFFECT.0[sp.id].get().read_volatile() };
            let seen = (eff == token(batch, sp.id)) as u32;
            match r {
                Some(dg) => {
                    mark(b'R', sp.id, (dg as usize) << 1 | 1);
                    JOIN_DG[sp.id].store(dg, Ordering::Relaxed);
                    JOIN_ST[sp.id].store(2 | seen << 2, Ordering::Relaxed);
                }
                None => {
                    mark(b'R', sp.id, 0);
                    JOIN_ST[sp.id].store(1 | seen << 2, Ordering::Relaxed);
                }
            }
        } else {
            mark(b'D', sp.id, 0);
            drop(h);
            mark(b'd', sp.id, 0);
            GATE[sp.id].store(1, Ordering::Release);
            DROP_ST[sp.id].store(1, Ordering::Relaxed);
        }
    }
}

fn run_batch(batch: usize, specs: &[Spec]) {
    unsafe {
        let mut i = 0;
        while i < specs.len() {
            TABLE[i] = specs[i];
            i += 1;
        }
        NSPEC = specs.len();
    }
    for sp in specs {
        RUNS[sp.id].store(0, Ordering::Relaxed);
        GATE[sp.id].store(0, Ordering::Relaxed);
        SPAWN_ST[sp.id].store(0, Ordering::Relaxed);
        JOIN_ST[sp.id].store(0, Ordering::Relaxed);
        DROP_ST[sp.id].store(0, Ordering::Relaxed);
        unsafe { EFFECT.0[sp.id].get().write_volatile(0) };
    }
    s("batch");
    num(batch as u64);
    num(specs.len() as u64);
    s("\n");
    MADE.store(0, Ordering::Relaxed);
    DROPPED.store(0, Ordering::Relaxed);
    BOMB_MADE.store(0, Ordering::Relaxed);
    BOMB_DROPS.store(0, Ordering::Relaxed);
    BOMB_FORGOT.store(0, Ordering::Relaxed);
    DOUBLE_FREES.store(0, Ordering::Relaxed);
    measure("before");
    unsafe { MAPS_BEFORE_N = snapshot_maps(&mut MAPS_BEFORE) };
    HEAP_LOG.store(1, Ordering::Relaxed);
    mark(b'b', batch, specs.len());
    run_children(batch, MAIN);
    // wait until every spawned thread is gone (bounded: the check's watchdog reports the rest)
    let mut waited = 0;
    while n_threads() > 1 && waited < 40_000 {
        sleep_us(250);
        waited += 1;
    }
    mark(b'e', batch, 0);
    HEAP_LOG.store(0, Ordering::Relaxed);
    measure("after");
    unsafe { print_map_diff() };
    for sp in specs {
        let st = SPAWN_ST[sp.id].load(Ordering::Relaxed);
        if st == 1 {
            s("spawn");
            num(sp.id as u64);
            s(" ok\n");
        } else if st >= 2 {
            s("spawn");
            num(sp.id as u64);
            s(" err");
            num((st - 2) as u64);
            s("\n");
        }
        let js = JOIN_ST[sp.id].load(Ordering::Relaxed);
        if js & 3 != 0 {
            s("join");
            num(sp.id as u64);
            if js & 3 == 2 {
                s(" some");
                num(JOIN_DG[sp.id].load(Ordering::Relaxed));
            } else {
                s(" none");
            }
            s(" effect");
            num((js >> 2) as u64);
            s("\n");
        }
        if DROP_ST[sp.id].load(Ordering::Relaxed) != 0 {
            s("drop");
            num(sp.id as u64);
            s("\n");
        }
    }
    for sp in specs {
        s("runs");
        num(sp.id as u64);
        num(RUNS[sp.id].load(Ordering::Relaxed) as u64);
        num(token(batch, sp.id));
        num((unsafe { EFFECT.0[sp.id].get().read_volatile() } == token(batch, sp.id)) as u64);
        s("\n");
    }
    // values with a destructor: made by the closures of this batch / destructor runs in this batch
    s("drops");
    num(MADE.load(Ordering::Relaxed) as u64);
    num(DROPPED.load(Ordering::Relaxed) as u64);
    s("\n");
    // values whose destructor panics: made / destructor entered / forgotten by the probe after a join; releases the
    // allocator wrapper refused because the block was already in quarantine
    s("bombs");
    num(BOMB_MADE.load(Ordering::Relaxed) as u64);
    num(BOMB_DROPS.load(Ordering::Relaxed) as u64);
    num(BOMB_FORGOT.load(Ordering::Relaxed) as u64);
    num(DOUBLE_FREES.load(Ordering::Relaxed) as u64);
    s("\n");
    s("end");
    num(batch as u64);
    s("\n");
    unsafe { flush() };
}

fn class_sizes() {
    use core::mem::{align_of, size_of};
    macro_rules! c {
        ($k:expr, $t:ty) => {
            s("class");
            num($k);
            num(size_of::<UnsafeCell<Option<$t>>>() as u64);
            num(align_of::<UnsafeCell<Option<$t>>>() as u64);
            s("\n");
        };
    }
    c!(0, ());
    c!(1, u8);
    c!(2, u64);
    c!(3, [u8; 4096]);
    c!(4, A64);
    c!(5, alloc::boxed::Box<[u64; 3]>);
    c!(6, bool);
    c!(7, char);
    c!(8, core::cmp::Ordering);
    c!(9, Colour);
    c!(10, Option<u32>);
    c!(11, Result<u8, u8>);
    c!(12, Flagged);
    c!(13, Bomb<true>);
    c!(14, Bomb<false>);
}

fn parse_usize(b: &[u8]) -> Option<usize> {
    if b.is_empty() {
        return None;
    }
    let mut n = 0usize;
    for c in b {
        if !c.is_ascii_digit() {
            return None;
        }
        n = n.checked_mul(10)?.checked_add((c - b'0') as usize)?;
    }
    Some(n)
}

#[no_mangle]
pub fn main() -> i32 {
    static mut SCRIPT: [u8; 1 << 16] = [0; 1 << 16];
    let script: &[u8] = unsafe {
        let mut len = 0;
        loop {
            let n = sys4(SYS_READ, 0, SCRIPT.as_mut_ptr().add(len) as usize, SCRIPT.len() - len, 0);
            if n <= 0 {
                break;
            }
            len += n as usize;
        }
        &SCRIPT[..len]
    };
    MAIN_TID.store(unsafe { sys4(SYS_GETTID, 0, 0, 0, 0) } as usize, Ordering::Relaxed);
    class_sizes();
    let mut specs = [Spec { id: 0, panics: 0, d: 0, class: 0, action: b'j', d2: 0, parent: MAIN }; MAXT];
    let mut n = 0;
    let mut batch = 0;
    for line in script.split(|c| *c == b'\n') {
        let mut w = line.split(|c| *c == b' ').filter(|x| !x.is_empty());
        match w.next() {
            None => continue,
            Some(b"go") => {
                run_batch(batch, &specs[..n]);
                batch += 1;
                n = 0;
            }
            Some(kind @ (b"t" | b"c")) => {
                // `c <parent> ...`: spawned, joined / dropped by the closure of thread <parent> instead of the main thread
                let parent = if kind == b"c" { w.next().and_then(parse_usize).filter(|p| *p < MAXT) } else { Some(MAIN) };
                let f: [Option<&[u8]>; 6] = [w.next(), w.next(), w.next(), w.next(), w.next(), w.next()];
                let ok = (|| {
                    let parent = parent?;
                    let id = parse_usize(f[0]?)?;
                    let panics = match f[1]? {
                        b"ret" => 0u8,
                        b"panic" => 1,
                        b"panic_e" => 2,
                        b"panic_o" => 3,
                        b"panic_d" => 4,
                        b"panic_m" => 5,
                        b"deep" => 6,
                        b"deep_panic" => 7,
                        _ => return None,
                    };
                    let d = parse_usize(f[2]?)?;
                    let class = parse_usize(f[3]?)?;
                    let action = match f[4]? {
                        b"join" => b'j',
                        b"drop" => b'd',
                        b"dropnow" => b'n',
                        _ => return None,
                    };
                    let d2 = parse_usize(f[5]?)?;
                    if id >= MAXT || class > 14 || n >= MAXT {
                        return None;
                    }
                    if parent == id {
                        return None;
                    }
                    Some(Spec { id, panics, d, class, action, d2, parent })
                })();
                match ok {
                    Some(sp) => {
                        if specs[..n].iter().any(|x| x.id == sp.id) {
                            s("bad-script duplicate id\n");
                            die(2);
                        }
                        specs[n] = sp;
                        n += 1;
                    }
                    None => {
                        s("bad-script\n");
                        die(2);
                    }
                }
            }
            Some(_) => {
                s("bad-script\n");
                die(2);
            }
        }
    }
    s("done\n");
    unsafe { flush() };
    0
}
