//! `core::fmt::Arguments` SHAPES as an explored dimension (C10/C11).
//!
//! A harness that sweeps run-time strings can only hand them to an entry point taking
//! `fmt::Arguments` as `format_args!("{}", s)` — a value whose `as_str()` is `None`.  Code that
//! branches on `Arguments::as_str()` (a "no formatting needed" fast path) is reached only by
//! format strings that are LITERALS IN THE SOURCE.  This module compiles a table of such literals
//! into the harness, each in every shape:
//!
//! | form  | call                                   | rendered  | `as_str()` |
//! |-------|----------------------------------------|-----------|------------|
//! | `l`   | `format_args!(L)`                      | L         | `Some`     |
//! | `la`  | `format_args!(concat!(L, "{}"), x)`    | L x       | `None`     |
//! | `al`  | `format_args!(concat!("{}", L), x)`    | x L       | `None`     |
//! | `lal` | `format_args!(concat!(L, "{}", L), x)` | L x L     | `None`     |
//! | `a`   | `format_args!("{}", x)` (L must be "") | x         | `None`     |
//! | `ala` | `format_args!("{}L{}", x, y)`          | x L y     | `None`     |
//! | `laa` | `format_args!("L{}{}", x, y)`          | L x y     | `None`     |
//! | `aal` | `format_args!("{}{}L", x, y)`          | x y L     | `None`     |
//!
//! A literal is looked up by its RENDERED bytes (so the case line itself says what the literal is;
//! `{{`/`}}` in the source render as `{`/`}`); a literal that is not in the table is `None`
//! (`bad-op`), never a run-time substitute.

macro_rules! a5 { () => { "aaaaa" }; }
macro_rules! a25 { () => { concat!(a5!(), a5!(), a5!(), a5!(), a5!()) }; }
macro_rules! a125 { () => { concat!(a25!(), a25!(), a25!(), a25!(), a25!()) }; }
/// 255 bytes (NAME_MAX), no separator
macro_rules! lit255 { () => { concat!(a125!(), a125!(), a5!()) }; }
macro_rules! b5 { () => { "bbbbb" }; }
macro_rules! b25 { () => { concat!(b5!(), b5!(), b5!(), b5!(), b5!()) }; }
macro_rules! b125 { () => { concat!(b25!(), b25!(), b25!(), b25!(), b25!()) }; }
/// 300 bytes: '/' + 298 x 'b' + '/'
macro_rules! lit300 { () => { concat!("/", b125!(), b125!(), b25!(), b5!(), b5!(), b5!(), b5!(), "bbb", "/") }; }

macro_rules! fmt_table {
    ($( $key:expr => $lit:expr ),* $(,)?) => {
        /// rendered bytes of every literal in the table
        pub fn keys() -> Vec<&'static [u8]> {
            vec![ $( ($key).as_bytes() ),* ]
        }

        /// calls `f` with the `Arguments` of shape `form` built around the compiled literal whose
        /// rendering is `lit`; `None` when the literal / form is not in the table or the unused
        /// arguments are not empty
        pub fn with<R>(lit: &[u8], form: &str, x: &str, y: &str, f: &mut dyn FnMut(core::fmt::Arguments<'_>) -> R) -> Option<R> {
            let arity = match form {
                "l" => 0,
                "la" | "al" | "lal" | "a" => 1,
                "ala" | "laa" | "aal" => 2,
                _ => return None,
            };
            if arity < 2 && !y.is_empty() || arity < 1 && !x.is_empty() || form == "a" && !lit.is_empty() {
                return None;
            }
            $(
                if lit == ($key).as_bytes() {
                    return Some(match form {
                        "l" => f(format_args!($lit)),
                        "la" => f(format_args!(concat!($lit, "{}"), x)),
                        "al" => f(format_args!(concat!("{}", $lit), x)),
                        "lal" => f(format_args!(concat!($lit, "{}", $lit), x)),
                        "a" => f(format_args!("{}", x)),
                        "ala" => f(format_args!(concat!("{}", $lit, "{}"), x, y)),
                        "laa" => f(format_args!(concat!($lit, "{}{}"), x, y)),
                        _ => f(format_args!(concat!("{}{}", $lit), x, y)),
                    });
                }
            )*
            None
        }
    };
}

fmt_table! {
    "" => "",
    "a" => "a",
    "/a" => "/a",
    "a/" => "a/",
    "/" => "/",
    "//x" => "//x",
    "a/b" => "a/b",
    "." => ".",
    "./b" => "./b",
    "there" => "there",
    "/there" => "/there",
    "//" => "//",
    "/a/" => "/a/",
    "a\0b" => "a\0b",
    "a\0" => "a\0",
    "\0" => "\0",
    "/\0" => "/\0",
    "{}" => "{{}}",
    "/{a}" => "/{{a}}",
    "}/{" => "}}/{{",
    lit255!() => lit255!(),
    lit300!() => lit300!(),
}
