//! C10/C11 correspondence harness: calls the *real* rusl `UnixStr`/`UnixString` operations on
//! hex-encoded operands, one case per stdin line, and prints the RAW bytes of every produced value
//! (`as_slice()` level, terminator included — never `as_str()`, which hides the last byte).
//!
//! Every operand handed to rusl lives at the very end of an mmap'd region that is followed by a
//! PROT_NONE page, and all cases run in a forked worker: a read past the end of an operand is a
//! SIGSEGV in the worker, which the supervisor reports as `oob` for exactly that case and then
//! continues with a fresh worker.
#![allow(clippy::all)]
use rusl::string::unix_str::{UnixStr, UnixString};
use rusl::unix_lit;
use std::io::{BufRead, Write};
use std::str::FromStr;

mod fmt_shapes;

extern "C" {
    fn fork() -> i32;
    fn waitpid(pid: i32, status: *mut i32, options: i32) -> i32;
    fn pipe(fds: *mut i32) -> i32;
    fn read(fd: i32, buf: *mut u8, n: usize) -> isize;
    fn write(fd: i32, buf: *const u8, n: usize) -> isize;
    fn close(fd: i32) -> i32;
    fn _exit(code: i32) -> !;
    fn mmap(addr: *mut u8, len: usize, prot: i32, flags: i32, fd: i32, off: i64) -> *mut u8;
    fn mprotect(addr: *mut u8, len: usize, prot: i32) -> i32;
}

const PAGE: usize = 4096;
const DATA_PAGES: usize = 3;

/// a region `[DATA_PAGES rw pages][1 PROT_NONE page]`; operands are copied so that they end exactly
/// where the inaccessible page begins
struct Guarded {
    base: *mut u8,
}

impl Guarded {
    fn new() -> Self {
        unsafe {
            let len = (DATA_PAGES + 1) * PAGE;
            let base = mmap(core::ptr::null_mut(), len, 3, 0x22, -1, 0); // RW, PRIVATE|ANON
            assert!(!base.is_null() && base as isize != -1);
            assert_eq!(0, mprotect(base.add(DATA_PAGES * PAGE), PAGE, 0));
            Guarded { base }
        }
    }
    fn put<'a>(&'a self, b: &[u8]) -> &'a [u8] {
        assert!(b.len() <= DATA_PAGES * PAGE);
        unsafe {
            let end = self.base.add(DATA_PAGES * PAGE);
            let start = end.sub(b.len());
            core::ptr::copy_nonoverlapping(b.as_ptr(), start, b.len());
            core::slice::from_raw_parts(start, b.len())
        }
    }
    /// placement for the `at <n>` cases: the operand is a SUB-SLICE of the region that starts at an
    /// address congruent to `k` modulo 16 (as close to the inaccessible page as that allows, so at
    /// most 15 readable bytes follow it); the 32 bytes before it and the bytes behind it hold `fill`
    fn put_at<'a>(&'a self, b: &[u8], k: usize, fill: u8) -> &'a [u8] {
        assert!(b.len() + 64 <= DATA_PAGES * PAGE && k < 16);
        unsafe {
            let end = self.base.add(DATA_PAGES * PAGE);
            let raw = end as usize - b.len();
            let pad = raw.wrapping_sub(k) % 16;
            let start = end.sub(b.len() + pad);
            debug_assert_eq!(start as usize % 16, k);
            core::ptr::write_bytes(start.sub(32), fill, 32);
            core::ptr::copy_nonoverlapping(b.as_ptr(), start, b.len());
            core::ptr::write_bytes(start.add(b.len()), fill, pad);
            core::slice::from_raw_parts(start, b.len())
        }
    }
}

/// where the operands of one case are placed: directly before the guard page (`None`, the default)
/// or at chosen start alignments with chosen surrounding bytes (`at <n>`: n = ka + 16*kb + 256*fill)
#[derive(Clone, Copy)]
struct Place(Option<(usize, usize, u8)>);

const FILLS: [u8; 4] = [0xAA, b'/', 0x00, b'a'];

impl Place {
    fn parse(s: &str) -> Option<Place> {
        if s.is_empty() || s.len() > 4 || !s.bytes().all(|c| c.is_ascii_digit()) {
            return None;
        }
        let n: usize = s.parse().ok()?;
        if n >= 1024 {
            return None;
        }
        Some(Place(Some((n & 15, (n >> 4) & 15, FILLS[(n >> 8) & 3]))))
    }
    fn a<'a>(&self, g: &'a Guarded, b: &[u8]) -> &'a [u8] {
        match self.0 {
            None => g.put(b),
            Some((ka, _, f)) => g.put_at(b, ka, f),
        }
    }
    fn b<'a>(&self, g: &'a Guarded, b: &[u8]) -> &'a [u8] {
        match self.0 {
            None => g.put(b),
            Some((_, kb, f)) => g.put_at(b, kb, f),
        }
    }
}

fn unhex(s: &str) -> Option<Vec<u8>> {
    if s == "-" {
        return Some(Vec::new());
    }
    if s.len() % 2 != 0 {
        return None;
    }
    let b = s.as_bytes();
    let mut out = Vec::with_capacity(b.len() / 2);
    for p in b.chunks(2) {
        let h = (p[0] as char).to_digit(16)?;
        let l = (p[1] as char).to_digit(16)?;
        out.push((h * 16 + l) as u8);
    }
    Some(out)
}

fn hex(b: &[u8]) -> String {
    if b.is_empty() {
        return "-".to_string();
    }
    let mut s = String::with_capacity(b.len() * 2);
    for x in b {
        s.push_str(&format!("{:02x}", x));
    }
    s
}

fn errkind(e: &rusl::Error) -> &'static str {
    if e.msg.contains("out of place") {
        "interior"
    } else if e.msg.contains("not null terminated") || e.msg.contains("isn't null terminated") {
        "noterm"
    } else {
        "other"
    }
}

fn res_owned(r: Result<UnixString, rusl::Error>) -> String {
    match r {
        Ok(u) => format!("ok {} {}", hex(u.as_slice()), u.len()),
        Err(e) => format!("err {}", errkind(&e)),
    }
}

fn res_borrowed(r: Result<&UnixStr, rusl::Error>) -> String {
    match r {
        Ok(u) => format!("ok {} {}", hex(u.as_slice()), u.len()),
        Err(e) => format!("err {}", errkind(&e)),
    }
}

fn ascii(b: &[u8]) -> Option<&str> {
    if b.iter().any(|x| *x >= 0x80) {
        return None;
    }
    core::str::from_utf8(b).ok()
}

/// literals available through the `unix_lit!` macro (compile-time validated)
fn lit_table(b: &[u8]) -> Option<&'static UnixStr> {
    Some(match b {
        b"" => unix_lit!(""),
        b"a" => unix_lit!("a"),
        b"/" => unix_lit!("/"),
        b"." => unix_lit!("."),
        b"a/b" => unix_lit!("a/b"),
        b"/etc/passwd" => unix_lit!("/etc/passwd"),
        b"hello/there/friend" => unix_lit!("hello/there/friend"),
        b"//" => unix_lit!("//"),
        _ => return None,
    })
}

fn opt_usize(o: Option<usize>) -> String {
    match o {
        Some(n) => format!("some {}", n),
        None => "none".to_string(),
    }
}

/// `formats <lit> <form> <x> <y>` / `join_fmts <a> <lit> <form> <x> <y>` / `fmtshape <lit> <form>`:
/// the entry points taking `fmt::Arguments`, fed every SHAPE of `Arguments` built around a format
/// string that is a literal in the harness source (see fmt_shapes.rs)
fn run_fmt_case(w: &[&str], ga: &Guarded, gb: &Guarded, pl: Place) -> String {
    let bad = || "bad-op".to_string();
    let (base, rest) = match (w[0], w.len()) {
        ("formats", 5) => (None, &w[1..]),
        ("join_fmts", 6) => (Some(w[1]), &w[2..]),
        ("fmtshape", 3) => {
            let Some(lit) = unhex(w[1]) else { return bad() };
            let (x, y) = match w[2] {
                "l" => ("", ""),
                "la" | "al" | "lal" | "a" => ("z", ""),
                _ => ("z", "z"),
            };
            return match fmt_shapes::with(&lit, w[2], x, y, &mut |args| args.as_str().is_some()) {
                Some(true) => "shape some".to_string(),
                Some(false) => "shape none".to_string(),
                None => bad(),
            };
        }
        _ => return bad(),
    };
    let (Some(lit), Some(x), Some(y)) = (unhex(rest[0]), unhex(rest[2]), unhex(rest[3])) else { return bad() };
    let form = rest[1];
    // the run-time arguments are operands like any other (placed / guarded); the literal is code
    let x = pl.b(gb, &x);
    let (Some(x), Some(y)) = (ascii(x), ascii(&y)) else { return bad() };
    match base {
        None => match fmt_shapes::with(&lit, form, x, y, &mut |args| UnixString::from_format(args)) {
            Some(u) => format!("ok {} {}", hex(u.as_slice()), u.len()),
            None => bad(),
        },
        Some(a) => {
            let Some(a) = unhex(a) else { return bad() };
            let a = pl.a(ga, &a);
            // validity of the literal / form / arity is decided before `self` is looked at
            if fmt_shapes::with(&lit, form, x, y, &mut |_| ()).is_none() {
                return bad();
            }
            let sa = match UnixStr::try_from_bytes(a) {
                Ok(s) => s,
                Err(_) => return "reject".to_string(),
            };
            match fmt_shapes::with(&lit, form, x, y, &mut |args| sa.path_join_fmt(args)) {
                Some(u) => format!("ok {} {}", hex(u.as_slice()), u.len()),
                None => bad(),
            }
        }
    }
}

fn run_case(w: &[&str], n: u64, ga: &Guarded, gb: &Guarded, pl: Place) -> String {
    if matches!(w[0], "formats" | "join_fmts" | "fmtshape") {
        return run_fmt_case(w, ga, gb, pl);
    }
    if w.len() > 3 {
        return "bad-op".to_string();
    }
    let a = match w.get(1).and_then(|s| unhex(s)) {
        Some(a) => a,
        None => return "bad-op".to_string(),
    };
    let b = match w.get(2) {
        Some(s) => match unhex(s) {
            Some(b) => Some(b),
            None => return "bad-op".to_string(),
        },
        None => None,
    };
    let a = pl.a(ga, &a);
    let op = w[0];
    const UNARY: &[&str] = &[
        "ustr_bytes", "ustr_str", "ustring_bytes", "ustring_vec", "ustring_str", "ustring_string",
        "ustring_fromstr", "ustring_vec_cap", "ustring_string_cap", "const", "lit", "format", "dname", "parent", "file_name", "own",
    ];
    const BINARY: &[&str] = &["join", "join_fmt", "find", "find_buf", "ends_with", "match", "match_str", "find_alias", "ends_with_alias", "match_alias"];
    if !(b.is_none() && UNARY.contains(&op) || b.is_some() && BINARY.contains(&op)) {
        return "bad-op".to_string();
    }
    // ---- constructors / conversions: operand is an arbitrary byte string
    match (op, &b) {
        ("ustr_bytes", None) => return res_borrowed(UnixStr::try_from_bytes(a)),
        ("ustr_str", None) => {
            return match ascii(a) {
                Some(s) => res_borrowed(UnixStr::try_from_str(s)),
                None => "bad-op".to_string(),
            }
        }
        ("ustring_bytes", None) => return res_owned(UnixString::try_from_bytes(a)),
        ("ustring_vec", None) => return res_owned(UnixString::try_from_vec(a.to_vec())),
        // the same owning entry points handed a buffer with spare capacity (holding non-zero garbage) behind the payload
        ("ustring_vec_cap", None) => {
            let mut v = a.to_vec();
            let n = v.len();
            v.extend_from_slice(&[0xAA; 24]);
            v.truncate(n);
            return res_owned(UnixString::try_from_vec(v));
        }
        ("ustring_string_cap", None) => {
            return match ascii(a) {
                Some(s) => {
                    let mut o = String::with_capacity(s.len() + 17);
                    o.push_str(s);
                    o.push_str("garbage-behind-it");
                    o.truncate(s.len());
                    res_owned(UnixString::try_from_string(o))
                }
                None => "bad-op".to_string(),
            }
        }
        ("ustring_str", None) => {
            return match ascii(a) {
                Some(s) => res_owned(UnixString::try_from_str(s)),
                None => "bad-op".to_string(),
            }
        }
        ("ustring_string", None) => {
            return match ascii(a) {
                Some(s) => res_owned(UnixString::try_from_string(s.to_string())),
                None => "bad-op".to_string(),
            }
        }
        ("ustring_fromstr", None) => {
            return match ascii(a) {
                Some(s) => res_owned(UnixString::from_str(s)),
                None => "bad-op".to_string(),
            }
        }
        ("const", None) => {
            return match ascii(a) {
                Some(s) => {
                    let u = UnixStr::from_str_checked(s);
                    format!("ok {} {}", hex(u.as_slice()), u.len())
                }
                None => "bad-op".to_string(),
            }
        }
        ("lit", None) => {
            return match lit_table(a) {
                Some(u) => format!("ok {} {}", hex(u.as_slice()), u.len()),
                None => "bad-op".to_string(),
            }
        }
        ("format", None) => {
            return match ascii(a) {
                Some(s) => {
                    let u = match n % 3 {
                        0 => UnixString::from_format(format_args!("{}", s)),
                        1 => {
                            let (x, y) = s.split_at(s.len() / 2);
                            UnixString::from_format(format_args!("{x}{y}"))
                        }
                        _ => {
                            let (x, y) = s.split_at(s.len().min(1));
                            UnixString::from_format(format_args!("{}{}", x, y))
                        }
                    };
                    format!("ok {} {}", hex(u.as_slice()), u.len())
                }
                None => "bad-op".to_string(),
            }
        }
        ("dname", None) => {
            // DirEntry::file_unix_name: d_name[..=buf_strlen(d_name)?] (tiny-std/src/fs.rs); the real
            // buf_strlen on the buffer, then the same inclusive re-slice
            return match rusl::string::strlen::buf_strlen(a) {
                Ok(len) => match a.get(..=len) {
                    Some(t) => format!("ok {} {}", hex(t), t.len()),
                    None => "panic".to_string(),
                },
                Err(e) => format!("err {}", errkind(&e)),
            };
        }
        _ => {}
    }
    // ---- methods: `self` must be a UnixStr obtained from the safe borrowed constructor
    let sa = match UnixStr::try_from_bytes(a) {
        Ok(s) => s,
        Err(_) => return "reject".to_string(),
    };
    match (op, b) {
        ("parent", None) => match sa.parent_path() {
            Some(p) => format!("some {} {}", hex(p.as_slice()), p.len()),
            None => "none".to_string(),
        },
        ("file_name", None) => match sa.path_file_name() {
            Some(p) => format!("some {} {}", hex(p.as_slice()), p.len()),
            None => "none".to_string(),
        },
        ("own", None) => {
            // From<&UnixStr> for UnixString, Deref and AsRef round trip
            let o = UnixString::from(sa);
            let d: &UnixStr = &o;
            let r: &UnixStr = o.as_ref();
            if d.as_slice() != r.as_slice() {
                return "mismatch".to_string();
            }
            format!("ok {} {}", hex(d.as_slice()), d.len())
        }
        ("join_fmt", Some(p)) => match ascii(&p) {
            Some(s) => {
                let u = match n % 2 {
                    0 => sa.path_join_fmt(format_args!("{}", s)),
                    _ => {
                        let (x, y) = s.split_at(s.len() / 2);
                        sa.path_join_fmt(format_args!("{x}{y}"))
                    }
                };
                format!("ok {} {}", hex(u.as_slice()), u.len())
            }
            None => "bad-op".to_string(),
        },
        ("find_buf", Some(p)) => opt_usize(sa.find_buf(pl.b(gb, &p))),
        ("match_str", Some(p)) => {
            let p = pl.b(gb, &p);
            // any valid UTF-8 is a legal &str operand (multi-byte characters included)
            match core::str::from_utf8(p) {
                Ok(s) => format!("val {}", sa.match_up_to_str(s)),
                Err(_) => "bad-op".to_string(),
            }
        }
        // the second operand ALIASES the first: it is the tail of the very same buffer starting at byte `off`
        (op2 @ ("find_alias" | "ends_with_alias" | "match_alias"), Some(offb)) => {
            let off = offb.iter().fold(0usize, |acc, x| acc * 256 + *x as usize);
            if off >= sa.as_slice().len() {
                return "bad-op".to_string();
            }
            let sb = match UnixStr::try_from_bytes(&sa.as_slice()[off..]) {
                Ok(s) => s,
                Err(_) => return "reject".to_string(),
            };
            match op2 {
                "find_alias" => opt_usize(sa.find(sb)),
                "ends_with_alias" => format!("{}", sa.ends_with(sb)),
                _ => format!("val {}", sa.match_up_to(sb)),
            }
        }
        (op2, Some(bb)) => {
            let sb = match UnixStr::try_from_bytes(pl.b(gb, &bb)) {
                Ok(s) => s,
                Err(_) => return "reject".to_string(),
            };
            match op2 {
                "join" => {
                    let u = sa.path_join(sb);
                    format!("ok {} {}", hex(u.as_slice()), u.len())
                }
                "find" => opt_usize(sa.find(sb)),
                "ends_with" => format!("{}", sa.ends_with(sb)),
                "match" => format!("val {}", sa.match_up_to(sb)),
                _ => "bad-op".to_string(),
            }
        }
        _ => "bad-op".to_string(),
    }
}

/// names of a real directory as `DirEntry::file_unix_name` returns them (raw bytes), sorted
fn dirnames(path: &str) -> String {
    let p = match UnixString::try_from_str(path) {
        Ok(p) => p,
        Err(_) => return "bad-op".to_string(),
    };
    let dir = match tiny_std::fs::Directory::open(&p) {
        Ok(d) => d,
        Err(_) => return "err open".to_string(),
    };
    let mut names: Vec<String> = Vec::new();
    for e in dir.read() {
        match e {
            Ok(e) => match e.file_unix_name() {
                Ok(u) => names.push(hex(u.as_slice())),
                Err(_) => names.push("err".to_string()),
            },
            Err(_) => return "err read".to_string(),
        }
    }
    names.sort();
    format!("names {}", names.join(" "))
}

fn worker(lines: &[String], first: usize, fd: i32) {
    let ga = Guarded::new();
    let gb = Guarded::new();
    for (k, line) in lines.iter().enumerate().skip(first) {
        let w: Vec<&str> = line.split_whitespace().collect();
        let res = if w.is_empty() {
            "bad-op".to_string()
        } else if w[0] == "mode" {
            "ok".to_string()
        } else if w[0] == "fmtkeys" && w.len() == 1 {
            // the compiled literal table (rendered bytes), for the check's table-equality observation
            format!("keys {}", fmt_shapes::keys().iter().map(|k| hex(k)).collect::<Vec<_>>().join(" "))
        } else if w[0] == "dirnames" && w.len() == 2 {
            dirnames(w[1])
        } else {
            // `at <n> op a [b]`: the same case with the operands placed at chosen alignments
            let (pl, w): (Option<Place>, &[&str]) = if w[0] == "at" && w.len() >= 4 {
                (Place::parse(w[1]), &w[2..])
            } else {
                (Some(Place(None)), &w[..])
            };
            match pl {
                None => "bad-op".to_string(),
                Some(pl) => {
                    let n = k as u64;
                    let (ga, gb) = (&ga, &gb);
                    match std::panic::catch_unwind(std::panic::AssertUnwindSafe(|| run_case(w, n, ga, gb, pl))) {
                        Ok(s) => s,
                        Err(_) => "panic".to_string(),
                    }
                }
            }
        };
        let mut out = res.into_bytes();
        out.push(b'\n');
        let mut off = 0;
        while off < out.len() {
            let r = unsafe { write(fd, out.as_ptr().add(off), out.len() - off) };
            if r <= 0 {
                unsafe { _exit(3) };
            }
            off += r as usize;
        }
    }
}

fn main() {
    std::panic::set_hook(Box::new(|_| {}));
    let lines: Vec<String> = std::io::stdin().lock().lines().map(|l| l.unwrap()).collect();
    let stdout = std::io::stdout();
    let mut out = std::io::BufWriter::new(stdout.lock());
    let mut next = 0usize;
    while next < lines.len() {
        let mut fds = [0i32; 2];
        assert_eq!(0, unsafe { pipe(fds.as_mut_ptr()) });
        out.flush().unwrap();
        let pid = unsafe { fork() };
        assert!(pid >= 0);
        if pid == 0 {
            unsafe { close(fds[0]) };
            worker(&lines, next, fds[1]);
            unsafe { _exit(0) };
        }
        unsafe { close(fds[1]) };
        let mut got: Vec<u8> = Vec::new();
        let mut buf = [0u8; 65536];
        loop {
            let r = unsafe { read(fds[0], buf.as_mut_ptr(), buf.len()) };
            if r <= 0 {
                break;
            }
            got.extend_from_slice(&buf[..r as usize]);
        }
        unsafe { close(fds[0]) };
        let mut status = 0i32;
        unsafe { waitpid(pid, &mut status, 0) };
        // only complete lines count
        let text = String::from_utf8_lossy(&got);
        let mut done = 0usize;
        for l in text.split_inclusive('\n') {
            if l.ends_with('\n') {
                out.write_all(l.as_bytes()).unwrap();
                done += 1;
            }
        }
        next += done;
        let sig = status & 0x7f;
        if next < lines.len() {
            // the worker died on case `next`
            if sig == 11 || sig == 7 {
                writeln!(out, "oob").unwrap();
            } else {
                writeln!(out, "abort {}", status).unwrap();
            }
            next += 1;
        }
    }
    out.flush().unwrap();
}
