//! C20 correspondence harness: the structs in `gen_shapes.rs` (written by checks/c20.py from its shape table,
//! the same table that produces lean/TinyVerif/Gen/CliShapes.lean) carry the *real* `#[derive(ArgParse)]` /
//! `#[derive(Subcommand)]` from /repo/tiny-cli; each stdin line `<shape> <hex-arg>*` is parsed in-process by the
//! derived parser (`catch_unwind`), one canonical line out:
//!   `ok <dump>` | `err <help-path> <cause-hex | U>` | `panic` | `bad-op`
#![allow(dead_code, unused_imports, non_snake_case, clippy::all)]
use std::io::{BufRead, Write};
use tiny_std::UnixStr;

#[rustfmt::skip]
mod gen_shapes;

pub fn hexs(b: &[u8]) -> String {
    if b.is_empty() {
        return "-".to_string();
    }
    let mut s = String::with_capacity(b.len() * 2);
    for x in b {
        s.push_str(&format!("{:02x}", x));
    }
    s
}

fn unhex(s: &str) -> Option<Vec<u8>> {
    if s == "-" {
        return Some(vec![]);
    }
    if s.len() % 2 != 0 {
        return None;
    }
    let b = s.as_bytes();
    let mut out = Vec::with_capacity(b.len() / 2);
    for i in (0..b.len()).step_by(2) {
        let h = (b[i] as char).to_digit(16)?;
        let l = (b[i + 1] as char).to_digit(16)?;
        out.push((h * 16 + l) as u8);
    }
    Some(out)
}

pub trait AtomDump {
    fn atom(&self) -> String;
}
impl AtomDump for &'static str {
    fn atom(&self) -> String {
        format!("S{}", hexs(self.as_bytes()))
    }
}
impl AtomDump for String {
    fn atom(&self) -> String {
        format!("S{}", hexs(self.as_bytes()))
    }
}
impl AtomDump for &'static UnixStr {
    fn atom(&self) -> String {
        let sl = self.as_slice();
        format!("S{}", hexs(&sl[..sl.len() - 1]))
    }
}
impl AtomDump for i32 {
    fn atom(&self) -> String {
        format!("I{}", self)
    }
}
pub fn opt<T: AtomDump>(o: &Option<T>) -> String {
    match o {
        Some(v) => v.atom(),
        None => "N".to_string(),
    }
}
pub fn many<T: AtomDump>(v: &[T]) -> String {
    format!("[{}]", v.iter().map(|x| x.atom()).collect::<Vec<_>>().join(";"))
}
pub fn flag(b: bool) -> String {
    if b { "T" } else { "F" }.to_string()
}

/// `err <path of the struct whose help printer is relevant_help> <cause text, hex>`
pub fn fmt_err(e: &tiny_std::unix::cli::ArgParseError, table: &[(&str, String)]) -> String {
    let help = e.relevant_help.to_string();
    let path = table.iter().find(|(_, h)| *h == help).map(|(p, _)| *p).unwrap_or("?");
    let cause = e.cause.to_string();
    assert!(e.cause.len() == cause.len());
    assert!(e.to_string() == format!("{}{}", help, cause));
    format!("err {} {}", path, hexs(cause.as_bytes()))
}

const OVERFLOW: &str = "Cause unknown, too many characters to write into output buffer (BUG)";
const UNREC: &str = "Unrecognized argument: ";

fn main() {
    std::panic::set_hook(Box::new(|_| {}));
    let stdin = std::io::stdin();
    let stdout = std::io::stdout();
    let mut out = std::io::BufWriter::new(stdout.lock());
    for line in stdin.lock().lines() {
        let line = line.unwrap();
        let mut w = line.split_ascii_whitespace();
        let Some(shape) = w.next() else {
            writeln!(out, "bad-op").unwrap();
            continue;
        };
        let shape = shape.to_string();
        let mut args: Vec<&'static UnixStr> = Vec::new();
        let mut bad = false;
        let mut non_ascii = false;
        for h in w {
            match unhex(h) {
                Some(mut b) => {
                    non_ascii |= b.iter().any(|x| *x >= 0x80);
                    b.push(0);
                    let leaked: &'static [u8] = Box::leak(b.into_boxed_slice());
                    match UnixStr::try_from_bytes(leaked) {
                        Ok(u) => args.push(u),
                        Err(_) => bad = true,
                    }
                }
                None => bad = true,
            }
        }
        if bad {
            writeln!(out, "bad-op").unwrap();
            continue;
        }
        let r = std::panic::catch_unwind(move || gen_shapes::dispatch(&shape, args));
        let s = match r {
            Ok(Some(s)) => s,
            Ok(None) => "bad-op".to_string(),
            Err(_) => "panic".to_string(),
        };
        // the `{:?}` text of a non-ASCII argument is not modelled: canonicalise (same rule in the driver)
        let s = if non_ascii && s.starts_with("err ") {
            let mut p = s.split(' ');
            let (_, path, ch) = (p.next(), p.next().unwrap_or("?"), p.next().unwrap_or("-"));
            let cause = unhex(ch).unwrap_or_default();
            if cause.starts_with(UNREC.as_bytes()) || cause == OVERFLOW.as_bytes() {
                format!("err {} U", path)
            } else {
                s
            }
        } else {
            s
        };
        writeln!(out, "{}", s).unwrap();
    }
    out.flush().unwrap();
}
