//! C17 correspondence harness: the *real* `IoUring::{get_next_sqe_slot, flush_submission_queue,
//! get_next_cqe}` from /repo run over ring memory owned by this process (hook
//! `IoUring::verif_from_raw_parts`, compiled with `--cfg tiny_std_verif`), with a simulated kernel
//! side (consume k submissions / post completions) that follows the op line.
//!
//! One case per stdin line:
//!   `ring <flags> <sqk> <cqk> <c> <cc> : <op> : <op> ...`
//!     flags = IoUringParamFlags bits (only SQPOLL=2, SQE128=1024, CQE32=2048 accepted),
//!     SQ has 2^sqk entries, CQ 2^cqk; every SQ counter (local head/tail, kernel head/tail)
//!     starts at c, both CQ counters at cc.
//!   ops:  `g <v>`  app: get_next_sqe_slot, on Some fill the slot's user_data with v
//!         `f`      app: flush_submission_queue
//!         `r`      app: get_next_cqe
//!         `h`      app: read once more through the reference the last successful get_next_cqe returned (below call
//!                  granularity: after any number of kernel steps)
//!         `k <n>`  kernel: consume up to n published submissions (reads the SQE slots)
//!         `p <v>*` kernel: post completions with these user_data values while the CQ has room
//! Output: one token per op: `s<idx>`|`sn`, `f<count>`, `c<user_data>`|`cn`,
//!         `k:<slot>=<v>,...`|`k:-`, `p<posted>`, or `panic` (the call panicked).
use rusl::platform::verif_hook::VerifRingParts;
use rusl::platform::{
    Fd, IoUring, IoUringCompletionQueueEntry, IoUringParamFlags, IoUringSubmissionQueueEntry,
};
use std::io::{BufRead, Write};
use std::mem::ManuallyDrop;
use std::panic::{catch_unwind, AssertUnwindSafe};

const SQPOLL: u32 = 2;
const SQE128: u32 = 1 << 10;
const CQE32: u32 = 1 << 11;

struct Sim {
    ring: ManuallyDrop<IoUring>,
    // shared words: [sq_khead, sq_ktail, sq_flags, sq_dropped, cq_khead, cq_ktail, cq_overflow]
    words: Box<[u32; 8]>,
    _array: Vec<u32>,
    sqes: Vec<[u64; 8]>,
    cqes: Vec<[u64; 2]>,
    sq_entries: u32,
    cq_entries: u32,
    sq_shift: u32,
    cq_shift: u32,
    /// the reference the last successful `get_next_cqe` returned (kept as a raw pointer)
    last_ref: Option<*const IoUringCompletionQueueEntry>,
}

fn rd(p: *const u32) -> u32 {
    unsafe { core::ptr::read_volatile(p) }
}
fn wr(p: *mut u32, v: u32) {
    unsafe { core::ptr::write_volatile(p, v) }
}

impl Sim {
    fn new(flags: u32, sqk: u32, cqk: u32, c: u32, cc: u32) -> Option<Sim> {
        if flags & !(SQPOLL | SQE128 | CQE32) != 0 || sqk > 10 || cqk > 10 {
            return None;
        }
        let mut f = IoUringParamFlags::empty();
        if flags & SQPOLL != 0 {
            f = f | IoUringParamFlags::IORING_SETUP_SQPOLL;
        }
        if flags & SQE128 != 0 {
            f = f | IoUringParamFlags::IORING_SETUP_SQE128;
        }
        if flags & CQE32 != 0 {
            f = f | IoUringParamFlags::IORING_SETUP_CQE32;
        }
        let sq_shift = u32::from(flags & SQE128 != 0);
        let cq_shift = u32::from(flags & CQE32 != 0);
        let sq_entries = 1u32 << sqk;
        let cq_entries = 1u32 << cqk;
        let mut words = Box::new([c, c, 0, 0, cc, cc, 0, 0]);
        let mut array: Vec<u32> = (0..sq_entries).collect();
        // poison pattern so that a read of a never-written slot is visible
        let mut sqes = vec![[0xdead_0000_0000_0000u64; 8]; (sq_entries << sq_shift) as usize];
        let mut cqes = vec![[0xbeef_0000_0000_0000u64; 2]; (cq_entries << cq_shift) as usize];
        let w = words.as_mut_ptr();
        let parts = unsafe {
            VerifRingParts {
                sq_kernel_head: w,
                sq_kernel_tail: w.add(1),
                sq_kernel_flags: w.add(2),
                sq_kernel_dropped: w.add(3),
                sq_kernel_array: array.as_mut_ptr(),
                sq_head: c,
                sq_tail: c,
                sq_ring_mask: sq_entries - 1,
                sq_ring_entries: sq_entries,
                sqes: sqes.as_mut_ptr().cast::<IoUringSubmissionQueueEntry>(),
                cq_kernel_head: w.add(4),
                cq_kernel_tail: w.add(5),
                cq_kernel_overflow: w.add(6),
                cq_ring_mask: cq_entries - 1,
                cq_ring_entries: cq_entries,
                cqes: cqes.as_mut_ptr().cast::<IoUringCompletionQueueEntry>(),
            }
        };
        let ring = unsafe { IoUring::verif_from_raw_parts(Fd::try_new(0).unwrap(), f, parts) };
        Some(Sim { ring: ManuallyDrop::new(ring), words, _array: array, sqes, cqes, sq_entries, cq_entries, sq_shift, cq_shift, last_ref: None })
    }

    fn get(&mut self, v: u64) -> String {
        let base = self.sqes.as_mut_ptr() as usize;
        let n = self.sqes.len();
        let r = catch_unwind(AssertUnwindSafe(|| self.ring.get_next_sqe_slot()));
        match r {
            Err(_) => "panic".into(),
            Ok(None) => "sn".into(),
            Ok(Some(p)) => {
                let off = (p as usize).wrapping_sub(base);
                if off % 64 != 0 || off / 64 >= n {
                    return format!("soob{}", off as isize);
                }
                // fill: the harness writes a whole 64-byte entry whose user_data is the stamp
                unsafe {
                    let e = p.cast::<[u64; 8]>();
                    (*e) = [0; 8];
                    (*p).0.user_data = v;
                }
                format!("s{}", off / 64)
            }
        }
    }

    fn flush(&mut self) -> String {
        match catch_unwind(AssertUnwindSafe(|| self.ring.flush_submission_queue())) {
            Err(_) => "panic".into(),
            Ok(n) => format!("f{}", n),
        }
    }

    fn reap(&mut self) -> String {
        match catch_unwind(AssertUnwindSafe(|| self.ring.get_next_cqe().map(|c| (c as *const IoUringCompletionQueueEntry, c.0.user_data)))) {
            Err(_) => "panic".into(),
            Ok(None) => "cn".into(),
            Ok(Some((p, u))) => {
                self.last_ref = Some(p);
                format!("c{}", u)
            }
        }
    }

    fn reread(&mut self) -> String {
        match self.last_ref {
            None => "cn".into(),
            Some(p) => format!("c{}", unsafe { core::ptr::read_volatile(p) }.0.user_data),
        }
    }

    /// kernel side, as io_uring does it: u32 wrapping counters, masked index
    fn consume(&mut self, k: u32) -> String {
        let w = self.words.as_mut_ptr();
        let mut out: Vec<String> = Vec::new();
        for _ in 0..k {
            let head = rd(w);
            let tail = rd(unsafe { w.add(1) });
            if head == tail {
                break;
            }
            let idx = ((head & (self.sq_entries - 1)) << self.sq_shift) as usize;
            let ud = unsafe { core::ptr::read_volatile(&self.sqes[idx][4]) };
            out.push(format!("{}={}", idx, ud));
            wr(w, head.wrapping_add(1));
        }
        if out.is_empty() { "k:-".into() } else { format!("k:{}", out.join(",")) }
    }

    fn post(&mut self, vals: &[u64]) -> String {
        let w = self.words.as_mut_ptr();
        let mut n = 0;
        for v in vals {
            let head = rd(unsafe { w.add(4) });
            let tail = rd(unsafe { w.add(5) });
            if tail.wrapping_sub(head) >= self.cq_entries {
                break;
            }
            let idx = ((tail & (self.cq_entries - 1)) << self.cq_shift) as usize;
            unsafe { core::ptr::write_volatile(&mut self.cqes[idx], [*v, 0]) };
            wr(unsafe { w.add(5) }, tail.wrapping_add(1));
            n += 1;
        }
        format!("p{}", n)
    }
}

fn run_case(line: &str) -> String {
    let mut parts = line.split(" : ");
    let hd: Vec<&str> = parts.next().unwrap_or("").split_whitespace().collect();
    let mut sim = match hd.as_slice() {
        ["ring", fl, sqk, cqk, c, cc] => {
            match (fl.parse::<u32>(), sqk.parse::<u32>(), cqk.parse::<u32>(), c.parse::<u32>(), cc.parse::<u32>()) {
                (Ok(fl), Ok(sqk), Ok(cqk), Ok(c), Ok(cc)) => match Sim::new(fl, sqk, cqk, c, cc) {
                    Some(s) => s,
                    None => return "bad-op".into(),
                },
                _ => return "bad-op".into(),
            }
        }
        _ => return "bad-op".into(),
    };
    let mut outs: Vec<String> = Vec::new();
    for op in parts {
        let w: Vec<&str> = op.split_whitespace().collect();
        let o = match w.as_slice() {
            ["g", v] => match v.parse::<u64>() { Ok(v) => sim.get(v), Err(_) => return "bad-op".into() },
            ["f"] => sim.flush(),
            ["r"] => sim.reap(),
            ["h"] => sim.reread(),
            ["k", n] => match n.parse::<u32>() { Ok(n) => sim.consume(n), Err(_) => return "bad-op".into() },
            ["p", vs @ ..] => {
                let mut vals = Vec::new();
                for v in vs {
                    match v.parse::<u64>() { Ok(v) => vals.push(v), Err(_) => return "bad-op".into() }
                }
                sim.post(&vals)
            }
            _ => return "bad-op".into(),
        };
        outs.push(o);
    }
    if outs.is_empty() { "ok".into() } else { outs.join(" ") }
}

/// `sqarray <entries> <flags>`: the SQ index array as `setup_io_uring` leaves it on the running kernel
/// (the ring methods index the SQE array by `tail & mask`, so slot i must name SQE i)
fn sq_array_probe(entries: u32, flags: u32) -> String {
    use std::cell::RefCell;
    use std::rc::Rc;
    let seen: Rc<RefCell<(usize, u32, u32, usize)>> = Rc::new(RefCell::new((0, 0, 0, 0)));
    let s2 = seen.clone();
    sc::shim::set_handler(Box::new(move |nr, a, _| {
        if nr == sc::nr::IO_URING_SETUP {
            s2.borrow_mut().3 = a[1];
            return None;
        }
        if nr == sc::nr::MMAP && a[5] == 0 && (a[4] as i32) >= 0 {
            let r = unsafe { sc::raw_syscall6(nr, a[0], a[1], a[2], a[3], a[4], a[5]) };
            if (r as isize) > 0 {
                let p = s2.borrow().3 as *const u32; // io_uring_params: sq_entries = u32 0, sq_off.array = u32 16
                let (e, arr) = unsafe { (*p, *p.add(16)) };
                let mut g = s2.borrow_mut();
                g.0 = r;
                g.1 = e;
                g.2 = arr;
            }
            return Some(r);
        }
        None
    }));
    let r = rusl::io_uring::setup_io_uring(entries, unsafe { core::mem::transmute::<u32, rusl::platform::IoUringParamFlags>(flags) }, 0, 0);
    sc::shim::clear_handler();
    match r {
        Err(e) => format!("setup-err {}", e.code.map(|c| c.raw() as i64).unwrap_or(-1)),
        Ok(ring) => {
            let (addr, n, arr, _) = *seen.borrow();
            if addr == 0 {
                return "no-ring-mapping-seen".into();
            }
            let base = (addr + arr as usize) as *const u32;
            let v: Vec<String> = (0..n as usize).map(|i| unsafe { core::ptr::read_volatile(base.add(i)) }.to_string()).collect();
            drop(ring);
            format!("arr {} {}", n, v.join(","))
        }
    }
}

/// `layout <entries> <flags> <sq_thread_idle>`: every pointer / mask / size that `setup_io_uring` stores in the `IoUring`
/// it returns, compared with the kernel's answer (`io_uring_params` offsets applied to the three ring mappings) on the
/// running kernel.  `ok` or the list of fields that differ.
fn layout_probe(entries: u32, flags: u32, idle: u32) -> String {
    use std::cell::RefCell;
    use std::rc::Rc;
    #[derive(Default)]
    struct Seen {
        params: usize,
        p: Vec<u32>,
        maps: Vec<(usize, usize)>, // (mmap offset argument, result address)
    }
    let seen: Rc<RefCell<Seen>> = Rc::new(RefCell::new(Seen::default()));
    let s2 = seen.clone();
    sc::shim::set_handler(Box::new(move |nr, a, _| {
        if nr == sc::nr::IO_URING_SETUP {
            s2.borrow_mut().params = a[1];
            return None;
        }
        if nr == sc::nr::MMAP && (a[4] as i32) >= 0 {
            let r = unsafe { sc::raw_syscall6(nr, a[0], a[1], a[2], a[3], a[4], a[5]) };
            if (r as isize) > 0 {
                let mut g = s2.borrow_mut();
                let p = g.params as *const u32; // struct io_uring_params: 30 u32 words
                g.p = (0..30).map(|i| unsafe { *p.add(i) }).collect();
                g.maps.push((a[5], r));
            }
            return Some(r);
        }
        None
    }));
    let r = rusl::io_uring::setup_io_uring(entries, unsafe { core::mem::transmute::<u32, rusl::platform::IoUringParamFlags>(flags) }, 0, idle);
    sc::shim::clear_handler();
    match r {
        Err(e) => format!("setup-err {}", e.code.map(|c| c.raw() as i64).unwrap_or(-1)),
        Ok(ring) => {
            let g = seen.borrow();
            if g.p.len() != 30 {
                return "no-ring-mapping-seen".into();
            }
            let find = |off: usize| g.maps.iter().find(|m| m.0 == off).map(|m| m.1);
            let sqb = match find(0) {
                Some(b) => b,
                None => return "no-sq-ring-mapping".into(),
            };
            let single = g.p[5] & 1 != 0; // IORING_FEAT_SINGLE_MMAP
            let cqb = if single { sqb } else { find(0x800_0000).unwrap_or(0) };
            let sqes = find(0x1000_0000).unwrap_or(0);
            let (parts, cqflags) = ring.verif_raw_parts();
            let rd = |a: usize| unsafe { core::ptr::read_volatile(a as *const u32) };
            let p = &g.p;
            let mut bad: Vec<String> = Vec::new();
            let mut chk = |name: &str, got: usize, want: usize| {
                if got != want {
                    bad.push(format!("{}:got=sq{:+}/cq{:+},want=sq{:+}", name, got as isize - sqb as isize, got as isize - cqb as isize, want as isize - sqb as isize));
                }
            };
            chk("sq.kernel_head", parts.sq_kernel_head as usize, sqb + p[10] as usize);
            chk("sq.kernel_tail", parts.sq_kernel_tail as usize, sqb + p[11] as usize);
            chk("sq.kernel_flags", parts.sq_kernel_flags as usize, sqb + p[14] as usize);
            chk("sq.kernel_dropped", parts.sq_kernel_dropped as usize, sqb + p[15] as usize);
            chk("sq.kernel_array", parts.sq_kernel_array as usize, sqb + p[16] as usize);
            chk("sq.entries", parts.sqes as usize, sqes);
            chk("cq.kernel_head", parts.cq_kernel_head as usize, cqb + p[20] as usize);
            chk("cq.kernel_tail", parts.cq_kernel_tail as usize, cqb + p[21] as usize);
            chk("cq.kernel_overflow", parts.cq_kernel_overflow as usize, cqb + p[24] as usize);
            chk("cq.entries", parts.cqes as usize, cqb + p[25] as usize);
            if cqflags != 0 {
                chk("cq.kernel_flags", cqflags, cqb + p[26] as usize);
            }
            chk("sq.ring_mask", parts.sq_ring_mask as usize, rd(sqb + p[12] as usize) as usize);
            chk("sq.ring_entries", parts.sq_ring_entries as usize, rd(sqb + p[13] as usize) as usize);
            chk("cq.ring_mask", parts.cq_ring_mask as usize, rd(cqb + p[22] as usize) as usize);
            chk("cq.ring_entries", parts.cq_ring_entries as usize, rd(cqb + p[23] as usize) as usize);
            chk("sq.ring_entries=params", parts.sq_ring_entries as usize, p[0] as usize);
            chk("cq.ring_entries=params", parts.cq_ring_entries as usize, p[1] as usize);
            let n = p[0];
            drop(g);
            drop(ring);
            if bad.is_empty() { format!("layout-ok {}", n) } else { format!("layout-bad {}", bad.join(" ")) }
        }
    }
}

fn main() {
    std::panic::set_hook(Box::new(|_| {}));
    let stdin = std::io::stdin();
    let stdout = std::io::stdout();
    let mut out = std::io::BufWriter::new(stdout.lock());
    for line in stdin.lock().lines() {
        let line = line.unwrap();
        let t = line.trim();
        let w: Vec<&str> = t.split_whitespace().collect();
        let res = if t.starts_with("mode ") {
            "ok".to_string()
        } else if let ["wake", fw] = w.as_slice() {
            // IoUring::needs_wakeup over a ring whose SQ flags word holds <fw>
            match fw.parse::<u32>() {
                Ok(fw) => match Sim::new(0, 1, 1, 0, 0) {
                    Some(mut sim) => {
                        wr(unsafe { sim.words.as_mut_ptr().add(2) }, fw);
                        match catch_unwind(AssertUnwindSafe(|| sim.ring.needs_wakeup())) {
                            Ok(true) => "w1".to_string(),
                            Ok(false) => "w0".to_string(),
                            Err(_) => "panic".to_string(),
                        }
                    }
                    None => "bad-op".to_string(),
                },
                Err(_) => "bad-op".to_string(),
            }
        } else if let ["layout", e, f, i] = w.as_slice() {
            match (e.parse::<u32>(), f.parse::<u32>(), i.parse::<u32>()) {
                (Ok(e), Ok(f), Ok(i)) => layout_probe(e, f, i),
                _ => "bad-op".to_string(),
            }
        } else if let ["sqarray", e, f] = w.as_slice() {
            match (e.parse::<u32>(), f.parse::<u32>()) {
                (Ok(e), Ok(f)) => sq_array_probe(e, f),
                _ => "bad-op".to_string(),
            }
        } else {
            run_case(t)
        };
        writeln!(out, "{}", res).unwrap();
    }
}
