//! MUST NOT COMPILE — contract (a): the `&IoUringCompletionQueueEntry` returned by `get_next_cqe` borrows the ring
//! mutably, so it cannot be alive at the next `get_next_cqe` call (E0499).  The lazy slot release of /repo bc63d9e
//! ("that reference borrowed `self`, so it cannot be alive any more") and the Lean statements `cq_content_held`
//! (the held entry is stable until the NEXT get_next_cqe) / `K2Inv`, `cqe_exactly_once_split` (at most ONE outstanding
//! reference) rely on it.  If this compiles: 100% safe "collect a batch, then process it" code; the second call hands
//! slot 0 back to the kernel while `batch[0]` still points into it, the kernel's third completion overwrites it.
use borrow_probes::{ring, submit_nop_and_wait, user_data_now, verdict, ROUNDS};

fn main() {
    let mut uring = ring();
    let mut batch = Vec::new();
    for seq in 1..=ROUNDS {
        submit_nop_and_wait(&mut uring, seq);
        let cqe = uring.get_next_cqe().expect("a completion");
        println!("hold: completion #{seq}: user_data at the time it was returned = {}", user_data_now(cqe));
        batch.push((seq, cqe));
    }
    let seen: Vec<(u64, u64)> = batch.iter().map(|(seq, cqe)| (*seq, user_data_now(cqe))).collect();
    verdict("must_fail_a_hold_across_next_cqe", &seen)
}
