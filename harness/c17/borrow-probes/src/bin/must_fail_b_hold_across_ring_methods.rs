//! MUST NOT COMPILE — contract (b): while the completion reference is alive no other `&mut self` ring method
//! (`get_next_sqe_slot`, `flush_submission_queue`) can be called (E0499).  The split-reap model of C18 (`kstep2`:
//! application ring methods answer `borrowed` while a reference is held; `cqe_exactly_once_split`) takes its op
//! language from this.  (Not needed for the content guarantee itself: `cq_content_held` allows get/flush in between —
//! if this compiles and runs, every completion is expected to keep its content.)
use borrow_probes::{ring, submit_nop_and_wait, user_data_now, verdict};
use rusl::platform::IoUringSubmissionQueueEntry;

fn main() {
    let mut uring = ring();
    submit_nop_and_wait(&mut uring, 1);
    let cqe = uring.get_next_cqe().expect("a completion");
    // react to the completion by queueing a follow-up submission while still looking at it
    let mut sqe: IoUringSubmissionQueueEntry = unsafe { core::mem::zeroed() };
    sqe.0.user_data = 2;
    let slot = uring.get_next_sqe_slot().expect("free SQ slot");
    unsafe { slot.write(sqe) };
    let _ = uring.flush_submission_queue();
    let got = user_data_now(cqe);
    verdict("must_fail_b_hold_across_ring_methods", &[(1, got)])
}
