//! MUST NOT COMPILE — contract (d): the completion reference cannot outlive the `IoUring` (E0505 / E0597): `Drop`
//! unmaps the completion ring, a read through the reference afterwards touches unmapped memory.  Every content
//! statement of the model (`cq_content`, `cq_content_held`) is about a ring that exists; C18's `setup_drop_balanced`
//! says Drop unmaps exactly the ring's mappings.
use borrow_probes::{ring, submit_nop_and_wait, user_data_now, verdict};

fn main() {
    let mut uring = ring();
    submit_nop_and_wait(&mut uring, 1);
    let cqe = uring.get_next_cqe().expect("a completion");
    drop(uring);
    let got = user_data_now(cqe); // the mapping is gone: SIGSEGV when this compiles
    verdict("must_fail_d_outlive_ring", &[(1, got)])
}
