//! POSITIVE CONTROL (must compile, must print OK): every completion is read BEFORE the next `get_next_cqe` call —
//! the usage the Lean model's atomic `reap` describes.
use borrow_probes::{ring, submit_nop_and_wait, user_data_now, verdict, ROUNDS};

fn main() {
    let mut uring = ring();
    let mut seen = Vec::new();
    for seq in 1..=ROUNDS {
        submit_nop_and_wait(&mut uring, seq);
        let cqe = uring.get_next_cqe().expect("a completion");
        seen.push((seq, user_data_now(cqe)));
    }
    assert!(uring.get_next_cqe().is_none());
    verdict("control_read_then_next", &seen)
}
