//! POSITIVE CONTROL (must compile, must print OK): the reference is held across `io_uring_enter` (takes the copied fd,
//! not the ring) and across kernel posts onto a FULL completion ring — allowed by the API and covered by the model
//! (`cq_content_held`: any kernel steps between `get_next_cqe` returning and the read; op `reread` / `h`, stream refrace).
use borrow_probes::{ring, user_data_now, verdict};
use rusl::io_uring::io_uring_enter;
use rusl::platform::{IoUringEnterFlags, IoUringSubmissionQueueEntry};

fn main() {
    let mut uring = ring();
    let fd = uring.fd;
    // three NOPs on a ring with two completion entries: the third completion waits on the kernel's overflow list
    for seq in 1..=3u64 {
        let mut sqe: IoUringSubmissionQueueEntry = unsafe { core::mem::zeroed() };
        sqe.0.user_data = seq;
        let slot = uring.get_next_sqe_slot().expect("free SQ slot");
        unsafe { slot.write(sqe) };
        let n = uring.flush_submission_queue();
        io_uring_enter(fd, n, 0, IoUringEnterFlags::empty()).expect("io_uring_enter");
    }
    let first = uring.get_next_cqe().expect("a completion");
    let before = user_data_now(first);
    io_uring_enter(fd, 0, 0, IoUringEnterFlags::IORING_ENTER_GETEVENTS).expect("io_uring_enter"); // kernel tries to flush its overflow list
    let after = user_data_now(first);
    verdict("control_hold_across_enter", &[(before, after), (1, before)])
}
