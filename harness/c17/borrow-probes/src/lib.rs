//! Shared helpers of the borrow-contract probes: a REAL kernel io_uring with ONE submission slot (the kernel then sizes
//! the completion ring to TWO entries), driven with NOP requests whose `user_data` is a sequence number.
//! Every probe is a complete program: the must-fail ones are also meant to be RUN when they unexpectedly compile
//! (exit 0 = every completion kept its content, exit 1 = a held completion changed under the reader).
use rusl::io_uring::{io_uring_enter, setup_io_uring};
use rusl::platform::{IoUring, IoUringCompletionQueueEntry, IoUringEnterFlags, IoUringParamFlags, IoUringSubmissionQueueEntry};

pub const ROUNDS: u64 = 4;

pub fn ring() -> IoUring {
    setup_io_uring(1, IoUringParamFlags::empty(), 0, 0).expect("io_uring_setup")
}

/// get slot + fill (NOP, user_data = seq), flush, let the kernel consume it and post its completion
pub fn submit_nop_and_wait(uring: &mut IoUring, seq: u64) {
    // IORING_OP_NOP == 0: an all-zero SQE with just user_data set is a NOP
    let mut sqe: IoUringSubmissionQueueEntry = unsafe { core::mem::zeroed() };
    sqe.0.user_data = seq;
    let slot = uring.get_next_sqe_slot().expect("free SQ slot");
    unsafe { slot.write(sqe) };
    let to_submit = uring.flush_submission_queue();
    let n = io_uring_enter(uring.fd, to_submit, 1, IoUringEnterFlags::IORING_ENTER_GETEVENTS).expect("io_uring_enter");
    assert_eq!(n, 1, "kernel consumed exactly the one flushed entry");
}

/// `user_data` of a completion entry through the reference (volatile: really read the ring memory)
pub fn user_data_now(cqe: &IoUringCompletionQueueEntry) -> u64 {
    unsafe { core::ptr::read_volatile(&cqe.0.user_data) }
}

/// verdict line + exit code shared by the probes
pub fn verdict(name: &str, seen: &[(u64, u64)]) -> ! {
    let mut bad = 0;
    for (seq, got) in seen {
        let ok = seq == got;
        if !ok { bad += 1; }
        println!("{name}: completion #{seq} as the application reads it through the reference it holds: user_data = {got} [{}]",
                 if ok { "ok" } else { "OVERWRITTEN BY THE KERNEL" });
    }
    if bad == 0 {
        println!("{name}: OK - every held completion kept the content the kernel wrote for it");
        std::process::exit(0);
    }
    println!("{name}: PROPERTY VIOLATED - {bad} of {} completions were not delivered with their content (lost; a later one is seen twice)", seen.len());
    std::process::exit(1);
}
