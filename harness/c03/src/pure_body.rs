// BODY of `mod dl { include!("/repo/tiny-std/src/allocator/dlmalloc.rs"); pub mod pure { use super::*; include!("pure_body.rs"); } }`
// — sees the private items of dlmalloc.rs.  Twin of lean/TinyVerif/Model/DlPureEval.lean (`evalPure`):
// same word protocol, calls the REAL constants / functions.  `None` = unknown name, wrong arity, or an
// argument that is not a plain decimal number of the parameter's type.  Overflow in the real code
// panics (debug build); the caller wraps the call in catch_unwind.

fn dec_ok(s: &str) -> bool {
    !s.is_empty() && s.bytes().all(|b| b.is_ascii_digit())
}

fn usize_arg(s: &str) -> Option<usize> {
    if dec_ok(s) {
        s.parse::<usize>().ok()
    } else {
        None
    }
}

fn u32_arg(s: &str) -> Option<u32> {
    if dec_ok(s) {
        s.parse::<u32>().ok()
    } else {
        None
    }
}

fn const_value(name: &str) -> Option<usize> {
    Some(match name {
        "NSMALLBINS" => NSMALLBINS,
        "NTREEBINS" => NTREEBINS,
        "SMALLBIN_SHIFT" => SMALLBIN_SHIFT,
        "TREEBIN_SHIFT" => TREEBIN_SHIFT,
        "DEFAULT_GRANULARITY" => DEFAULT_GRANULARITY,
        "DEFAULT_TRIM_THRESHOLD" => DEFAULT_TRIM_THRESHOLD,
        "MAX_RELEASE_CHECK_RATE" => MAX_RELEASE_CHECK_RATE,
        "PAGE_SIZE" => PAGE_SIZE,
        "PINUSE" => PINUSE,
        "CINUSE" => CINUSE,
        "FLAG4" => FLAG4,
        "INUSE" => INUSE,
        "FLAG_BITS" => FLAG_BITS,
        "FENCEPOST_HEAD" => Chunk::FENCEPOST_HEAD,
        "MEM_OFFSET" => Chunk::MEM_OFFSET,
        "MALLOC_ALIGNMENT" => Dlmalloc::MALLOC_ALIGNMENT,
        "CHUNK_OVERHEAD" => Dlmalloc::CHUNK_OVERHEAD,
        "MMAP_CHUNK_OVERHEAD" => Dlmalloc::MMAP_CHUNK_OVERHEAD,
        "MIN_LARGE_SIZE" => Dlmalloc::MIN_LARGE_SIZE,
        "MAX_SMALL_SIZE" => Dlmalloc::MAX_SMALL_SIZE,
        "MAX_SMALL_REQUEST" => Dlmalloc::MAX_SMALL_REQUEST,
        "MIN_CHUNK_SIZE" => Dlmalloc::MIN_CHUNK_SIZE,
        "MIN_REQUEST" => Dlmalloc::MIN_REQUEST,
        "MAX_REQUEST" => Dlmalloc::MAX_REQUEST,
        "SIZEOF_SEGMENT" => mem::size_of::<Segment>(),
        "SIZEOF_CHUNK" => mem::size_of::<Chunk>(),
        "SIZEOF_USIZE" => mem::size_of::<usize>(),
        _ => return None,
    })
}

pub fn eval_pure(words: &[&str]) -> Option<String> {
    Some(match words {
        ["const", n] => const_value(n)?.to_string(),
        ["align_up", a, b] => align_up(usize_arg(a)?, usize_arg(b)?).to_string(),
        ["left_bits", x] => left_bits(u32_arg(x)?).to_string(),
        ["least_bit", x] => least_bit(u32_arg(x)?).to_string(),
        ["leftshift_for_tree_index", x] => leftshift_for_tree_index(u32_arg(x)?).to_string(),
        ["const_max_request"] => Dlmalloc::const_max_request().to_string(),
        ["pad_request", a] => Dlmalloc::pad_request(usize_arg(a)?).to_string(),
        ["small_index", a] => Dlmalloc::small_index(usize_arg(a)?).to_string(),
        ["small_index2size", i] => Dlmalloc::small_index2size(u32_arg(i)?).to_string(),
        ["is_small", a] => Dlmalloc::is_small(usize_arg(a)?).to_string(),
        ["is_aligned", a] => Dlmalloc::is_aligned(usize_arg(a)?).to_string(),
        ["align_offset_usize", a] => Dlmalloc::align_offset_usize(usize_arg(a)?).to_string(),
        ["top_foot_size"] => Dlmalloc::top_foot_size().to_string(),
        ["mmap_foot_pad"] => Dlmalloc::mmap_foot_pad().to_string(),
        ["request2size", a] => Dlmalloc::request2size(usize_arg(a)?).to_string(),
        ["mmap_align", a] => Dlmalloc::mmap_align(usize_arg(a)?).to_string(),
        ["compute_tree_index", a] => Dlmalloc::compute_tree_index(usize_arg(a)?).to_string(),
        ["min_size_for_tree_index", i] => {
            // shift overflow from idx = 112 on; domain of interest 0..32: both sides reject idx > 64
            let i = u32_arg(i)?;
            if i > 64 {
                return None;
            }
            min_size_for_tree_index_dbg(i)?.to_string()
        }
        ["should_trim", a, b] => {
            let mut d = Dlmalloc::new();
            let a = usize_arg(a)?;
            d.trim_check = usize_arg(b)?;
            d.should_trim(a).to_string()
        }
        _ => return None,
    })
}

#[cfg(debug_assertions)]
fn min_size_for_tree_index_dbg(i: u32) -> Option<usize> {
    Some(Dlmalloc::min_size_for_tree_index(i))
}

#[cfg(not(debug_assertions))]
fn min_size_for_tree_index_dbg(_i: u32) -> Option<usize> {
    None
}
