//! C03 / C04 correspondence harness: drives the *real* tiny-std allocator (dlmalloc.rs textually
//! included from /repo, so its private state is reachable by the sibling walker) through the same
//! entry points the GlobalAlloc impl uses (malloc / calloc / realloc / free with size+align), one
//! operation per stdin line, and prints after every operation the result, the OS calls the
//! operation made, an in-process shadow-map verdict and the complete heap layout.
//!
//! OS side: every mmap/mremap/munmap the allocator issues goes through sc-shim.  They are served
//! from a PROT_NONE arena reserved at start-up, at the place the op line dictates, so runs are
//! deterministic, addresses are printed as arena offsets, every branch of sys_alloc (extend /
//! prepend / add_segment) can be forced, released memory faults when touched, and each call can be
//! refused (-ENOMEM).
//!
//! Lines:
//!   reset                               fresh allocator, arena emptied
//!   m <id> <size> <align> [| os..]      malloc      (ids name live blocks)
//!   c <id> <size> <align> [| os..]      calloc
//!   r <id> <newsize>      [| os..]      realloc of live block id (old size / align remembered)
//!   f <id>                [| os..]      free
//!   os tokens, record pass:  P<l|a|g|G|h|t> (placement policy for mmaps)  F<k> (refuse the k-th syscall of the op)
//!   os tokens, replay pass:  M<off> | M-   R+ | R-   U+ | U-     (one per syscall, in order)
//!   dump full|hash                      layout printed in full, or as FNV-1a hash
//!   verify <k>                          re-verify the byte patterns of ALL live blocks every k ops
//!   pure <fn> <args..>                  differential evaluation of the pure helpers
//! Answer: `p=<off|-|ok> chk=<ok|BAD..> os=<events|-> <summary> D=<layout> | H=<hash>`.
#![allow(warnings)]
use std::collections::BTreeMap;
use std::io::{BufRead, Write as _};
use std::panic::{catch_unwind, AssertUnwindSafe};

mod dl {
    include!("/repo/tiny-std/src/allocator/dlmalloc.rs");

    pub mod pure {
        use super::*;
        include!("pure_body.rs");
    }

    pub mod walk {
        use super::*;
        use std::fmt::Write;

        fn rel(p: usize, base: usize) -> String {
            if p == 0 {
                "-".to_string()
            } else {
                format!("{}", p.wrapping_sub(base))
            }
        }

        pub unsafe fn head_seg_end(a: &Dlmalloc) -> usize {
            if a.top.is_null() {
                0
            } else {
                a.seg.base as usize + a.seg.size
            }
        }

        pub unsafe fn summary(a: &Dlmalloc, base: usize) -> String {
            let tf = if a.top.is_null() { 0 } else { (*Chunk::plus_offset(a.top, a.topsize)).head };
            format!(
                "dv={}:{} top={}:{} tf={} fp={} mfp={} tc={} rc={} la={} sm={:x} tm={:x}",
                rel(a.dv as usize, base),
                a.dvsize,
                rel(a.top as usize, base),
                a.topsize,
                tf,
                a.footprint,
                a.max_footprint,
                a.trim_check,
                a.release_checks,
                rel(a.least_addr as usize, base),
                a.smallmap,
                a.treemap
            )
        }

        unsafe fn tree(t: *mut TreeChunk, parent: *mut TreeChunk, idx: u32, base: usize, out: &mut String, bad: &mut Vec<String>, depth: usize) {
            if t.is_null() {
                out.push('.');
                return;
            }
            if depth > 80 {
                bad.push("tree-depth".into());
                out.push('!');
                return;
            }
            let tc = TreeChunk::chunk(t);
            let _ = write!(out, "({}:{}", rel(t as usize, base), Chunk::size(tc));
            if (*t).parent != parent {
                bad.push(format!("tree-parent@{}", rel(t as usize, base)));
            }
            if (*t).index != idx {
                bad.push(format!("tree-index@{}", rel(t as usize, base)));
            }
            // same-size ring in `next` order
            let mut u = TreeChunk::next(t);
            let mut prev = t;
            let mut n = 0;
            while u != t {
                let _ = write!(out, "~{}", rel(u as usize, base));
                if TreeChunk::prev(u) != prev {
                    bad.push(format!("ring-prev@{}", rel(u as usize, base)));
                }
                if !(*u).parent.is_null() {
                    bad.push(format!("ring-parent@{}", rel(u as usize, base)));
                }
                if Chunk::size(TreeChunk::chunk(u)) != Chunk::size(tc) {
                    bad.push(format!("ring-size@{}", rel(u as usize, base)));
                }
                prev = u;
                u = TreeChunk::next(u);
                n += 1;
                if n > 1_000_000 {
                    bad.push("ring-loop".into());
                    break;
                }
            }
            if TreeChunk::prev(t) != prev {
                bad.push(format!("ring-close@{}", rel(t as usize, base)));
            }
            out.push(',');
            tree((*t).child[0], t, idx, base, out, bad, depth + 1);
            out.push(',');
            tree((*t).child[1], t, idx, base, out, bad, depth + 1);
            out.push(')');
        }

        /// full layout: segments, chunks per segment in address order, small bins, tree bins
        pub unsafe fn layout(a: &mut Dlmalloc, base: usize) -> (String, String) {
            let mut bad: Vec<String> = Vec::new();
            let mut s = String::new();
            s.push_str("S=");
            let mut segs: Vec<(usize, usize)> = Vec::new();
            if !a.top.is_null() {
                let mut sp: *mut Segment = core::ptr::addr_of_mut!(a.seg);
                let mut n = 0;
                while !sp.is_null() {
                    segs.push(((*sp).base as usize, (*sp).size));
                    sp = (*sp).next;
                    n += 1;
                    if n > 100_000 {
                        bad.push("seg-loop".into());
                        break;
                    }
                }
            }
            for (i, (b, sz)) in segs.iter().enumerate() {
                if i > 0 {
                    s.push(',');
                }
                let _ = write!(s, "{}+{}", rel(*b, base), sz);
            }
            s.push_str(" C=");
            for (i, (b, sz)) in segs.iter().enumerate() {
                if i > 0 {
                    s.push('/');
                }
                let end = b + sz;
                let mut p = Dlmalloc::align_as_chunk(*b as *mut u8) as usize;
                let mut first = true;
                while p + 16 <= end {
                    let c = p as *mut Chunk;
                    let head = (*c).head;
                    let size = head & !FLAG_BITS;
                    if !first {
                        s.push(',');
                    }
                    first = false;
                    let _ = write!(s, "{}:{}:{}{}", rel(p, base), size, (head & CINUSE != 0) as u8, (head & PINUSE != 0) as u8);
                    if head & FLAG4 != 0 {
                        bad.push(format!("flag4@{}", rel(p, base)));
                    }
                    // prev_foot is meaningful when the previous chunk is free; the foot word after top
                    // (head = top_foot_size, no flag bits) has no predecessor to describe
                    if head & PINUSE == 0 && head & CINUSE != 0 {
                        let _ = write!(s, ":{}", (*c).prev_foot);
                    }
                    if size == 0 {
                        bad.push(format!("zero-size@{}", rel(p, base)));
                        break;
                    }
                    p += size;
                }
            }
            s.push_str(" B=");
            let mut firstb = true;
            for i in 0..NSMALLBINS as u32 {
                if a.smallmap & (1 << i) == 0 {
                    continue;
                }
                if !firstb {
                    s.push(';');
                }
                firstb = false;
                let _ = write!(s, "{}:", i);
                let b = a.smallbin_at(i);
                // newest first: follow `prev` from the bin head
                let mut p = (*b).prev;
                let mut succ = b;
                let mut n = 0;
                while p != b {
                    if n > 0 {
                        s.push(',');
                    }
                    let _ = write!(s, "{}", rel(p as usize, base));
                    if (*p).next != succ {
                        bad.push(format!("bin-next@{}", rel(p as usize, base)));
                    }
                    succ = p;
                    p = (*p).prev;
                    n += 1;
                    if n > 10_000_000 {
                        bad.push("bin-loop".into());
                        break;
                    }
                }
                if (*b).next != succ {
                    bad.push(format!("bin-close@{}", i));
                }
            }
            s.push_str(" T=");
            let mut firstt = true;
            for i in 0..NTREEBINS as u32 {
                let t = *a.treebin_at(i);
                if a.treemap & (1 << i) == 0 {
                    continue;
                }
                if !firstt {
                    s.push(';');
                }
                firstt = false;
                let _ = write!(s, "{}:", i);
                let h = a.treebin_at(i);
                tree(t, h.cast::<TreeChunk>(), i, base, &mut s, &mut bad, 0);
            }
            let wk = if bad.is_empty() { "ok".to_string() } else { format!("BAD:{}", bad.join("+")) };
            (s, wk)
        }

        pub unsafe fn usable_size(mem: *mut u8) -> usize {
            let p = Chunk::from_mem(mem);
            Chunk::size(p) - Dlmalloc::overhead_for(p)
        }
    }
}

use dl::Dlmalloc;

// ------------------------------------------------------------------------------------------ OS side
const ARENA: usize = 1 << 37; // 128 GiB of address space, PROT_NONE, never committed
const MID: usize = ARENA / 2;
const LOW: usize = 1 << 24;
const GAP: usize = 1 << 16;
const ENOMEM: usize = 12;
const EINVAL: usize = 22;

#[derive(Clone, Debug)]
enum Dir {
    M(Option<usize>),
    R(bool),
    U(bool),
}

struct Os {
    base: usize,
    mapped: Vec<(usize, usize)>, // sorted, disjoint (start offset, len)
    active: bool,
    concrete: bool,
    dirs: std::collections::VecDeque<Dir>,
    policy: u8,
    fail_k: Option<usize>,
    ncalls: usize,
    events: Vec<String>,
    desync: Option<String>,
    head_end: usize, // arena offset of the end of the allocator's head segment (policy 't')
}

static mut OS: Option<Os> = None;

fn os() -> &'static mut Os {
    unsafe { OS.as_mut().unwrap() }
}

unsafe fn raw_mmap(addr: usize, len: usize, prot: usize, flags: usize) -> usize {
    sc::raw_syscall6(sc::nr::MMAP, addr, len, prot, flags, usize::MAX, 0)
}

fn is_err(r: usize) -> bool {
    r > usize::MAX - 4096
}

impl Os {
    fn overlaps(&self, off: usize, len: usize) -> bool {
        self.mapped.iter().any(|&(s, l)| off < s + l && s < off + len)
    }
    fn covered(&self, off: usize, len: usize) -> bool {
        // is [off, off+len) entirely inside the union of mapped intervals?
        let mut cur = off;
        let end = off + len;
        for &(s, l) in &self.mapped {
            if s > cur {
                break;
            }
            if s + l > cur {
                cur = s + l;
            }
            if cur >= end {
                return true;
            }
        }
        cur >= end
    }
    fn add(&mut self, off: usize, len: usize) {
        self.mapped.push((off, len));
        self.mapped.sort();
    }
    fn sub(&mut self, off: usize, len: usize) {
        let end = off + len;
        let mut out = Vec::new();
        for &(s, l) in &self.mapped {
            let e = s + l;
            if e <= off || s >= end {
                out.push((s, l));
                continue;
            }
            if s < off {
                out.push((s, off - s));
            }
            if e > end {
                out.push((end, e - end));
            }
        }
        self.mapped = out;
    }
    fn place(&self, len: usize) -> Option<usize> {
        let lowest = self.mapped.first().map(|x| x.0);
        let highest = self.mapped.iter().map(|x| x.0 + x.1).max();
        let linux = || -> Option<usize> {
            let mut gap_top = MID;
            for &(s, l) in self.mapped.iter().rev() {
                if s >= gap_top {
                    continue;
                }
                let e = core::cmp::min(s + l, gap_top);
                if gap_top - e >= len {
                    return Some(gap_top - len);
                }
                gap_top = s;
            }
            if gap_top >= LOW + len {
                Some(gap_top - len)
            } else {
                None
            }
        };
        let cand = match self.policy {
            b'a' => highest.map(|h| h),
            b'g' => lowest.and_then(|l| l.checked_sub(GAP + len)),
            b'G' => highest.map(|h| h + GAP),
            b'h' => {
                let mut r = None;
                for w in self.mapped.windows(2) {
                    let e = w[0].0 + w[0].1;
                    if w[1].0 - e >= len && w[1].0 > e {
                        r = Some(e);
                        break;
                    }
                }
                r
            }
            b't' => {
                if self.head_end != 0 {
                    Some(self.head_end)
                } else {
                    None
                }
            }
            _ => None,
        };
        match cand {
            Some(c) if c >= LOW && c + len <= ARENA && !self.overlaps(c, len) => Some(c),
            _ => linux(),
        }
    }

    fn handle(&mut self, nr: usize, a: [usize; 6]) -> Option<usize> {
        if !self.active {
            return None;
        }
        let idx = self.ncalls;
        self.ncalls += 1;
        let neg = |e: usize| 0usize.wrapping_sub(e);
        if nr == sc::nr::MMAP {
            let len = a[1];
            if a[0] != 0 || a[2] != 3 || a[3] != 0x22 || len == 0 || len % 4096 != 0 {
                self.desync = Some(format!("mmap-args:{:x}:{}:{:x}:{:x}", a[0], len, a[2], a[3]));
            }
            let want: Option<usize> = if self.concrete {
                match self.dirs.pop_front() {
                    Some(Dir::M(x)) => x,
                    d => {
                        self.desync = Some(format!("want-M-got-{:?}", d));
                        None
                    }
                }
            } else if self.fail_k == Some(idx) {
                None
            } else {
                self.place(len)
            };
            match want {
                Some(off) if off % 4096 == 0 && off + len <= ARENA && !self.overlaps(off, len) => {
                    let r = unsafe { raw_mmap(self.base + off, len, 3, 0x32) };
                    if is_err(r) || r != self.base + off {
                        self.desync = Some(format!("real-mmap-failed:{}", r as isize));
                        self.events.push(format!("M{}@-", len));
                        return Some(neg(ENOMEM));
                    }
                    self.add(off, len);
                    self.events.push(format!("M{}@{}", len, off));
                    Some(r)
                }
                Some(off) => {
                    self.desync = Some(format!("bad-placement:{}", off));
                    self.events.push(format!("M{}@-", len));
                    Some(neg(ENOMEM))
                }
                None => {
                    self.events.push(format!("M{}@-", len));
                    Some(neg(ENOMEM))
                }
            }
        } else if nr == sc::nr::MREMAP {
            let (ptr, old, new, fl) = (a[0], a[1], a[2], a[3]);
            let okd = if self.concrete {
                match self.dirs.pop_front() {
                    Some(Dir::R(x)) => x,
                    d => {
                        self.desync = Some(format!("want-R-got-{:?}", d));
                        false
                    }
                }
            } else {
                self.fail_k != Some(idx)
            };
            let off = ptr.wrapping_sub(self.base);
            let sane = ptr >= self.base && off % 4096 == 0 && new % 4096 == 0 && old % 4096 == 0 && new <= old && new > 0 && fl == 0 && self.covered(off, old);
            if !sane {
                // the kernel would refuse (or this harness cannot emulate it): report, and refuse
                self.events.push(format!("R{}:{}:{}:!", off as isize, old, new));
                return Some(neg(EINVAL));
            }
            if !okd {
                self.events.push(format!("R{}:{}:{}:-", off, old, new));
                return Some(neg(ENOMEM));
            }
            if old > new {
                let r = unsafe { raw_mmap(ptr + new, old - new, 0, 0x4032) };
                if is_err(r) {
                    self.desync = Some("re-reserve-failed".into());
                }
                self.sub(off + new, old - new);
            }
            self.events.push(format!("R{}:{}:{}:+", off, old, new));
            Some(ptr)
        } else if nr == sc::nr::MUNMAP {
            let (ptr, len) = (a[0], a[1]);
            let okd = if self.concrete {
                match self.dirs.pop_front() {
                    Some(Dir::U(x)) => x,
                    d => {
                        self.desync = Some(format!("want-U-got-{:?}", d));
                        false
                    }
                }
            } else {
                self.fail_k != Some(idx)
            };
            let off = ptr.wrapping_sub(self.base);
            let sane = ptr >= self.base && off % 4096 == 0 && len % 4096 == 0 && len > 0 && self.covered(off, len);
            if !sane {
                self.events.push(format!("U{}:{}:!", off as isize, len));
                return Some(neg(EINVAL));
            }
            if !okd {
                self.events.push(format!("U{}:{}:-", off, len));
                return Some(neg(EINVAL));
            }
            let r = unsafe { raw_mmap(ptr, len, 0, 0x4032) };
            if is_err(r) {
                self.desync = Some("re-reserve-failed".into());
            }
            self.sub(off, len);
            self.events.push(format!("U{}:{}:+", off, len));
            Some(0)
        } else {
            None
        }
    }

    fn release_all(&mut self) {
        let m = std::mem::take(&mut self.mapped);
        for (s, l) in m {
            unsafe {
                raw_mmap(self.base + s, l, 0, 0x4032);
            }
        }
    }
}

// ------------------------------------------------------------------------------------------ shadow map
#[derive(Clone)]
struct Block {
    ptr: usize,
    size: usize,
    align: usize,
    seed: u64,
}

#[inline]
fn pat(seed: u64, i: usize) -> u8 {
    let x = seed.wrapping_add((i as u64).wrapping_mul(0x9E37_79B9)).wrapping_mul(0xBF58_476D_1CE4_E5B9);
    ((x >> 32) as u8) | 1
}

unsafe fn fill(p: usize, seed: u64, from: usize, to: usize) {
    let b = p as *mut u8;
    for i in from..to {
        *b.add(i) = pat(seed, i);
    }
}

/// positions checked for a block of `size`: everything up to 256 KiB, else both ends and a page sample
fn check_ranges(size: usize) -> Vec<(usize, usize)> {
    if size <= 256 * 1024 {
        vec![(0, size)]
    } else {
        let mut v = vec![(0, 65536)];
        let mut o = 65536;
        while o + 4096 < size - 65536 {
            v.push((o, o + 16));
            o += 4096;
        }
        v.push((size - 65536, size));
        v
    }
}

unsafe fn verify(b: &Block, upto: usize) -> Option<usize> {
    let p = b.ptr as *const u8;
    for (lo, hi) in check_ranges(upto) {
        for i in lo..hi {
            if *p.add(i) != pat(b.seed, i) {
                return Some(i);
            }
        }
    }
    None
}

struct H {
    a: Box<Dlmalloc>,
    live: BTreeMap<u64, Block>,
    poisoned: bool,
    nops: usize,
    verify_every: usize,
    full: bool,
}

fn fnv(s: &str) -> u64 {
    let mut h: u64 = 0xcbf29ce484222325;
    for b in s.bytes() {
        h ^= b as u64;
        h = h.wrapping_mul(0x100000001b3);
    }
    h
}

/// plain decimal digits only (what the Lean driver accepts)
fn dec(s: &str) -> Option<u64> {
    if s.is_empty() || s.len() > 20 || !s.bytes().all(|b| b.is_ascii_digit()) {
        return None;
    }
    s.parse::<u64>().ok()
}

fn parse_os(toks: &[&str]) -> Option<()> {
    let o = os();
    o.dirs.clear();
    // replay form (explicit answers) unless a policy / refusal token is present
    o.concrete = !toks.iter().any(|t| t.starts_with('P') || t.starts_with('F'));
    o.policy = b'l';
    o.fail_k = None;
    for t in toks {
        let (k, rest) = t.split_at(1);
        match k {
            "P" => {
                if rest.len() != 1 || !"laGght".contains(rest) {
                    return None;
                }
                o.policy = rest.as_bytes()[0];
            }
            "F" => o.fail_k = Some(dec(rest)? as usize),
            "M" => {
                o.dirs.push_back(Dir::M(if rest == "-" { None } else { Some(dec(rest)? as usize) }));
            }
            "R" | "U" => {
                let v = match rest {
                    "+" => true,
                    "-" => false,
                    _ => return None,
                };
                o.dirs.push_back(if k == "R" { Dir::R(v) } else { Dir::U(v) });
            }
            _ => return None,
        }
    }
    Some(())
}

fn run_op(h: &mut H, w: &[&str]) -> String {
    // split at "|"
    let bar = w.iter().position(|x| *x == "|");
    let (opw, osw): (&[&str], &[&str]) = match bar {
        Some(i) => (&w[..i], &w[i + 1..]),
        None => (w, &[]),
    };
    let kind = opw[0];
    if opw.is_empty() {
        return "bad-op".into();
    }
    let nums: Option<Vec<u64>> = opw[1..].iter().map(|x| dec(x)).collect();
    let nums = match nums {
        Some(n) => n,
        None => return "bad-op".into(),
    };
    let argc_ok = match kind {
        "m" | "c" => nums.len() == 3,
        "r" => nums.len() == 2,
        "f" => nums.len() == 1,
        _ => false,
    };
    if !argc_ok || parse_os(osw).is_none() {
        return "bad-op".into();
    }
    let id = nums[0];
    match kind {
        "m" | "c" => {
            let (size, align) = (nums[1] as usize, nums[2] as usize);
            if h.live.contains_key(&id) || size == 0 || !align.is_power_of_two() || align > (1 << 20) || size > isize::MAX as usize {
                return "bad-op".into();
            }
        }
        "r" => {
            if !h.live.contains_key(&id) || nums[1] == 0 || nums[1] > isize::MAX as u64 {
                return "bad-op".into();
            }
        }
        _ => {
            if !h.live.contains_key(&id) {
                return "bad-op".into();
            }
        }
    }
    if h.poisoned {
        return "poisoned".into();
    }
    let base = os().base;
    let mut chk: Vec<String> = Vec::new();
    {
        let o = os();
        o.ncalls = 0;
        o.events.clear();
        o.desync = None;
        o.head_end = unsafe { dl::walk::head_seg_end(&h.a) }.wrapping_sub(base);
        if unsafe { dl::walk::head_seg_end(&h.a) } == 0 {
            o.head_end = 0;
        }
    }
    let seed = id.wrapping_mul(0x9E3779B97F4A7C15).wrapping_add(1);
    let res: Result<String, String> = {
        let a: &mut Dlmalloc = &mut h.a;
        let live = &mut h.live;
        let r = catch_unwind(AssertUnwindSafe(|| unsafe {
            match kind {
                "m" | "c" => {
                    let (size, align) = (nums[1] as usize, nums[2] as usize);
                    os().active = true;
                    let p = if kind == "m" { a.malloc(size, align) } else { a.calloc(size, align) } as usize;
                    os().active = false;
                    if p == 0 {
                        return "p=-".to_string();
                    }
                    let b = Block { ptr: p, size, align, seed };
                    if kind == "c" {
                        let q = p as *const u8;
                        for (lo, hi) in check_ranges(size) {
                            for i in lo..hi {
                                if *q.add(i) != 0 {
                                    chk.push(format!("calloc-nonzero@{}", i));
                                    break;
                                }
                            }
                        }
                    }
                    fill(p, seed, 0, size);
                    live.insert(id, b);
                    format!("p={}", p.wrapping_sub(base))
                }
                "r" => {
                    let newsize = nums[1] as usize;
                    let old = live.get(&id).unwrap().clone();
                    if let Some(i) = verify(&old, old.size) {
                        chk.push(format!("pre-realloc-corrupt:{}@{}", id, i));
                    }
                    os().active = true;
                    let p = a.realloc(old.ptr as *mut u8, old.size, old.align, newsize) as usize;
                    os().active = false;
                    if p == 0 {
                        if let Some(i) = verify(&old, old.size) {
                            chk.push(format!("failed-realloc-damaged-old:{}@{}", id, i));
                        }
                        return "p=-".to_string();
                    }
                    let nb = Block { ptr: p, size: newsize, align: old.align, seed: old.seed };
                    let keep = core::cmp::min(old.size, newsize);
                    if let Some(i) = verify(&nb, keep) {
                        chk.push(format!("realloc-prefix-lost:{}@{}", id, i));
                    }
                    fill(p, old.seed, 0, newsize);
                    live.insert(id, nb);
                    format!("p={}", p.wrapping_sub(base))
                }
                _ => {
                    let b = live.get(&id).unwrap().clone();
                    if let Some(i) = verify(&b, b.size) {
                        chk.push(format!("corrupt-at-free:{}@{}", id, i));
                    }
                    live.remove(&id);
                    os().active = true;
                    a.free(b.ptr as *mut u8);
                    os().active = false;
                    "p=ok".to_string()
                }
            }
        }));
        os().active = false;
        match r {
            Ok(s) => Ok(s),
            Err(e) => {
                let msg = if let Some(s) = e.downcast_ref::<String>() {
                    s.clone()
                } else if let Some(s) = e.downcast_ref::<&str>() {
                    s.to_string()
                } else {
                    "?".into()
                };
                Err(msg)
            }
        }
    };
    let res = match res {
        Ok(s) => s,
        Err(msg) => {
            h.poisoned = true;
            let m: String = msg.chars().map(|c| if c.is_whitespace() { '_' } else { c }).take(160).collect();
            return format!("panic {}", m);
        }
    };
    h.nops += 1;
    // periodic re-verification of every live block (owner-only writes)
    if h.verify_every > 0 && h.nops % h.verify_every == 0 {
        for (bid, b) in h.live.iter() {
            if let Some(i) = unsafe { verify(b, b.size) } {
                chk.push(format!("corrupt:{}@{}", bid, i));
                break;
            }
        }
    }
    let o = os();
    if o.concrete && !o.dirs.is_empty() {
        o.desync = Some(format!("unused-directives:{}", o.dirs.len()));
    }
    if let Some(d) = &o.desync {
        chk.push(format!("os-desync:{}", d));
    }
    let (lay, wk) = unsafe { dl::walk::layout(&mut h.a, base) };
    if wk != "ok" {
        chk.push(format!("walk:{}", wk));
    }
    let chk_s = if chk.is_empty() { "ok".to_string() } else { format!("BAD:{}", chk.join("+")) };
    let ev = if o.events.is_empty() { "-".to_string() } else { o.events.join(";") };
    let sum = unsafe { dl::walk::summary(&h.a, base) };
    if h.full {
        format!("{} chk={} os={} {} {}", res, chk_s, ev, sum, lay)
    } else {
        format!("{} chk={} os={} {} H={:016x}", res, chk_s, ev, sum, fnv(&lay))
    }
}

fn main() {
    // reserve the arena (address space only), base aligned to 1 GiB
    let raw = unsafe { raw_mmap(0, ARENA + (1 << 30), 0, 0x4022) };
    if is_err(raw) {
        eprintln!("cannot reserve arena: {}", raw as isize);
        std::process::exit(3);
    }
    let base = (raw + (1 << 30) - 1) & !((1 << 30) - 1);
    unsafe {
        OS = Some(Os {
            base,
            mapped: Vec::new(),
            active: false,
            concrete: false,
            dirs: Default::default(),
            policy: b'l',
            fail_k: None,
            ncalls: 0,
            events: Vec::new(),
            desync: None,
            head_end: 0,
        });
    }
    sc::shim::set_handler(Box::new(|nr, args, _n| os().handle(nr, args)));
    let mut h = H { a: Box::new(Dlmalloc::new()), live: BTreeMap::new(), poisoned: false, nops: 0, verify_every: 16, full: true };
    let stdin = std::io::stdin();
    let stdout = std::io::stdout();
    let mut out = std::io::BufWriter::with_capacity(1 << 20, stdout.lock());
    // keep panic messages off stderr noise
    std::panic::set_hook(Box::new(|_| {}));
    for line in stdin.lock().lines() {
        let line = match line {
            Ok(l) => l,
            Err(_) => break,
        };
        let w: Vec<&str> = line.split_whitespace().collect();
        let ans = if w.is_empty() {
            "bad-op".to_string()
        } else {
            match w[0] {
                "reset" if w.len() == 1 => {
                    os().release_all();
                    h.a = Box::new(Dlmalloc::new());
                    h.live.clear();
                    h.poisoned = false;
                    h.nops = 0;
                    "ok".to_string()
                }
                "dump" if w.len() == 2 && (w[1] == "full" || w[1] == "hash") => {
                    h.full = w[1] == "full";
                    "ok".to_string()
                }
                // driver-side switches (well-formedness check, coverage output): nothing to do here
                "wf" | "cov" if w.len() == 2 && (w[1] == "0" || w[1] == "1") => "ok".to_string(),
                "verify" if w.len() == 2 && dec(w[1]).is_some() => {
                    h.verify_every = dec(w[1]).unwrap() as usize;
                    "ok".to_string()
                }
                "pure" => match catch_unwind(|| dl::pure::eval_pure(&w[1..])) {
                    Ok(Some(s)) => s,
                    Ok(None) => "bad-op".to_string(),
                    Err(_) => "panic".to_string(),
                },
                "m" | "c" | "r" | "f" => run_op(&mut h, &w),
                _ => "bad-op".to_string(),
            }
        };
        let _ = writeln!(out, "{}", ans);
        let _ = out.flush();
    }
}
