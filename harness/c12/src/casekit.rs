//! Shared by the C12 and C13 harnesses: one *case* = one run of a real tiny-std operation in a fresh
//! process, under an sc-shim handler that (a) executes every system call itself and records
//! `(name, result)`, (b) forces the calls named by the fault list to return an errno / a value without
//! being executed (a forced failure of `close` still releases the descriptor, as Linux does),
//! (c) counts calls separately in a process forked by the operation and ships that process's records
//! through a CLOEXEC pipe.  Descriptor tables are read with `fcntl(F_GETFD)` through the raw syscall
//! (never logged, opens nothing); `same_file` compares two numbers by the identity of the open file
//! description (kcmp), `raw_dup_high` / `raw_set_nofile` let a harness choose the state of the table an
//! operation is entered with (standard numbers free, table nearly full) while keeping its own channels
//! on high numbers.
#![allow(dead_code)]
use std::cell::RefCell;

pub const MAXFD: usize = 256;

#[derive(Clone, Debug)]
pub struct Fault {
    pub child: bool,
    pub k: usize,
    pub errno: Option<usize>,
    pub value: usize,
}

#[derive(Clone, Debug)]
pub struct Rec {
    pub nr: usize,
    pub args: [usize; 6],
    pub ret: usize,
    pub forced: bool,
    /// for pipe2/socketpair: the two descriptors the kernel wrote
    pub pair: Option<(i32, i32)>,
    /// for recvmsg: the descriptors of the SCM_RIGHTS messages the kernel wrote into the control buffer
    pub many: Vec<i32>,
}

struct KitState {
    case_pid: usize,
    faults: Vec<Fault>,
    n_parent: usize,
    n_child: usize,
    log: Vec<Rec>,
    child_fd: i32,
}

thread_local! {
    static KIT: RefCell<Option<KitState>> = RefCell::new(None);
    /// io_uring scenarios: hide IORING_FEAT_SINGLE_MMAP from the code (it then maps the completion ring separately)
    static HIDE_SINGLE_MMAP: std::cell::Cell<bool> = std::cell::Cell::new(false);
}

/// From now on a successful `io_uring_setup` reports no IORING_FEAT_SINGLE_MMAP to the code (the kernel still
/// serves the separate completion-ring mapping).  Only the C12 io_uring scenarios switch this on.
pub fn hide_single_mmap(on: bool) {
    HIDE_SINGLE_MMAP.with(|h| h.set(on));
}

pub unsafe fn raw(n: usize, a: [usize; 6]) -> usize {
    sc::raw_syscall6(n, a[0], a[1], a[2], a[3], a[4], a[5])
}

pub fn raw_getpid() -> usize {
    unsafe { raw(sc::nr::GETPID, [0; 6]) }
}

pub fn is_err(r: usize) -> bool {
    r > usize::MAX - 4096
}

pub fn errno_of(r: usize) -> usize {
    0usize.wrapping_sub(r)
}

pub fn fd_is_open(fd: usize) -> bool {
    let r = unsafe { raw(sc::nr::FCNTL, [fd, 1 /* F_GETFD */, 0, 0, 0, 0]) };
    !is_err(r)
}

pub fn open_fds() -> Vec<i32> {
    (0..MAXFD).filter(|f| fd_is_open(*f)).map(|f| f as i32).collect()
}

pub fn raw_write(fd: i32, s: &str) {
    let b = s.as_bytes();
    let mut off = 0;
    while off < b.len() {
        let r = unsafe { raw(sc::nr::WRITE, [fd as usize, b.as_ptr() as usize + off, b.len() - off, 0, 0, 0]) };
        if is_err(r) {
            break;
        }
        off += r;
    }
}

pub fn raw_exit(code: usize) -> ! {
    unsafe { raw(sc::nr::EXIT_GROUP, [code, 0, 0, 0, 0, 0]) };
    loop {}
}

pub fn parse_faults(s: &str) -> Option<Vec<Fault>> {
    let mut out = vec![];
    if s == "-" {
        return Some(out);
    }
    for part in s.split(',') {
        let (child, rest) = match part.strip_prefix('c') {
            Some(r) => (true, r),
            None => (false, part),
        };
        let (k, what) = rest.split_once(':')?;
        let k: usize = k.parse().ok()?;
        let (errno, value) = if let Some(e) = what.strip_prefix('e') {
            (Some(e.parse().ok()?), 0)
        } else if let Some(v) = what.strip_prefix('v') {
            (None, v.parse().ok()?)
        } else {
            return None;
        };
        out.push(Fault { child, k, errno, value });
    }
    Some(out)
}

fn handler(n: usize, a: [usize; 6], _nargs: u8) -> Option<usize> {
    KIT.with(|k| {
        let mut g = k.borrow_mut();
        let st = g.as_mut()?;
        let in_child = raw_getpid() != st.case_pid;
        let idx = if in_child { st.n_child } else { st.n_parent };
        if in_child {
            st.n_child += 1;
        } else {
            st.n_parent += 1;
        }
        let fault = st.faults.iter().find(|f| f.child == in_child && f.k == idx).cloned();
        // calls that do not come back are recorded before they are made
        let no_return = n == sc::nr::EXECVE || n == sc::nr::EXIT || n == sc::nr::EXIT_GROUP;
        if in_child && no_return && fault.is_none() {
            raw_write(st.child_fd, &format!("{}:?\n", sc::shim::name(n)));
        }
        let (ret, forced) = match &fault {
            Some(f) => {
                if n == sc::nr::CLOSE {
                    unsafe { raw(n, a) };
                }
                match f.errno {
                    Some(e) => (0usize.wrapping_sub(e), true),
                    None => (f.value, true),
                }
            }
            None => (unsafe { raw(n, a) }, false),
        };
        if n == sc::nr::IO_URING_SETUP && !forced && !is_err(ret) && HIDE_SINGLE_MMAP.with(|h| h.get()) {
            // struct io_uring_params: `features` is the 6th u32; bit 0 = IORING_FEAT_SINGLE_MMAP
            unsafe { *(a[1] as *mut u32).add(5) &= !1u32 };
        }
        let is_fork = n == sc::nr::FORK || n == sc::nr::VFORK || n == sc::nr::CLONE;
        if is_fork && !forced && ret == 0 {
            // we are the new process: its calls are counted from 0, its records go to the pipe
            st.n_child = 0;
            return Some(ret);
        }
        let mut pair = None;
        if (n == sc::nr::PIPE2 || n == sc::nr::PIPE) && !forced && ret == 0 {
            let p = a[0] as *const i32;
            pair = Some(unsafe { (*p, *p.add(1)) });
        }
        if in_child {
            if no_return && fault.is_none() {
                // it did come back: execve failed for real
                raw_write(st.child_fd, &format!("{}:e{}\n", sc::shim::name(n), errno_of(ret)));
            } else {
                let r = if is_err(ret) { format!("e{}", errno_of(ret)) } else { format!("v{}", ret) };
                raw_write(st.child_fd, &format!("{}:{}{}\n", sc::shim::name(n), r, if forced { "!" } else { "" }));
            }
        } else {
            let many = if n == sc::nr::RECVMSG && !forced && !is_err(ret) { unsafe { scm_rights_of(a[1]) } } else { vec![] };
            st.log.push(Rec { nr: n, args: a, ret, forced, pair, many });
        }
        Some(ret)
    })
}

/// The harness's own reading of what the kernel left in the control buffer of a `struct msghdr` (x86_64 layout:
/// msg_control at +32, msg_controllen at +40; cmsghdr = len u64, level i32, type i32): the descriptors of every
/// (SOL_SOCKET, SCM_RIGHTS) message that lies inside msg_controllen.  Independent of rusl's iterator.
pub unsafe fn scm_rights_of(msghdr: usize) -> Vec<i32> {
    let ctrl = *((msghdr + 32) as *const usize);
    let clen = *((msghdr + 40) as *const usize);
    let mut out = vec![];
    let mut off = 0usize;
    while ctrl != 0 && off + 16 <= clen {
        let len = *((ctrl + off) as *const usize);
        let level = *((ctrl + off + 8) as *const i32);
        let ty = *((ctrl + off + 12) as *const i32);
        if len < 16 {
            break;
        }
        let end = len.min(clen - off);
        if level == 1 && ty == 1 {
            for i in 0..(end - 16) / 4 {
                out.push(*((ctrl + off + 16 + 4 * i) as *const i32));
            }
        }
        off += (len + 7) & !7;
    }
    out
}

/// start intercepting; `child_fd` = write end of the (CLOEXEC) pipe for a forked process's records
pub fn begin(faults: Vec<Fault>, child_fd: i32) {
    KIT.with(|k| {
        *k.borrow_mut() = Some(KitState { case_pid: raw_getpid(), faults, n_parent: 0, n_child: 0, log: vec![], child_fd });
    });
    sc::shim::set_handler(Box::new(handler));
}

/// stop intercepting and hand back the caller-side records
pub fn end() -> Vec<Rec> {
    sc::shim::clear_handler();
    KIT.with(|k| k.borrow_mut().take().map(|s| s.log).unwrap_or_default())
}

pub fn in_case_process() -> bool {
    KIT.with(|k| k.borrow().as_ref().map(|s| s.case_pid == raw_getpid()).unwrap_or(true))
}

pub fn child_log_fd() -> i32 {
    KIT.with(|k| k.borrow().as_ref().map(|s| s.child_fd).unwrap_or(-1))
}

pub fn res_str(r: &Rec) -> String {
    let v = if is_err(r.ret) { format!("e{}", errno_of(r.ret)) } else { format!("v{}", r.ret) };
    format!("{}:{}{}", sc::shim::name(r.nr), v, if r.forced { "!" } else { "" })
}

/// descriptors a successful record created / the descriptor a record released
pub fn created(r: &Rec) -> Vec<i32> {
    use sc::nr::*;
    if is_err(r.ret) || r.forced {
        return vec![];
    }
    if let Some((a, b)) = r.pair {
        return vec![a, b];
    }
    if r.nr == sc::nr::RECVMSG {
        return r.many.clone();
    }
    let n = r.nr;
    if n == OPENAT || n == OPEN || n == SOCKET || n == ACCEPT || n == ACCEPT4 || n == EPOLL_CREATE1 || n == DUP
        || n == IO_URING_SETUP
    {
        return vec![r.ret as i32];
    }
    if n == FCNTL && (r.args[1] == 0 || r.args[1] == 1030) {
        return vec![r.ret as i32];
    }
    vec![]
}

pub fn released(r: &Rec) -> Option<i32> {
    if r.nr == sc::nr::CLOSE {
        Some(r.args[0] as i32)
    } else {
        None
    }
}

/// duplicate `fd` onto the lowest free number >= `min`, close-on-exec (never logged)
pub fn raw_dup_high(fd: i32, min: usize) -> Option<i32> {
    let r = unsafe { raw(sc::nr::FCNTL, [fd as usize, 1030 /* F_DUPFD_CLOEXEC */, min, 0, 0, 0]) };
    if is_err(r) {
        None
    } else {
        Some(r as i32)
    }
}

/// Do the numbers `a` and `b` name the SAME open file description?  `kcmp(KCMP_FILE)`; on a kernel
/// without it: same (st_dev, st_ino) and same status flags.  Independent of the numbers themselves:
/// this is how the census tells "still the descriptor that was there" from "closed, number reused".
pub fn same_file(a: i32, b: i32) -> bool {
    let pid = raw_getpid();
    let r = unsafe { raw(sc::nr::KCMP, [pid, pid, 0 /* KCMP_FILE */, a as usize, b as usize, 0]) };
    if !is_err(r) {
        return r == 0;
    }
    let key = |fd: i32| {
        let mut st = [0u64; 18]; // struct stat (x86_64): st_dev, st_ino first
        let r = unsafe { raw(sc::nr::FSTAT, [fd as usize, st.as_mut_ptr() as usize, 0, 0, 0, 0]) };
        let fl = unsafe { raw(sc::nr::FCNTL, [fd as usize, 3 /* F_GETFL */, 0, 0, 0, 0]) };
        (is_err(r), st[0], st[1], fl)
    };
    let (ka, kb) = (key(a), key(b));
    !ka.0 && ka == kb
}

/// RLIMIT_NOFILE (soft, hard), read / written through the raw syscall (never logged)
pub fn raw_get_nofile() -> (u64, u64) {
    let mut lim = [0u64; 2];
    unsafe { raw(sc::nr::PRLIMIT64, [0, 7 /* RLIMIT_NOFILE */, 0, lim.as_mut_ptr() as usize, 0, 0]) };
    (lim[0], lim[1])
}

pub fn raw_set_nofile(soft: u64, hard: u64) -> bool {
    let lim = [soft, hard];
    let r = unsafe { raw(sc::nr::PRLIMIT64, [0, 7, lim.as_ptr() as usize, 0, 0, 0]) };
    !is_err(r)
}

/// A raw, never-logged pipe (for child records / markers)
pub fn raw_pipe_cloexec() -> (i32, i32) {
    let mut fds = [-1i32; 2];
    let r = unsafe { raw(sc::nr::PIPE2, [fds.as_mut_ptr() as usize, 0o2000000, 0, 0, 0, 0]) };
    assert!(!is_err(r), "pipe2 failed");
    (fds[0], fds[1])
}

pub fn raw_close(fd: i32) {
    unsafe { raw(sc::nr::CLOSE, [fd as usize, 0, 0, 0, 0, 0]) };
}

/// read everything until EOF
pub fn raw_read_all(fd: i32) -> String {
    let mut out = Vec::new();
    let mut buf = [0u8; 4096];
    loop {
        let r = unsafe { raw(sc::nr::READ, [fd as usize, buf.as_mut_ptr() as usize, buf.len(), 0, 0, 0]) };
        if is_err(r) {
            if errno_of(r) == 4 {
                continue;
            }
            break;
        }
        if r == 0 {
            break;
        }
        out.extend_from_slice(&buf[..r]);
    }
    String::from_utf8_lossy(&out).into_owned()
}

/// raw wait4(-1, WNOHANG): (pid or 0, errno or 0)
pub fn raw_wait_any_nohang() -> (usize, usize, i32) {
    let mut status: i32 = 0;
    let r = unsafe { raw(sc::nr::WAIT4, [usize::MAX, &mut status as *mut i32 as usize, 1, 0, 0, 0]) };
    if is_err(r) {
        (0, errno_of(r), 0)
    } else {
        (r, 0, status)
    }
}

/// Run cases given on stdin (`<scenario> <faults>` per line), each in a fresh `--case` process of this
/// binary, `jobs` at a time, with a watchdog; print one line per input line, in order.
pub fn dispatch_lines(jobs: usize, timeout_ms: u64) {
    use std::io::{BufRead, Write};
    use std::process::{Command, Stdio};
    use std::sync::{Arc, Mutex};
    let lines: Vec<String> = std::io::stdin().lock().lines().map(|l| l.unwrap()).collect();
    let n = lines.len();
    let lines = Arc::new(lines);
    let results = Arc::new(Mutex::new(vec![String::new(); n]));
    let next = Arc::new(Mutex::new(0usize));
    let exe = std::env::current_exe().unwrap();
    let mut hs = vec![];
    for _ in 0..jobs.max(1) {
        let (lines, results, next, exe) = (lines.clone(), results.clone(), next.clone(), exe.clone());
        hs.push(std::thread::spawn(move || loop {
            let i = {
                let mut g = next.lock().unwrap();
                let i = *g;
                *g += 1;
                i
            };
            if i >= lines.len() {
                break;
            }
            let w: Vec<&str> = lines[i].split_whitespace().collect();
            let out = if w.len() != 2 || parse_faults(w[1]).is_none() {
                "bad-op".to_string()
            } else {
                let mut child = Command::new(&exe)
                    .arg("--case")
                    .arg(w[0])
                    .arg(w[1])
                    .stdin(Stdio::null())
                    .stdout(Stdio::piped())
                    .stderr(Stdio::null())
                    .spawn()
                    .unwrap();
                let t0 = std::time::Instant::now();
                let mut status = None;
                loop {
                    match child.try_wait().unwrap() {
                        Some(s) => {
                            status = Some(s);
                            break;
                        }
                        None => {
                            if t0.elapsed().as_millis() as u64 > timeout_ms {
                                let _ = child.kill();
                                let _ = child.wait();
                                break;
                            }
                            std::thread::sleep(std::time::Duration::from_micros(300));
                        }
                    }
                }
                let mut s = String::new();
                if let Some(mut o) = child.stdout.take() {
                    use std::io::Read;
                    // a stray process holding the pipe must not block us: read what is there
                    let _ = set_nonblock(&o);
                    let _ = o.read_to_string(&mut s);
                }
                let first = s.lines().next().unwrap_or("").to_string();
                match status {
                    None => format!("hang {}", first),
                    Some(st) if first.is_empty() => format!("crash status={:?}", st.code()),
                    Some(_) => first,
                }
            };
            results.lock().unwrap()[i] = out;
        }));
    }
    for h in hs {
        h.join().unwrap();
    }
    let stdout = std::io::stdout();
    let mut o = std::io::BufWriter::new(stdout.lock());
    for r in results.lock().unwrap().iter() {
        writeln!(o, "{}", r).unwrap();
    }
}

fn set_nonblock(f: &std::process::ChildStdout) -> std::io::Result<()> {
    use std::os::unix::io::AsRawFd;
    let fd = f.as_raw_fd() as usize;
    unsafe {
        let fl = raw(sc::nr::FCNTL, [fd, 3, 0, 0, 0, 0]);
        raw(sc::nr::FCNTL, [fd, 4, fl | 0o4000, 0, 0, 0]);
    }
    Ok(())
}
