//! C12 correspondence harness.  `c12` reads `<scenario> <faults>` lines and runs each as `c12 --case ..`
//! in a fresh process: the REAL tiny-std operation under the casekit handler, with the descriptor table
//! read before the operation, after it (result still alive), and after the result was dropped.
//!
//! `<scenario>` may carry the state of the descriptor table at entry: `@<subset of 012>` (those numbers are
//! free, the operation's creations land on them) or `@lim<k>` (only k numbers left: a real EMFILE).  The
//! harness keeps its own channels on high numbers (result line: a dup of stdout >= 240).
//!
//! Output of one case (one line):
//!   out=<ok|none|err:<errno>|err:nocode|err:timeout|panic> trace=<name>:<v|e><n>[!],.. handed=<n>
//!   leaked=<n> dangling=<n> stolen=<n> foreign=<n> dbl=<n> residue=<n> dropbad=<n> child=<trace|-> ents=<..|->
//!   entry=<spec|-> replaced=<n> tab=<numbers open at entry, not the operation's> own=<numbers given to it>
//!   nums=<numbers its creations received, in order> fin=<numbers open after it returned>
#![allow(clippy::all)]
mod casekit;
use casekit as kit;
use std::any::Any;

use tiny_std::fs::{Directory, File, FileType, OpenOptions};
use tiny_std::linux::epoll::{EpollDriver, EpollEvent, EpollEventMask, EpollTimeout};
use tiny_std::net::{Ip, SocketAddress, TcpListener, TcpStream, TcpTryConnect, UnixListener, UnixStream};
use tiny_std::process::{Child, Command, Stdio};
use tiny_std::unix::fd::AsRawFd;
use tiny_std::UnixString;

pub enum Handed {
    Fds(Vec<i32>),
    Count(usize),
}

pub struct OpOut {
    out: String,
    handed: Handed,
    keep: Box<dyn Any>,
    raw_close: Vec<i32>,
}

fn err_str(e: &tiny_std::Error) -> String {
    match e {
        tiny_std::Error::Os { code, .. } => format!("err:{}", code.raw()),
        tiny_std::Error::Timeout => "err:timeout".to_string(),
        tiny_std::Error::Uncategorized(_) => "err:nocode".to_string(),
    }
}

fn rusl_err_str(e: &rusl::Error) -> String {
    match e.code {
        Some(c) => format!("err:{}", c.raw()),
        None => "err:nocode".to_string(),
    }
}

fn nothing(out: String) -> OpOut {
    OpOut { out, handed: Handed::Count(0), keep: Box::new(()), raw_close: vec![] }
}

fn one_fd<T: AsRawFd + 'static>(r: tiny_std::Result<T>) -> OpOut {
    match r {
        Ok(v) => OpOut { out: "ok".into(), handed: Handed::Fds(vec![v.as_raw_fd().value()]), keep: Box::new(v), raw_close: vec![] },
        Err(e) => nothing(err_str(&e)),
    }
}

fn one_opaque<T: 'static>(r: tiny_std::Result<T>) -> OpOut {
    match r {
        Ok(v) => OpOut { out: "ok".into(), handed: Handed::Count(1), keep: Box::new(v), raw_close: vec![] },
        Err(e) => nothing(err_str(&e)),
    }
}

fn opt_fd<T: AsRawFd + 'static>(r: tiny_std::Result<Option<T>>) -> OpOut {
    match r {
        Ok(Some(v)) => OpOut { out: "ok".into(), handed: Handed::Fds(vec![v.as_raw_fd().value()]), keep: Box::new(v), raw_close: vec![] },
        Ok(None) => nothing("none".into()),
        Err(e) => nothing(err_str(&e)),
    }
}

fn unit(r: tiny_std::Result<()>) -> OpOut {
    match r {
        Ok(()) => nothing("ok".into()),
        Err(e) => nothing(err_str(&e)),
    }
}

fn child_out(r: tiny_std::Result<Child>) -> OpOut {
    match r {
        Ok(c) => {
            let mut fds = vec![];
            for p in [&c.stdin, &c.stdout, &c.stderr] {
                if let Some(p) = p {
                    fds.push(p.borrow_fd().as_raw_fd().value());
                }
            }
            OpOut { out: "ok".into(), handed: Handed::Fds(fds), keep: Box::new(c), raw_close: vec![] }
        }
        Err(e) => nothing(err_str(&e)),
    }
}

fn us(s: &str) -> UnixString {
    UnixString::try_from_str(s).unwrap()
}

pub struct Setup {
    op: Box<dyn FnOnce() -> OpOut>,
    owned_in: Vec<i32>,
    guards: Vec<Box<dyn Any>>,
    ents: String,
    reap: bool,
}

fn tmpdir() -> String {
    let d = format!("{}/c12-{}", std::env::temp_dir().display(), std::process::id());
    let _ = std::fs::remove_dir_all(&d);
    std::fs::create_dir_all(&d).unwrap();
    d
}

fn simple(op: impl FnOnce() -> OpOut + 'static) -> Setup {
    Setup { op: Box::new(op), owned_in: vec![], guards: vec![], ents: "-".into(), reap: false }
}

fn list_kinds(p: &str) -> String {
    // entry kinds in getdents order, as the real iteration will see them: r = . or .., d = directory, f = other
    let d = Directory::open(&us(p)).unwrap();
    let mut v = vec![];
    for e in d.read() {
        let e = e.unwrap();
        v.push(if e.file_type() == FileType::Directory { if e.is_relative_reference() { "r" } else { "d" } } else { "f" });
    }
    v.join("")
}

fn spawn_cmd(bin: String, stdin: Option<Stdio>, stdout: Option<Stdio>, stderr: Option<Stdio>) -> OpOut {
    let bin = us(&bin);
    let arg = us("--noop");
    let mut cmd = Command::new(&bin).unwrap();
    cmd.arg(&arg);
    if let Some(s) = stdin {
        cmd.stdin(s);
    }
    if let Some(s) = stdout {
        cmd.stdout(s);
    }
    if let Some(s) = stderr {
        cmd.stderr(s);
    }
    child_out(cmd.spawn())
}

fn setup(name: &str) -> Option<Setup> {
    let tmp = tmpdir();
    let me = std::env::current_exe().unwrap().display().to_string();
    let f = |n: &str| format!("{}/{}", tmp, n);
    let long_path = format!("{}/{}", tmp, "x".repeat(150));
    Some(match name {
        // ---------------------------------------------------------------- files
        "file_open" => {
            std::fs::write(f("a"), b"hello").unwrap();
            let p = us(&f("a"));
            simple(move || one_fd(File::open(&p)))
        }
        "file_open_missing" => {
            let p = us(&f("nope"));
            simple(move || one_fd(File::open(&p)))
        }
        "file_create" => {
            let p = us(&f("new"));
            simple(move || one_fd(OpenOptions::new().write(true).create(true).truncate(true).open(&p)))
        }
        "file_badopts" => {
            let p = us(&f("new"));
            simple(move || one_fd(OpenOptions::new().open(&p)))
        }
        "fs_read" => {
            std::fs::write(f("a"), vec![7u8; 100]).unwrap();
            let p = us(&f("a"));
            simple(move || match tiny_std::fs::read(&p) {
                Ok(_) => nothing("ok".into()),
                Err(e) => nothing(err_str(&e)),
            })
        }
        "fs_read_to_string" => {
            std::fs::write(f("a"), "x".repeat(40)).unwrap();
            let p = us(&f("a"));
            simple(move || match tiny_std::fs::read_to_string(&p) {
                Ok(_) => nothing("ok".into()),
                Err(e) => nothing(err_str(&e)),
            })
        }
        "fs_write" => {
            let p = us(&f("w"));
            simple(move || unit(tiny_std::fs::write(&p, b"some bytes")))
        }
        "file_copy" => {
            std::fs::write(f("a"), vec![1u8; 3000]).unwrap();
            let src = File::open(&us(&f("a"))).unwrap();
            let d = us(&f("b"));
            simple(move || {
                let r = src.copy(&d);
                let mut o = one_fd(r);
                o.keep = Box::new((o.keep, src));
                o
            })
        }
        "fs_copy_file" => {
            std::fs::write(f("a"), vec![1u8; 3000]).unwrap();
            let (s, d) = (us(&f("a")), us(&f("b")));
            simple(move || one_fd(tiny_std::fs::copy_file(&s, &d)))
        }
        "fs_copy_file_empty" => {
            std::fs::write(f("a"), b"").unwrap();
            let (s, d) = (us(&f("a")), us(&f("b")));
            simple(move || one_fd(tiny_std::fs::copy_file(&s, &d)))
        }
        // ---------------------------------------------------------------- directories
        "dir_open" => {
            let p = us(&tmp);
            simple(move || one_opaque(Directory::open(&p)))
        }
        "dir_open_missing" => {
            let p = us(&f("nope"));
            simple(move || one_opaque(Directory::open(&p)))
        }
        "dir_read" => {
            for i in 0..3 {
                std::fs::write(f(&format!("f{}", i)), b"x").unwrap();
            }
            let p = us(&tmp);
            simple(move || {
                let d = match Directory::open(&p) {
                    Ok(d) => d,
                    Err(e) => return nothing(err_str(&e)),
                };
                for e in d.read() {
                    if let Err(e) = e {
                        return nothing(err_str(&e));
                    }
                }
                nothing("ok".into())
            })
        }
        "dirent_open_file" | "dirent_open_dir" | "dirent_open_wrongtype" => {
            std::fs::write(f("f0"), b"x").unwrap();
            std::fs::create_dir(f("sub")).unwrap();
            let d = Directory::open(&us(&tmp)).unwrap();
            let want_dir = name == "dirent_open_dir";
            let mut found = None;
            for e in d.read() {
                let e = e.unwrap();
                let is_dir = e.file_type() == FileType::Directory;
                if is_dir && e.is_relative_reference() {
                    continue;
                }
                if is_dir == want_dir {
                    found = Some(e);
                    break;
                }
            }
            let e = found?;
            let nm = name.to_string();
            let mut s = simple(move || match nm.as_str() {
                "dirent_open_file" => one_fd(e.open_file()),
                "dirent_open_dir" => one_opaque(e.open_dir()),
                _ => one_opaque(e.open_dir()), // a regular file asked to open as a directory
            });
            s.guards.push(Box::new(d));
            s
        }
        "remove_dir_all" | "dir_remove_all" => {
            let root = f("root");
            std::fs::create_dir_all(format!("{}/sub/deep", root)).unwrap();
            std::fs::write(format!("{}/f0", root), b"x").unwrap();
            std::fs::write(format!("{}/sub/f1", root), b"x").unwrap();
            std::fs::write(format!("{}/sub/deep/f2", root), b"x").unwrap();
            let ents = format!("{}/{}/{}", list_kinds(&root), list_kinds(&format!("{}/sub", root)), list_kinds(&format!("{}/sub/deep", root)));
            let p = us(&root);
            let mut s = if name == "remove_dir_all" {
                simple(move || unit(tiny_std::fs::remove_dir_all(&p)))
            } else {
                let d = Directory::open(&p).unwrap();
                simple(move || {
                    let r = d.remove_all();
                    let mut o = unit(r);
                    o.keep = Box::new(d);
                    o
                })
            };
            s.ents = ents;
            s
        }
        "create_dir_all" => {
            let p = us(&f("a/b/c"));
            simple(move || unit(tiny_std::fs::create_dir_all(&p)))
        }
        // ---------------------------------------------------------------- unix sockets
        "unix_connect" | "unix_try_connect" | "unix_connect_nolistener" | "unix_try_connect_nolistener" => {
            let path = f("s");
            let mut guards: Vec<Box<dyn Any>> = vec![];
            if !name.ends_with("nolistener") {
                guards.push(Box::new(std::os::unix::net::UnixListener::bind(&path).unwrap()));
            }
            let p = us(&path);
            let mut s = if name.starts_with("unix_connect") {
                simple(move || one_fd(UnixStream::connect(&p)))
            } else {
                simple(move || opt_fd(UnixStream::try_connect(&p)))
            };
            s.guards = guards;
            s
        }
        "unix_connect_longpath" => {
            let p = us(&long_path);
            simple(move || one_fd(UnixStream::connect(&p)))
        }
        "unix_try_connect_longpath" => {
            let p = us(&long_path);
            simple(move || opt_fd(UnixStream::try_connect(&p)))
        }
        "unix_bind" => {
            let p = us(&f("s"));
            simple(move || one_opaque(UnixListener::bind(&p)))
        }
        "unix_bind_longpath" => {
            let p = us(&long_path);
            simple(move || one_opaque(UnixListener::bind(&p)))
        }
        "unix_bind_inuse" => {
            let g = std::os::unix::net::UnixListener::bind(f("s")).unwrap();
            let p = us(&f("s"));
            let mut s = simple(move || one_opaque(UnixListener::bind(&p)));
            s.guards.push(Box::new(g));
            s
        }
        "unix_accept" | "unix_try_accept" | "unix_accept_timeout" | "unix_try_accept_none" | "unix_accept_timeout_none"
        | "unix_accept_timeout_huge" | "unix_accept_timeout_huge2" => {
            let path = f("s");
            let mut l = UnixListener::bind(&us(&path)).unwrap();
            let mut guards: Vec<Box<dyn Any>> = vec![];
            if !name.ends_with("none") {
                guards.push(Box::new(std::os::unix::net::UnixStream::connect(&path).unwrap()));
            }
            let nm = name.to_string();
            let mut s = simple(move || {
                let mut o = match nm.as_str() {
                    "unix_accept" => one_fd(l.accept()),
                    "unix_try_accept" | "unix_try_accept_none" => opt_fd(l.try_accept()),
                    "unix_accept_timeout" => one_fd(l.accept_with_timeout(core::time::Duration::from_millis(200))),
                    // a timeout no TimeSpec can hold: the pure conversion fails, no system call does
                    "unix_accept_timeout_huge" => one_fd(l.accept_with_timeout(core::time::Duration::MAX)),
                    "unix_accept_timeout_huge2" => one_fd(l.accept_with_timeout(core::time::Duration::new(i64::MAX as u64 + 1, 0))),
                    _ => one_fd(l.accept_with_timeout(core::time::Duration::from_millis(20))),
                };
                o.keep = Box::new((o.keep, l));
                o
            });
            s.guards = guards;
            s
        }
        // ---------------------------------------------------------------- tcp
        "tcp_connect" | "tcp_connect_timeout" | "tcp_try_connect" | "tcp_connect_refused" | "tcp_inprogress_try" | "tcp_inprogress_block"
        | "tcp_connect_timeout_huge" | "tcp_connect_timeout_huge2" => {
            let l = std::net::TcpListener::bind("127.0.0.1:0").unwrap();
            let port = l.local_addr().unwrap().port();
            let mut guards: Vec<Box<dyn Any>> = vec![];
            if name == "tcp_connect_refused" {
                drop(l);
            } else {
                guards.push(Box::new(l));
            }
            let addr = SocketAddress::new(Ip::V4([127, 0, 0, 1]), port);
            let try_out = |r: tiny_std::Result<TcpTryConnect>| match r {
                Ok(TcpTryConnect::Connected(s)) => one_fd(Ok(s)),
                Ok(TcpTryConnect::InProgress(p)) => OpOut { out: "ok".into(), handed: Handed::Count(1), keep: Box::new(p), raw_close: vec![] },
                Err(e) => nothing(err_str(&e)),
            };
            let mut s = match name {
                "tcp_connect" | "tcp_connect_refused" => simple(move || one_fd(TcpStream::connect(&addr))),
                "tcp_connect_timeout" => simple(move || one_fd(TcpStream::connect_with_timeout(&addr, core::time::Duration::from_millis(500)))),
                "tcp_connect_timeout_huge" => simple(move || one_fd(TcpStream::connect_with_timeout(&addr, core::time::Duration::MAX))),
                "tcp_connect_timeout_huge2" => {
                    simple(move || one_fd(TcpStream::connect_with_timeout(&addr, core::time::Duration::new(i64::MAX as u64 + 1, 999_999_999))))
                }
                "tcp_try_connect" => simple(move || try_out(TcpStream::try_connect(&addr))),
                _ => {
                    // obtain a TcpStreamInProgress: a connect to a listener whose accept queue we do not drain is
                    // EINPROGRESS on the first, non-blocking call
                    // force the first connect to report EINPROGRESS without being executed: the stream is then
                    // genuinely "in progress" from the code's point of view and the operation under test connects it
                    let s0 = kit::open_fds();
                    sc::shim::fail_nth(Some(sc::nr::CONNECT), 0, sc::shim::neg_errno(115));
                    let r = TcpStream::try_connect(&addr);
                    sc::shim::clear_handler();
                    let p = match r {
                        Ok(TcpTryConnect::InProgress(p)) => p,
                        _ => return None,
                    };
                    let owned: Vec<i32> = kit::open_fds().into_iter().filter(|x| !s0.contains(x)).collect();
                    let nm = name.to_string();
                    let mut s = simple(move || {
                        if nm == "tcp_inprogress_try" {
                            try_out(p.try_connect())
                        } else {
                            one_fd(p.connect_blocking())
                        }
                    });
                    s.owned_in = owned;
                    s
                }
            };
            s.guards = guards;
            s
        }
        "tcp_bind" => {
            let addr = SocketAddress::new(Ip::V4([127, 0, 0, 1]), 0);
            simple(move || one_opaque(TcpListener::bind(&addr)))
        }
        "tcp_bind_inuse" => {
            let l = std::net::TcpListener::bind("127.0.0.1:0").unwrap();
            let addr = SocketAddress::new(Ip::V4([127, 0, 0, 1]), l.local_addr().unwrap().port());
            let mut s = simple(move || one_opaque(TcpListener::bind(&addr)));
            s.guards.push(Box::new(l));
            s
        }
        "tcp_accept" | "tcp_try_accept" | "tcp_accept_timeout" | "tcp_try_accept_none" | "tcp_accept_timeout_none"
        | "tcp_accept_timeout_huge" | "tcp_accept_timeout_huge2" => {
            let mut l = TcpListener::bind(&SocketAddress::new(Ip::V4([127, 0, 0, 1]), 0)).unwrap();
            let la = l.local_addr().unwrap();
            let mut guards: Vec<Box<dyn Any>> = vec![];
            if !name.ends_with("none") {
                // SocketAddress has no accessors: find the port through /proc-free means (getsockname via std)
                let port = sockaddr_port(&la);
                guards.push(Box::new(std::net::TcpStream::connect(("127.0.0.1", port)).unwrap()));
                std::thread::sleep(std::time::Duration::from_millis(5));
            }
            let nm = name.to_string();
            let mut s = simple(move || {
                let mut o = match nm.as_str() {
                    "tcp_accept" => one_fd(l.accept()),
                    "tcp_try_accept" | "tcp_try_accept_none" => opt_fd(l.try_accept()),
                    "tcp_accept_timeout" => one_fd(l.accept_with_timeout(core::time::Duration::from_millis(200))),
                    "tcp_accept_timeout_huge" => one_fd(l.accept_with_timeout(core::time::Duration::MAX)),
                    "tcp_accept_timeout_huge2" => one_fd(l.accept_with_timeout(core::time::Duration::new(i64::MAX as u64 + 1, 0))),
                    _ => one_fd(l.accept_with_timeout(core::time::Duration::from_millis(20))),
                };
                o.keep = Box::new((o.keep, l));
                o
            });
            s.guards = guards;
            s
        }
        // ---------------------------------------------------------------- processes
        "spawn_inherit" => {
            let mut s = simple(move || spawn_cmd(me, None, None, None));
            s.reap = true;
            s
        }
        "spawn_null" => {
            let mut s = simple(move || spawn_cmd(me, Some(Stdio::Null), Some(Stdio::Null), Some(Stdio::Null)));
            s.reap = true;
            s
        }
        "spawn_pipe" => {
            let mut s = simple(move || spawn_cmd(me, Some(Stdio::MakePipe), Some(Stdio::MakePipe), Some(Stdio::MakePipe)));
            s.reap = true;
            s
        }
        "spawn_mixed" => {
            let mut s = simple(move || spawn_cmd(me, Some(Stdio::Null), Some(Stdio::MakePipe), None));
            s.reap = true;
            s
        }
        "spawn_rawfd" => {
            // the descriptor given as Stdio::RawFd is consumed by spawn (it is wrapped in an OwnedFd)
            let file = std::fs::File::create(f("out")).unwrap();
            let fd = std::os::unix::io::IntoRawFd::into_raw_fd(file);
            let mut s = simple(move || spawn_cmd(me, None, Some(Stdio::RawFd(rusl::platform::Fd::try_new(fd).unwrap())), None));
            s.owned_in = vec![fd];
            s.reap = true;
            s
        }
        "spawn_rawfd_late" => {
            // stdin = Null (its open can fail) BEFORE the RawFd stream
            let file = std::fs::File::create(f("out")).unwrap();
            let fd = std::os::unix::io::IntoRawFd::into_raw_fd(file);
            let mut s = simple(move || spawn_cmd(me, Some(Stdio::Null), Some(Stdio::RawFd(rusl::platform::Fd::try_new(fd).unwrap())), None));
            s.owned_in = vec![fd];
            s.reap = true;
            s
        }
        "spawn_noexec" => {
            let mut s = simple(move || spawn_cmd(format!("{}/does-not-exist", tmp), None, None, None));
            s.reap = true;
            s
        }
        // ---------------------------------------------------------------- pipes, epoll, passwd, pty
        "pipe2" => simple(move || match rusl::unistd::pipe2(rusl::platform::OpenFlags::O_CLOEXEC) {
            Ok(p) => {
                let v = vec![p.in_pipe.value(), p.out_pipe.value()];
                OpOut { out: "ok".into(), handed: Handed::Fds(v.clone()), keep: Box::new(()), raw_close: v }
            }
            Err(e) => nothing(rusl_err_str(&e)),
        }),
        "epoll_create" => simple(move || one_opaque(EpollDriver::create(true))),
        "epoll_use" => simple(move || {
            let d = match EpollDriver::create(true) {
                Ok(d) => d,
                Err(e) => return nothing(err_str(&e)),
            };
            if let Err(e) = d.register(rusl::platform::STDOUT, 1, EpollEventMask::EPOLLOUT) {
                return nothing(err_str(&e));
            }
            let mut buf = [EpollEvent::new(0, EpollEventMask::empty())];
            if let Err(e) = d.wait(&mut buf, EpollTimeout::NoWait) {
                return nothing(err_str(&e));
            }
            if let Err(e) = d.unregister(rusl::platform::STDOUT) {
                return nothing(err_str(&e));
            }
            nothing("ok".into())
        }),
        "getpwuid" | "getpwuid_last" => {
            // (a uid that is not listed makes getpwuid_r spin for ever on read() = 0: not a descriptor question,
            // so the second scenario asks for the LAST listed uid, which needs several reads)
            let uid = if name == "getpwuid" {
                0
            } else {
                let t = std::fs::read_to_string("/etc/passwd").ok()?;
                t.lines().last()?.split(':').nth(2)?.parse().ok()?
            };
            simple(move || {
                let mut buf = [0u8; 256];
                match tiny_std::unix::passwd::getpw_r::getpwuid_r(uid, &mut buf) {
                    Ok(Some(_)) => nothing("ok".into()),
                    Ok(None) => nothing("none".into()),
                    Err(e) => nothing(err_str(&e)),
                }
            })
        }
        "openpty" | "openpty_tio" | "openpty_named" => {
            use tiny_std::unix::misc::openpty::openpty;
            let mut tio = None;
            if name == "openpty_tio" {
                let h = openpty(None, None, None).ok()?;
                tio = rusl::termios::tcgetattr(h.slave).ok();
                kit::raw_close(h.master.value());
                kit::raw_close(h.slave.value());
            }
            let named = name == "openpty_named";
            simple(move || {
                let ws = rusl::platform::WindowSize::new(24, 80, 0, 0);
                let nm = us("/dev/null");
                let r = if named {
                    openpty(Some(&nm), None, None)
                } else if let Some(t) = tio.as_ref() {
                    openpty(None, Some(t), Some(&ws))
                } else {
                    openpty(None, None, None)
                };
                match r {
                    Ok(h) => {
                        let v = vec![h.master.value(), h.slave.value()];
                        OpOut { out: "ok".into(), handed: Handed::Fds(v.clone()), keep: Box::new(()), raw_close: v }
                    }
                    Err(e) => nothing(err_str(&e)),
                }
            })
        }
        // ---------------------------------------------------------------- io_uring (rusl): set-up, and Drop as an operation
        // `_nosingle`: IORING_FEAT_SINGLE_MMAP hidden from the code (three mappings instead of two)
        "io_uring_setup" | "io_uring_setup_nosingle" => {
            kit::hide_single_mmap(name.ends_with("nosingle"));
            let mut s = simple(move || match rusl::io_uring::setup_io_uring(8, rusl::platform::IoUringParamFlags::empty(), 0, 0) {
                Ok(ring) => OpOut { out: "ok".into(), handed: Handed::Fds(vec![ring.fd.value()]), keep: Box::new(ring), raw_close: vec![] },
                Err(e) => nothing(rusl_err_str(&e)),
            });
            s.ents = uring_single(name).into();
            s
        }
        "io_uring_drop" | "io_uring_drop_nosingle" => {
            // the ring exists before the measurement starts; the operation is `drop(ring)`: it owns the ring fd on entry
            kit::hide_single_mmap(name.ends_with("nosingle"));
            let s0 = kit::open_fds();
            kit::begin(vec![], -1);
            let r = rusl::io_uring::setup_io_uring(8, rusl::platform::IoUringParamFlags::empty(), 0, 0);
            let _ = kit::end();
            let ring = r.ok()?;
            let owned: Vec<i32> = kit::open_fds().into_iter().filter(|x| !s0.contains(x)).collect();
            let mut s = simple(move || {
                drop(ring);
                nothing("ok".into())
            });
            s.owned_in = owned;
            s.ents = uring_single(name).into();
            s
        }
        // ---------------------------------------------------------------- receiving descriptors (rusl recvmsg + control_messages)
        // `recvmsg_rights_<k>_<len>`: the peer has sent ONE message with k descriptors (SCM_RIGHTS); the operation receives it
        // with a control buffer of <len> bytes (0 = none), iterates control_messages() and owns every descriptor it yields
        n if n.starts_with("recvmsg_rights_") => {
            use rusl::platform::{ControlMessageSend, IoSlice, IoSliceMut, MsgHdrBorrow};
            use std::os::unix::io::AsRawFd as _;
            let mut it = n["recvmsg_rights_".len()..].split('_');
            let k: usize = it.next()?.parse().ok()?;
            let len: usize = it.next()?.parse().ok()?;
            if it.next().is_some() || k == 0 || k > 4 || len > 64 {
                return None;
            }
            let (tx, rx) = std::os::unix::net::UnixStream::pair().ok()?;
            let files: Vec<std::fs::File> = (0..k).map(|_| std::fs::File::open("/dev/null").unwrap()).collect();
            let to_send: Vec<rusl::platform::Fd> = files.iter().map(|f| rusl::platform::Fd::try_new(f.as_raw_fd()).unwrap()).collect();
            let io_out = [IoSlice::new(b"Hello")];
            let snd = MsgHdrBorrow::create_send(None, &io_out, Some(ControlMessageSend::ScmRights(&to_send)));
            let sent = rusl::network::sendmsg(rusl::platform::Fd::try_new(tx.as_raw_fd()).unwrap(), &snd, 0).ok()?;
            if sent != 5 {
                return None;
            }
            let rxfd = rusl::platform::Fd::try_new(rx.as_raw_fd()).unwrap();
            let mut s = simple(move || {
                #[repr(C, align(8))]
                struct Aligned([u8; 64]);
                let mut data = [0u8; 16];
                let mut io_in = [IoSliceMut::new(&mut data)];
                let mut ctrl = Aligned([0u8; 64]);
                let mut got: Vec<i32> = vec![];
                let r = {
                    let mut hdr = MsgHdrBorrow::create_recv(&mut io_in, if len == 0 { None } else { Some(&mut ctrl.0[..len]) });
                    let r = rusl::network::recvmsg(rxfd, &mut hdr, 0);
                    if r.is_ok() {
                        let hdr = &hdr;
                        for cm in hdr.control_messages() {
                            match cm {
                                ControlMessageSend::ScmRights(fds) => got.extend(fds.iter().map(|f| f.value())),
                            }
                        }
                    }
                    r
                };
                match r {
                    Ok(_) => OpOut { out: "ok".into(), handed: Handed::Fds(got.clone()), keep: Box::new(()), raw_close: got },
                    Err(e) => nothing(rusl_err_str(&e)),
                }
            });
            s.guards.push(Box::new((tx, rx, files)));
            s
        }
        _ => return None,
    })
}

/// does the code see IORING_FEAT_SINGLE_MMAP for this scenario?  `S` = yes (two mappings), `N` = no (three): what the
/// running kernel answers to a probe `io_uring_setup`, unless the scenario hides the feature
fn uring_single(name: &str) -> &'static str {
    if name.ends_with("nosingle") {
        return "N";
    }
    let mut p = rusl::platform::IoUringParams::new(rusl::platform::IoUringParamFlags::empty(), 0, 0);
    match rusl::io_uring::io_uring_setup(8, &mut p) {
        Ok(fd) => {
            kit::raw_close(fd.value());
            if p.0.features & 1 != 0 { "S" } else { "N" }
        }
        Err(_) => "N",
    }
}

fn sockaddr_port(_a: &SocketAddress) -> u16 {
    // SocketAddress keeps its fields private; Debug prints them
    let s = format!("{:?}", _a);
    let i = s.find("port: ").unwrap() + 6;
    s[i..].trim_end_matches(|c: char| !c.is_ascii_digit()).parse().unwrap()
}

/// The state of the descriptor table the operation is entered with (`<scenario>@<spec>`):
///   `@<subset of 012>`: those standard descriptors are FREE at entry (closed after the scenario was
///                       set up), so the kernel hands these numbers to the operation's next creations;
///   `@lim<k>`:          RLIMIT_NOFILE is lowered so that exactly `k` more numbers can be handed out: the
///                       (k+1)-th creation fails with a real EMFILE.
struct Entry {
    spec: String,
    close: Vec<i32>,
    lim: Option<usize>,
}

fn parse_entry(full: &str) -> Option<(&str, Entry)> {
    let (name, spec) = match full.split_once('@') {
        None => return Some((full, Entry { spec: "-".into(), close: vec![], lim: None })),
        Some(x) => x,
    };
    if let Some(k) = spec.strip_prefix("lim") {
        if k.len() != 1 {
            return None;
        }
        let k: usize = k.parse().ok()?;
        return Some((name, Entry { spec: spec.into(), close: vec![], lim: Some(k) }));
    }
    let mut close = vec![];
    for c in spec.chars() {
        let d = c.to_digit(10)? as i32;
        if d > 2 || close.last().map_or(false, |l| *l >= d) {
            return None;
        }
        close.push(d);
    }
    if close.is_empty() {
        return None;
    }
    Some((name, Entry { spec: spec.into(), close, lim: None }))
}

fn join(v: &[i32]) -> String {
    if v.is_empty() {
        "-".to_string()
    } else {
        v.iter().map(|x| x.to_string()).collect::<Vec<_>>().join(",")
    }
}

fn case_main(full: &str, faults: &str) {
    let (name, entry) = match parse_entry(full) {
        Some(x) => x,
        None => {
            println!("bad-op");
            return;
        }
    };
    let faults = match kit::parse_faults(faults) {
        Some(f) => f,
        None => {
            println!("bad-op");
            return;
        }
    };
    std::panic::set_hook(Box::new(|_| {}));
    let mut su = match setup(name) {
        Some(s) => s,
        None => {
            println!("bad-op");
            return;
        }
    };
    // the harness's own channels live on high numbers: the result line never goes through 0/1/2
    let outfd = kit::raw_dup_high(1, 240)
        .or_else(|| kit::raw_dup_high(1, 100))
        .or_else(|| kit::raw_dup_high(1, 3))
        .expect("dup of the result channel");
    let (cr, cw) = kit::raw_pipe_cloexec();
    let op = std::mem::replace(&mut su.op, Box::new(|| nothing("".into())));
    // ---- entry state of the descriptor table
    for fd in &entry.close {
        kit::raw_close(*fd);
    }
    // a witness (dup, high, CLOEXEC) of every descriptor that is not the operation's: after the operation the
    // number must still name the same open file description as its witness
    let wit: Vec<(i32, i32)> = kit::open_fds()
        .into_iter()
        .filter(|x| !su.owned_in.contains(x))
        .filter_map(|x| kit::raw_dup_high(x, 100).map(|w| (x, w)))
        .collect();
    let limits = kit::raw_get_nofile();
    if let Some(k) = entry.lim {
        let open = kit::open_fds();
        let free: Vec<usize> = (0..kit::MAXFD).filter(|n| !open.contains(&(*n as i32))).collect();
        let soft = free.get(k).copied().unwrap_or(kit::MAXFD) as u64;
        if !kit::raw_set_nofile(soft, limits.1) {
            kit::raw_write(outfd, "bad-op\n");
            return;
        }
    }
    let before = kit::open_fds();
    kit::begin(faults, cw);
    let res = std::panic::catch_unwind(std::panic::AssertUnwindSafe(op));
    if !kit::in_case_process() {
        // the operation returned in a process it forked: say so and vanish
        let leaked = kit::open_fds().into_iter().filter(|x| !before.contains(x)).count();
        kit::raw_write(cw, &format!("returned:leaked{}\n", leaked));
        kit::raw_exit(0);
    }
    let log = kit::end();
    if entry.lim.is_some() {
        kit::raw_set_nofile(limits.0, limits.1);
    }
    let after = kit::open_fds();
    // identity, not number: a foreign descriptor that was closed and whose number was taken again
    let replaced = wit.iter().filter(|(x, w)| after.contains(x) && !kit::same_file(*x, *w)).count();
    for (_, w) in &wit {
        kit::raw_close(*w);
    }
    kit::raw_close(cw);
    let (out, handed, keep, raw_close) = match res {
        Ok(o) => (o.out, o.handed, Some(o.keep), o.raw_close),
        Err(_) => ("panic".to_string(), Handed::Count(0), None, vec![]),
    };
    // descriptors given to the operation count as its own: if still open they must be inside the result
    let new: Vec<i32> = after.iter().copied().filter(|x| !before.contains(x) || su.owned_in.contains(x)).collect();
    let (n_handed, leaked, dangling) = match &handed {
        Handed::Fds(v) => (v.len(), new.iter().filter(|x| !v.contains(x)).count(), v.iter().filter(|x| !after.contains(x)).count()),
        Handed::Count(n) => (*n, new.len().saturating_sub(*n), n.saturating_sub(new.len())),
    };
    // an owned-in descriptor may legitimately be gone (consumed) or still be there (handed back inside the result)
    let stolen = before.iter().filter(|x| !after.contains(x) && !su.owned_in.contains(x)).count();
    // trace-level discipline: every close must hit a descriptor the operation created (or was given) and still holds
    let mut own: Vec<i32> = su.owned_in.clone();
    let mut closed: Vec<i32> = vec![];
    let mut nums: Vec<i32> = vec![];
    let (mut foreign, mut dbl) = (0, 0);
    for r in &log {
        for c in kit::created(r) {
            own.push(c);
            nums.push(c);
            closed.retain(|x| *x != c);
        }
        if let Some(c) = kit::released(r) {
            if let Some(i) = own.iter().position(|x| *x == c) {
                own.remove(i);
                closed.push(c);
            } else if closed.contains(&c) {
                dbl += 1;
            } else {
                foreign += 1;
            }
        }
    }
    let trace: Vec<String> = log.iter().map(kit::res_str).collect();
    // phase 2: drop what was handed out
    kit::begin(vec![], -1);
    drop(keep);
    for fd in &raw_close {
        let _ = rusl::unistd::close(rusl::platform::Fd::try_new(*fd).unwrap());
    }
    let dlog = kit::end();
    let dropbad = dlog.iter().filter(|r| r.nr == sc::nr::CLOSE && kit::is_err(r.ret)).count();
    let after2 = kit::open_fds();
    let residue = after2.iter().filter(|x| (!before.contains(x) || su.owned_in.contains(x)) && !wit.iter().any(|(_, w)| w == *x)).count();
    let child = kit::raw_read_all(cr);
    let child: Vec<&str> = child.lines().collect();
    if su.reap {
        // do not leave zombies / running children behind (not part of the measurement)
        for _ in 0..200 {
            let (pid, errno, _) = kit::raw_wait_any_nohang();
            if errno != 0 {
                break;
            }
            if pid == 0 {
                std::thread::sleep(std::time::Duration::from_millis(2));
            }
        }
    }
    // the tables, for the model's number-level view: `tab` = what was open at entry and is not the operation's,
    // `own` = the numbers it was given, `nums` = the numbers its successful creations received, in order,
    // `fin` = what is open when it has returned
    let tab: Vec<i32> = before.iter().copied().filter(|x| !su.owned_in.contains(x)).collect();
    kit::raw_write(
        outfd,
        &format!(
            "out={} trace={} handed={} leaked={} dangling={} stolen={} foreign={} dbl={} residue={} dropbad={} child={} ents={} entry={} replaced={} tab={} own={} nums={} fin={}\n",
            out,
            if trace.is_empty() { "-".to_string() } else { trace.join(",") },
            n_handed,
            leaked,
            dangling,
            stolen,
            foreign,
            dbl,
            residue,
            dropbad,
            if child.is_empty() { "-".to_string() } else { child.join(",") },
            su.ents,
            entry.spec,
            replaced,
            join(&tab),
            join(&su.owned_in),
            join(&nums),
            join(&after)
        ),
    );
    drop(su.guards);
    let _ = std::fs::remove_dir_all(format!("{}/c12-{}", std::env::temp_dir().display(), std::process::id()));
}

fn main() {
    let args: Vec<String> = std::env::args().collect();
    if args.len() >= 2 && args[1] == "--noop" {
        return;
    }
    if args.len() == 4 && args[1] == "--case" {
        case_main(&args[2], &args[3]);
        return;
    }
    let jobs = std::env::var("C12_JOBS").ok().and_then(|s| s.parse().ok()).unwrap_or(8);
    kit::dispatch_lines(jobs, 8000);
}
