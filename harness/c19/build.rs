//! Copies the real time module of tiny-std from /repo (VERIF_REPO) into src/gen/time/ so that it is compiled as a
//! module of this harness with the glue (src/glue.rs) mounted as its CHILD module `verif` (a child sees the private
//! functions and the tuple fields):
//!   tiny-std/src/time.rs  (or tiny-std/src/time/mod.rs)  -> src/gen/time/mod.rs  + `#[path = "verif_glue.rs"] pub mod verif;`
//!   every *.rs below tiny-std/src/time/                  -> src/gen/time/<same relative path>
//!   src/glue.rs + explicit imports                       -> src/gen/time/verif_glue.rs
//! The time implementation may be split over any number of module files (`mod arith;` ...): nothing here depends on
//! which file a function lives in.  The glue reaches the items it calls through `use super::*` (items of time.rs and
//! whatever time.rs imports with `use child::{..}`); for an item that lives in a (non-test) child module and is NOT
//! re-imported by time.rs an explicit `use super::<child path>::<name>;` is appended.
use std::collections::BTreeMap;
use std::fs;
use std::path::{Path, PathBuf};

/// names the glue calls
const NEEDED: [&str; 9] = [
    "checked_add_dur", "checked_sub_dur", "sub_ts_dur", "sub_ts_checked_dur", "get_monotonic_time", "get_real_time",
    "Instant", "SystemTime", "MonotonicInstant",
];

fn rs_files(dir: &Path, rel: &str, out: &mut Vec<(PathBuf, String)>) {
    let Ok(rd) = fs::read_dir(dir) else { return };
    let mut ents: Vec<_> = rd.filter_map(|e| e.ok()).collect();
    ents.sort_by_key(|e| e.file_name());
    for e in ents {
        let n = e.file_name().to_string_lossy().into_owned();
        let r = if rel.is_empty() { n.clone() } else { format!("{rel}/{n}") };
        let p = e.path();
        if p.is_dir() {
            rs_files(&p, &r, out);
        } else if n.ends_with(".rs") {
            out.push((p, r));
        }
    }
}

/// `mod x;` declarations of `src` that are not `#[cfg(test)]` (line based: rustfmt layout)
fn declared_mods(src: &str) -> Vec<String> {
    let mut out = Vec::new();
    let mut attrs: Vec<String> = Vec::new();
    for line in src.lines() {
        let l = line.trim();
        if l.starts_with("#[") {
            attrs.push(l.replace(' ', ""));
            continue;
        }
        if l.is_empty() || l.starts_with("//") {
            continue;
        }
        if line.starts_with(char::is_whitespace) {
            attrs.clear();
            continue; // nested item
        }
        let mut d = l;
        if let Some(r) = d.strip_prefix("pub") {
            d = r.trim_start();
            if d.starts_with('(') {
                if let Some(i) = d.find(')') {
                    d = d[i + 1..].trim_start();
                }
            }
        }
        if let Some(r) = d.strip_prefix("mod ") {
            if let Some(name) = r.trim().strip_suffix(';') {
                if !attrs.iter().any(|a| a.starts_with("#[cfg(test")) {
                    out.push(name.trim().to_string());
                }
            }
        }
        attrs.clear();
    }
    out
}

fn defines(src: &str, name: &str) -> bool {
    src.lines().any(|l| {
        if l.starts_with(char::is_whitespace) {
            return false;
        }
        for kw in ["fn ", "struct "] {
            if let Some(i) = l.find(kw) {
                let rest = &l[i + kw.len()..];
                if let Some(after) = rest.strip_prefix(name) {
                    if !after.starts_with(|c: char| c.is_alphanumeric() || c == '_') && !l[..i].contains("//") {
                        return true;
                    }
                }
            }
        }
        false
    })
}

/// walk the non-test module files below `modpath`; record where each needed name is defined
fn walk(files: &BTreeMap<String, String>, file: &str, dir: &str, modpath: &str, found: &mut BTreeMap<String, Vec<String>>) {
    let Some(src) = files.get(file) else { return };
    if !modpath.is_empty() {
        for n in NEEDED {
            if defines(src, n) {
                let v = found.entry(n.to_string()).or_default();
                let p = format!("super{modpath}::{n}");
                if !v.contains(&p) {
                    v.push(p);
                }
            }
        }
    }
    for m in declared_mods(src) {
        let (a, b) = if dir.is_empty() { (format!("{m}.rs"), format!("{m}/mod.rs")) } else { (format!("{dir}/{m}.rs"), format!("{dir}/{m}/mod.rs")) };
        let sub = if dir.is_empty() { m.clone() } else { format!("{dir}/{m}") };
        let f = if files.contains_key(&a) { a } else { b };
        walk(files, &f, &sub, &format!("{modpath}::{m}"), found);
    }
}

fn write_if_changed(p: &Path, s: &str) {
    if fs::read_to_string(p).ok().as_deref() != Some(s) {
        if let Some(d) = p.parent() {
            fs::create_dir_all(d).unwrap();
        }
        fs::write(p, s).unwrap();
    }
}

fn main() {
    let repo = std::env::var("VERIF_REPO").unwrap_or_else(|_| "/repo".to_string());
    let manifest = std::env::var("CARGO_MANIFEST_DIR").unwrap();
    let out = Path::new(&manifest).join("src/gen/time");
    fs::create_dir_all(&out).unwrap();
    let src = Path::new(&repo).join("tiny-std/src");
    let dir = src.join("time");
    println!("cargo:rerun-if-env-changed=VERIF_REPO");
    println!("cargo:rerun-if-changed={}", src.join("time.rs").display());
    println!("cargo:rerun-if-changed={}", dir.display());
    println!("cargo:rerun-if-changed=src/glue.rs");
    println!("cargo:rerun-if-changed=build.rs");

    let mut listed = Vec::new();
    rs_files(&dir, "", &mut listed);
    let mut files: BTreeMap<String, String> = BTreeMap::new(); // path relative to gen/time -> text
    for (p, r) in listed {
        println!("cargo:rerun-if-changed={}", p.display());
        files.insert(r, fs::read_to_string(&p).expect("read time module file"));
    }
    if let Ok(root) = fs::read_to_string(src.join("time.rs")) {
        files.insert("mod.rs".to_string(), root);
    }
    let root = files.get("mod.rs").expect("neither tiny-std/src/time.rs nor tiny-std/src/time/mod.rs").clone();

    let mut found = BTreeMap::new();
    walk(&files, "mod.rs", "", "", &mut found);
    let mut glue = fs::read_to_string(Path::new(&manifest).join("src/glue.rs")).expect("read src/glue.rs");
    glue.push_str("\n// appended by build.rs: items of the time implementation that live in a child module of `time`\n");
    for (n, paths) in &found {
        if paths.len() == 1 && !defines(&root, n) {
            glue.push_str(&format!("#[allow(unused_imports)]\nuse {};\n", paths[0]));
        }
    }
    files.insert("mod.rs".to_string(), format!("{root}\n// appended by harness/c19/build.rs\n#[path = \"verif_glue.rs\"]\npub mod verif;\n"));
    files.insert("verif_glue.rs".to_string(), glue);

    let mut present = Vec::new();
    rs_files(&out, "", &mut present);
    for (p, r) in present {
        if !files.contains_key(&r) {
            let _ = fs::remove_file(p);
        }
    }
    for (r, s) in &files {
        write_if_changed(&out.join(r), s);
    }
}
