// C19 glue: mounted by build.rs as the child module `time::verif` of the copied time module (gen/time/mod.rs), so
// that the private functions and tuple fields of tiny-std's time implementation are reachable.  build.rs appends
// explicit `use super::<module>::<name>;` lines for the names below that live in a child module of `time`
// (e.g. time/arith.rs) — with the usual `use arith::{..}` re-import in time.rs the glob alone already reaches them.
use super::*;
use core::time::Duration;
use rusl::platform::TimeSpec;

fn ts(o: Option<TimeSpec>) -> String {
    match o {
        Some(t) => format!("some {} {}", t.seconds(), t.nanoseconds()),
        None => "none".to_string(),
    }
}
fn du(o: Option<Duration>) -> String {
    match o {
        Some(d) => format!("some {} {}", d.as_secs(), d.subsec_nanos()),
        None => "none".to_string(),
    }
}

/// `variant` selects which public type the operation goes through (glue coverage).
pub fn run(op: &str, a: i64, b: i64, c: i128, d: i64, variant: u8) -> String {
    match op {
        "add" => {
            let dur = Duration::new(c as u64, d as u32);
            let t = TimeSpec::new(a, b);
            match variant % 3 {
                0 => ts((Instant(t) + dur).map(|i| i.0)),
                1 => ts((SystemTime(t) + dur).map(|i| i.0)),
                _ => ts(checked_add_dur(t, dur)),
            }
        }
        "sub" => {
            let dur = Duration::new(c as u64, d as u32);
            let t = TimeSpec::new(a, b);
            match variant % 3 {
                0 => ts((Instant(t) - dur).map(|i| i.0)),
                1 => ts((SystemTime(t) - dur).map(|i| i.0)),
                _ => ts(checked_sub_dur(t, dur)),
            }
        }
        "diff" => {
            let l = TimeSpec::new(a, b);
            let r = TimeSpec::new(c as i64, d);
            match variant % 4 {
                0 => du(Instant(l) - Instant(r)),
                1 => du(SystemTime(l) - SystemTime(r)),
                2 => du(Instant(l).duration_since(Instant(r))),
                _ => du(SystemTime::from(l).duration_since(SystemTime::from(r))),
            }
        }
        "diffu" => {
            let l = TimeSpec::new(a, b);
            let r = TimeSpec::new(c as i64, d);
            if c == 0 && d == 0 && variant % 2 == 0 {
                du(Some(SystemTime(l).duration_since_unix_time()))
            } else {
                du(Some(sub_ts_dur(l, r)))
            }
        }
        "cmp" => {
            let l = TimeSpec::new(a, b);
            let r = TimeSpec::new(c as i64, d);
            let o = match variant % 3 {
                0 => Instant(l).cmp(&Instant(r)),
                1 => SystemTime(l).cmp(&SystemTime(r)),
                _ => l.cmp(&r),
            };
            match o {
                core::cmp::Ordering::Less => "lt",
                core::cmp::Ordering::Equal => "eq",
                core::cmp::Ordering::Greater => "gt",
            }
            .to_string()
        }
        _ => "bad-op".to_string(),
    }
}

/// `elapsed()` on a value `delta` ns away from the live clock (positive = in the future).  Returns what the
/// entry point returned together with the reading taken right before the call.
pub fn elapsed_probe(kind: &str, delta: i64) -> String {
    let shift = |t: TimeSpec| -> TimeSpec {
        let total = t.seconds() as i128 * 1_000_000_000 + t.nanoseconds() as i128 + delta as i128;
        TimeSpec::new((total.div_euclid(1_000_000_000)) as i64, (total.rem_euclid(1_000_000_000)) as i64)
    };
    match kind {
        "instant" => {
            let base = shift(get_monotonic_time());
            du(Instant(base).elapsed())
        }
        "system" => {
            let base = shift(get_real_time());
            du(SystemTime(base).elapsed())
        }
        "mono" => {
            let base = shift(get_monotonic_time());
            du(Some(MonotonicInstant(base).elapsed()))
        }
        _ => "bad-op".to_string(),
    }
}

/// observations (not compared with the model): monotonic clock never decreases
pub fn monotonic_probe(n: usize) -> (usize, i128) {
    let mut prev = MonotonicInstant::now();
    let mut bad = 0usize;
    let mut worst: i128 = 0;
    for _ in 0..n {
        let cur = MonotonicInstant::now();
        if cur < prev {
            bad += 1;
            let p = prev.0.seconds() as i128 * 1_000_000_000 + prev.0.nanoseconds() as i128;
            let c = cur.0.seconds() as i128 * 1_000_000_000 + cur.0.nanoseconds() as i128;
            worst = worst.max(p - c);
        }
        prev = cur;
    }
    (bad, worst)
}
