//! C19 correspondence harness: runs the *real* time module of tiny-std (tiny-std/src/time.rs and the files of
//! tiny-std/src/time/, copied from /repo by build.rs with the glue src/glue.rs mounted as a child module, so private
//! functions and tuple fields are reachable) on one operation per stdin line.
#![allow(dead_code, unused_imports, clippy::all)]
use std::io::{BufRead, Write};

// the real time module: build.rs copies /repo/tiny-std/src/time.rs (or time/mod.rs) and every file below
// /repo/tiny-std/src/time/ to src/gen/time/, and mounts src/glue.rs as its child module `verif`
#[path = "gen/time/mod.rs"]
mod time;

/// `thread::sleep` over a scripted nanosleep (sc-shim handler): the kernel side follows the script and
/// computes "time slept" from the timespec the code actually passed in.
fn sleep_scripted(req: u64, script: &[&str]) -> String {
    use std::cell::RefCell;
    use std::rc::Rc;
    #[derive(Clone)]
    enum Resp { Done(u64), Eintr(u64, u64), Err(usize) }
    let mut resps = Vec::new();
    let mut i = 0;
    while i < script.len() {
        match script[i] {
            "done" => { resps.push(Resp::Done(script[i + 1].parse().unwrap())); i += 2; }
            "eintr" => { resps.push(Resp::Eintr(script[i + 1].parse().unwrap(), script[i + 2].parse().unwrap())); i += 3; }
            "err" => { resps.push(Resp::Err(script[i + 1].parse().unwrap())); i += 2; }
            _ => return "bad-op".to_string(),
        }
    }
    let st = Rc::new(RefCell::new((0u64, 0u64, 0usize, false))); // slept, calls, idx, exhausted
    let st2 = st.clone();
    sc::shim::set_handler(Box::new(move |n, a, _| {
        if n != sc::nr::NANOSLEEP {
            return None;
        }
        let mut s = st2.borrow_mut();
        if s.2 >= resps.len() {
            s.3 = true;
            return Some(sc::shim::neg_errno(14)); // script exhausted: EFAULT ends the loop
        }
        let r = resps[s.2].clone();
        s.2 += 1;
        s.1 += 1;
        let ts = a[0] as *mut [i64; 2];
        let cur = unsafe { (*ts)[0] as u64 * 1_000_000_000 + (*ts)[1] as u64 };
        match r {
            Resp::Done(extra) => { s.0 += cur + extra; Some(0) }
            Resp::Eintr(slept, slack) => {
                let sl = slept.min(cur);
                s.0 += sl;
                let rem = cur - sl + slack;
                let out = a[1] as *mut [i64; 2];
                if !out.is_null() {
                    unsafe { (*out)[0] = (rem / 1_000_000_000) as i64; (*out)[1] = (rem % 1_000_000_000) as i64; }
                }
                Some(sc::shim::neg_errno(4))
            }
            Resp::Err(c) => Some(sc::shim::neg_errno(c)),
        }
    }));
    let r = tiny_std::thread::sleep(core::time::Duration::from_nanos(req));
    sc::shim::clear_handler();
    let s = st.borrow();
    let rs = if s.3 { "looping" } else if r.is_ok() { "ok" } else { "err" };
    format!("{} {} {}", rs, s.0, s.1)
}

fn main() {
    std::panic::set_hook(Box::new(|_| {}));
    let stdin = std::io::stdin();
    let stdout = std::io::stdout();
    let mut out = std::io::BufWriter::new(stdout.lock());
    let mut n: u64 = 0;
    for line in stdin.lock().lines() {
        let line = line.unwrap();
        let w: Vec<&str> = line.split_whitespace().collect();
        n += 1;
        let res = match w.as_slice() {
            ["mode", _] => "ok".to_string(),
            ["monotonic", k] => {
                let (bad, worst) = time::verif::monotonic_probe(k.parse().unwrap());
                format!("monotonic {} {}", bad, worst)
            }
            ["sleep", req, rest @ ..] => sleep_scripted(req.parse().unwrap(), rest),
            // the Duration -> TimeSpec conversion of rusl (what thread::sleep hands to nanosleep)
            ["d2ts", secs, nanos] => {
                let (secs, nanos): (u64, u32) = (secs.parse().unwrap(), nanos.parse().unwrap());
                match std::panic::catch_unwind(move || {
                    match rusl::platform::TimeSpec::try_from(core::time::Duration::new(secs, nanos)) {
                        Ok(t) => format!("some {} {}", t.seconds(), t.nanoseconds()),
                        Err(_) => "none".to_string(),
                    }
                }) {
                    Ok(s) => s,
                    Err(_) => "panic".to_string(),
                }
            }
            ["elapsed", kind, delta] => {
                let (kind, delta) = (kind.to_string(), delta.parse::<i64>().unwrap());
                match std::panic::catch_unwind(move || time::verif::elapsed_probe(&kind, delta)) {
                    Ok(s) => s,
                    Err(_) => "panic".to_string(),
                }
            }
            ["realsleep", ns] => {
                let ns: u64 = ns.parse().unwrap();
                let t0 = std::time::Instant::now();
                let r = tiny_std::thread::sleep(core::time::Duration::from_nanos(ns));
                let el = t0.elapsed().as_nanos();
                match r {
                    Ok(()) => format!("slept {}", el),
                    Err(_) => "err".to_string(),
                }
            }
            [op, a, b, c, d] => {
                let (a, b, c, d): (i64, i64, i128, i64) =
                    (a.parse().unwrap(), b.parse().unwrap(), c.parse().unwrap(), d.parse().unwrap());
                let op = op.to_string();
                let v = (n % 12) as u8;
                match std::panic::catch_unwind(move || time::verif::run(&op, a, b, c, d, v)) {
                    Ok(s) => s,
                    Err(_) => "panic".to_string(),
                }
            }
            _ => "bad-op".to_string(),
        };
        writeln!(out, "{}", res).unwrap();
    }
}
