//! Copies the real mem-symbols module of the repository — /repo/tiny-start/src/symbols/mem.rs (or
//! symbols/mem/mod.rs) AND every `.rs` file below /repo/tiny-start/src/symbols/mem/ (recursively) — into
//! OUT_DIR/mem/ (mem.rs -> mem/mod.rs, mem/x.rs -> mem/x.rs, …: `mod x;` resolves exactly as in the repo)
//! with exactly these textual substitutions, applied to every file alike:
//!   1. the attributes `#[no_mangle]` / `#[unsafe(no_mangle)]` are dropped (the functions keep their names
//!      inside `symbols::mem`, but no longer clash with / replace libc's memcpy… in this process);
//!   2. inner doc comments `//!` become plain comments `//`.
//! Nothing else is touched: every loop, threshold, mask and branch is the repo's.
//!
//! Then GLUE is *appended* (never inserted) so that the harness depends on no helper name or file layout:
//!   * the forward / backward copy routines are whatever `memcpy` / `memmove` call with their own parameters
//!     `(dest, src, n)`: `__c08_fwd` / `__c08_bwd` are appended to the file that defines memcpy / memmove and call
//!     that very path (so it resolves as it does there).  Not identified (inlined, different shape, …) => the
//!     `fwd` / `bwd` operations of the harness go through `memmove`, which C requires to be right for those inputs;
//!   * the three tuning constants, if constants named WORD_SIZE / WORD_MASK / WORD_COPY_THRESHOLD exist at module
//!     level of any of the files, are re-exported from their file as `__C08_*`; otherwise reported as `unknown`;
//!   * `pub mod verif` (the harness's entry points to all this) is appended to the module root.
//! Environment C08_GLUE = all (default) | fns | consts | none switches the discovered glue off (checks/c08.py
//! retries with less glue if a build with glue fails, so glue can never be the reason for a failed build).
use std::{
    env, fs,
    path::{Path, PathBuf},
};

const SYMS: [&str; 5] = ["memcpy", "memmove", "memset", "memcmp", "bcmp"];
const CONSTS: [&str; 3] = ["WORD_SIZE", "WORD_MASK", "WORD_COPY_THRESHOLD"];

/// same length as `text`; comments, string and char literals blanked (newlines kept) so that braces,
/// parentheses and identifiers found in it are code
fn mask(text: &str) -> Vec<u8> {
    let b = text.as_bytes();
    let mut o = b.to_vec();
    let n = b.len();
    let blank = |o: &mut Vec<u8>, from: usize, to: usize| {
        for k in from..to.min(n) {
            if o[k] != b'\n' {
                o[k] = b' ';
            }
        }
    };
    let is_id = |c: u8| c.is_ascii_alphanumeric() || c == b'_';
    let mut i = 0;
    while i < n {
        let c = b[i];
        if c == b'/' && i + 1 < n && b[i + 1] == b'/' {
            let mut j = i;
            while j < n && b[j] != b'\n' {
                j += 1;
            }
            blank(&mut o, i, j);
            i = j;
        } else if c == b'/' && i + 1 < n && b[i + 1] == b'*' {
            let mut depth = 1;
            let mut j = i + 2;
            while j < n && depth > 0 {
                if b[j] == b'/' && j + 1 < n && b[j + 1] == b'*' {
                    depth += 1;
                    j += 2;
                } else if b[j] == b'*' && j + 1 < n && b[j + 1] == b'/' {
                    depth -= 1;
                    j += 2;
                } else {
                    j += 1;
                }
            }
            blank(&mut o, i, j);
            i = j;
        } else if c == b'"' || (c == b'r' && (i == 0 || !is_id(b[i - 1])) && {
            let mut j = i + 1;
            while j < n && b[j] == b'#' {
                j += 1;
            }
            j < n && b[j] == b'"'
        }) {
            // string literal, plain or raw
            let mut j = i;
            let mut hashes = 0;
            let raw = c == b'r';
            if raw {
                j += 1;
                while b[j] == b'#' {
                    hashes += 1;
                    j += 1;
                }
            }
            j += 1; // opening quote
            loop {
                if j >= n {
                    break;
                }
                if !raw && b[j] == b'\\' {
                    j += 2;
                    continue;
                }
                if b[j] == b'"' {
                    let mut k = j + 1;
                    let mut h = 0;
                    while h < hashes && k < n && b[k] == b'#' {
                        h += 1;
                        k += 1;
                    }
                    if h == hashes {
                        j = k;
                        break;
                    }
                }
                j += 1;
            }
            blank(&mut o, i, j);
            i = j;
        } else if c == b'\'' {
            // char literal ('x', '\n', '\u{1F600}') or lifetime ('a)
            let mut j = i + 1;
            if j < n && b[j] == b'\\' {
                j += 2;
                while j < n && b[j] != b'\'' && j < i + 12 {
                    j += 1;
                }
                blank(&mut o, i, j + 1);
                i = j + 1;
            } else {
                // one (possibly multi-byte) character followed by a quote => char literal
                let mut k = j + 1;
                while k < n && (b[k] & 0xC0) == 0x80 {
                    k += 1;
                }
                if k < n && b[k] == b'\'' {
                    blank(&mut o, i, k + 1);
                    i = k + 1;
                } else {
                    i += 1; // lifetime
                }
            }
        } else {
            i += 1;
        }
    }
    o
}

fn is_id(c: u8) -> bool {
    c.is_ascii_alphanumeric() || c == b'_'
}

/// index of the bracket matching the opening one at `open` (any of ( [ { ), in masked text
fn matching(m: &[u8], open: usize) -> Option<usize> {
    let mut depth = 0i64;
    for (k, &c) in m.iter().enumerate().skip(open) {
        match c {
            b'(' | b'[' | b'{' => depth += 1,
            b')' | b']' | b'}' => {
                depth -= 1;
                if depth == 0 {
                    return Some(k);
                }
            }
            _ => {}
        }
    }
    None
}

/// brace depth of every byte position (module level = 0)
fn depths(m: &[u8]) -> Vec<i32> {
    let mut d = 0;
    let mut v = Vec::with_capacity(m.len());
    for &c in m {
        if c == b'}' {
            d -= 1;
        }
        v.push(d);
        if c == b'{' {
            d += 1;
        }
    }
    v
}

/// positions where the word `w` occurs as a whole identifier in masked text
fn word_positions(m: &[u8], w: &str) -> Vec<usize> {
    let wb = w.as_bytes();
    let mut v = vec![];
    if m.len() < wb.len() {
        return v;
    }
    for i in 0..=m.len() - wb.len() {
        if &m[i..i + wb.len()] == wb && (i == 0 || !is_id(m[i - 1])) && (i + wb.len() == m.len() || !is_id(m[i + wb.len()])) {
            v.push(i);
        }
    }
    v
}

fn skip_ws(m: &[u8], mut i: usize) -> usize {
    while i < m.len() && m[i].is_ascii_whitespace() {
        i += 1;
    }
    i
}

fn split_top(m: &[u8], lo: usize, hi: usize) -> Vec<(usize, usize)> {
    let mut parts = vec![];
    let mut depth = 0i32;
    let mut start = lo;
    for k in lo..hi {
        match m[k] {
            b'(' | b'[' | b'{' | b'<' => depth += 1,
            b')' | b']' | b'}' => depth -= 1,
            b'>' if k > lo && m[k - 1] != b'-' && m[k - 1] != b'=' => depth -= 1,
            b',' if depth == 0 => {
                parts.push((start, k));
                start = k + 1;
            }
            _ => {}
        }
    }
    if m[start..hi].iter().any(|c| !c.is_ascii_whitespace()) {
        parts.push((start, hi));
    }
    parts
}

struct FnDef {
    /// text of the parameter list (between the parentheses)
    params_text: String,
    /// parameter names in order
    params: Vec<String>,
    /// masked body, braces included
    body: Vec<u8>,
}

/// the module-level definition `fn NAME(…) … { … }` in a file, if there is exactly one
fn find_fn(text: &str, m: &[u8], name: &str) -> Option<FnDef> {
    let dep = depths(m);
    let mut found = vec![];
    for p in word_positions(m, name) {
        if dep[p] != 0 {
            continue;
        }
        // preceded by `fn`
        let mut q = p;
        while q > 0 && m[q - 1].is_ascii_whitespace() {
            q -= 1;
        }
        if q < 2 || &m[q - 2..q] != b"fn" || (q > 2 && is_id(m[q - 3])) {
            continue;
        }
        let open = skip_ws(m, p + name.len());
        if open >= m.len() || m[open] != b'(' {
            continue;
        }
        let close = matching(m, open)?;
        // the body: the first `{` after the parameter list (a return type holds no brace here)
        let mut bo = close + 1;
        while bo < m.len() && m[bo] != b'{' && m[bo] != b';' {
            bo += 1;
        }
        if bo >= m.len() || m[bo] != b'{' {
            continue;
        }
        let bc = matching(m, bo)?;
        let mut params = vec![];
        for (a, b) in split_top(m, open + 1, close) {
            let s = String::from_utf8_lossy(&m[a..b]).to_string();
            let pat = s.split(':').next().unwrap_or("").trim().to_string();
            let nm = pat.strip_prefix("mut ").unwrap_or(&pat).trim().to_string();
            if nm.is_empty() || !nm.bytes().all(is_id) {
                return None;
            }
            params.push(nm);
        }
        found.push(FnDef { params_text: text[open + 1..close].to_string(), params, body: m[bo..=bc].to_vec() });
    }
    if found.len() == 1 {
        found.pop()
    } else {
        None
    }
}

/// paths `a::b::c` called in `body` as `path(p0, p1, …)` with exactly the argument list `args`
fn callees_with_args(body: &[u8], args: &[String]) -> Vec<String> {
    let mut out: Vec<String> = vec![];
    let mut i = 0;
    while i < body.len() {
        if !(body[i].is_ascii_alphabetic() || body[i] == b'_') || (i > 0 && (is_id(body[i - 1]) || body[i - 1] == b'.')) {
            i += 1;
            continue;
        }
        // a path: ident (:: ident)*
        let start = i;
        let mut j = i;
        loop {
            while j < body.len() && is_id(body[j]) {
                j += 1;
            }
            if j + 2 < body.len() && &body[j..j + 2] == b"::" && (body[j + 2].is_ascii_alphabetic() || body[j + 2] == b'_') {
                j += 2;
            } else {
                break;
            }
        }
        let path = String::from_utf8_lossy(&body[start..j]).to_string();
        let open = skip_ws(body, j);
        i = j.max(i + 1);
        if open >= body.len() || body[open] != b'(' {
            continue;
        }
        // not a definition `fn path(`
        let mut q = start;
        while q > 0 && body[q - 1].is_ascii_whitespace() {
            q -= 1;
        }
        if q >= 2 && &body[q - 2..q] == b"fn" {
            continue;
        }
        let close = match matching(body, open) {
            Some(c) => c,
            None => continue,
        };
        let got: Vec<String> = split_top(body, open + 1, close).iter().map(|&(a, b)| String::from_utf8_lossy(&body[a..b]).trim().to_string()).collect();
        if got == args && !out.contains(&path) {
            out.push(path);
        }
    }
    out
}

/// `path` names something defined *inside* `body` (a nested fn: not reachable from outside)
fn defined_inside(body: &[u8], path: &str) -> bool {
    if path.contains("::") {
        return false;
    }
    word_positions(body, path).iter().any(|&p| {
        let mut q = p;
        while q > 0 && body[q - 1].is_ascii_whitespace() {
            q -= 1;
        }
        q >= 2 && &body[q - 2..q] == b"fn"
    })
}

struct File {
    /// path relative to OUT_DIR/mem
    rel: PathBuf,
    /// module path from the root of `mem` ("" = root, "copy", "a::b")
    modpath: String,
    text: String,
}

fn collect(dir: &Path, rel: &Path, files: &mut Vec<(PathBuf, PathBuf)>) {
    let mut entries: Vec<_> = match fs::read_dir(dir) {
        Ok(e) => e.filter_map(|x| x.ok()).collect(),
        Err(_) => return,
    };
    entries.sort_by_key(|e| e.file_name());
    for e in entries {
        let p = e.path();
        let r = rel.join(e.file_name());
        if p.is_dir() {
            collect(&p, &r, files);
        } else if p.extension().map_or(false, |x| x == "rs") {
            files.push((p, r));
        }
    }
}

/// the substitutions described at the top; returns (text, number of no_mangle attributes dropped)
fn preprocess(text: &str) -> (String, usize) {
    let m = mask(text);
    let mut drop = vec![false; text.len()];
    let mut stripped = 0;
    for pat in ["#[no_mangle]", "#[unsafe(no_mangle)]"] {
        let pb = pat.as_bytes();
        if m.len() < pb.len() {
            continue;
        }
        for i in 0..=m.len() - pb.len() {
            if &m[i..i + pb.len()] == pb {
                stripped += 1;
                for d in &mut drop[i..i + pb.len()] {
                    *d = true;
                }
            }
        }
    }
    let kept: Vec<u8> = text.bytes().enumerate().filter(|(k, _)| !drop[*k]).map(|(_, c)| c).collect();
    let kept = String::from_utf8(kept).expect("utf8");
    let mut out = String::new();
    for (ln, orig) in kept.lines().zip(text.lines()) {
        // a line that held nothing but the attribute disappears (as before)
        if ln.trim().is_empty() && !orig.trim().is_empty() {
            continue;
        }
        if let Some(rest) = ln.trim_start().strip_prefix("//!") {
            out.push_str("//");
            out.push_str(rest);
        } else {
            out.push_str(ln);
        }
        out.push('\n');
    }
    (out, stripped)
}

fn main() {
    let repo = env::var("VERIF_REPO").unwrap_or_else(|_| "/repo".to_string());
    let glue = env::var("C08_GLUE").unwrap_or_else(|_| "all".to_string());
    let (glue_fns, glue_consts) = (glue == "all" || glue == "fns", glue == "all" || glue == "consts");
    let symdir = PathBuf::from(format!("{repo}/tiny-start/src/symbols"));
    // the whole `symbols` directory: covers mem.rs, mem/ (recursively) and their appearing / disappearing
    println!("cargo:rerun-if-changed={}", symdir.display());
    println!("cargo:rerun-if-env-changed=VERIF_REPO");
    println!("cargo:rerun-if-env-changed=C08_GLUE");
    let out_dir = PathBuf::from(env::var("OUT_DIR").unwrap());
    let out_mem = out_dir.join("mem");
    let _ = fs::remove_dir_all(&out_mem);
    let _ = fs::remove_file(out_dir.join("mem.rs"));
    fs::create_dir_all(&out_mem).unwrap();

    // --- collect: root (mem.rs, else mem/mod.rs) + everything below mem/
    let mut srcs: Vec<(PathBuf, PathBuf)> = vec![];
    collect(&symdir.join("mem"), Path::new(""), &mut srcs);
    let root_file = symdir.join("mem.rs");
    if root_file.exists() {
        srcs.retain(|(_, r)| r != Path::new("mod.rs"));
        srcs.insert(0, (root_file, PathBuf::from("mod.rs")));
    } else {
        let k = srcs.iter().position(|(_, r)| r == Path::new("mod.rs")).expect("neither symbols/mem.rs nor symbols/mem/mod.rs exists");
        let r = srcs.remove(k);
        srcs.insert(0, r);
    }
    let mut files: Vec<File> = vec![];
    let mut stripped = 0;
    for (src, rel) in srcs {
        let text = fs::read_to_string(&src).unwrap_or_else(|e| panic!("read {}: {e}", src.display()));
        let (text, s) = preprocess(&text);
        stripped += s;
        let mut comps: Vec<String> = rel.with_extension("").components().map(|c| c.as_os_str().to_string_lossy().to_string()).collect();
        if comps.last().map_or(false, |c| c == "mod") {
            comps.pop();
        }
        files.push(File { rel, modpath: comps.join("::"), text });
    }
    assert!(stripped >= 5, "expected the five #[no_mangle] symbols in symbols/mem.rs (+ symbols/mem/**), found {stripped}");

    // --- glue (appended only)
    let via = |modpath: &str, item: &str| if modpath.is_empty() { format!("super::{item}") } else { format!("super::{modpath}::{item}") };
    let masks: Vec<Vec<u8>> = files.iter().map(|f| mask(&f.text)).collect();
    let locate = |name: &str| -> Option<(usize, FnDef)> {
        let mut hits: Vec<(usize, FnDef)> = vec![];
        for (k, f) in files.iter().enumerate() {
            if let Some(d) = find_fn(&f.text, &masks[k], name) {
                hits.push((k, d));
            }
        }
        if hits.len() == 1 {
            hits.pop()
        } else {
            None
        }
    };
    let usable = |d: &FnDef, exclude: &[String]| -> Vec<String> {
        callees_with_args(&d.body, &d.params)
            .into_iter()
            .filter(|p| !SYMS.contains(&p.rsplit("::").next().unwrap_or("")) && !defined_inside(&d.body, p) && !exclude.contains(p))
            .collect()
    };
    let mut appended: Vec<(usize, String)> = vec![];
    let mut fwd: Option<(String, String)> = None; // (expression to call from verif, description)
    let mut bwd: Option<(String, String)> = None;
    if glue_fns {
        let cpy = locate("memcpy").filter(|(_, d)| d.params.len() == 3);
        let mov = locate("memmove").filter(|(_, d)| d.params.len() == 3);
        let mut fwd_path: Option<(usize, String)> = None;
        if let Some((k, d)) = &cpy {
            let c = usable(d, &[]);
            if c.len() == 1 {
                appended.push((*k, format!("\n// --- appended by /verif/harness/c08/build.rs: what memcpy calls with (its own) (dest, src, n)\n#[allow(unused_mut, dead_code, clippy::all)]\npub unsafe fn __c08_fwd({}) {{\n    let _ = {}({});\n}}\n", d.params_text, c[0], d.params.join(", "))));
                fwd = Some((via(&files[*k].modpath, "__c08_fwd"), format!("{}{}", if files[*k].modpath.is_empty() { String::new() } else { format!("{}::", files[*k].modpath) }, c[0])));
                fwd_path = Some((*k, c[0].clone()));
            }
        }
        if let (Some((k, d)), Some((fk, fp))) = (&mov, &fwd_path) {
            // memmove calls the forward routine and exactly one other routine with (dest, src, n): the backward one
            let all = callees_with_args(&d.body, &d.params);
            if k == fk && all.contains(fp) {
                let c = usable(d, &[fp.clone()]);
                if c.len() == 1 {
                    appended.push((*k, format!("\n// --- appended by /verif/harness/c08/build.rs: what memmove calls with (its own) (dest, src, n) besides the forward routine\n#[allow(unused_mut, dead_code, clippy::all)]\npub unsafe fn __c08_bwd({}) {{\n    let _ = {}({});\n}}\n", d.params_text, c[0], d.params.join(", "))));
                    bwd = Some((via(&files[*k].modpath, "__c08_bwd"), format!("{}{}", if files[*k].modpath.is_empty() { String::new() } else { format!("{}::", files[*k].modpath) }, c[0])));
                }
            }
        }
    }
    let mut consts: Option<Vec<String>> = None;
    if glue_consts {
        let mut refs = vec![];
        for name in CONSTS {
            let mut hits = vec![];
            for (k, f) in files.iter().enumerate() {
                let dep = depths(&masks[k]);
                for p in word_positions(&masks[k], name) {
                    let mut q = p;
                    while q > 0 && masks[k][q - 1].is_ascii_whitespace() {
                        q -= 1;
                    }
                    let after = skip_ws(&masks[k], p + name.len());
                    if dep[p] == 0 && q >= 5 && &masks[k][q - 5..q] == b"const" && after < masks[k].len() && masks[k][after] == b':' {
                        hits.push(k);
                    }
                }
                let _ = f;
            }
            if hits.len() == 1 {
                appended.push((hits[0], format!("\n// --- appended by /verif/harness/c08/build.rs\n#[allow(dead_code)]\npub const __C08_{name}: usize = {name};\n")));
                refs.push(via(&files[hits[0]].modpath, &format!("__C08_{name}")));
            }
        }
        if refs.len() == CONSTS.len() {
            consts = Some(refs);
        } else {
            appended.retain(|(_, s)| !s.contains("pub const __C08_"));
        }
    }
    for (k, s) in appended {
        files[k].text.push_str(&s);
    }
    let sig = "d: *mut u8, s: *const u8, n: usize";
    let mut verif = String::from("\n// --- appended by /verif/harness/c08/build.rs: the harness's entry points\n#[allow(dead_code, unused_imports, clippy::all)]\npub mod verif {\n");
    for (nm, found) in [("fwd", &fwd), ("bwd", &bwd)] {
        match found {
            Some((call, desc)) => verif.push_str(&format!(
                "    pub const {}: &str = \"{}\";\n    pub unsafe fn {}({sig}) {{\n        {}(d, s, n)\n    }}\n",
                nm.to_uppercase(), desc, nm, call
            )),
            None => verif.push_str(&format!(
                "    pub const {}: &str = \"memmove(helper-not-identified)\";\n    pub unsafe fn {}({sig}) {{\n        let _ = super::memmove(d, s, n);\n    }}\n",
                nm.to_uppercase(), nm
            )),
        }
    }
    match &consts {
        Some(r) => verif.push_str(&format!("    pub const CONSTS: Option<(usize, usize, usize)> = Some(({}, {}, {}));\n", r[0], r[1], r[2])),
        None => verif.push_str("    pub const CONSTS: Option<(usize, usize, usize)> = None;\n"),
    }
    verif.push_str(&format!("    pub const GLUE: &str = \"{glue}\";\n}}\n"));
    files[0].text.push_str(&verif);

    for f in &files {
        let dst = out_mem.join(&f.rel);
        fs::create_dir_all(dst.parent().unwrap()).unwrap();
        fs::write(&dst, &f.text).unwrap();
    }
    // mounted at the same place as in tiny-start (crate::symbols::mem), as a real module file (`mod x;` inside it
    // resolves to OUT_DIR/mem/x.rs)
    fs::write(
        out_dir.join("mount.rs"),
        format!("pub mod symbols {{\n    #[path = {:?}]\n    pub mod mem;\n}}\n", out_mem.join("mod.rs").display().to_string()),
    )
    .unwrap();
}
