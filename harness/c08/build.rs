//! Copies the real /repo/tiny-start/src/symbols/mem.rs into OUT_DIR with exactly these textual
//! substitutions, so that it can be `include!`d into an ordinary std binary:
//!   1. lines that are `#[no_mangle]` / `#[unsafe(no_mangle)]` are dropped (the functions keep their
//!      names inside `mod mem`, but no longer clash with / replace libc's memcpy… in this process);
//!   2. inner doc comments `//!` become plain comments `//` (`include!` rejects inner docs).
//! Nothing else is touched: every loop, threshold, mask and branch is the repo's.
use std::{env, fs, path::PathBuf};

fn main() {
    let repo = env::var("VERIF_REPO").unwrap_or_else(|_| "/repo".to_string());
    let src = format!("{repo}/tiny-start/src/symbols/mem.rs");
    println!("cargo:rerun-if-changed={src}");
    println!("cargo:rerun-if-env-changed=VERIF_REPO");
    let text = fs::read_to_string(&src).expect("read mem.rs");
    let mut out = String::new();
    let mut stripped = 0;
    for line in text.lines() {
        let t = line.trim();
        if t == "#[no_mangle]" || t == "#[unsafe(no_mangle)]" {
            stripped += 1;
            continue;
        }
        if let Some(rest) = line.trim_start().strip_prefix("//!") {
            out.push_str("//");
            out.push_str(rest);
        } else {
            out.push_str(line);
        }
        out.push('\n');
    }
    assert!(stripped >= 5, "expected the five #[no_mangle] symbols in mem.rs, found {stripped}");
    let dst = PathBuf::from(env::var("OUT_DIR").unwrap()).join("mem.rs");
    fs::write(dst, out).unwrap();
}
