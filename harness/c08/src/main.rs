//! C08 correspondence harness: calls the *real* memcpy/memmove/memset/memcmp/bcmp (and the private
//! copy_forward/copy_backward) of /repo/tiny-start/src/symbols/mem.rs — textually included by
//! build.rs with only `#[no_mangle]` stripped — on an arena described by each stdin line.
//! `#![no_builtins]` (as tiny-start/src/lib.rs has) keeps LLVM from turning the loops back into
//! calls to memcpy/memset (which in this process would be libc's, hiding the code under test).
#![no_builtins]
#![allow(dead_code, unused_imports, unused_unsafe, clippy::all)]
use std::io::{BufRead, Write};

mod mem {
    include!(concat!(env!("OUT_DIR"), "/mem.rs"));

    pub mod verif {
        use super::*;
        pub unsafe fn fwd(d: *mut u8, s: *const u8, n: usize) {
            copy_forward(d, s, n)
        }
        pub unsafe fn bwd(d: *mut u8, s: *const u8, n: usize) {
            copy_backward(d, s, n)
        }
        pub const CONSTS: (usize, usize, usize) = (WORD_SIZE, WORD_MASK, WORD_COPY_THRESHOLD);
    }
}

const MARGIN: usize = 4096;
const MAX_SIZE: usize = 4194304;
const HASH_P: u64 = 36028797018963913; // 2^55 - 55
const MARGIN_BYTE: u8 = 0xA5;

fn pattern(seed: u64, i: usize) -> u8 {
    ((((i % 251) as u64) * 7 + seed.wrapping_mul(13) + 3) % 256) as u8
}

struct Arena {
    ptr: *mut u8,
    cap: usize,
}

impl Arena {
    fn new() -> Self {
        Arena { ptr: core::ptr::null_mut(), cap: 0 }
    }
    /// returns the 4096-aligned base of an arena of `size` bytes with MARGIN bytes either side
    fn prepare(&mut self, size: usize, seed: u64) -> *mut u8 {
        let need = size + 2 * MARGIN;
        if need > self.cap {
            unsafe {
                if !self.ptr.is_null() {
                    std::alloc::dealloc(self.ptr, std::alloc::Layout::from_size_align(self.cap, 4096).unwrap());
                }
                self.cap = need.next_power_of_two();
                self.ptr = std::alloc::alloc(std::alloc::Layout::from_size_align(self.cap, 4096).unwrap());
                assert!(!self.ptr.is_null());
            }
        }
        let all = unsafe { std::slice::from_raw_parts_mut(self.ptr, need) };
        for b in all[..MARGIN].iter_mut() {
            *b = MARGIN_BYTE;
        }
        for b in all[MARGIN + size..].iter_mut() {
            *b = MARGIN_BYTE;
        }
        let mut j = 0usize; // i % 251 without a division per byte
        let s = seed.wrapping_mul(13) + 3;
        for b in all[MARGIN..MARGIN + size].iter_mut() {
            *b = ((j as u64 * 7 + s) % 256) as u8;
            j += 1;
            if j == 251 {
                j = 0;
            }
        }
        unsafe { self.ptr.add(MARGIN) }
    }
    fn wild(&self, size: usize) -> bool {
        let all = unsafe { std::slice::from_raw_parts(self.ptr, size + 2 * MARGIN) };
        all[..MARGIN].iter().any(|b| *b != MARGIN_BYTE) || all[MARGIN + size..].iter().any(|b| *b != MARGIN_BYTE)
    }
    fn hash(&self, size: usize) -> u64 {
        let a = unsafe { std::slice::from_raw_parts(self.ptr.add(MARGIN), size) };
        let mut h: u64 = 0;
        for b in a.iter().rev() {
            h = (h * 256 + *b as u64) % HASH_P;
        }
        h
    }
}

fn run(ar: &mut Arena, line: &str) -> Option<String> {
    let w: Vec<&str> = line.split_whitespace().collect();
    if w.len() < 6 {
        return None;
    }
    let op = w[0];
    let size: usize = w[1].parse().ok()?;
    let seed: u64 = w[2].parse().ok()?;
    let a: usize = w[3].parse().ok()?;
    let b: i64 = w[4].parse().ok()?;
    let n: usize = w[5].parse().ok()?;
    if size > MAX_SIZE || a.checked_add(n)? > size {
        return None;
    }
    let mut pokes = Vec::new();
    for t in &w[6..] {
        let t = t.strip_prefix('@')?;
        let (o, v) = t.split_once('=')?;
        let o: usize = o.parse().ok()?;
        let v: u32 = v.parse().ok()?;
        if o >= size || v > 255 {
            return None;
        }
        pokes.push((o, v as u8));
    }
    if op == "set" {
        if b < i32::MIN as i64 || b > i32::MAX as i64 {
            return None;
        }
    } else {
        if b < 0 || (b as usize).checked_add(n)? > size {
            return None;
        }
        if !matches!(op, "cpy" | "mov" | "fwd" | "bwd" | "cmp" | "bcm") {
            return None;
        }
    }
    let base = ar.prepare(size, seed);
    debug_assert_eq!(pattern(seed, 300), ((((300 % 251) as u64) * 7 + seed.wrapping_mul(13) + 3) % 256) as u8);
    for (o, v) in pokes {
        unsafe { *base.add(o) = v };
    }
    let mut out;
    unsafe {
        let pa = base.add(a);
        match op {
            "set" => {
                let r = mem::memset(pa, b as i32, n);
                out = format!("h={} ret={}", ar.hash(size), (r as usize).wrapping_sub(base as usize));
            }
            "cpy" => {
                let r = mem::memcpy(pa, base.add(b as usize), n);
                out = format!("h={} ret={}", ar.hash(size), (r as usize).wrapping_sub(base as usize));
            }
            "mov" => {
                let r = mem::memmove(pa, base.add(b as usize), n);
                out = format!("h={} ret={}", ar.hash(size), (r as usize).wrapping_sub(base as usize));
            }
            "fwd" => {
                mem::verif::fwd(pa, base.add(b as usize), n);
                out = format!("h={} ret=-", ar.hash(size));
            }
            "bwd" => {
                mem::verif::bwd(pa, base.add(b as usize), n);
                out = format!("h={} ret=-", ar.hash(size));
            }
            "cmp" => {
                let v = mem::memcmp(pa, base.add(b as usize), n);
                out = format!("h={} val={}", ar.hash(size), v);
            }
            "bcm" => {
                let v = mem::bcmp(pa, base.add(b as usize), n);
                out = format!("h={} val={}", ar.hash(size), v);
            }
            _ => return None,
        }
    }
    if ar.wild(size) {
        out.push_str(" wild");
    }
    Some(out)
}

fn main() {
    let stdin = std::io::stdin();
    let stdout = std::io::stdout();
    let mut o = std::io::BufWriter::new(stdout.lock());
    let mut ar = Arena::new();
    for line in stdin.lock().lines() {
        let line = line.unwrap();
        if line.trim() == "consts" {
            let c = mem::verif::CONSTS;
            writeln!(o, "word_size={} word_mask={} threshold={}", c.0, c.1, c.2).unwrap();
            continue;
        }
        // everything printed so far reaches the pipe before the code under test runs again: if it aborts
        // (misaligned-dereference / overflow checks of the debug build), the first missing line is the culprit
        o.flush().unwrap();
        match run(&mut ar, &line) {
            Some(s) => writeln!(o, "{}", s).unwrap(),
            None => writeln!(o, "bad-op").unwrap(),
        }
    }
    o.flush().unwrap();
}
