//! C08 correspondence harness: calls the *real* memcpy/memmove/memset/memcmp/bcmp (and the private
//! forward / backward copy routines memcpy / memmove dispatch to, whatever their names and files) of
//! /repo/tiny-start/src/symbols/mem.rs and /repo/tiny-start/src/symbols/mem/** — copied by build.rs
//! with only `#[no_mangle]` stripped — on an arena described by each stdin line.
//! `#![no_builtins]` (as tiny-start/src/lib.rs has) keeps LLVM from turning the loops back into
//! calls to memcpy/memset (which in this process would be libc's, hiding the code under test).
#![no_builtins]
#![allow(dead_code, unused_imports, unused_unsafe, clippy::all)]
use std::io::{BufRead, Write};

// `pub mod symbols { #[path = "<OUT_DIR>/mem/mod.rs"] pub mod mem; }` — the repo's symbols/mem.rs and everything below
// symbols/mem/, mounted where tiny-start has it (crate::symbols::mem), plus the appended `verif` glue (see build.rs)
include!(concat!(env!("OUT_DIR"), "/mount.rs"));
use symbols::mem;

/// Access tracing: the arena is made inaccessible (PROT_NONE); every load and every store of the code under test
/// faults, the SIGSEGV handler records the faulting address and whether it was a store (page-fault error code, bit 1),
/// re-enables access for exactly one instruction (trap flag) and the SIGTRAP handler protects the arena again.
/// Gives the *set of addresses written*, independent of the values written (a store that rewrites the old value
/// outside the destination range is still a write outside the range), and the *start address of every load*
/// (its width is not known here; loads that start inside an operand and run past its end are what the guard-page
/// placements of the `!k` setup catch).
mod wtrace {
    /// tag bit of a LOG entry: the access was a store
    pub const WR: usize = 1 << 63;
    const REG_ERR_OFF: usize = 40 + 19 * 8; // ucontext_t.uc_mcontext.gregs[REG_ERR]
    use core::sync::atomic::{AtomicUsize, Ordering};
    pub static LO: AtomicUsize = AtomicUsize::new(0);
    pub static LEN: AtomicUsize = AtomicUsize::new(0);
    pub static COUNT: AtomicUsize = AtomicUsize::new(0);
    /// protection of the armed arena: 1 = PROT_READ (`--trace`: only stores fault and are recorded),
    /// 0 = PROT_NONE (`--trace-all`: loads too)
    pub static PROT: AtomicUsize = AtomicUsize::new(1);
    pub const CAP: usize = 1 << 17;
    pub static mut LOG: [usize; CAP] = [0; CAP];
    #[repr(C)]
    struct SigAction {
        handler: usize,
        flags: u64,
        restorer: usize,
        mask: [u64; 16],
    }
    extern "C" {
        fn mprotect(addr: *mut u8, len: usize, prot: i32) -> i32;
        fn sigaction(sig: i32, act: *const KSigAction, old: *mut KSigAction) -> i32;
    }
    // glibc's struct sigaction on x86_64: handler(8) mask(128) flags(4+4 pad) restorer(8)
    #[repr(C)]
    struct KSigAction {
        handler: usize,
        mask: [u64; 16],
        flags: i32,
        _pad: i32,
        restorer: usize,
    }
    const SA_SIGINFO: i32 = 4;
    const SA_NODEFER: i32 = 0x40000000;
    const REG_EFL_OFF: usize = 40 + 17 * 8; // ucontext_t.uc_mcontext.gregs[REG_EFL]
    unsafe extern "C" fn on_segv(_sig: i32, info: *mut u8, ctx: *mut u8) {
        let addr = *(info.add(16) as *const usize);
        let lo = LO.load(Ordering::Relaxed);
        let len = LEN.load(Ordering::Relaxed);
        if len == 0 || addr < lo || addr >= lo + len {
            // a genuine wild access: die the normal way
            let dfl = KSigAction { handler: 0, mask: [0; 16], flags: 0, _pad: 0, restorer: 0 };
            sigaction(11, &dfl, core::ptr::null_mut());
            return;
        }
        let is_write = *(ctx.add(REG_ERR_OFF) as *const u64) & 2 != 0;
        let c = COUNT.fetch_add(1, Ordering::Relaxed);
        if c < CAP {
            LOG[c] = if is_write { addr | WR } else { addr };
        }
        mprotect(lo as *mut u8, len, 3);
        let efl = ctx.add(REG_EFL_OFF) as *mut u64;
        *efl |= 0x100;
    }
    unsafe extern "C" fn on_trap(_sig: i32, _info: *mut u8, ctx: *mut u8) {
        let lo = LO.load(Ordering::Relaxed);
        let len = LEN.load(Ordering::Relaxed);
        if len != 0 {
            mprotect(lo as *mut u8, len, PROT.load(Ordering::Relaxed) as i32);
        }
        let efl = ctx.add(REG_EFL_OFF) as *mut u64;
        *efl &= !0x100u64;
    }
    pub unsafe fn install() {
        let a = KSigAction { handler: on_segv as usize, mask: [0; 16], flags: SA_SIGINFO | SA_NODEFER, _pad: 0, restorer: 0 };
        sigaction(11, &a, core::ptr::null_mut());
        let b = KSigAction { handler: on_trap as usize, mask: [0; 16], flags: SA_SIGINFO | SA_NODEFER, _pad: 0, restorer: 0 };
        sigaction(5, &b, core::ptr::null_mut());
    }
    pub unsafe fn arm(lo: usize, len: usize) {
        COUNT.store(0, Ordering::Relaxed);
        LO.store(lo, Ordering::Relaxed);
        LEN.store(len, Ordering::Relaxed);
        mprotect(lo as *mut u8, len, PROT.load(Ordering::Relaxed) as i32);
    }
    pub unsafe fn disarm() -> usize {
        let lo = LO.load(Ordering::Relaxed);
        let len = LEN.load(Ordering::Relaxed);
        LEN.store(0, Ordering::Relaxed);
        mprotect(lo as *mut u8, len, 3);
        COUNT.load(Ordering::Relaxed)
    }
}

/// Inaccessible pages inside the arena (`!k` setup tokens): PROT_NONE while the function under test runs.  The
/// SIGSEGV handler records the first access to one of them (address, load or store), makes that page accessible
/// and returns, so the faulting instruction is re-executed and the call completes; a fault anywhere else is a
/// genuine wild access and kills the process the normal way.
mod guard {
    use core::sync::atomic::{AtomicUsize, Ordering};
    pub const MAXH: usize = 8;
    pub static NH: AtomicUsize = AtomicUsize::new(0);
    pub static mut HOLES: [usize; MAXH] = [0; MAXH];
    pub static NFAULT: AtomicUsize = AtomicUsize::new(0);
    pub static FIRST: AtomicUsize = AtomicUsize::new(0);
    pub static FIRST_W: AtomicUsize = AtomicUsize::new(0);
    extern "C" {
        fn mprotect(addr: *mut u8, len: usize, prot: i32) -> i32;
        fn sigaction(sig: i32, act: *const KSigAction, old: *mut KSigAction) -> i32;
    }
    #[repr(C)]
    struct KSigAction {
        handler: usize,
        mask: [u64; 16],
        flags: i32,
        _pad: i32,
        restorer: usize,
    }
    const SA_SIGINFO: i32 = 4;
    const SA_NODEFER: i32 = 0x40000000;
    const REG_ERR_OFF: usize = 40 + 19 * 8; // ucontext_t.uc_mcontext.gregs[REG_ERR]
    unsafe extern "C" fn on_segv(_sig: i32, info: *mut u8, ctx: *mut u8) {
        let addr = *(info.add(16) as *const usize);
        let nh = NH.load(Ordering::Relaxed);
        for k in 0..nh {
            let lo = HOLES[k];
            if addr >= lo && addr < lo + 4096 {
                if NFAULT.fetch_add(1, Ordering::Relaxed) == 0 {
                    FIRST.store(addr, Ordering::Relaxed);
                    FIRST_W.store((*(ctx.add(REG_ERR_OFF) as *const u64) & 2 != 0) as usize, Ordering::Relaxed);
                }
                mprotect(lo as *mut u8, 4096, 3);
                return;
            }
        }
        let dfl = KSigAction { handler: 0, mask: [0; 16], flags: 0, _pad: 0, restorer: 0 };
        sigaction(11, &dfl, core::ptr::null_mut());
    }
    pub unsafe fn install() {
        let a = KSigAction { handler: on_segv as usize, mask: [0; 16], flags: SA_SIGINFO | SA_NODEFER, _pad: 0, restorer: 0 };
        sigaction(11, &a, core::ptr::null_mut());
    }
    pub unsafe fn arm(pages: &[usize]) {
        NFAULT.store(0, Ordering::Relaxed);
        for (k, p) in pages.iter().enumerate() {
            HOLES[k] = *p;
            mprotect(*p as *mut u8, 4096, 0);
        }
        NH.store(pages.len(), Ordering::Relaxed);
    }
    /// every page accessible again; returns (number of faults, first faulting address, it was a store)
    pub unsafe fn disarm() -> (usize, usize, bool) {
        let nh = NH.load(Ordering::Relaxed);
        NH.store(0, Ordering::Relaxed);
        for k in 0..nh {
            mprotect(HOLES[k] as *mut u8, 4096, 3);
        }
        (NFAULT.load(Ordering::Relaxed), FIRST.load(Ordering::Relaxed), FIRST_W.load(Ordering::Relaxed) != 0)
    }
}

static TRACE: core::sync::atomic::AtomicBool = core::sync::atomic::AtomicBool::new(false);

const MARGIN: usize = 4096;
const MAX_SIZE: usize = 4194304;
const HASH_P: u64 = 36028797018963913; // 2^55 - 55
const MARGIN_BYTE: u8 = 0xA5;

fn pattern(seed: u64, i: usize) -> u8 {
    ((((i % 251) as u64) * 7 + seed.wrapping_mul(13) + 3) % 256) as u8
}

struct Arena {
    ptr: *mut u8,
    cap: usize,
}

impl Arena {
    fn new() -> Self {
        Arena { ptr: core::ptr::null_mut(), cap: 0 }
    }
    /// returns the 4096-aligned base of an arena of `size` bytes with MARGIN bytes either side
    fn prepare(&mut self, size: usize, seed: u64) -> *mut u8 {
        let need = size + 2 * MARGIN;
        if need > self.cap {
            unsafe {
                if !self.ptr.is_null() {
                    std::alloc::dealloc(self.ptr, std::alloc::Layout::from_size_align(self.cap, 4096).unwrap());
                }
                self.cap = need.next_power_of_two();
                self.ptr = std::alloc::alloc(std::alloc::Layout::from_size_align(self.cap, 4096).unwrap());
                assert!(!self.ptr.is_null());
            }
        }
        // (std's write_bytes / copy_nonoverlapping are libc's memset / memcpy here, not the code under test)
        unsafe {
            std::ptr::write_bytes(self.ptr, MARGIN_BYTE, MARGIN);
            std::ptr::write_bytes(self.ptr.add(MARGIN + size), MARGIN_BYTE, MARGIN);
            let base = self.ptr.add(MARGIN);
            // one period of the pattern byte by byte, the rest by doubling (byte i = byte i % 251)
            let s = seed.wrapping_mul(13) + 3;
            let first = size.min(251);
            for j in 0..first {
                *base.add(j) = ((j as u64 * 7 + s) % 256) as u8;
            }
            let mut filled = first;
            while filled < size {
                let k = filled.min(size - filled);
                std::ptr::copy_nonoverlapping(base, base.add(filled), k);
                filled += k;
            }
            base
        }
    }
    fn wild(&self, size: usize) -> bool {
        let all = unsafe { std::slice::from_raw_parts(self.ptr, size + 2 * MARGIN) };
        const M: [u8; MARGIN] = [MARGIN_BYTE; MARGIN];
        all[..MARGIN] != M[..] || all[MARGIN + size..] != M[..]
    }
    fn hash(&self, size: usize) -> u64 {
        let a = unsafe { std::slice::from_raw_parts(self.ptr.add(MARGIN), size) };
        let mut h: u64 = 0;
        // x mod (2^55 - 55) without a division: 2^55 = 55 (mod P), so hi * 2^55 + lo = hi * 55 + lo (mod P).
        // The arena is the little-endian integer sum a[i] * 256^i, taken from the top: first byte by byte down to a
        // multiple of 8, then a u64 at a time: h' = h * 2^64 + word, folded twice (h < P < 2^55, so x < 2^119,
        // y < 2^70, z < 2^55 + 55 * 2^15 < 2 P) and one conditional subtraction.
        const M55: u128 = (1u128 << 55) - 1;
        let mut i = size;
        while i % 8 != 0 {
            i -= 1;
            let x = h * 256 + a[i] as u64;
            let y = (x >> 55) * 55 + (x & ((1u64 << 55) - 1));
            h = if y >= HASH_P { y - HASH_P } else { y };
        }
        while i >= 8 {
            i -= 8;
            let w = u64::from_le_bytes([a[i], a[i + 1], a[i + 2], a[i + 3], a[i + 4], a[i + 5], a[i + 6], a[i + 7]]);
            let x: u128 = ((h as u128) << 64) | w as u128;
            let y = (x >> 55) * 55 + (x & M55);
            let z = ((y >> 55) * 55 + (y & M55)) as u64;
            h = if z >= HASH_P { z - HASH_P } else { z };
        }
        debug_assert!(h < HASH_P);
        h
    }
}

fn run(ar: &mut Arena, line: &str) -> Option<String> {
    let w: Vec<&str> = line.split_whitespace().collect();
    if w.len() < 6 {
        return None;
    }
    let op = w[0];
    let size: usize = w[1].parse().ok()?;
    let seed: u64 = w[2].parse().ok()?;
    let a: usize = w[3].parse().ok()?;
    let b: i64 = w[4].parse().ok()?;
    let n: usize = w[5].parse().ok()?;
    if size > MAX_SIZE || a.checked_add(n)? > size {
        return None;
    }
    // setup tokens, applied in order: @off=val poke, ~to:from:len copy (by the harness), !k inaccessible page k
    enum Setup {
        Poke(usize, u8),
        Copy(usize, usize, usize),
    }
    let mut setups = Vec::new();
    let mut holes: Vec<usize> = Vec::new();
    for t in &w[6..] {
        if let Some(t) = t.strip_prefix('@') {
            let (o, v) = t.split_once('=')?;
            let o: usize = o.parse().ok()?;
            let v: u32 = v.parse().ok()?;
            if o >= size || v > 255 {
                return None;
            }
            setups.push(Setup::Poke(o, v as u8));
        } else if let Some(t) = t.strip_prefix('~') {
            let mut it = t.split(':');
            let to: usize = it.next()?.parse().ok()?;
            let from: usize = it.next()?.parse().ok()?;
            let len: usize = it.next()?.parse().ok()?;
            if it.next().is_some() || to.checked_add(len)? > size || from.checked_add(len)? > size {
                return None;
            }
            setups.push(Setup::Copy(to, from, len));
        } else if let Some(t) = t.strip_prefix('!') {
            let k: usize = t.parse().ok()?;
            if k.checked_add(1)?.checked_mul(4096)? > size || holes.len() >= guard::MAXH {
                return None;
            }
            holes.push(k);
        } else {
            return None;
        }
    }
    // no operand may contain a byte of an inaccessible page
    let clear = |a: usize, n: usize| holes.iter().all(|k| n == 0 || a + n <= 4096 * k || 4096 * (k + 1) <= a);
    if !clear(a, n) {
        return None;
    }
    if op == "set" {
        if b < i32::MIN as i64 || b > i32::MAX as i64 {
            return None;
        }
    } else {
        if b < 0 || (b as usize).checked_add(n)? > size {
            return None;
        }
        if !matches!(op, "cpy" | "mov" | "fwd" | "bwd" | "cmp" | "bcm") {
            return None;
        }
        if !clear(b as usize, n) {
            return None;
        }
    }
    let base = ar.prepare(size, seed);
    debug_assert_eq!(pattern(seed, 300), ((((300 % 251) as u64) * 7 + seed.wrapping_mul(13) + 3) % 256) as u8);
    for st in setups {
        match st {
            Setup::Poke(o, v) => unsafe { *base.add(o) = v },
            // the harness's own copy (std's, i.e. libc's memmove — not the code under test)
            Setup::Copy(to, from, len) => unsafe { std::ptr::copy(base.add(from), base.add(to), len) },
        }
    }
    let mut out;
    let tracing = TRACE.load(core::sync::atomic::Ordering::Relaxed);
    unsafe {
        let pa = base.add(a);
        let pb = base.wrapping_add(b as usize); // only meaningful (and only used) for the two-operand ops
        if tracing {
            // whole pages covering margin + arena + margin (the `!k` pages are part of it: in this mode every
            // access is recorded anyway and judged against the operand ranges)
            let lo = (base as usize) - MARGIN;
            let len = (size + 2 * MARGIN + 4095) / 4096 * 4096;
            wtrace::arm(lo, len.min(ar.cap));
        } else if !holes.is_empty() {
            let pages: Vec<usize> = holes.iter().map(|k| base as usize + 4096 * k).collect();
            guard::arm(&pages);
        }
        // the call, and nothing else, between arm and disarm: the harness itself must not touch the arena here
        enum R {
            Ptr(*mut u8),
            Unit,
            Val(i32),
        }
        let r = match op {
            "set" => R::Ptr(mem::memset(pa, b as i32, n)),
            "cpy" => R::Ptr(mem::memcpy(pa, pb, n)),
            "mov" => R::Ptr(mem::memmove(pa, pb, n)),
            "fwd" => {
                mem::verif::fwd(pa, pb, n);
                R::Unit
            }
            "bwd" => {
                mem::verif::bwd(pa, pb, n);
                R::Unit
            }
            "cmp" => R::Val(mem::memcmp(pa, pb, n)),
            _ => R::Val(mem::bcmp(pa, pb, n)),
        };
        let cnt = if tracing { wtrace::disarm() } else { 0 };
        let (nfault, first_fault, fault_w) = if !tracing && !holes.is_empty() { guard::disarm() } else { (0, 0, false) };
        out = match r {
            R::Ptr(p) => format!("h={} ret={}", ar.hash(size), (p as usize).wrapping_sub(base as usize)),
            R::Unit => format!("h={} ret=-", ar.hash(size)),
            R::Val(v) => format!("h={} val={}", ar.hash(size), v),
        };
        if nfault != 0 {
            out.push_str(&format!(" fault={}@{}", if fault_w { "wr" } else { "rd" }, first_fault.wrapping_sub(base as usize) as i64));
        }
        if tracing {
            let writes_allowed = !matches!(op, "cmp" | "bcm");
            let (dlo, dhi) = (pa as usize, pa as usize + n);
            // where a load may START: inside the source operand (copies), inside either operand (compares), nowhere (memset)
            let (r1, r2): ((usize, usize), (usize, usize)) = match op {
                "set" => ((0, 0), (0, 0)),
                "cmp" | "bcm" => ((dlo, dhi), (pb as usize, pb as usize + n)),
                _ => ((pb as usize, pb as usize + n), (0, 0)),
            };
            let mut stores = 0usize;
            let mut outside = 0usize;
            let mut first: i64 = 0;
            let mut loads = 0usize;
            let mut lout = 0usize;
            let mut lfirst: i64 = 0;
            for k in 0..cnt.min(wtrace::CAP) {
                let e = wtrace::LOG[k];
                let ad = e & !wtrace::WR;
                if e & wtrace::WR != 0 {
                    stores += 1;
                    if !writes_allowed || ad < dlo || ad >= dhi {
                        if outside == 0 {
                            first = ad as i64 - dlo as i64;
                        }
                        outside += 1;
                    }
                } else {
                    loads += 1;
                    if !((ad >= r1.0 && ad < r1.1) || (ad >= r2.0 && ad < r2.1)) {
                        if lout == 0 {
                            lfirst = ad as i64 - base as i64;
                        }
                        lout += 1;
                    }
                }
            }
            if cnt > wtrace::CAP {
                out.push_str(" trace-truncated");
            }
            out.push_str(&format!(" stores={} outside={} first_outside_rel_dest={}", stores, outside, first));
            if wtrace::PROT.load(core::sync::atomic::Ordering::Relaxed) == 0 {
                out.push_str(&format!(" loads={} loads_outside={} first_load_outside_at={}", loads, lout, lfirst));
            }
        }
    }
    if ar.wild(size) {
        out.push_str(" wild");
    }
    Some(out)
}

fn main() {
    let stdin = std::io::stdin();
    let stdout = std::io::stdout();
    let mut o = std::io::BufWriter::new(stdout.lock());
    let mut ar = Arena::new();
    let trace_all = std::env::args().any(|a| a == "--trace-all");
    if trace_all || std::env::args().any(|a| a == "--trace") {
        TRACE.store(true, core::sync::atomic::Ordering::Relaxed);
        wtrace::PROT.store(if trace_all { 0 } else { 1 }, core::sync::atomic::Ordering::Relaxed);
        unsafe { wtrace::install() };
    } else {
        unsafe { guard::install() };
    }
    for line in stdin.lock().lines() {
        let line = line.unwrap();
        if line.trim() == "consts" {
            match mem::verif::CONSTS {
                Some(c) => write!(o, "word_size={} word_mask={} threshold={}", c.0, c.1, c.2).unwrap(),
                None => write!(o, "word_size=unknown word_mask=unknown threshold=unknown").unwrap(),
            }
            writeln!(o, " fwd={} bwd={} glue={}", mem::verif::FWD, mem::verif::BWD, mem::verif::GLUE).unwrap();
            continue;
        }
        // everything printed so far reaches the pipe before the code under test runs again: if it aborts
        // (misaligned-dereference / overflow checks of the debug build), the first missing line is the culprit
        o.flush().unwrap();
        match run(&mut ar, &line) {
            Some(s) => writeln!(o, "{}", s).unwrap(),
            None => writeln!(o, "bad-op").unwrap(),
        }
    }
    o.flush().unwrap();
}
