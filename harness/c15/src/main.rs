//! C15 correspondence harness: scripted implementations of tiny-std's public `io::Read` / `io::Write`
//! traits drive the *real* default methods (`read_to_end`, `read_to_string`, `read_exact`, `write_all`,
//! `write_fmt` through `write!`) of /repo/tiny-std/src/io.rs.
//!
//! One op per stdin line, one answer line per op.
//!
//! Concrete ops (also understood by the Lean driver `drv_c15`):
//!   rte  <init-hex> <cap> <scribble 0|1> <caps|-|?> <reader tokens..>     Vec::with_capacity(cap) + extend(init); read_to_end
//!   rts  <init-hex> <cap> <scribble 0|1> <caps|-|?> <reader tokens..>     String::with_capacity(cap) + push_str(init); read_to_string
//!   rex  <orig-hex> <reader tokens..>                                    read_exact(&mut orig.clone())
//!   wall <data-hex> <writer tokens..>                                    write_all(data)
//!   wfmt <variant 0|1> <items s<hex>|f ..> / <writer tokens..>           write!(w, "{}" | "[{}]", Display calling write_str per item)
//!   reader tokens: d<hex> | D<hex> (claims more than offered) | z (Ok(0)) | i (EINTR) | e<errno> | u (Uncategorized)
//!   writer tokens: a<k> | A<k> (claims more than offered) | i | e<errno> | u
//!   A reader past its script returns Ok(0); a writer past its script accepts everything.
//!   prt  <kind p|P|e|E|d> <tpl> [h<hex>] <items ..> [, [h<hex>] <items ..>] / <kernel tokens..>
//!        the print macros of tiny-std/src/unix/print.rs (p print!, P println!, e eprint!, E eprintln!, d dbg!) with the
//!        format template <tpl> (see `run_prt`), whose run-time arguments issue one `write_str` per item
//!        (s<hex> | g<len>.<seed> generated ASCII | f = the Display impl fails); `,` separates two arguments;
//!        h<hex> = the "[file:line] expr = " header of dbg! (filled in by the gen pass).  The `write` system call on
//!        fd 1/2 is scripted through the sc-shim: kernel tokens a<k> (returns k) | o (returns 0 for an empty buffer) |
//!        i (EINTR) | e<errno>; abstract k<n> = accept min(n, offered).  Past the script the kernel takes everything.
//!        Answer: `<done|panic> sink=<bytes the kernel took, in order> used=<tokens consumed> fd=<1|2|-|mixed>`, or
//!        `runaway calls=<n> ..` when the macro was still calling write after 5000 calls (unwound by the scripted kernel).
//! Answer: `<ok [n]|err os <e>|err user|err uncat|panic> buf=|sink=<hex> used=<tokens consumed>`; with `--detail`
//! additionally ` # log=<offered>/<carried>,.. caps=<capacities after each growth> cap=<final> uninit=<0|1>`.
//!
//! Abstract ops (`gen <op> ...`, harness only) are *concretised* by running them against the real code: reader token
//! `p<hex>` = the reader has this piece next and hands out as much of it as fits (the rest stays pending), `x<n>` =
//! claim n bytes more than offered; writer token `a<k>` = accept min(k, offered), `x<n>` likewise.  The answer is the
//! concrete op line (responses as actually given, observed capacities filled in, unconsumed tokens kept).
#![allow(dead_code, static_mut_refs, clippy::all)]
use std::alloc::{GlobalAlloc, Layout, System};
use std::io::{BufRead, Write as _};
use std::panic::{catch_unwind, AssertUnwindSafe};
use tiny_std::io::{Read, Write};
use tiny_std::{Errno, Error};

// ---------------------------------------------------------------------------------------------
// Allocator: fresh memory is poisoned with 0x55 (so un-zeroed bytes handed to a reader are visible), and
// (re)allocations are recorded while REC is set so the capacities the Vec really got can be replayed.
const POISON: u8 = 0x55;
const MARK: u8 = 0xAA;
struct PoisonAlloc;
const MAXEV: usize = 8192;
static mut EVENTS: [(usize, usize, usize); MAXEV] = [(0, 0, 0); MAXEV];
static mut NEV: usize = 0;
static mut REC: bool = false;

unsafe fn record(old: usize, new: usize, size: usize) {
    if REC && NEV < MAXEV {
        EVENTS[NEV] = (old, new, size);
        NEV += 1;
    }
}

unsafe impl GlobalAlloc for PoisonAlloc {
    unsafe fn alloc(&self, l: Layout) -> *mut u8 {
        let p = System.alloc(l);
        if !p.is_null() {
            core::ptr::write_bytes(p, POISON, l.size());
            record(0, p as usize, l.size());
        }
        p
    }
    unsafe fn alloc_zeroed(&self, l: Layout) -> *mut u8 {
        let p = System.alloc_zeroed(l);
        if !p.is_null() {
            record(0, p as usize, l.size());
        }
        p
    }
    unsafe fn dealloc(&self, p: *mut u8, l: Layout) {
        System.dealloc(p, l)
    }
    unsafe fn realloc(&self, p: *mut u8, l: Layout, new: usize) -> *mut u8 {
        let q = System.realloc(p, l, new);
        if !q.is_null() {
            if new > l.size() {
                core::ptr::write_bytes(q.add(l.size()), POISON, new - l.size());
            }
            record(p as usize, q as usize, new);
        }
        q
    }
}
#[global_allocator]
static A: PoisonAlloc = PoisonAlloc;

/// capacities of the buffer whose allocation starts at `start` (None: not yet allocated), in order
fn caps_from_events(start: Option<usize>) -> Vec<usize> {
    let mut cur = start;
    let mut out = Vec::new();
    let n = unsafe { NEV };
    for i in 0..n {
        let (old, new, size) = unsafe { EVENTS[i] };
        match cur {
            None => {
                if old == 0 {
                    cur = Some(new);
                    out.push(size);
                }
            }
            Some(c) => {
                if old == c {
                    cur = Some(new);
                    out.push(size);
                }
            }
        }
    }
    out
}

// ---------------------------------------------------------------------------------------------
fn unhex(s: &str) -> Option<Vec<u8>> {
    if s == "-" {
        return Some(Vec::new());
    }
    if s.len() % 2 != 0 || s.is_empty() {
        return None;
    }
    let b = s.as_bytes();
    let mut out = Vec::with_capacity(s.len() / 2);
    for i in (0..b.len()).step_by(2) {
        let h = (b[i] as char).to_digit(16)?;
        let l = (b[i + 1] as char).to_digit(16)?;
        out.push((h * 16 + l) as u8);
    }
    Some(out)
}
fn hex(b: &[u8]) -> String {
    if b.is_empty() {
        return "-".to_string();
    }
    let mut s = String::with_capacity(b.len() * 2);
    for x in b {
        s.push_str(&format!("{:02x}", x));
    }
    s
}
fn err_str(e: &Error) -> String {
    match e {
        Error::Os { code, .. } => format!("err os {}", code.raw()),
        Error::Uncategorized(m) if *m == "scripted" => "err user".to_string(),
        Error::Uncategorized(_) => "err uncat".to_string(),
        Error::Timeout => "err timeout".to_string(),
    }
}

// ---------------------------------------------------------------------------------------------
#[derive(Clone, Copy)]
enum RTok {
    Piece(usize, usize), // abstract: (start, len) into `bytes`
    Data(usize, usize),  // concrete
    Eof,
    Eintr,
    Err(i32),
    Uerr,
    Over(usize),
}
#[derive(Clone, Copy)]
enum Given {
    Data(usize, usize, bool), // (start, len, claimed more than offered)
    Over(usize),              // claimed length
    Eof,
    Eintr,
    Err(i32),
    Uerr,
}
struct SReader {
    bytes: Vec<u8>,
    toks: Vec<RTok>,
    pos: usize,
    pending: Option<(usize, usize)>,
    scribble: bool,
    calls: Vec<(usize, usize, bool)>, // offered, carried marker bytes, dirty
    given: Vec<Given>,
}
impl SReader {
    fn parse(toks: &[&str], scribble: bool) -> Option<SReader> {
        let mut bytes = Vec::new();
        let mut out = Vec::new();
        for t in toks {
            let (h, rest) = t.split_at(1);
            let tk = match h {
                "p" | "d" | "D" => {
                    let b = unhex(rest)?;
                    if b.is_empty() {
                        return None;
                    }
                    let st = bytes.len();
                    bytes.extend_from_slice(&b);
                    if h == "p" { RTok::Piece(st, b.len()) } else { RTok::Data(st, b.len()) }
                }
                "z" if rest.is_empty() => RTok::Eof,
                "i" if rest.is_empty() => RTok::Eintr,
                "u" if rest.is_empty() => RTok::Uerr,
                "e" => RTok::Err(rest.parse().ok()?),
                "x" => RTok::Over(rest.parse().ok()?),
                _ => return None,
            };
            out.push(tk);
        }
        let n = out.len();
        Some(SReader { bytes, toks: out, pos: 0, pending: None, scribble, calls: Vec::with_capacity(2 * n + 64), given: Vec::with_capacity(2 * n + 64) })
    }
    fn give(&mut self, buf: &mut [u8], st: usize, len: usize) -> usize {
        let k = len.min(buf.len());
        buf[..k].copy_from_slice(&self.bytes[st..st + k]);
        if self.scribble {
            for b in &mut buf[k..] {
                *b = MARK;
            }
        }
        k
    }
    /// the concrete script: what was answered so far, then what was never asked for
    fn concrete(&self) -> String {
        let mut out: Vec<String> = Vec::new();
        for g in &self.given {
            out.push(match *g {
                Given::Data(st, len, over) => format!("{}{}", if over { "D" } else { "d" }, hex(&self.bytes[st..st + len])),
                Given::Over(len) => format!("D{}", "ee".repeat(len)),
                Given::Eof => "z".into(),
                Given::Eintr => "i".into(),
                Given::Err(e) => format!("e{}", e),
                Given::Uerr => "u".into(),
            });
        }
        if let Some((st, len)) = self.pending {
            out.push(format!("d{}", hex(&self.bytes[st..st + len])));
        }
        for t in &self.toks[self.pos..] {
            match *t {
                RTok::Piece(st, len) | RTok::Data(st, len) => out.push(format!("d{}", hex(&self.bytes[st..st + len]))),
                RTok::Eof => out.push("z".into()),
                RTok::Eintr => out.push("i".into()),
                RTok::Err(e) => out.push(format!("e{}", e)),
                RTok::Uerr => out.push("u".into()),
                RTok::Over(_) => {}
            }
        }
        out.join(" ")
    }
    fn log(&self) -> String {
        if self.calls.is_empty() {
            return "-".into();
        }
        self.calls.iter().map(|c| format!("{}/{}", c.0, c.1)).collect::<Vec<_>>().join(",")
    }
    fn dirty(&self) -> bool {
        self.calls.iter().any(|c| c.2)
    }
}
impl Read for SReader {
    fn read(&mut self, buf: &mut [u8]) -> tiny_std::Result<usize> {
        let offered = buf.len();
        let seen = buf.iter().take_while(|b| **b == MARK).count();
        let dirty = buf[seen..].iter().any(|b| *b != 0);
        self.calls.push((offered, seen, dirty));
        let tok = if let Some((st, len)) = self.pending.take() {
            RTok::Piece(st, len)
        } else if self.pos < self.toks.len() {
            self.pos += 1;
            self.toks[self.pos - 1]
        } else {
            return Ok(0); // past the script: end of file
        };
        match tok {
            RTok::Piece(st, len) => {
                let k = self.give(buf, st, len);
                if k < len {
                    self.pending = Some((st + k, len - k));
                }
                if k == 0 {
                    self.given.push(Given::Eof);
                } else {
                    self.given.push(Given::Data(st, k, false));
                }
                Ok(k)
            }
            RTok::Data(st, len) => {
                if len <= offered {
                    self.give(buf, st, len); // a reader that claims more than it was offered writes nothing
                }
                self.given.push(Given::Data(st, len, len > offered));
                Ok(len)
            }
            RTok::Over(n) => {
                self.given.push(Given::Over(offered + n));
                Ok(offered + n)
            }
            RTok::Eof => {
                self.given.push(Given::Eof);
                Ok(0)
            }
            RTok::Eintr => {
                self.given.push(Given::Eintr);
                Err(Error::Os { msg: "scripted", code: Errno::EINTR })
            }
            RTok::Err(e) => {
                self.given.push(Given::Err(e));
                Err(Error::Os { msg: "scripted", code: Errno::new(e) })
            }
            RTok::Uerr => {
                self.given.push(Given::Uerr);
                Err(Error::Uncategorized("scripted"))
            }
        }
    }
}

// ---------------------------------------------------------------------------------------------
#[derive(Clone, Copy)]
enum WTok {
    UpTo(usize),   // abstract: accept min(k, offered)
    Accept(usize), // concrete
    Over(usize),
    Eintr,
    Err(i32),
    Uerr,
}
struct SWriter {
    toks: Vec<WTok>,
    pos: usize,
    sink: Vec<u8>,
    calls: Vec<usize>,
    given: Vec<String>,
}
impl SWriter {
    fn parse(toks: &[&str], total: usize) -> Option<SWriter> {
        let mut out = Vec::new();
        for t in toks {
            let (h, rest) = t.split_at(1);
            out.push(match h {
                "a" | "A" => WTok::Accept(rest.parse().ok()?),
                "k" => WTok::UpTo(rest.parse().ok()?),
                "x" => WTok::Over(rest.parse().ok()?),
                "i" if rest.is_empty() => WTok::Eintr,
                "u" if rest.is_empty() => WTok::Uerr,
                "e" => WTok::Err(rest.parse().ok()?),
                _ => return None,
            });
        }
        Some(SWriter { toks: out, pos: 0, sink: Vec::with_capacity(total + 16), calls: Vec::new(), given: Vec::new() })
    }
    fn concrete(&self) -> String {
        let mut out = self.given.clone();
        for t in &self.toks[self.pos..] {
            match *t {
                WTok::UpTo(k) | WTok::Accept(k) => out.push(format!("a{}", k)),
                WTok::Over(_) => {}
                WTok::Eintr => out.push("i".into()),
                WTok::Err(e) => out.push(format!("e{}", e)),
                WTok::Uerr => out.push("u".into()),
            }
        }
        out.join(" ")
    }
    fn log(&self) -> String {
        if self.calls.is_empty() {
            return "-".into();
        }
        self.calls.iter().map(|c| c.to_string()).collect::<Vec<_>>().join(",")
    }
}
impl Write for SWriter {
    fn write(&mut self, buf: &[u8]) -> tiny_std::Result<usize> {
        let offered = buf.len();
        self.calls.push(offered);
        if self.pos >= self.toks.len() {
            self.sink.extend_from_slice(buf); // past the script: take everything
            return Ok(offered);
        }
        self.pos += 1;
        match self.toks[self.pos - 1] {
            WTok::UpTo(k) => {
                let k = k.min(offered);
                self.sink.extend_from_slice(&buf[..k]);
                self.given.push(format!("a{}", k));
                Ok(k)
            }
            WTok::Accept(k) => {
                self.sink.extend_from_slice(&buf[..k.min(offered)]);
                self.given.push(format!("{}{}", if k > offered { "A" } else { "a" }, k));
                Ok(k)
            }
            WTok::Over(n) => {
                self.sink.extend_from_slice(buf);
                self.given.push(format!("A{}", offered + n));
                Ok(offered + n)
            }
            WTok::Eintr => {
                self.given.push("i".into());
                Err(Error::Os { msg: "scripted", code: Errno::EINTR })
            }
            WTok::Err(e) => {
                self.given.push(format!("e{}", e));
                Err(Error::Os { msg: "scripted", code: Errno::new(e) })
            }
            WTok::Uerr => {
                self.given.push("u".into());
                Err(Error::Uncategorized("scripted"))
            }
        }
    }
    fn flush(&mut self) -> tiny_std::Result<()> {
        Ok(())
    }
}

struct Pieces<'a>(&'a [Option<String>]);
impl core::fmt::Display for Pieces<'_> {
    fn fmt(&self, f: &mut core::fmt::Formatter<'_>) -> core::fmt::Result {
        for p in self.0 {
            match p {
                Some(s) => f.write_str(s)?,
                None => return Err(core::fmt::Error),
            }
        }
        Ok(())
    }
}

// ---------------------------------------------------------------------------------------------
fn commas(v: &[usize]) -> String {
    if v.is_empty() {
        "-".into()
    } else {
        v.iter().map(|c| c.to_string()).collect::<Vec<_>>().join(",")
    }
}

fn run_rte(is_str: bool, gen: bool, detail: bool, a: &[&str]) -> Option<String> {
    if a.len() < 4 {
        return None;
    }
    let init = unhex(a[0])?;
    let cap: usize = a[1].parse().ok()?;
    let scribble = match a[2] {
        "0" => false,
        "1" => true,
        _ => return None,
    };
    if cap < init.len() {
        return None;
    }
    let mut rd = SReader::parse(&a[4..], scribble)?;
    let (res, bytes, caps, fcap);
    if is_str {
        let mut s = String::with_capacity(cap);
        s.push_str(core::str::from_utf8(&init).ok()?);
        if s.capacity() != cap {
            return Some(format!("bad-cap {}", s.capacity()));
        }
        let start = if cap > 0 { Some(s.as_ptr() as usize) } else { None };
        unsafe {
            NEV = 0;
            REC = true;
        }
        let r = catch_unwind(AssertUnwindSafe(|| rd.read_to_string(&mut s)));
        unsafe {
            REC = false;
        }
        caps = caps_from_events(start);
        res = r;
        // the String must still be a String (valid UTF-8): checked, not assumed
        if !gen && core::str::from_utf8(s.as_bytes()).is_err() {
            return Some(format!("string-not-utf8 buf={}", hex(s.as_bytes())));
        }
        fcap = s.capacity();
        bytes = s.into_bytes();
    } else {
        let mut v: Vec<u8> = Vec::with_capacity(cap);
        v.extend_from_slice(&init);
        if v.capacity() != cap {
            return Some(format!("bad-cap {}", v.capacity()));
        }
        let start = if cap > 0 { Some(v.as_ptr() as usize) } else { None };
        unsafe {
            NEV = 0;
            REC = true;
        }
        let r = catch_unwind(AssertUnwindSafe(|| rd.read_to_end(&mut v)));
        unsafe {
            REC = false;
        }
        caps = caps_from_events(start);
        res = r;
        fcap = v.capacity();
        bytes = v;
    }
    if gen {
        return Some(format!("{} {} {} {} {} {}", if is_str { "rts" } else { "rte" }, a[0], cap, a[2], commas(&caps), rd.concrete()).trim_end().to_string());
    }
    let rs = match &res {
        Ok(Ok(n)) => format!("ok {}", n),
        Ok(Err(e)) => err_str(e),
        Err(_) => "panic".to_string(),
    };
    let mut out = format!("{} buf={} used={}", rs, hex(&bytes), rd.pos);
    if detail {
        out.push_str(&format!(" # log={} caps={} cap={} uninit={}", rd.log(), commas(&caps), fcap, if rd.dirty() { 1 } else { 0 }));
    }
    Some(out)
}

fn run_rex(gen: bool, detail: bool, a: &[&str]) -> Option<String> {
    if a.is_empty() {
        return None;
    }
    let orig = unhex(a[0])?;
    let mut rd = SReader::parse(&a[1..], false)?;
    let mut buf = orig.clone();
    let r = catch_unwind(AssertUnwindSafe(|| rd.read_exact(&mut buf)));
    if gen {
        return Some(format!("rex {} {}", a[0], rd.concrete()).trim_end().to_string());
    }
    let rs = match &r {
        Ok(Ok(())) => "ok".to_string(),
        Ok(Err(e)) => err_str(e),
        Err(_) => "panic".to_string(),
    };
    let mut out = format!("{} buf={} used={}", rs, hex(&buf), rd.pos);
    if detail {
        out.push_str(&format!(" # log={}", commas(&rd.calls.iter().map(|c| c.0).collect::<Vec<_>>())));
    }
    Some(out)
}

fn run_wall(gen: bool, detail: bool, a: &[&str]) -> Option<String> {
    if a.is_empty() {
        return None;
    }
    let data = unhex(a[0])?;
    let mut w = SWriter::parse(&a[1..], data.len())?;
    let r = catch_unwind(AssertUnwindSafe(|| w.write_all(&data)));
    if gen {
        return Some(format!("wall {} {}", a[0], w.concrete()).trim_end().to_string());
    }
    let rs = match &r {
        Ok(Ok(())) => "ok".to_string(),
        Ok(Err(e)) => err_str(e),
        Err(_) => "panic".to_string(),
    };
    let mut out = format!("{} sink={} used={}", rs, hex(&w.sink), w.pos);
    if detail {
        out.push_str(&format!(" # log={}", w.log()));
    }
    Some(out)
}

fn run_wfmt(gen: bool, detail: bool, a: &[&str]) -> Option<String> {
    if a.is_empty() {
        return None;
    }
    let variant: u8 = a[0].parse().ok()?;
    let slash = a.iter().position(|t| *t == "/")?;
    let mut items: Vec<Option<String>> = Vec::new();
    let mut total = 2 + 80;
    for t in &a[1..slash] {
        if *t == "f" {
            items.push(None);
        } else if let Some(h) = t.strip_prefix('s') {
            let b = unhex(h)?;
            total += b.len();
            items.push(Some(String::from_utf8(b).ok()?));
        } else {
            return None;
        }
    }
    let mut w = SWriter::parse(&a[slash + 1..], total)?;
    let r = catch_unwind(AssertUnwindSafe(|| match variant {
        0 => Some(write!(w, "{}", Pieces(&items))),
        1 => Some(write!(w, "[{}]", Pieces(&items))),
        // literal-only format strings (`Arguments::as_str()` is Some): no items
        2 => Some(write!(w, "done\n")),
        3 => Some(write!(w, "literal text without arguments 0123456789 abcdefghijklmnopqrstuvwxyz")),
        _ => None,
    }));
    let r = match r {
        Ok(None) => return None,
        Ok(Some(x)) => Ok(x),
        Err(e) => Err(e),
    };
    if gen {
        return Some(format!("wfmt {} / {}", a[..slash].join(" "), w.concrete()).trim_end().to_string());
    }
    let rs = match &r {
        Ok(Ok(())) => "ok".to_string(),
        Ok(Err(e)) => err_str(e),
        Err(_) => "panic".to_string(),
    };
    let mut out = format!("{} sink={} used={}", rs, hex(&w.sink), w.pos);
    if detail {
        out.push_str(&format!(" # log={}", w.log()));
    }
    Some(out)
}

// ---------------------------------------------------------------------------------------------
// The print macros (tiny-std/src/unix/print.rs) against a scripted `write` system call.
const MAX_WRITE_CALLS: usize = 5_000;
struct Kern {
    runaway: bool,
    toks: Vec<WTok>,
    pos: usize,
    sink: Vec<u8>,
    calls: Vec<usize>,
    fds: Vec<usize>,
    given: Vec<String>,
}
impl Kern {
    fn parse(toks: &[&str]) -> Option<Kern> {
        let mut out = Vec::new();
        for t in toks {
            let (h, rest) = t.split_at(1);
            out.push(match h {
                "a" | "A" => WTok::Accept(rest.parse().ok()?),
                "o" if rest.is_empty() => WTok::Accept(0),
                "k" => WTok::UpTo(rest.parse().ok()?),
                "i" if rest.is_empty() => WTok::Eintr,
                "e" => WTok::Err(rest.parse().ok()?),
                _ => return None,
            });
        }
        Some(Kern { runaway: false, toks: out, pos: 0, sink: Vec::new(), calls: Vec::new(), fds: Vec::new(), given: Vec::new() })
    }
    fn tok(k: usize, offered: usize) -> String {
        if k == 0 && offered == 0 {
            "o".into()
        } else {
            format!("{}{}", if k > offered { "A" } else { "a" }, k)
        }
    }
    fn write(&mut self, fd: usize, buf: &[u8]) -> usize {
        let offered = buf.len();
        if self.calls.len() >= MAX_WRITE_CALLS {
            // a loop that never ends (no explored case needs more than a few hundred calls): unwind out of it
            self.runaway = true;
            panic!("runaway write loop");
        }
        self.calls.push(offered);
        if !self.fds.contains(&fd) {
            self.fds.push(fd);
        }
        if self.pos >= self.toks.len() {
            self.sink.extend_from_slice(buf);
            return offered;
        }
        self.pos += 1;
        match self.toks[self.pos - 1] {
            WTok::UpTo(k) => {
                let k = k.min(offered);
                self.sink.extend_from_slice(&buf[..k]);
                self.given.push(Self::tok(k, offered));
                k
            }
            WTok::Accept(k) => {
                self.sink.extend_from_slice(&buf[..k.min(offered)]);
                self.given.push(Self::tok(k, offered));
                k
            }
            WTok::Eintr => {
                self.given.push("i".into());
                sc::shim::neg_errno(4)
            }
            WTok::Err(e) => {
                self.given.push(format!("e{}", e));
                sc::shim::neg_errno(e as usize)
            }
            WTok::Over(_) | WTok::Uerr => unreachable!(),
        }
    }
    fn concrete(&self) -> String {
        let mut out = self.given.clone();
        for t in &self.toks[self.pos..] {
            match *t {
                WTok::UpTo(k) | WTok::Accept(k) => out.push(format!("a{}", k)),
                WTok::Eintr => out.push("i".into()),
                WTok::Err(e) => out.push(format!("e{}", e)),
                WTok::Over(_) | WTok::Uerr => {}
            }
        }
        out.join(" ")
    }
}

/// deterministic printable-ASCII content (same rule in Model/Io.lean `genBytes` and checks/c15.py)
fn gen_bytes(len: usize, seed: usize) -> String {
    (0..len).map(|i| (33 + (seed + i + i / 94) % 94) as u8 as char).collect()
}

impl core::fmt::Debug for Pieces<'_> {
    fn fmt(&self, f: &mut core::fmt::Formatter<'_>) -> core::fmt::Result {
        core::fmt::Display::fmt(self, f)
    }
}

// compile-time literal segments: "0123456789abcdef" repeated, cut at the length in the name
macro_rules! c16 { () => { "0123456789abcdef" }; }
macro_rules! c64 { () => { concat!(c16!(), c16!(), c16!(), c16!()) }; }
macro_rules! c256 { () => { concat!(c64!(), c64!(), c64!(), c64!()) }; }
macro_rules! c1024 { () => { concat!(c256!(), c256!(), c256!(), c256!()) }; }
macro_rules! l255 { () => { concat!(c64!(), c64!(), c64!(), c16!(), c16!(), c16!(), "0123456789abcde") }; }
macro_rules! l257 { () => { concat!(c256!(), "0") }; }
macro_rules! l300 { () => { concat!(c256!(), c16!(), c16!(), "0123456789ab") }; }
macro_rules! l4096 { () => { concat!(c1024!(), c1024!(), c1024!(), c1024!()) }; }

/// one call site per (macro, template); `false` = no such template
macro_rules! tpl_call {
    ($m:ident, $none:expr, $tpl:expr, $a:expr, $b:expr, $num:expr, $s:expr) => {
        match $tpl {
            "n" => { $none; true }
            "a" => { tiny_std::$m!("{}", $a); true }
            "b" => { tiny_std::$m!("id={} payload={} end", $a, $b); true }
            "c" => { tiny_std::$m!(concat!(l255!(), "{}", c256!(), "{}", l257!()), $a, $b); true }
            "d" => { tiny_std::$m!(concat!("x{}", l4096!(), "{}"), $a, $b); true }
            "l" => { tiny_std::$m!(l300!()); true }
            "s" => { tiny_std::$m!("done"); true }
            "g" => { tiny_std::$m!("n={} s={}", $num, $s); true }
            _ => false,
        }
    };
}

fn run_prt(gen: bool, detail: bool, a: &[&str]) -> Option<String> {
    use std::cell::RefCell;
    use std::rc::Rc;
    if a.len() < 3 {
        return None;
    }
    let kind = a[0];
    let tpl = a[1];
    let slash = a.iter().position(|t| *t == "/")?;
    // arguments: lists of items separated by ","
    let mut args: Vec<Vec<Option<String>>> = vec![Vec::new()];
    let mut num: i64 = 0;
    let mut have_num = false;
    for t in &a[2..slash] {
        if *t == "," {
            args.push(Vec::new());
        } else if *t == "f" {
            args.last_mut().unwrap().push(None);
        } else if let Some(h) = t.strip_prefix('s') {
            args.last_mut().unwrap().push(Some(String::from_utf8(unhex(h)?).ok()?));
        } else if let Some(g) = t.strip_prefix('g') {
            let (l, s) = g.split_once('.')?;
            let (l, s): (usize, usize) = (l.parse().ok()?, s.parse().ok()?);
            if l > 200_000 {
                return None;
            }
            args.last_mut().unwrap().push(Some(gen_bytes(l, s)));
        } else if let Some(n) = t.strip_prefix('n') {
            num = n.parse().ok()?;
            have_num = true;
        } else if t.starts_with('h') && !gen {
            unhex(&t[1..])?; // header recorded by the gen pass; the macro produces it itself
        } else {
            return None;
        }
    }
    let nargs_needed = match (kind, tpl) {
        (_, "n") | (_, "l") | (_, "s") => 0,
        ("d", "a") => 1,
        ("d", "b") => 2,
        ("d", _) => return None,
        (_, "a") | (_, "g") => 1,
        (_, "b") | (_, "c") | (_, "d") => 2,
        _ => return None,
    };
    if nargs_needed == 0 {
        if args.len() != 1 || !args[0].is_empty() {
            return None;
        }
    } else if args.len() != nargs_needed {
        return None;
    }
    let gstr: String = if tpl == "g" {
        // exactly one number and one string item
        if !have_num || args[0].len() != 1 {
            return None;
        }
        args[0][0].clone()?
    } else {
        if have_num {
            return None;
        }
        String::new()
    };
    let empty: Vec<Option<String>> = Vec::new();
    let a0 = Pieces(&args[0]);
    let a1 = Pieces(if args.len() > 1 { &args[1] } else { &empty });
    let kern = Rc::new(RefCell::new(Kern::parse(&a[slash + 1..])?));
    let k2 = kern.clone();
    sc::shim::set_handler(Box::new(move |nr, args, _n| {
        if nr == sc::nr::WRITE && (args[0] == 1 || args[0] == 2) {
            let buf = unsafe { core::slice::from_raw_parts(args[1] as *const u8, args[2]) };
            Some(k2.borrow_mut().write(args[0], buf))
        } else {
            None
        }
    }));
    let mut hdrs: Vec<String> = Vec::new();
    let r = catch_unwind(AssertUnwindSafe(|| match kind {
        "p" => tpl_call!(print, tiny_std::print!(""), tpl, a0, a1, num, gstr.as_str()),
        "P" => tpl_call!(println, tiny_std::println!(), tpl, a0, a1, num, gstr.as_str()),
        "e" => tpl_call!(eprint, tiny_std::eprint!(""), tpl, a0, a1, num, gstr.as_str()),
        "E" => tpl_call!(eprintln, tiny_std::eprintln!(), tpl, a0, a1, num, gstr.as_str()),
        // the header is "[file:line] expr = " with the line of the dbg! invocation: keep each pair on one line
        "d" => match tpl {
            "n" => { hdrs.push(format!("[{}:{}]", file!(), line!())); tiny_std::dbg!(); true }
            "a" => { hdrs.push(format!("[{}:{}] {} = ", file!(), line!(), "a0")); let _ = tiny_std::dbg!(a0); true }
            "b" => { let l = line!(); hdrs.push(format!("[{}:{}] {} = ", file!(), l, "a0")); hdrs.push(format!("[{}:{}] {} = ", file!(), l, "a1")); let _ = tiny_std::dbg!(a0, a1); true }
            _ => false,
        },
        _ => false,
    }));
    sc::shim::reset();
    let known = match &r {
        Ok(b) => *b,
        Err(_) => true,
    };
    if !known {
        return None;
    }
    let k = kern.borrow();
    if gen {
        // the concrete line: items as given, dbg! headers inserted before each argument, responses as answered
        let mut items: Vec<String> = Vec::new();
        let mut hi = 0;
        if kind == "d" && hi < hdrs.len() {
            items.push(format!("h{}", hex(hdrs[hi].as_bytes())));
            hi += 1;
        }
        for t in &a[2..slash] {
            if t.starts_with('h') {
                continue;
            }
            items.push((*t).to_string());
            if *t == "," && kind == "d" && hi < hdrs.len() {
                items.push(format!("h{}", hex(hdrs[hi].as_bytes())));
                hi += 1;
            }
        }
        return Some(format!("prt {} {} {} / {}", kind, tpl, items.join(" "), k.concrete()).replace("  ", " ").trim_end().to_string());
    }
    let fd = match k.fds.as_slice() {
        [] => "-".to_string(),
        [x] => x.to_string(),
        _ => "mixed".to_string(),
    };
    if k.runaway {
        return Some(format!("runaway calls={} used={} fd={}", k.calls.len(), k.pos, fd));
    }
    let mut out = format!("{} sink={} used={} fd={}", if r.is_ok() { "done" } else { "panic" }, hex(&k.sink), k.pos, fd);
    if detail {
        out.push_str(&format!(" # log={}", commas(&k.calls)));
    }
    Some(out)
}

// ---------------------------------------------------------------------------------------------
// tiny-std's OWN Read implementors on real kernel objects (whatever they override of the provided helpers),
// judged by std doing the same on a twin descriptor / by the known content.
//   impl file <rte|rts|rex:N> <src> <prefill-hex|-> <offset>
//     src: tmp:<size>:<seed> | bad:<size> (not UTF-8) | trunc:<size>:<newsize> | ext:<size>:<extra> | path:<abs path>
//   impl ustream <rte|rts> pipe:<n1,n2,..> <prefill-hex|-> 0      (a std thread feeds the pieces, then closes)
// Output: `T <res> <len> <fnv> S <res> <len> <fnv> diff=<first differing offset|->` (T = tiny-std, S = std/known);
//         `skip <why>` when the object cannot be opened by std either.
fn fnv(b: &[u8]) -> u64 {
    let mut h: u64 = 0xcbf29ce484222325;
    for x in b {
        h ^= *x as u64;
        h = h.wrapping_mul(0x100000001b3);
    }
    h
}

fn impl_line(tr: &str, tb: &[u8], sr: &str, sb: &[u8]) -> String {
    let d = tb.iter().zip(sb.iter()).position(|(a, b)| a != b).or(if tb.len() != sb.len() { Some(tb.len().min(sb.len())) } else { None });
    format!("T {} {} {:016x} S {} {} {:016x} diff={}", tr, tb.len(), fnv(tb), sr, sb.len(), fnv(sb), d.map_or("-".to_string(), |x| x.to_string()))
}

fn run_impl(a: &[&str]) -> Option<String> {
    use std::io::{Read as SRead, Seek, SeekFrom, Write as SWrite};
    use std::os::fd::IntoRawFd;
    static CTR: std::sync::atomic::AtomicUsize = std::sync::atomic::AtomicUsize::new(0);
    if a.len() != 5 {
        return None;
    }
    let (ty, op, src, pre, off) = (a[0], a[1], a[2], a[3], a[4].parse::<u64>().ok()?);
    let prefill = if pre == "-" { Vec::new() } else { unhex(pre)? };
    let n = CTR.fetch_add(1, std::sync::atomic::Ordering::SeqCst);
    let tmp = std::env::temp_dir().join(format!("c15impl.{}.{}", std::process::id(), n));
    let sp: Vec<&str> = src.splitn(2, ':').collect();
    if sp.len() != 2 {
        return None;
    }
    if ty == "ustream" {
        if sp[0] != "pipe" || off != 0 || !(op == "rte" || op == "rts") {
            return None;
        }
        let sizes: Vec<usize> = sp[1].split(',').map(|x| x.parse().ok()).collect::<Option<Vec<_>>>()?;
        let total: usize = sizes.iter().sum();
        let content = gen_bytes(total, n % 89).into_bytes();
        let lst = std::os::unix::net::UnixListener::bind(&tmp).ok()?;
        let c2 = content.clone();
        let th = std::thread::spawn(move || {
            let (mut s, _) = lst.accept().unwrap();
            let mut o = 0;
            for k in sizes {
                s.write_all(&c2[o..o + k]).unwrap();
                o += k;
                std::thread::sleep(std::time::Duration::from_millis(2));
            }
        });
        let ps = format!("{}\0", tmp.display());
        let us = rusl::string::unix_str::UnixStr::try_from_str(&ps).ok()?;
        let mut st = match tiny_std::net::UnixStream::connect(us) {
            Ok(x) => x,
            Err(_) => return Some("skip connect".into()),
        };
        let mut exp = prefill.clone();
        exp.extend_from_slice(&content);
        let out = if op == "rts" {
            let mut t = String::from_utf8(prefill.clone()).ok()?;
            let r = st.read_to_string(&mut t);
            impl_line(&r.map_or("err".to_string(), |k| format!("ok{}", k)), t.as_bytes(), &format!("ok{}", total), &exp)
        } else {
            let mut t = prefill.clone();
            let r = st.read_to_end(&mut t);
            impl_line(&r.map_or("err".to_string(), |k| format!("ok{}", k)), &t, &format!("ok{}", total), &exp)
        };
        th.join().ok();
        let _ = std::fs::remove_file(&tmp);
        return Some(out);
    }
    if ty != "file" {
        return None;
    }
    let mut cleanup = false;
    let path: std::path::PathBuf = match sp[0] {
        "path" => std::path::PathBuf::from(sp[1]),
        "tmp" | "bad" | "trunc" | "ext" => {
            let q: Vec<usize> = sp[1].split(':').map(|x| x.parse().ok()).collect::<Option<Vec<_>>>()?;
            let size = *q.first()?;
            let mut content = gen_bytes(size, q.get(1).copied().unwrap_or(7) % 89).into_bytes();
            if sp[0] == "bad" && size > 0 {
                let i = size / 2;
                content[i] = 0xff;
            }
            std::fs::write(&tmp, &content).ok()?;
            cleanup = true;
            tmp.clone()
        }
        _ => return None,
    };
    let (mut f1, mut f2) = match (std::fs::File::open(&path), std::fs::File::open(&path)) {
        (Ok(x), Ok(y)) => (x, y),
        _ => return Some("skip open".into()),
    };
    if off > 0 && (f1.seek(SeekFrom::Start(off)).is_err() || f2.seek(SeekFrom::Start(off)).is_err()) {
        return Some("skip seek".into());
    }
    // another descriptor changes the size between open and read
    if sp[0] == "trunc" || sp[0] == "ext" {
        let q: Vec<u64> = sp[1].split(':').map(|x| x.parse().ok()).collect::<Option<Vec<_>>>()?;
        let mut w = std::fs::OpenOptions::new().write(true).append(sp[0] == "ext").open(&path).ok()?;
        if sp[0] == "trunc" {
            w.set_len(*q.get(1)?).ok()?;
        } else {
            w.write_all(gen_bytes(*q.get(1)? as usize, 3).as_bytes()).ok()?;
        }
    }
    let fd = rusl::platform::Fd::try_new(f1.into_raw_fd()).ok()?;
    let mut tf = unsafe { tiny_std::fs::File::from_raw_fd(fd) };
    let show_s = |r: &std::io::Result<usize>| r.as_ref().map_or("err".to_string(), |k| format!("ok{}", k));
    let out = if op == "rte" {
        let (mut t, mut sv) = (prefill.clone(), prefill.clone());
        let r = catch_unwind(AssertUnwindSafe(|| tf.read_to_end(&mut t)));
        let rs = f2.read_to_end(&mut sv);
        let tr = match r { Ok(Ok(k)) => format!("ok{}", k), Ok(Err(_)) => "err".to_string(), Err(_) => "panic".to_string() };
        // on an error std keeps what was read; only compare the buffers when both succeeded or both failed
        impl_line(&tr, &t, &show_s(&rs), &sv)
    } else if op == "rts" {
        let mut t = String::from_utf8(prefill.clone()).ok()?;
        let mut sv = t.clone();
        let r = catch_unwind(AssertUnwindSafe(|| tf.read_to_string(&mut t)));
        let rs = f2.read_to_string(&mut sv);
        let tr = match r { Ok(Ok(k)) => format!("ok{}", k), Ok(Err(_)) => "err".to_string(), Err(_) => "panic".to_string() };
        impl_line(&tr, t.as_bytes(), &show_s(&rs), sv.as_bytes())
    } else if let Some(k) = op.strip_prefix("rex:") {
        let k: usize = k.parse().ok()?;
        let (mut t, mut sv) = (vec![0xCCu8; k], vec![0xCCu8; k]);
        let r = catch_unwind(AssertUnwindSafe(|| tf.read_exact(&mut t)));
        let rs = f2.read_exact(&mut sv);
        let tr = match r { Ok(Ok(())) => "ok".to_string(), Ok(Err(_)) => "err".to_string(), Err(_) => "panic".to_string() };
        let sr = if rs.is_ok() { "ok" } else { "err" };
        if tr == "ok" && sr == "ok" { impl_line(&tr, &t, sr, &sv) } else { impl_line(&tr, &[], sr, &[]) }
    } else {
        return None;
    };
    drop(tf);
    if cleanup {
        let _ = std::fs::remove_file(&tmp);
    }
    Some(out)
}

fn main() {
    std::panic::set_hook(Box::new(|_| {}));
    let detail = std::env::args().any(|a| a == "--detail");
    let stdin = std::io::stdin();
    let stdout = std::io::stdout();
    let mut out = std::io::BufWriter::new(stdout.lock());
    for line in stdin.lock().lines() {
        let line = line.unwrap();
        let mut w: Vec<&str> = line.split_whitespace().collect();
        let gen = !w.is_empty() && w[0] == "gen";
        if gen {
            w.remove(0);
        }
        let ans = if w.is_empty() {
            None
        } else {
            match w[0] {
                "rte" => run_rte(false, gen, detail, &w[1..]),
                "rts" => run_rte(true, gen, detail, &w[1..]),
                "rex" => run_rex(gen, detail, &w[1..]),
                "wall" => run_wall(gen, detail, &w[1..]),
                "wfmt" => run_wfmt(gen, detail, &w[1..]),
                "prt" => run_prt(gen, detail, &w[1..]),
                "impl" => run_impl(&w[1..]),
                _ => None,
            }
        };
        writeln!(out, "{}", ans.unwrap_or_else(|| "bad-op".to_string())).unwrap();
    }
    out.flush().unwrap();
}
