//! C07 in-process harness.  One answer line per stdin line.
//!   auxv (<key> <value>)*                      -> the ten AuxValues fields `from_auxv` collects
//!   relocsyn <size> <phoff> <phent> <phnum> <dynoff> (w <off> <val> | wb <off> <val>)* (q <off>)*
//!        a zeroed buffer of <size> bytes, 8-byte words <val> stored at <off> (`wb`: <val> + buffer address),
//!        program headers at <phoff>, .dynamic at <dynoff>; runs `relocate_symbols(buffer+dynoff, aux)` with
//!        AT_BASE = 0, AT_PHDR = buffer+phoff; prints the words at the queried offsets minus the buffer address
#![allow(dead_code, unused_imports, clippy::all)]
use std::io::{BufRead, Write};

mod elf {
    pub mod aux {
        include!("/repo/tiny-start/src/elf/aux.rs");
    }
    pub mod dynlink {
        include!("/repo/tiny-start/src/elf/dynlink.rs");
    }
}

use elf::aux::AuxValues;

fn nums(w: &[&str]) -> Option<Vec<usize>> {
    w.iter().map(|x| x.parse::<usize>().ok()).collect()
}

fn auxv(w: &[&str]) -> String {
    let Some(mut v) = nums(w) else { return "bad-op".into() };
    if v.len() % 2 != 0 {
        return "bad-op".into();
    }
    v.push(0);
    v.push(0);
    let a = unsafe { AuxValues::from_auxv(v.as_ptr()) };
    format!(
        "{},{},{},{},{},{},{},{},{},{}",
        a.at_base, a.at_gid, a.at_uid, a.at_phdr, a.at_phent, a.at_phnum, a.at_random, a.at_secure, a.at_sysinfo_ehdr, a.at_execfn
    )
}

fn relocsyn(w: &[&str]) -> String {
    if w.len() < 5 {
        return "bad-op".into();
    }
    let Some(h) = nums(&w[..5]) else { return "bad-op".into() };
    let (size, phoff, phent, phnum, dynoff) = (h[0], h[1], h[2], h[3], h[4]);
    if size > (1 << 24) || size % 8 != 0 {
        return "bad-op".into();
    }
    let mut buf: Vec<u64> = vec![0; size / 8];
    let base = buf.as_mut_ptr() as usize;
    let bytes = unsafe { core::slice::from_raw_parts_mut(base as *mut u8, size) };
    let mut qs = Vec::new();
    let mut i = 5;
    while i < w.len() {
        match w[i] {
            "w" | "wb" if i + 2 < w.len() => {
                let (Ok(off), Ok(val)) = (w[i + 1].parse::<usize>(), w[i + 2].parse::<u64>()) else { return "bad-op".into() };
                if off + 8 > size {
                    return "bad-op".into();
                }
                let val = if w[i] == "wb" { val.wrapping_add(base as u64) } else { val };
                bytes[off..off + 8].copy_from_slice(&val.to_le_bytes());
                i += 3;
            }
            "q" if i + 1 < w.len() => {
                let Ok(off) = w[i + 1].parse::<usize>() else { return "bad-op".into() };
                if off + 8 > size {
                    return "bad-op".into();
                }
                qs.push(off);
                i += 2;
            }
            _ => return "bad-op".into(),
        }
    }
    let mut aux = AuxValues::zeroed();
    aux.at_phdr = base + phoff;
    aux.at_phent = phent;
    aux.at_phnum = phnum;
    unsafe { elf::dynlink::relocate_symbols((base + dynoff) as *const usize, &aux) };
    let mut out = String::from("ok");
    for q in qs {
        let v = u64::from_le_bytes(bytes[q..q + 8].try_into().unwrap());
        out.push_str(&format!(" {}", v.wrapping_sub(base as u64)));
    }
    out
}

fn main() {
    let stdin = std::io::stdin();
    let stdout = std::io::stdout();
    let mut o = stdout.lock();
    for line in stdin.lock().lines() {
        let line = line.unwrap();
        let w: Vec<&str> = line.split_whitespace().collect();
        let ans = match w.first() {
            Some(&"auxv") => auxv(&w[1..]),
            Some(&"relocsyn") => relocsyn(&w[1..]),
            _ => "bad-op".into(),
        };
        writeln!(o, "{}", ans).unwrap();
    }
}
