//! Deterministic scheduler shim: every atomic operation, futex call and guarded data access of the
//! code under test is a *yield point*; exactly one model thread runs between two yield points and the
//! controller (main thread) decides who goes next.  Every executed operation is appended to a trace.
#![allow(dead_code)]
use std::sync::{Condvar, Mutex as StdMutex};

#[derive(Clone, Debug, PartialEq)]
pub enum Status {
    NotStarted,
    Running,
    AtYield(String), // description of the pending operation
    Parked(usize),   // futex address
    Done,
}

pub struct Inner {
    pub status: Vec<Status>,
    pub grant: Option<usize>,
    pub wake_ret: Vec<Option<i32>>, // set when a parked thread is released: 0 = Ok, 4 = EINTR
    pub trace: Vec<String>,
    pub free_run: bool,
    pub locs: Vec<usize>,
    pub wake_choice: Option<usize>, // index into the parked-on-this-address list, set by controller
}

pub struct Sched {
    pub inner: StdMutex<Inner>,
    pub cv: Condvar,
}

pub static SCHED: Sched = Sched {
    inner: StdMutex::new(Inner {
        status: Vec::new(),
        grant: None,
        wake_ret: Vec::new(),
        trace: Vec::new(),
        free_run: true,
        locs: Vec::new(),
        wake_choice: None,
    }),
    cv: Condvar::new(),
};

thread_local! {
    pub static TID: std::cell::Cell<Option<usize>> = const { std::cell::Cell::new(None) };
}

pub fn tid() -> Option<usize> {
    TID.with(|t| t.get())
}

fn loc_of(inner: &mut Inner, addr: usize) -> usize {
    if let Some(i) = inner.locs.iter().position(|a| *a == addr) {
        i
    } else {
        inner.locs.push(addr);
        inner.locs.len() - 1
    }
}

/// Block until the controller grants this thread its next operation.  Returns false in free-run mode.
pub fn yield_point(desc: &str) -> bool {
    let Some(me) = tid() else { return false };
    let mut g = SCHED.inner.lock().unwrap();
    if g.free_run {
        return false;
    }
    g.status[me] = Status::AtYield(desc.to_string());
    SCHED.cv.notify_all();
    loop {
        if g.free_run {
            g.status[me] = Status::Running;
            return false;
        }
        if g.grant == Some(me) {
            g.grant = None;
            g.status[me] = Status::Running;
            return true;
        }
        g = SCHED.cv.wait(g).unwrap();
    }
}

thread_local! {
    /// when set, the next successful CAS (strong or weak) of this thread is immediately followed by this call (used to
    /// bracket a guard that lives entirely inside library code, e.g. the one `impl Debug for Mutex` takes)
    pub static ON_CAS_OK: std::cell::Cell<Option<fn()>> = std::cell::Cell::new(None);
}

pub fn log(ev: String) {
    let mut g = SCHED.inner.lock().unwrap();
    if !g.free_run {
        g.trace.push(ev);
    }
}

pub fn thread_done() {
    if let Some(me) = tid() {
        let mut g = SCHED.inner.lock().unwrap();
        g.status[me] = Status::Done;
        SCHED.cv.notify_all();
    }
}

/// a guarded (non-atomic) data access made while holding a guard
pub fn data_access(kind: &str) {
    if yield_point("data") {
        let me = tid().unwrap();
        log(format!("{} data {} - -", me, kind));
    }
}

/// guard-level events (no yield: they are bookkeeping of the harness, attributed to the running thread)
pub fn note(ev: &str) {
    if let Some(me) = tid() {
        log(format!("{} {} - - -", me, ev));
    }
}

pub mod atomic {
    pub use core::sync::atomic::Ordering;
    use super::*;

    fn o(x: Ordering) -> &'static str {
        match x {
            Ordering::Relaxed => "rlx",
            Ordering::Acquire => "acq",
            Ordering::Release => "rel",
            Ordering::AcqRel => "acqrel",
            Ordering::SeqCst => "sc",
            _ => "?",
        }
    }

    pub struct AtomicU32 {
        v: core::sync::atomic::AtomicU32,
    }

    impl AtomicU32 {
        pub const fn new(v: u32) -> Self {
            Self { v: core::sync::atomic::AtomicU32::new(v) }
        }
        pub fn raw(&self) -> &core::sync::atomic::AtomicU32 {
            &self.v
        }
        fn loc(&self) -> usize {
            let mut g = SCHED.inner.lock().unwrap();
            let a = self as *const _ as usize;
            loc_of(&mut g, a)
        }
        pub fn load(&self, ord: Ordering) -> u32 {
            let sched = yield_point("load");
            let r = self.v.load(Ordering::SeqCst);
            if sched {
                log(format!("{} load{} {} - {}", tid().unwrap(), self.loc(), o(ord), r));
            }
            r
        }
        pub fn store(&self, val: u32, ord: Ordering) {
            let sched = yield_point("store");
            self.v.store(val, Ordering::SeqCst);
            if sched {
                log(format!("{} store{} {} {} -", tid().unwrap(), self.loc(), o(ord), val));
            }
        }
        pub fn swap(&self, val: u32, ord: Ordering) -> u32 {
            let sched = yield_point("swap");
            let r = self.v.swap(val, Ordering::SeqCst);
            if sched {
                log(format!("{} swap{} {} {} {}", tid().unwrap(), self.loc(), o(ord), val, r));
            }
            r
        }
        pub fn fetch_add(&self, val: u32, ord: Ordering) -> u32 {
            let sched = yield_point("fadd");
            let r = self.v.fetch_add(val, Ordering::SeqCst);
            if sched {
                log(format!("{} fadd{} {} {} {}", tid().unwrap(), self.loc(), o(ord), val, r));
            }
            r
        }
        pub fn fetch_sub(&self, val: u32, ord: Ordering) -> u32 {
            let sched = yield_point("fsub");
            let r = self.v.fetch_sub(val, Ordering::SeqCst);
            if sched {
                log(format!("{} fsub{} {} {} {}", tid().unwrap(), self.loc(), o(ord), val, r));
            }
            r
        }
        pub fn compare_exchange(&self, cur: u32, new: u32, s: Ordering, f: Ordering) -> Result<u32, u32> {
            let sched = yield_point("cas");
            let r = self.v.compare_exchange(cur, new, Ordering::SeqCst, Ordering::SeqCst);
            if sched {
                let (tag, old) = match r { Ok(v) => ("ok", v), Err(v) => ("fail", v) };
                log(format!("{} cas{} {}/{} {}>{} {}{}", tid().unwrap(), self.loc(), o(s), o(f), cur, new, tag, old));
            }
            // also in free-run mode (after truncation / a reported deadlock): the bookkeeping of a guard that lives
            // inside library code must not depend on whether the controller is still scheduling
            if r.is_ok() {
                if let Some(f) = ON_CAS_OK.with(|c| c.take()) {
                    f();
                }
            }
            r
        }
        /// weak CAS: the controller may make it fail spuriously (even though the value matches)
        pub fn compare_exchange_weak(&self, cur: u32, new: u32, s: Ordering, f: Ordering) -> Result<u32, u32> {
            let sched = yield_point("casw");
            let spurious = if sched {
                let mut g = SCHED.inner.lock().unwrap();
                let c = g.wake_choice.take();
                c == Some(usize::MAX)
            } else {
                false
            };
            let r = if spurious {
                Err(self.v.load(Ordering::SeqCst))
            } else {
                self.v.compare_exchange(cur, new, Ordering::SeqCst, Ordering::SeqCst)
            };
            if sched {
                let (tag, old) = match r { Ok(v) => ("ok", v), Err(v) => (if spurious { "spur" } else { "fail" }, v) };
                log(format!("{} casw{} {}/{} {}>{} {}{}", tid().unwrap(), self.loc(), o(s), o(f), cur, new, tag, old));
            }
            if r.is_ok() {
                if let Some(f) = ON_CAS_OK.with(|c| c.take()) {
                    f();
                }
            }
            r
        }
        /// identical to core's implementation: a load followed by a weak-CAS loop
        pub fn fetch_update<F: FnMut(u32) -> Option<u32>>(&self, set: Ordering, fetch: Ordering, mut f: F) -> Result<u32, u32> {
            let mut prev = self.load(fetch);
            while let Some(next) = f(prev) {
                match self.compare_exchange_weak(prev, next, set, fetch) {
                    x @ Ok(_) => return x,
                    Err(next_prev) => prev = next_prev,
                }
            }
            Err(prev)
        }
    }
}

pub mod rusl {
    pub mod error {
        #[derive(Debug, Clone, Copy, PartialEq, Eq)]
        pub struct Errno(pub i32);
        impl Errno {
            pub const EINTR: Errno = Errno(4);
            pub const EAGAIN: Errno = Errno(11);
        }
    }
    #[derive(Debug)]
    pub struct Error {
        pub msg: &'static str,
        pub code: Option<error::Errno>,
    }
    pub mod platform {
        #[derive(Debug, Clone, Copy, PartialEq, Eq)]
        pub struct FutexFlags(pub u32);
        impl FutexFlags {
            pub const PRIVATE: FutexFlags = FutexFlags(128);
            pub const fn empty() -> Self { FutexFlags(0) }
        }
    }
    pub mod futex {
        use super::super::*;
        use super::error::Errno;
        use super::Error;
        use crate::shim::atomic::AtomicU32;

        /// user-space futex with the kernel's contract: compare the *current* value and enqueue atomically
        /// (under the scheduler lock); a parked thread continues only when a wake (or a spurious return
        /// chosen by the controller) releases it.
        pub fn futex_wait(uaddr: &AtomicU32, val: u32, flags: super::platform::FutexFlags, _t: Option<()>) -> Result<(), Error> {
            if !yield_point("fwait") {
                // free-run mode: the kernel's contract without parking — EAGAIN when the word no longer holds `val`
                // (a caller that retries on EAGAIN without re-reading the word then spins for ever: reported as
                // livelock), otherwise a spurious return
                std::thread::yield_now();
                if uaddr.raw().load(core::sync::atomic::Ordering::SeqCst) != val {
                    return Err(Error { msg: "futex", code: Some(Errno::EAGAIN) });
                }
                return Ok(());
            }
            let me = TID.with(|t| t.get()).unwrap();
            let addr = uaddr as *const _ as usize;
            let mut g = SCHED.inner.lock().unwrap();
            let loc = loc_of(&mut g, addr);
            let cur = uaddr.raw().load(core::sync::atomic::Ordering::SeqCst);
            if cur != val {
                g.trace.push(format!("{} fwait{} {} {} eagain", me, loc, flags.0, val));
                return Err(Error { msg: "futex", code: Some(Errno::EAGAIN) });
            }
            g.trace.push(format!("{} fwait{} {} {} park", me, loc, flags.0, val));
            g.status[me] = Status::Parked(addr);
            g.wake_ret[me] = None;
            SCHED.cv.notify_all();
            loop {
                if g.free_run {
                    g.status[me] = Status::Running;
                    return Ok(());
                }
                if let Some(r) = g.wake_ret[me].take() {
                    g.status[me] = Status::Running;
                    return if r == 0 { Ok(()) } else { Err(Error { msg: "futex", code: Some(Errno(r)) }) };
                }
                g = SCHED.cv.wait(g).unwrap();
            }
        }

        pub fn futex_wake(uaddr: &AtomicU32, num: i32) -> Result<usize, Error> {
            if !yield_point("fwake") {
                return Ok(0);
            }
            let me = TID.with(|t| t.get()).unwrap();
            let addr = uaddr as *const _ as usize;
            let mut g = SCHED.inner.lock().unwrap();
            let loc = loc_of(&mut g, addr);
            let mut parked: Vec<usize> = (0..g.status.len()).filter(|i| g.status[*i] == Status::Parked(addr)).collect();
            let mut woken = Vec::new();
            let choice = g.wake_choice.take().unwrap_or(0);
            let mut k = 0usize;
            while !parked.is_empty() && (woken.len() as i64) < num as i64 {
                let idx = if k == 0 { choice % parked.len() } else { 0 };
                let t = parked.remove(idx);
                g.wake_ret[t] = Some(0);
                g.status[t] = Status::Running;
                woken.push(t);
                k += 1;
            }
            let w: Vec<String> = woken.iter().map(|x| x.to_string()).collect();
            g.trace.push(format!("{} fwake{} {} {} {}", me, loc, num, if w.is_empty() { "-".to_string() } else { w.join(",") }, woken.len()));
            SCHED.cv.notify_all();
            Ok(woken.len())
        }
    }
}
