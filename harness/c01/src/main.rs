//! C01/C02 harness: the real tiny-std `Mutex` / `RwLock` (sync.rs, sync/mutex.rs, sync/rwlock.rs copied
//! verbatim from /repo by build.rs, atomics and futex calls routed through `shim`) executed under a
//! deterministic scheduler.  One stdin line = one schedule exploration; one stdout line = verdicts + trace.
#![allow(dead_code, unused_imports, clippy::all)]
mod shim;
#[path = "gen/sync.rs"]
mod sync;

use shim::{Status, SCHED, TID};
use std::io::{BufRead, Write};
use std::sync::atomic::{AtomicBool, AtomicUsize, Ordering as O};
use std::sync::{Arc, Mutex as StdMutex};

struct Rng(u64);
impl Rng {
    fn next(&mut self) -> u64 {
        self.0 = self.0.wrapping_add(0x9E3779B97F4A7C15);
        let mut z = self.0;
        z = (z ^ (z >> 30)).wrapping_mul(0xBF58476D1CE4E5B9);
        z = (z ^ (z >> 27)).wrapping_mul(0x94D049BB133111EB);
        z ^ (z >> 31)
    }
    fn below(&mut self, n: u64) -> u64 { if n == 0 { 0 } else { self.next() % n } }
}

#[derive(Clone, Copy, PartialEq, Debug)]
enum Kind { Lock, Try, Read, Write, TryRead, TryWrite, Dbg }

#[derive(Default)]
struct Book {
    strict: Vec<(usize, bool)>, // (tid, exclusive) between acq and rel-start
    loose: Vec<(usize, bool)>,  // between call start and rel-end
    loose_events: u64,
    violations: Vec<String>,
}

static BOOK: StdMutex<Option<Book>> = StdMutex::new(None);
static WRITES: AtomicUsize = AtomicUsize::new(0);

fn book<R>(f: impl FnOnce(&mut Book) -> R) -> R {
    let mut g = BOOK.lock().unwrap();
    f(g.as_mut().unwrap())
}

fn parse_prog(s: &str) -> Vec<(Kind, usize)> {
    s.split_whitespace()
        .map(|w| {
            let (k, n) = if let Some(r) = w.strip_prefix("tr") { (Kind::TryRead, r) }
                else if let Some(r) = w.strip_prefix("tw") { (Kind::TryWrite, r) }
                else if let Some(r) = w.strip_prefix('l') { (Kind::Lock, r) }
                else if let Some(r) = w.strip_prefix('d') { (Kind::Dbg, r) }
                else if let Some(r) = w.strip_prefix('t') { (Kind::Try, r) }
                else if let Some(r) = w.strip_prefix('r') { (Kind::Read, r) }
                else if let Some(r) = w.strip_prefix('w') { (Kind::Write, r) }
                else { panic!("bad prog token {}", w) };
            (k, n.parse().unwrap())
        })
        .collect()
}

fn excl(k: Kind) -> bool { !matches!(k, Kind::Read | Kind::TryRead) }
fn is_try(k: Kind) -> bool { matches!(k, Kind::Try | Kind::TryRead | Kind::TryWrite) }

fn txn_begin(me: usize, k: Kind) -> (bool, u64) {
    shim::note(match k { Kind::Lock => "call-lock", Kind::Try => "call-try", Kind::Read => "call-read", Kind::Write => "call-write", Kind::TryRead => "call-tryread", Kind::TryWrite => "call-trywrite", Kind::Dbg => "call-try" });
    book(|b| {
        // would this request be admissible right now, judged by the loose (over-approximated) holders?
        let conflict = b.loose.iter().any(|(t, e)| *t != me && (*e || excl(k)));
        b.loose.push((me, excl(k)));
        b.loose_events += 1;
        (conflict, b.loose_events)
    })
}

fn txn_acquired(me: usize, k: Kind) {
    shim::note("acq");
    book(|b| {
        if b.strict.iter().any(|(t, e)| *t != me && (*e || excl(k))) {
            b.violations.push(format!("exclusion: t{} obtained a {:?} guard while {:?} held", me, k, b.strict));
        }
        b.strict.push((me, excl(k)));
    });
}

fn txn_try_failed(me: usize, k: Kind, snap: (bool, u64)) {
    shim::note("tryfail");
    book(|b| {
        let changed = b.loose_events != snap.1;
        if !snap.0 && !changed {
            b.violations.push(format!("try: t{} {:?} failed although no conflicting guard existed or was requested at any instant of the call", me, k));
        }
        if let Some(p) = b.loose.iter().position(|(t, _)| *t == me) { b.loose.remove(p); }
        b.loose_events += 1;
    });
}

fn txn_release_start(me: usize) {
    shim::note("rel");
    book(|b| { if let Some(p) = b.strict.iter().position(|(t, _)| *t == me) { b.strict.remove(p); } });
}

fn txn_release_end(me: usize) {
    book(|b| {
        if let Some(p) = b.loose.iter().position(|(t, _)| *t == me) { b.loose.remove(p); }
        b.loose_events += 1;
    });
}

thread_local! { static DBG_TOOK: std::cell::Cell<bool> = std::cell::Cell::new(false); }

/// runs right after the successful CAS inside `impl Debug for Mutex` (no other thread has moved in between)
fn dbg_guard_taken() {
    let me = shim::tid().unwrap();
    DBG_TOOK.with(|d| d.set(true));
    txn_acquired(me, Kind::Try);
    txn_release_start(me);
}

/// `{:?}` of the mutex itself: the library takes (try_lock) and drops a guard of its own = a `t0` transaction
fn run_debug_format(me: usize, m: &sync::Mutex<u64>) {
    let snap = txn_begin(me, Kind::Try);
    DBG_TOOK.with(|d| d.set(false));
    shim::ON_CAS_OK.with(|c| c.set(Some(dbg_guard_taken)));
    let text = format!("{:?}", m);
    shim::ON_CAS_OK.with(|c| c.set(None));
    let took = DBG_TOOK.with(|d| d.get());
    if took == text.contains("<locked>") {
        book(|b| b.violations.push(format!("debug-format: t{} formatted {:?} although its try_lock {}", me, text, if took { "succeeded" } else { "failed" })));
    }
    if took { txn_release_end(me) } else { txn_try_failed(me, Kind::Try, snap) }
}

fn run_mutex_thread(me: usize, m: Arc<sync::Mutex<u64>>, prog: Vec<(Kind, usize)>) {
    for (k, acc) in prog {
        if k == Kind::Dbg {
            run_debug_format(me, &m);
            continue;
        }
        let snap = txn_begin(me, k);
        let g = match k {
            Kind::Lock => Some(m.lock()),
            Kind::Try => m.try_lock(),
            _ => panic!("mutex program uses l/t only"),
        };
        match g {
            Some(mut g) => {
                txn_acquired(me, k);
                for _ in 0..acc {
                    shim::data_access("w");
                    *g += 1;
                    WRITES.fetch_add(1, O::SeqCst);
                }
                txn_release_start(me);
                drop(g);
                txn_release_end(me);
            }
            None => txn_try_failed(me, k, snap),
        }
    }
}

fn run_rw_thread(me: usize, m: Arc<sync::RwLock<u64>>, prog: Vec<(Kind, usize)>) {
    for (k, acc) in prog {
        let snap = txn_begin(me, k);
        match k {
            Kind::Read | Kind::TryRead => {
                let g = if k == Kind::Read { Some(m.read()) } else { m.try_read() };
                match g {
                    Some(g) => {
                        txn_acquired(me, k);
                        for _ in 0..acc { shim::data_access("r"); let _ = *g; }
                        txn_release_start(me);
                        drop(g);
                        txn_release_end(me);
                    }
                    None => txn_try_failed(me, k, snap),
                }
            }
            Kind::Write | Kind::TryWrite => {
                let g = if k == Kind::Write { Some(m.write()) } else { m.try_write() };
                match g {
                    Some(mut g) => {
                        txn_acquired(me, k);
                        for _ in 0..acc { shim::data_access("w"); *g += 1; WRITES.fetch_add(1, O::SeqCst); }
                        txn_release_start(me);
                        drop(g);
                        txn_release_end(me);
                    }
                    None => txn_try_failed(me, k, snap),
                }
            }
            _ => panic!("rwlock program uses r/w/tr/tw only"),
        }
    }
}

/// explore one schedule
fn explore(which: &str, seed: u64, max_steps: usize, stick: u64, spur: u64, weak: u64, slow: u64, progs: Vec<Vec<(Kind, usize)>>) -> String {
    let n = progs.len();
    {
        let mut g = SCHED.inner.lock().unwrap();
        g.status = vec![Status::Running; n];
        g.grant = None;
        g.wake_ret = vec![None; n];
        g.trace.clear();
        g.free_run = false;
        g.locs.clear();
        g.wake_choice = None;
    }
    *BOOK.lock().unwrap() = Some(Book::default());
    let mutex = Arc::new(sync::Mutex::new(0u64));
    let rw = Arc::new(sync::RwLock::new(0u64));
    WRITES.store(0, O::SeqCst);
    let mut handles = Vec::new();
    for (i, p) in progs.into_iter().enumerate() {
        let (m, r, wh) = (mutex.clone(), rw.clone(), which.to_string());
        handles.push(std::thread::spawn(move || {
            TID.with(|t| t.set(Some(i)));
            let res = std::panic::catch_unwind(std::panic::AssertUnwindSafe(|| {
                if wh == "mutex" { run_mutex_thread(i, m, p) } else { run_rw_thread(i, r, p) }
            }));
            if let Err(e) = res {
                let msg = e.downcast_ref::<String>().cloned().or_else(|| e.downcast_ref::<&str>().map(|s| s.to_string())).unwrap_or_default();
                book(|b| b.violations.push(format!("panic: t{} panicked: {}", i, msg)));
            }
            shim::thread_done();
        }));
    }
    let mut rng = Rng(seed);
    let mut steps = 0usize;
    let mut last: Option<usize> = None;
    let mut verdict = "complete";
    loop {
        let mut g = SCHED.inner.lock().unwrap();
        let tw = std::time::Instant::now();
        while g.status.iter().any(|s| matches!(s, Status::Running | Status::NotStarted)) {
            let (g2, _) = SCHED.cv.wait_timeout(g, std::time::Duration::from_millis(500)).unwrap();
            g = g2;
            if tw.elapsed().as_secs() >= 20 {
                // a thread runs without ever reaching a yield point (or died): the harness cannot continue
                let tail: Vec<String> = g.trace.iter().rev().take(400).rev().cloned().collect();
                println!("stuck steps={} viol=thread-never-yields:{:?} :: {}", steps, g.status, tail.join(" ; "));
                use std::io::Write as _;
                std::io::stdout().flush().unwrap();
                std::process::exit(4);
            }
        }
        if g.status.iter().all(|s| *s == Status::Done) {
            break;
        }
        let enabled: Vec<usize> = (0..n).filter(|i| matches!(g.status[*i], Status::AtYield(_))).collect();
        let parked: Vec<usize> = (0..n).filter(|i| matches!(g.status[*i], Status::Parked(_))).collect();
        steps += 1;
        if steps > max_steps {
            verdict = "truncated";
            g.free_run = true;
            SCHED.cv.notify_all();
            break;
        }
        if enabled.is_empty() {
            verdict = "deadlock";
            let who: Vec<String> = parked.iter().map(|x| x.to_string()).collect();
            g.trace.push(format!("- deadlock {} - -", who.join(",")));
            g.free_run = true;
            SCHED.cv.notify_all();
            break;
        }
        if !parked.is_empty() && rng.below(100) < spur {
            let t = parked[rng.below(parked.len() as u64) as usize];
            let eintr = rng.below(2) == 0;
            g.wake_ret[t] = Some(if eintr { 4 } else { 0 });
            g.status[t] = Status::Running;
            g.trace.push(format!("{} spur - - {}", t, if eintr { "eintr" } else { "ok" }));
            SCHED.cv.notify_all();
            continue;
        }
        let t = match last {
            Some(l) if enabled.contains(&l) && rng.below(100) < stick => l,
            _ => {
                // weighted choice: threads in the `slow` mask run 60x less often *while they hold a guard* (lets contenders spin out and park)
                let holding: Vec<usize> = BOOK.lock().unwrap().as_ref().unwrap().strict.iter().map(|x| x.0).collect();
                let w: Vec<u64> = enabled.iter().map(|t| if slow >> t & 1 == 1 && holding.contains(t) { 1 } else { 60 }).collect();
                let mut r = rng.below(w.iter().sum());
                let mut pick = enabled[0];
                for (i, t) in enabled.iter().enumerate() {
                    if r < w[i] { pick = *t; break; }
                    r -= w[i];
                }
                pick
            }
        };
        last = Some(t);
        if let Status::AtYield(d) = &g.status[t] {
            if d == "fwake" {
                g.wake_choice = Some(rng.below(8) as usize);
            } else if d == "casw" {
                g.wake_choice = if rng.below(100) < weak { Some(usize::MAX) } else { None };
            } else {
                g.wake_choice = None;
            }
        }
        g.status[t] = Status::Running;
        g.grant = Some(t);
        SCHED.cv.notify_all();
    }
    // After the controller stops (normal completion, truncation or deadlock) the threads run freely; the
    // lock then degenerates to a spin lock and every thread must still finish.  A thread that does not is
    // stuck in lock()/unlock() although every holder released: reported as `livelock`, and the process
    // ends (the stuck OS threads cannot be cancelled).
    let t0 = std::time::Instant::now();
    let mut stuck = false;
    loop {
        if handles.iter().all(|h| h.is_finished()) {
            break;
        }
        if t0.elapsed().as_secs() >= 20 {
            stuck = true;
            break;
        }
        std::thread::sleep(std::time::Duration::from_micros(200));
    }
    if stuck {
        let g = SCHED.inner.lock().unwrap();
        let tail: Vec<String> = g.trace.iter().rev().take(400).rev().cloned().collect();
        println!("livelock steps={} viol=- :: {}", steps, tail.join(" ; "));
        use std::io::Write as _;
        std::io::stdout().flush().unwrap();
        std::process::exit(3);
    }
    for h in handles {
        let _ = h.join();
    }
    let g = SCHED.inner.lock().unwrap();
    let b = BOOK.lock().unwrap();
    let viol = &b.as_ref().unwrap().violations;
    // every thread is done, so the lock is free: one more acquisition must succeed.  It runs on a helper thread under a
    // watchdog — a lock word left with stale waiter bits (a lost hand-off) makes this acquisition spin for ever, which
    // is the same `livelock` verdict as a program thread that never returns.
    let final_val = {
        let (m2, r2, is_mutex) = (mutex.clone(), rw.clone(), which == "mutex");
        let probe = std::thread::spawn(move || if is_mutex { *m2.lock() } else { *r2.read() });
        let t0 = std::time::Instant::now();
        while !probe.is_finished() && t0.elapsed().as_secs() < 20 {
            std::thread::sleep(std::time::Duration::from_micros(200));
        }
        if !probe.is_finished() {
            let tail: Vec<String> = g.trace.iter().rev().take(400).rev().cloned().collect();
            println!("livelock steps={} viol=final-acquisition-never-returns :: {}", steps, tail.join(" ; "));
            use std::io::Write as _;
            std::io::stdout().flush().unwrap();
            std::process::exit(3);
        }
        probe.join().unwrap()
    };
    let lost = if final_val as usize != WRITES.load(O::SeqCst) { format!(" lost-update:{}!={}", final_val, WRITES.load(O::SeqCst)) } else { String::new() };
    format!("{} steps={} viol={}{} :: {}", verdict, steps, if viol.is_empty() { "-".to_string() } else { viol.join("|").replace(' ', "_") }, lost, g.trace.join(" ; "))
}

/// `futexops <flags.0 as futex_wait_fast passed it>`: calls the real `rusl::futex::futex_wait` / `futex_wake`
/// with a scripted kernel (nothing is executed) and reports the operation word (2nd syscall argument) of each:
/// bit 7 (FUTEX_PRIVATE_FLAG) is the futex key kind, which must agree between waiters and wakers.
fn futex_ops(flags_word: u32) -> String {
    use ::rusl::platform::FutexFlags;
    let word = core::sync::atomic::AtomicU32::new(0);
    let flags = if flags_word == 0 { FutexFlags::empty() } else { FutexFlags::PRIVATE };
    if flags.bits().into_u32() != flags_word {
        return format!("futexops unknown-flags {} (rusl PRIVATE = {})", flags_word, FutexFlags::PRIVATE.bits().into_u32());
    }
    let r = std::panic::catch_unwind(|| {
        sc::shim::reset();
        sc::shim::script(vec![sc::shim::neg_errno(11)], 0);
        sc::shim::start_log();
        let _ = ::rusl::futex::futex_wait(&word, 1, flags, None);
        let _ = ::rusl::futex::futex_wake(&word, 1);
        let log = sc::shim::take_log();
        sc::shim::reset();
        log
    });
    match r {
        Ok(log) if log.len() == 2 && log.iter().all(|c| sc::shim::name(c.nr) == "futex") =>
            format!("futexops wait={} wake={} waitval={} wakenum={}", log[0].args[1], log[1].args[1], log[0].args[2], log[1].args[2]),
        Ok(log) => format!("futexops unexpected-syscalls {:?}", log.iter().map(|c| sc::shim::name(c.nr)).collect::<Vec<_>>()),
        Err(_) => { sc::shim::reset(); "futexops panicked".to_string() }
    }
}

fn main() {
    std::panic::set_hook(Box::new(|_| {}));
    let stdin = std::io::stdin();
    let stdout = std::io::stdout();
    let mut out = std::io::BufWriter::new(stdout.lock());
    for line in stdin.lock().lines() {
        let line = line.unwrap();
        if let Some(rest) = line.strip_prefix("futexops") {
            writeln!(out, "{}", futex_ops(rest.trim().parse().unwrap_or(u32::MAX))).unwrap();
            out.flush().unwrap();
            continue;
        }
        // <mutex|rw> <seed> <max_steps> <stick%> <spur%> <weakfail%> <slowmask> : prog0 | prog1 | ...
        let (head, progs) = match line.split_once(':') { Some(x) => x, None => { writeln!(out, "bad-op").unwrap(); continue; } };
        let h: Vec<&str> = head.split_whitespace().collect();
        if h.len() != 7 { writeln!(out, "bad-op").unwrap(); continue; }
        let progs: Vec<Vec<(Kind, usize)>> = progs.split('|').map(parse_prog).collect();
        let r = explore(h[0], h[1].parse().unwrap(), h[2].parse().unwrap(), h[3].parse().unwrap(), h[4].parse().unwrap(), h[5].parse().unwrap(), h[6].parse().unwrap(), progs);
        writeln!(out, "{}", r).unwrap();
        out.flush().unwrap();
    }
}
