//! Copies the real sync.rs / sync/mutex.rs / sync/rwlock.rs from /repo into OUT_DIR with exactly
//! three textual path substitutions so that they compile over the scheduler shim:
//!   core::sync::atomic::  -> crate::shim::atomic::
//!   rusl::                -> crate::shim::rusl::
//!   crate::sync::         -> crate::sync::          (unchanged; the module is mounted at crate::sync)
use std::fs;
use std::path::Path;

fn main() {
    let repo = std::env::var("VERIF_REPO").unwrap_or_else(|_| "/repo".to_string());
    let out = format!("{}/src/gen", std::env::var("CARGO_MANIFEST_DIR").unwrap());
    fs::create_dir_all(&out).unwrap();
    // sync.rs and EVERY file of sync/ (a lock may keep part of its code in a sibling module, e.g. a raw futex lock
    // split out of mutex.rs): `#[path = "gen/sync.rs"] mod sync;` resolves `mod x;` to gen/x.rs
    let mut files: Vec<(String, String)> = vec![("tiny-std/src/sync.rs".to_string(), "sync.rs".to_string())];
    let dir = Path::new(&repo).join("tiny-std/src/sync");
    println!("cargo:rerun-if-changed={}", dir.display());
    let mut names: Vec<String> = fs::read_dir(&dir)
        .expect("read sync dir")
        .filter_map(|e| e.ok())
        .map(|e| e.file_name().to_string_lossy().into_owned())
        .filter(|n| n.ends_with(".rs"))
        .collect();
    names.sort();
    for stale in fs::read_dir(&out).unwrap().filter_map(|e| e.ok()) {
        let n = stale.file_name().to_string_lossy().into_owned();
        if n != "sync.rs" && !names.contains(&n) {
            let _ = fs::remove_file(stale.path());
        }
    }
    for n in names {
        files.push((format!("tiny-std/src/sync/{n}"), n));
    }
    for (src, dst) in files.iter() {
        let p = Path::new(&repo).join(src);
        println!("cargo:rerun-if-changed={}", p.display());
        let s = fs::read_to_string(&p).expect("read source");
        let s = s
            .replace("core::sync::atomic::", "crate::shim::atomic::")
            .replace("rusl::", "crate::shim::rusl::");
        let d = Path::new(&out).join(dst);
        if fs::read_to_string(&d).ok().as_deref() != Some(s.as_str()) {
            fs::write(d, s).unwrap();
        }
    }
    println!("cargo:rerun-if-env-changed=VERIF_REPO");
}
