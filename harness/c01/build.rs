//! Copies the real sync.rs / sync/mutex.rs / sync/rwlock.rs from /repo into OUT_DIR with exactly
//! three textual path substitutions so that they compile over the scheduler shim:
//!   core::sync::atomic::  -> crate::shim::atomic::
//!   rusl::                -> crate::shim::rusl::
//!   crate::sync::         -> crate::sync::          (unchanged; the module is mounted at crate::sync)
use std::fs;
use std::path::Path;

fn main() {
    let repo = std::env::var("VERIF_REPO").unwrap_or_else(|_| "/repo".to_string());
    let out = format!("{}/src/gen", std::env::var("CARGO_MANIFEST_DIR").unwrap());
    fs::create_dir_all(&out).unwrap();
    let files = [
        ("tiny-std/src/sync.rs", "sync.rs"),
        ("tiny-std/src/sync/mutex.rs", "mutex.rs"),
        ("tiny-std/src/sync/rwlock.rs", "rwlock.rs"),
    ];
    for (src, dst) in files {
        let p = Path::new(&repo).join(src);
        println!("cargo:rerun-if-changed={}", p.display());
        let s = fs::read_to_string(&p).expect("read source");
        let s = s
            .replace("core::sync::atomic::", "crate::shim::atomic::")
            .replace("rusl::", "crate::shim::rusl::");
        let d = Path::new(&out).join(dst);
        if fs::read_to_string(&d).ok().as_deref() != Some(s.as_str()) {
            fs::write(d, s).unwrap();
        }
    }
    println!("cargo:rerun-if-env-changed=VERIF_REPO");
}
