//! C13 correspondence harness.  `c13` reads `<config> <faults>` lines; each runs as `c13 --case ..` in a fresh
//! process: the REAL `Command` builder + `spawn` under the casekit handler (faults on the caller side `k:eN`,
//! in the forked child `ck:eN`).  The exec target is this binary in `--dump <file>` mode: it writes its argv,
//! environment, cwd and open descriptors to <file>.
//!
//! config = comma separated: a<n> (extra args), e<n> (env entries), cwd, uid, gid, pg, cl<n> (closures that succeed),
//!          clf<errno> (then one closure failing with that errno), clu (one closure failing without errno),
//!          io=<3 of i n p r>, nobin (the program does not exist), twice (builder ops applied in two batches via args/envs)
//! output: res=<ok|err:N|err:nocode> returned=<0|1> ctrace=<..> status=<n|-> status2=<n|-> waits=<n> img=<ok|none|bad:..> stray=<none|zombie|running>
//!         handed=<n> leaked=<n> ptrace=<..>
#![allow(clippy::all)]
#[path = "../../c12/src/casekit.rs"]
mod casekit;
use casekit as kit;
use tiny_std::process::{Command, Stdio};
use tiny_std::unix::fd::AsRawFd;
use tiny_std::UnixString;

fn us(s: &str) -> UnixString {
    UnixString::try_from_str(s).unwrap()
}

fn nonul(u: &UnixString) -> Vec<u8> {
    let s = u.as_slice();
    s[..s.len() - 1].to_vec()
}

fn hex(b: &[u8]) -> String {
    if b.is_empty() {
        "-".into()
    } else {
        b.iter().map(|x| format!("{:02x}", x)).collect()
    }
}

fn dump_main(path: &str) {
    use std::os::unix::ffi::OsStrExt;
    let mut s = String::new();
    for a in std::env::args_os() {
        s += &format!("arg {}\n", hex(a.as_bytes()));
    }
    for (k, v) in std::env::vars_os() {
        let mut kv = k.as_bytes().to_vec();
        kv.push(b'=');
        kv.extend_from_slice(v.as_bytes());
        s += &format!("env {}\n", hex(&kv));
    }
    s += &format!("cwd {}\n", std::env::current_dir().map(|p| p.display().to_string()).unwrap_or_default());
    for fd in kit::open_fds() {
        let t = std::fs::read_link(format!("/proc/self/fd/{}", fd)).map(|p| p.display().to_string()).unwrap_or_default();
        // the descriptor used to read /proc is not ours to report
        s += &format!("fd {} {}\n", fd, t.replace(' ', "_"));
    }
    s += &format!("pgid {} {}\n", unsafe { kit::raw(sc::nr::GETPGID, [0; 6]) }, kit::raw_getpid());
    let _ = std::fs::write(path, s);
}

struct Cfg {
    nargs: usize,
    nenv: usize,
    cwd: bool,
    uid: bool,
    gid: bool,
    pg: bool,
    closures: usize,
    clf: Option<i32>,
    clu: bool,
    io: [char; 3],
    nobin: bool,
    twice: bool,
}

fn parse_cfg(s: &str) -> Option<Cfg> {
    let mut c = Cfg { nargs: 0, nenv: 0, cwd: false, uid: false, gid: false, pg: false, closures: 0, clf: None, clu: false, io: ['i', 'i', 'i'], nobin: false, twice: false };
    for t in s.split(',') {
        if t == "-" || t.is_empty() {
            continue;
        } else if t == "cwd" {
            c.cwd = true;
        } else if t == "uid" {
            c.uid = true;
        } else if t == "gid" {
            c.gid = true;
        } else if t == "pg" {
            c.pg = true;
        } else if t == "clu" {
            c.clu = true;
        } else if t == "nobin" {
            c.nobin = true;
        } else if t == "twice" {
            c.twice = true;
        } else if let Some(r) = t.strip_prefix("clf") {
            c.clf = Some(r.parse().ok()?);
        } else if let Some(r) = t.strip_prefix("cl") {
            c.closures = r.parse().ok()?;
        } else if let Some(r) = t.strip_prefix("io=") {
            let v: Vec<char> = r.chars().collect();
            if v.len() != 3 || v.iter().any(|x| !"inproe".contains(*x)) {
                return None;
            }
            c.io = [v[0], v[1], v[2]];
        } else if let Some(r) = t.strip_prefix('a') {
            c.nargs = r.parse().ok()?;
        } else if let Some(r) = t.strip_prefix('e') {
            c.nenv = r.parse().ok()?;
        } else {
            return None;
        }
    }
    Some(c)
}

fn case_main(cfgs: &str, faults: &str) {
    let (cfg, faults) = match (parse_cfg(cfgs), kit::parse_faults(faults)) {
        (Some(c), Some(f)) => (c, f),
        _ => {
            println!("bad-op");
            return;
        }
    };
    std::panic::set_hook(Box::new(|_| {}));
    let tmp = format!("{}/c13-{}", std::env::temp_dir().display(), std::process::id());
    let _ = std::fs::remove_dir_all(&tmp);
    std::fs::create_dir_all(format!("{}/wd", tmp)).unwrap();
    let dumpf = format!("{}/dump", tmp);
    let me = std::env::current_exe().unwrap().display().to_string();
    let bin = us(&if cfg.nobin { format!("{}/no-such-program", tmp) } else { me });
    let fixed_args = [us("--dump"), us(&dumpf)];
    let extra: Vec<UnixString> = (0..cfg.nargs).map(|i| us(&format!("arg-{}-{}", i, "x".repeat(i % 4)))).collect();
    let envs: Vec<UnixString> = (0..cfg.nenv).map(|i| us(&format!("VAR{}=value {}", i, i))).collect();
    let wd = us(&format!("{}/wd", tmp));
    let rawfile = std::fs::File::create(format!("{}/raw", tmp)).unwrap();
    let rawfd = std::os::unix::io::IntoRawFd::into_raw_fd(rawfile);
    let uses_raw = cfg.io.contains(&'r');
    if !uses_raw {
        kit::raw_close(rawfd);
    }
    // ---- the builder (real code) ----
    let mut cmd = Command::new(&bin).unwrap();
    cmd.arg(&fixed_args[0]).arg(&fixed_args[1]);
    if cfg.twice {
        let h = extra.len() / 2;
        cmd.args(extra[..h].iter().map(|x| &**x));
        cmd.envs(envs.iter().take(envs.len() / 2).cloned());
        cmd.args(extra[h..].iter().map(|x| &**x));
        cmd.envs(envs.iter().skip(envs.len() / 2).cloned());
    } else {
        for a in &extra {
            cmd.arg(a);
        }
        for e in &envs {
            cmd.env(e.clone());
        }
    }
    if cfg.cwd {
        cmd.cwd(&wd);
    }
    let my_uid = unsafe { kit::raw(sc::nr::GETUID, [0; 6]) } as u32;
    let my_gid = unsafe { kit::raw(sc::nr::GETGID, [0; 6]) } as u32;
    if cfg.uid {
        cmd.uid(my_uid);
    }
    if cfg.gid {
        cmd.gid(my_gid);
    }
    if cfg.pg {
        cmd.pgroup(0);
    }
    for _ in 0..cfg.closures {
        unsafe { cmd.pre_exec(|| Ok(())) };
    }
    if let Some(e) = cfg.clf {
        unsafe { cmd.pre_exec(move || Err(tiny_std::Error::Os { msg: "closure", code: tiny_std::Errno::new(e) })) };
    }
    if cfg.clu {
        unsafe { cmd.pre_exec(|| Err(tiny_std::Error::Uncategorized("closure"))) };
    }
    // 'o' / 'e': wire the stream to the CALLER's own stdout / stderr (`2>&1`-style cross-wiring).  spawn takes the
    // descriptor it is given, so the two are saved first and put back before this process prints its verdict.
    let cross = cfg.io.contains(&'o') || cfg.io.contains(&'e');
    let (save1, save2) = if cross {
        unsafe { (kit::raw(sc::nr::DUP, [1, 0, 0, 0, 0, 0]) as i32, kit::raw(sc::nr::DUP, [2, 0, 0, 0, 0, 0]) as i32) }
    } else {
        (-1, -1)
    };
    let st = |c: char| match c {
        'n' => Some(Stdio::Null),
        'p' => Some(Stdio::MakePipe),
        'r' => Some(Stdio::RawFd(rusl::platform::Fd::try_new(rawfd).unwrap())),
        'o' => Some(Stdio::RawFd(rusl::platform::Fd::try_new(1).unwrap())),
        'e' => Some(Stdio::RawFd(rusl::platform::Fd::try_new(2).unwrap())),
        _ => None,
    };
    if let Some(s) = st(cfg.io[0]) {
        cmd.stdin(s);
    }
    if let Some(s) = st(cfg.io[1]) {
        cmd.stdout(s);
    }
    if let Some(s) = st(cfg.io[2]) {
        cmd.stderr(s);
    }
    let my_fd = |i: usize| std::fs::read_link(format!("/proc/self/fd/{}", i)).map(|p| p.display().to_string().replace(' ', "_")).unwrap_or_default();
    let inherit = [my_fd(0), my_fd(1), my_fd(2)];
    // descriptors of this process without FD_CLOEXEC: the image inherits them whatever spawn does
    let inheritable: Vec<usize> = kit::open_fds()
        .into_iter()
        .map(|f| f as usize)
        .filter(|f| unsafe { kit::raw(sc::nr::FCNTL, [*f, 1, 0, 0, 0, 0]) } & 1 == 0)
        .collect();
    // ---- spawn (real code), measured ----
    let (cr, cw) = kit::raw_pipe_cloexec();
    let before = kit::open_fds();
    kit::begin(faults, cw);
    let res = cmd.spawn();
    if !kit::in_case_process() {
        kit::raw_write(cw, "returned:x\n");
        kit::raw_exit(0);
    }
    let log = kit::end();
    kit::raw_close(cw);
    let ptrace: Vec<String> = log.iter().map(kit::res_str).collect();
    let after = kit::open_fds();
    let mut handed = vec![];
    let res_s = match &res {
        Ok(c) => {
            for p in [&c.stdin, &c.stdout, &c.stderr] {
                if let Some(p) = p {
                    handed.push(p.borrow_fd().as_raw_fd().value());
                }
            }
            "ok".to_string()
        }
        Err(tiny_std::Error::Os { code, .. }) => format!("err:{}", code.raw()),
        Err(_) => "err:nocode".to_string(),
    };
    let leaked = after.iter().filter(|x| !before.contains(x) && !handed.contains(x)).count();
    // ---- what became of the child ----
    let (mut status, mut status2, mut waits) = ("-".to_string(), "-".to_string(), 0);
    let mut stray = "none";
    let mut pre = "-";
    match res {
        Ok(mut child) => {
            kit::begin(vec![], -1);
            // a poll right after spawn (the child is normally still running) must not disturb a later wait
            let p0 = child.try_wait();
            let a = child.wait();
            let b = child.wait();
            let c = child.try_wait();
            let l = kit::end();
            waits = l.iter().filter(|r| r.nr == sc::nr::WAIT4).count();
            pre = match p0 { Ok(None) => "running", Ok(Some(_)) => "exited", Err(_) => "err" };
            status = a.map(|x| x.to_string()).unwrap_or("err".into());
            status2 = match (b, c) {
                (Ok(x), Ok(Some(y))) if x == y => x.to_string(),
                _ => "differs".into(),
            };
            // after a successful wait nothing of the child may be left (ECHILD)
            let (pid, errno, _) = kit::raw_wait_any_nohang();
            stray = if errno != 0 { "none" } else if pid != 0 { "zombie" } else { "running" };
        }
        Err(_) => {
            // give a stray child a moment to show itself, then look: ECHILD = nothing left (reaped or never forked)
            let mut seen = "none";
            for _ in 0..50 {
                let (pid, errno, _) = kit::raw_wait_any_nohang();
                if errno != 0 {
                    break;
                }
                if pid != 0 {
                    seen = "zombie";
                    break;
                }
                seen = "running";
                std::thread::sleep(std::time::Duration::from_millis(2));
            }
            stray = seen;
        }
    }
    let ctrace = kit::raw_read_all(cr);
    let ctrace: Vec<&str> = ctrace.lines().collect();
    let returned = ctrace.iter().any(|l| l.starts_with("returned")) as u8;
    // ---- the image ----
    let mut seen = "-".to_string();
    let img = match std::fs::read_to_string(&dumpf) {
        Err(_) => "none".to_string(),
        Ok(d) => {
            let mut want_args = vec![hex(&nonul(&bin)), hex(b"--dump"), hex(dumpf.as_bytes())];
            for a in &extra {
                want_args.push(hex(&nonul(a)));
            }
            let mut want_env: Vec<String> = envs.iter().map(|e| hex(&nonul(e))).collect();
            want_env.sort();
            let got_args: Vec<String> = d.lines().filter_map(|l| l.strip_prefix("arg ")).map(|s| s.to_string()).collect();
            let mut got_env: Vec<String> = d.lines().filter_map(|l| l.strip_prefix("env ")).map(|s| s.to_string()).collect();
            got_env.sort();
            // what the program saw, as indices into what was configured (order kept): argv / envp
            let ids = |got: &Vec<String>, want: &Vec<String>| -> String {
                if got.is_empty() {
                    return ".".into();
                }
                got.iter().map(|g| want.iter().position(|w| w == g).map(|i| i.to_string()).unwrap_or("?".into())).collect::<Vec<_>>().join(".")
            };
            let env_in_order: Vec<String> = d.lines().filter_map(|l| l.strip_prefix("env ")).map(|s| s.to_string()).collect();
            let want_env_in_order: Vec<String> = envs.iter().map(|e| hex(&nonul(e))).collect();
            seen = format!("{}/{}", ids(&got_args, &want_args), ids(&env_in_order, &want_env_in_order));
            let cwd = d.lines().find_map(|l| l.strip_prefix("cwd ")).unwrap_or("").to_string();
            let want_cwd = if cfg.cwd { format!("{}/wd", tmp) } else { std::env::current_dir().unwrap().display().to_string() };
            let fds: Vec<(usize, String)> = d
                .lines()
                .filter_map(|l| l.strip_prefix("fd "))
                .filter_map(|l| l.split_once(' ').map(|(a, b)| (a.parse().unwrap_or(999), b.to_string())))
                .collect();
            let mut bad = vec![];
            if got_args != want_args {
                bad.push("argv");
            }
            if got_env != want_env {
                bad.push("env");
            }
            if std::fs::canonicalize(&cwd).ok() != std::fs::canonicalize(&want_cwd).ok() {
                bad.push("cwd");
            }
            if fds.iter().any(|(n, t)| *n > 2 && !inheritable.contains(n) && !(uses_raw && t.ends_with("/raw"))) {
                bad.push("extra-fd");
            }
            for i in 0..3 {
                let t = fds.iter().find(|(n, _)| *n == i).map(|x| x.1.clone()).unwrap_or_default();
                let okk = match cfg.io[i] {
                    'n' => t == "/dev/null",
                    'p' => t.starts_with("pipe:"),
                    'r' => t.ends_with("/raw"),
                    'o' => t == inherit[1],
                    'e' => t == inherit[2],
                    _ => t == inherit[i],
                };
                if !okk {
                    bad.push("stdio");
                }
            }
            if cfg.pg {
                let pg: Vec<&str> = d.lines().find_map(|l| l.strip_prefix("pgid ")).unwrap_or("0 1").split(' ').collect();
                if pg[0] != pg[1] {
                    bad.push("pgroup");
                }
            }
            if bad.is_empty() {
                "ok".to_string()
            } else {
                format!("bad:{}", bad.join("+"))
            }
        }
    };
    if cross {
        unsafe {
            kit::raw(sc::nr::DUP2, [save1 as usize, 1, 0, 0, 0, 0]);
            kit::raw(sc::nr::DUP2, [save2 as usize, 2, 0, 0, 0, 0]);
        }
        kit::raw_close(save1);
        kit::raw_close(save2);
    }
    println!(
        "res={} returned={} ctrace={} status={} status2={} waits={} pre={} img={} seen={} stray={} handed={} leaked={} ptrace={}",
        res_s,
        returned,
        if ctrace.is_empty() { "-".to_string() } else { ctrace.join(",") },
        status,
        status2,
        waits,
        pre,
        img,
        seen,
        stray,
        handed.len(),
        leaked,
        if ptrace.is_empty() { "-".to_string() } else { ptrace.join(",") }
    );
    let _ = std::fs::remove_dir_all(&tmp);
}

fn main() {
    let args: Vec<String> = std::env::args().collect();
    if args.len() >= 3 && args[1] == "--dump" {
        dump_main(&args[2]);
        return;
    }
    if args.len() == 4 && args[1] == "--case" {
        case_main(&args[2], &args[3]);
        return;
    }
    let jobs = std::env::var("C13_JOBS").ok().and_then(|s| s.parse().ok()).unwrap_or(8);
    kit::dispatch_lines(jobs, 8000);
}
