//! C13 correspondence harness.  `c13` reads `<config> <faults>` lines; each runs as `c13 --case ..` in a fresh
//! process: the REAL `Command` builder + `spawn` under the casekit handler (faults on the caller side `k:eN`,
//! in the forked child `ck:eN`).  The exec target is this binary in `--dump <file>` mode: it writes its argv,
//! environment, cwd and open descriptors to <file>.
//!
//! config = comma separated: a<n> (extra args), e<n> (env entries), cwd, uid, gid, pg, cl<n> (closures that succeed),
//!          clf<errno> (then one closure failing with that errno), clu (one closure failing without errno),
//!          io=<3 of . i I n p r o e> ('.'/'i' setter not called, I explicit Inherit, o/e the caller's own stdout/stderr),
//!          nobin (the program does not exist), twice (builder ops applied in two batches via args/envs)
//!          RESPAWN: `<stage0>/<stage1>/...` — ONE Command; stage k>0 = further builder calls (same tokens) made after
//!          spawn k-1, then spawn k ('-' = spawn again unchanged); `x<n>` in stage 0 = n spawns in all (appends '-' stages);
//!          `fr<i>` in stage 0 = the fault list applies to spawn i (default 0), every other spawn runs fault-free.
//!          Every spawn is measured on its own; the records are joined with ` ;; `.
//! `c13 --ids`: identity-state scenarios, one per line, see ids.rs.
//! `c13 --envseq`: environment-builder call sequences, one per line, see envseq.rs (this build: no `start` feature).
//! output (per spawn): res=<ok|err:N|err:nocode> returned=<0|1> ctrace=<..> status=<n|-> status2=<n|-> waits=<n> img=<ok|none|bad:..>
//!         seen=<argv ids/env ids> sio=<what fd 0,1,2 of the image are> pipes=<which of Child::stdin/stdout/stderr are Some>
//!         cls=<pre-exec closures the child called, by registration index> stray=<none|zombie|running> handed=<n> leaked=<n> ptrace=<..>
#![allow(clippy::all)]
#[path = "../../c12/src/casekit.rs"]
mod casekit;
extern crate alloc;
/// the environment-builder sequences (shared with the no-libc `start` probe harness-nolibc/c13probe)
mod envseq;
/// the caller's identity state x the ids requested (forked helper per scenario)
mod ids;
use casekit as kit;
use tiny_std::process::{Command, Stdio};
use tiny_std::unix::fd::AsRawFd;
use tiny_std::UnixString;

fn us(s: &str) -> UnixString {
    UnixString::try_from_str(s).unwrap()
}

fn nonul(u: &UnixString) -> Vec<u8> {
    let s = u.as_slice();
    s[..s.len() - 1].to_vec()
}

fn hex(b: &[u8]) -> String {
    if b.is_empty() {
        "-".into()
    } else {
        b.iter().map(|x| format!("{:02x}", x)).collect()
    }
}

fn dump_main(path: &str) {
    use std::os::unix::ffi::OsStrExt;
    let mut s = String::new();
    for a in std::env::args_os() {
        s += &format!("arg {}\n", hex(a.as_bytes()));
    }
    for (k, v) in std::env::vars_os() {
        let mut kv = k.as_bytes().to_vec();
        kv.push(b'=');
        kv.extend_from_slice(v.as_bytes());
        s += &format!("env {}\n", hex(&kv));
    }
    s += &format!("cwd {}\n", std::env::current_dir().map(|p| p.display().to_string()).unwrap_or_default());
    for fd in kit::open_fds() {
        let t = std::fs::read_link(format!("/proc/self/fd/{}", fd)).map(|p| p.display().to_string()).unwrap_or_default();
        // the descriptor used to read /proc is not ours to report
        s += &format!("fd {} {}\n", fd, t.replace(' ', "_"));
    }
    s += &format!("pgid {} {}\n", unsafe { kit::raw(sc::nr::GETPGID, [0; 6]) }, kit::raw_getpid());
    let _ = std::fs::write(path, s);
}

/// builder calls of one stage (stage 0: right after `Command::new`; later stages: between two spawns)
#[derive(Clone)]
struct Stage {
    nargs: usize,
    nenv: usize,
    cwd: bool,
    uid: bool,
    gid: bool,
    pg: bool,
    closures: usize,
    clf: Option<i32>,
    clu: bool,
    /// per stream: '.'/'i' = setter not called in this stage, I n p r o e = setter called
    io: [char; 3],
    twice: bool,
}

struct Cfg {
    stages: Vec<Stage>,
    nobin: bool,
    /// the spawn (0-based) the fault list applies to
    fault_round: usize,
}

fn parse_cfg(s: &str) -> Option<Cfg> {
    let mut cfg = Cfg { stages: vec![], nobin: false, fault_round: 0 };
    let mut repeat = 1usize;
    for (si, stage) in s.split('/').enumerate() {
        let mut c = Stage { nargs: 0, nenv: 0, cwd: false, uid: false, gid: false, pg: false, closures: 0, clf: None, clu: false, io: ['.', '.', '.'], twice: false };
        for t in stage.split(',') {
            if t == "-" || t.is_empty() {
                continue;
            } else if t == "cwd" {
                c.cwd = true;
            } else if t == "uid" {
                c.uid = true;
            } else if t == "gid" {
                c.gid = true;
            } else if t == "pg" {
                c.pg = true;
            } else if t == "clu" {
                c.clu = true;
            } else if t == "nobin" && si == 0 {
                cfg.nobin = true;
            } else if t == "twice" {
                c.twice = true;
            } else if let Some(r) = t.strip_prefix("clf") {
                c.clf = Some(r.parse().ok()?);
            } else if let Some(r) = t.strip_prefix("cl") {
                c.closures = r.parse().ok()?;
            } else if let Some(r) = t.strip_prefix("io=") {
                let v: Vec<char> = r.chars().collect();
                if v.len() != 3 || v.iter().any(|x| !".iInproe".contains(*x)) {
                    return None;
                }
                c.io = [v[0], v[1], v[2]];
            } else if let (Some(r), true) = (t.strip_prefix("fr"), si == 0) {
                cfg.fault_round = r.parse().ok()?;
            } else if let (Some(r), true) = (t.strip_prefix('x'), si == 0) {
                repeat = r.parse().ok()?;
                if repeat == 0 || repeat > 8 {
                    return None;
                }
            } else if let Some(r) = t.strip_prefix('a') {
                c.nargs = r.parse().ok()?;
            } else if let Some(r) = t.strip_prefix('e') {
                c.nenv = r.parse().ok()?;
            } else {
                return None;
            }
        }
        cfg.stages.push(c);
    }
    let empty = Stage { nargs: 0, nenv: 0, cwd: false, uid: false, gid: false, pg: false, closures: 0, clf: None, clu: false, io: ['.', '.', '.'], twice: false };
    for _ in 1..repeat {
        cfg.stages.push(empty.clone());
    }
    if cfg.stages.len() > 8 || cfg.fault_round >= cfg.stages.len() {
        return None;
    }
    Some(cfg)
}

/// where the pre-exec closures of the forked child leave their mark (the marker pipe of the current round)
static MARK_FD: std::sync::atomic::AtomicI32 = std::sync::atomic::AtomicI32::new(-1);

fn mark_closure(j: usize) {
    let fd = MARK_FD.load(std::sync::atomic::Ordering::Relaxed);
    if fd >= 0 {
        kit::raw_write(fd, &format!("@cl{}:x\n", j));
    }
}

fn link_of(fd: usize) -> String {
    std::fs::read_link(format!("/proc/self/fd/{}", fd)).map(|p| p.display().to_string().replace(' ', "_")).unwrap_or_default()
}

fn case_main(cfgs: &str, faults: &str) {
    let (cfg, faults) = match (parse_cfg(cfgs), kit::parse_faults(faults)) {
        (Some(c), Some(f)) => (c, f),
        _ => {
            println!("bad-op");
            return;
        }
    };
    std::panic::set_hook(Box::new(|_| {}));
    let tmp = format!("{}/c13-{}", std::env::temp_dir().display(), std::process::id());
    let _ = std::fs::remove_dir_all(&tmp);
    std::fs::create_dir_all(format!("{}/wd", tmp)).unwrap();
    // this process's own standard streams become three distinct files, so that "inherited" can be told from
    // /dev/null and from a pipe in the image (the dispatcher hands us /dev/null, a pipe, /dev/null); the
    // dispatcher's stdout is kept for the verdict
    let dup_cloexec = |fd: usize| unsafe { kit::raw(sc::nr::FCNTL, [fd, 1030, 10, 0, 0, 0]) as i32 };
    let verdict_fd = dup_cloexec(1);
    std::fs::write(format!("{}/std0", tmp), b"").unwrap();
    let own: Vec<i32> = (0..3)
        .map(|i| {
            let f = std::fs::OpenOptions::new().read(i == 0).write(i != 0).create(i != 0).open(format!("{}/std{}", tmp, i)).unwrap();
            let fd = std::os::unix::io::IntoRawFd::into_raw_fd(f);
            let keep = dup_cloexec(fd as usize);
            kit::raw_close(fd);
            keep
        })
        .collect();
    let restore_own = || {
        for i in 0..3 {
            unsafe { kit::raw(sc::nr::DUP2, [own[i] as usize, i, 0, 0, 0, 0]) };
        }
    };
    restore_own();
    let dumpf = format!("{}/dump", tmp);
    let me = std::env::current_exe().unwrap().display().to_string();
    let bin = us(&if cfg.nobin { format!("{}/no-such-program", tmp) } else { me });
    let fixed_args = [us("--dump"), us(&dumpf)];
    let total_args: usize = cfg.stages.iter().map(|s| s.nargs).sum();
    let total_env: usize = cfg.stages.iter().map(|s| s.nenv).sum();
    let extra: Vec<UnixString> = (0..total_args).map(|i| us(&format!("arg-{}-{}", i, "x".repeat(i % 4)))).collect();
    let envs: Vec<UnixString> = (0..total_env).map(|i| us(&format!("VAR{}=value {}", i, i))).collect();
    let wd = us(&format!("{}/wd", tmp));
    let my_uid = unsafe { kit::raw(sc::nr::GETUID, [0; 6]) } as u32;
    let my_gid = unsafe { kit::raw(sc::nr::GETGID, [0; 6]) } as u32;
    // ---- the builder (real code): ONE Command for all rounds ----
    let mut cmd = Command::new(&bin).unwrap();
    cmd.arg(&fixed_args[0]).arg(&fixed_args[1]);
    // the configuration in force (what all builder calls so far ask for)
    let (mut n_args, mut n_env, mut n_cl) = (0usize, 0usize, 0usize);
    let (mut eff_cwd, mut eff_pg) = (false, false);
    let mut eff_io = ['i', 'i', 'i'];
    let mut n_raw = 0usize;
    let mut records: Vec<String> = vec![];
    for (round, st) in cfg.stages.iter().enumerate() {
        // ---- this stage's builder calls (real code) ----
        let (a0, e0) = (n_args, n_env);
        n_args += st.nargs;
        n_env += st.nenv;
        let (sa, se) = (&extra[a0..n_args], &envs[e0..n_env]);
        if st.twice {
            let h = sa.len() / 2;
            cmd.args(sa[..h].iter().map(|x| &**x));
            cmd.envs(se.iter().take(se.len() / 2).cloned());
            cmd.args(sa[h..].iter().map(|x| &**x));
            cmd.envs(se.iter().skip(se.len() / 2).cloned());
        } else {
            for a in sa {
                cmd.arg(a);
            }
            for e in se {
                cmd.env(e.clone());
            }
        }
        if st.cwd {
            cmd.cwd(&wd);
            eff_cwd = true;
        }
        if st.uid {
            cmd.uid(my_uid);
        }
        if st.gid {
            cmd.gid(my_gid);
        }
        if st.pg {
            cmd.pgroup(0);
            eff_pg = true;
        }
        // every closure leaves a mark (its registration index) in the round's marker pipe when the child calls it
        for _ in 0..st.closures {
            let j = n_cl;
            n_cl += 1;
            unsafe {
                cmd.pre_exec(move || {
                    mark_closure(j);
                    Ok(())
                })
            };
        }
        if let Some(e) = st.clf {
            let j = n_cl;
            n_cl += 1;
            unsafe {
                cmd.pre_exec(move || {
                    mark_closure(j);
                    Err(tiny_std::Error::Os { msg: "closure", code: tiny_std::Errno::new(e) })
                })
            };
        }
        if st.clu {
            let j = n_cl;
            n_cl += 1;
            unsafe {
                cmd.pre_exec(move || {
                    mark_closure(j);
                    Err(tiny_std::Error::Uncategorized("closure"))
                })
            };
        }
        // 'r': a descriptor of the caller's (a fresh one per setter call; spawn takes it over).
        // 'o' / 'e': the CALLER's own stdout / stderr (`2>&1`-style cross-wiring); spawn takes the descriptor it
        // is given, so this process's three streams are put back after every round.
        for i in 0..3 {
            let s = match st.io[i] {
                'I' => Stdio::Inherit,
                'n' => Stdio::Null,
                'p' => Stdio::MakePipe,
                'r' => {
                    let f = std::fs::File::create(format!("{}/raw{}", tmp, n_raw)).unwrap();
                    n_raw += 1;
                    Stdio::RawFd(rusl::platform::Fd::try_new(std::os::unix::io::IntoRawFd::into_raw_fd(f)).unwrap())
                }
                'o' => Stdio::RawFd(rusl::platform::Fd::try_new(1).unwrap()),
                'e' => Stdio::RawFd(rusl::platform::Fd::try_new(2).unwrap()),
                _ => continue,
            };
            eff_io[i] = st.io[i];
            match i {
                0 => cmd.stdin(s),
                1 => cmd.stdout(s),
                _ => cmd.stderr(s),
            };
        }
        let uses_raw = eff_io.contains(&'r');
        let inherit = [link_of(0), link_of(1), link_of(2)];
        // descriptors of this process without FD_CLOEXEC: the image inherits them whatever spawn does
        let inheritable: Vec<usize> = kit::open_fds()
            .into_iter()
            .map(|f| f as usize)
            .filter(|f| unsafe { kit::raw(sc::nr::FCNTL, [*f, 1, 0, 0, 0, 0]) } & 1 == 0)
            .collect();
        let _ = std::fs::remove_file(&dumpf);
        // ---- spawn (real code), measured ----
        let (cr, cw) = kit::raw_pipe_cloexec();
        MARK_FD.store(cw, std::sync::atomic::Ordering::Relaxed);
        let before = kit::open_fds();
        kit::begin(if round == cfg.fault_round { faults.clone() } else { vec![] }, cw);
        let res = cmd.spawn();
        if !kit::in_case_process() {
            kit::raw_write(cw, "returned:x\n");
            kit::raw_exit(0);
        }
        let log = kit::end();
        kit::raw_close(cw);
        MARK_FD.store(-1, std::sync::atomic::Ordering::Relaxed);
        let ptrace: Vec<String> = log.iter().map(kit::res_str).collect();
        let after = kit::open_fds();
        let mut handed = vec![];
        // the pipe ends the caller is handed, per stream: the pipe's identity
        let mut handed_link: [Option<String>; 3] = [None, None, None];
        let res_s = match &res {
            Ok(c) => {
                for (i, p) in [&c.stdin, &c.stdout, &c.stderr].into_iter().enumerate() {
                    if let Some(p) = p {
                        let fd = p.borrow_fd().as_raw_fd().value();
                        handed.push(fd);
                        handed_link[i] = Some(link_of(fd as usize));
                    }
                }
                "ok".to_string()
            }
            Err(tiny_std::Error::Os { code, .. }) => format!("err:{}", code.raw()),
            Err(_) => "err:nocode".to_string(),
        };
        let pipes: String = if res.is_ok() { handed_link.iter().map(|h| if h.is_some() { '1' } else { '0' }).collect() } else { "-".to_string() };
        let leaked = after.iter().filter(|x| !before.contains(x) && !handed.contains(x)).count();
        // ---- what became of the child ----
        let (mut status, mut status2, mut waits) = ("-".to_string(), "-".to_string(), 0);
        let stray;
        let mut pre = "-";
        match res {
            Ok(mut child) => {
                kit::begin(vec![], -1);
                // a poll right after spawn (the child is normally still running) must not disturb a later wait
                let p0 = child.try_wait();
                let a = child.wait();
                let b = child.wait();
                let c = child.try_wait();
                let l = kit::end();
                waits = l.iter().filter(|r| r.nr == sc::nr::WAIT4).count();
                pre = match p0 {
                    Ok(None) => "running",
                    Ok(Some(_)) => "exited",
                    Err(_) => "err",
                };
                status = a.map(|x| x.to_string()).unwrap_or("err".into());
                status2 = match (b, c) {
                    (Ok(x), Ok(Some(y))) if x == y => x.to_string(),
                    _ => "differs".into(),
                };
                // after a successful wait nothing of the child may be left (ECHILD)
                let (pid, errno, _) = kit::raw_wait_any_nohang();
                stray = if errno != 0 { "none" } else if pid != 0 { "zombie" } else { "running" };
            }
            Err(_) => {
                // give a stray child a moment to show itself, then look: ECHILD = nothing left (reaped or never forked)
                let mut seen = "none";
                for _ in 0..50 {
                    let (pid, errno, _) = kit::raw_wait_any_nohang();
                    if errno != 0 {
                        break;
                    }
                    if pid != 0 {
                        seen = "zombie";
                        break;
                    }
                    seen = "running";
                    std::thread::sleep(std::time::Duration::from_millis(2));
                }
                stray = seen;
            }
        }
        let ctrace_all = kit::raw_read_all(cr);
        kit::raw_close(cr);
        let ctrace: Vec<&str> = ctrace_all.lines().filter(|l| !l.starts_with('@')).collect();
        // the closures the child called, by registration index, in call order
        let cls: Vec<&str> = ctrace_all.lines().filter_map(|l| l.strip_prefix("@cl")).map(|l| l.split(':').next().unwrap_or("?")).collect();
        let returned = ctrace.iter().any(|l| l.starts_with("returned")) as u8;
        // ---- the image ----
        let mut seen = "-".to_string();
        let mut sio = "-".to_string();
        let img = match std::fs::read_to_string(&dumpf) {
            Err(_) => "none".to_string(),
            Ok(d) => {
                let mut want_args = vec![hex(&nonul(&bin)), hex(b"--dump"), hex(dumpf.as_bytes())];
                for a in &extra[..n_args] {
                    want_args.push(hex(&nonul(a)));
                }
                let mut want_env: Vec<String> = envs[..n_env].iter().map(|e| hex(&nonul(e))).collect();
                want_env.sort();
                let got_args: Vec<String> = d.lines().filter_map(|l| l.strip_prefix("arg ")).map(|s| s.to_string()).collect();
                let mut got_env: Vec<String> = d.lines().filter_map(|l| l.strip_prefix("env ")).map(|s| s.to_string()).collect();
                got_env.sort();
                // what the program saw, as indices into what was configured (order kept): argv / envp
                let ids = |got: &Vec<String>, want: &Vec<String>| -> String {
                    if got.is_empty() {
                        return ".".into();
                    }
                    got.iter().map(|g| want.iter().position(|w| w == g).map(|i| i.to_string()).unwrap_or("?".into())).collect::<Vec<_>>().join(".")
                };
                let env_in_order: Vec<String> = d.lines().filter_map(|l| l.strip_prefix("env ")).map(|s| s.to_string()).collect();
                let want_env_in_order: Vec<String> = envs[..n_env].iter().map(|e| hex(&nonul(e))).collect();
                seen = format!("{}/{}", ids(&got_args, &want_args), ids(&env_in_order, &want_env_in_order));
                let cwd = d.lines().find_map(|l| l.strip_prefix("cwd ")).unwrap_or("").to_string();
                let want_cwd = if eff_cwd { format!("{}/wd", tmp) } else { std::env::current_dir().unwrap().display().to_string() };
                let fds: Vec<(usize, String)> = d
                    .lines()
                    .filter_map(|l| l.strip_prefix("fd "))
                    .filter_map(|l| l.split_once(' ').map(|(a, b)| (a.parse().unwrap_or(999), b.to_string())))
                    .collect();
                let mut bad = vec![];
                if got_args != want_args {
                    bad.push("argv");
                }
                if got_env != want_env {
                    bad.push("env");
                }
                if std::fs::canonicalize(&cwd).ok() != std::fs::canonicalize(&want_cwd).ok() {
                    bad.push("cwd");
                }
                let is_raw = |t: &str| t.rsplit('/').next().map(|n| n.starts_with("raw")).unwrap_or(false) && t.starts_with(&tmp);
                if fds.iter().any(|(n, t)| *n > 2 && !inheritable.contains(n) && !(uses_raw && is_raw(t))) {
                    bad.push("extra-fd");
                }
                // what each standard stream of the image is: n = /dev/null, p = the pipe whose other end the caller was
                // handed for that stream, q = some other pipe, r = a file given as RawFd, i = the caller's own stream of
                // that slot, o / e = the caller's stdout / stderr, ? = anything else
                sio = String::new();
                for i in 0..3 {
                    let t = fds.iter().find(|(n, _)| *n == i).map(|x| x.1.clone()).unwrap_or_default();
                    let k = if handed_link[i].as_deref() == Some(t.as_str()) && t.starts_with("pipe:") {
                        'p'
                    } else if t == "/dev/null" {
                        'n'
                    } else if is_raw(&t) {
                        'r'
                    } else if t == inherit[i] {
                        'i'
                    } else if t == inherit[1] {
                        'o'
                    } else if t == inherit[2] {
                        'e'
                    } else if t.starts_with("pipe:") {
                        'q'
                    } else {
                        '?'
                    };
                    sio.push(k);
                    let want = match eff_io[i] {
                        'I' => 'i',
                        'o' if i == 1 => 'i',
                        'e' if i == 2 => 'i',
                        c => c,
                    };
                    if k != want {
                        bad.push("stdio");
                    }
                }
                if eff_pg {
                    let pg: Vec<&str> = d.lines().find_map(|l| l.strip_prefix("pgid ")).unwrap_or("0 1").split(' ').collect();
                    if pg[0] != pg[1] {
                        bad.push("pgroup");
                    }
                }
                bad.dedup();
                if bad.is_empty() {
                    "ok".to_string()
                } else {
                    format!("bad:{}", bad.join("+"))
                }
            }
        };
        let _ = std::fs::remove_file(&dumpf);
        restore_own();
        records.push(format!(
            "res={} returned={} ctrace={} status={} status2={} waits={} pre={} img={} seen={} sio={} pipes={} cls={} stray={} handed={} leaked={} ptrace={}",
            res_s,
            returned,
            if ctrace.is_empty() { "-".to_string() } else { ctrace.join(",") },
            status,
            status2,
            waits,
            pre,
            img,
            seen,
            sio,
            pipes,
            if cls.is_empty() { "-".to_string() } else { cls.join(".") },
            stray,
            handed.len(),
            leaked,
            if ptrace.is_empty() { "-".to_string() } else { ptrace.join(",") }
        ));
        if returned != 0 {
            // a second copy of the caller came back out of this spawn: later rounds would only be noise
            break;
        }
    }
    drop(cmd);
    unsafe { kit::raw(sc::nr::DUP2, [verdict_fd as usize, 1, 0, 0, 0, 0]) };
    println!("{}", records.join(" ;; "));
    let _ = std::fs::remove_dir_all(&tmp);
}

fn main() {
    let args: Vec<String> = std::env::args().collect();
    if args.len() >= 3 && args[1] == "--dump" {
        dump_main(&args[2]);
        return;
    }
    if args.len() == 4 && args[1] == "--case" {
        case_main(&args[2], &args[3]);
        return;
    }
    if args.len() == 2 && args[1] == "--ids" {
        use std::io::BufRead;
        std::panic::set_hook(Box::new(|_| {}));
        for line in std::io::stdin().lock().lines() {
            println!("{}", ids::run_line(line.unwrap_or_default().trim()));
        }
        return;
    }
    if args.len() == 2 && args[1] == "--envseq" {
        // one builder sequence per line (see envseq.rs); this build has no `start` feature
        use std::io::BufRead;
        std::panic::set_hook(Box::new(|_| {}));
        for line in std::io::stdin().lock().lines() {
            let line = line.unwrap_or_default();
            let r = std::panic::catch_unwind(|| {
                let mut out = Vec::new();
                envseq::run_line(line.trim(), &mut out);
                out
            });
            match r {
                Ok(out) => println!("{}", String::from_utf8_lossy(&out)),
                Err(_) => println!("panic"),
            }
        }
        return;
    }
    let jobs = std::env::var("C13_JOBS").ok().and_then(|s| s.parse().ok()).unwrap_or(8);
    kit::dispatch_lines(jobs, 8000);
}
