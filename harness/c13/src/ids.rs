//! C13 — the caller's IDENTITY STATE x the ids requested, judged by what the child image runs as.
//!
//! `c13 --ids` reads one scenario per line:
//!   u=<r.e.s|keep> g=<r.e.s|keep> sg=<a.b..|-|keep> uid=<n|-> gid=<n|-> pg=<-|0|anchor|bogus>
//! Each scenario runs in a forked HELPER process (the harness' own identity is never touched): the helper puts itself
//! into the identity state (setgroups, setresgid, setresuid — in that order, while it still may), checks with
//! getresuid/getresgid that it got there, builds the REAL `Command::new("/bin/cat").arg("/proc/self/status")
//! .stdout(MakePipe)` with `.uid(n)` / `.gid(n)` / `.pgroup(p)` as requested, spawns, reads what the image prints about
//! itself and waits.  `pg=anchor`: a process group that exists in the session but is not the helper's own (a grandchild
//! that made itself a group leader and sleeps); `pg=bogus`: a group that does not exist.
//! Answer: `res=<ok|err:N|err:nocode> st=<exit status|-> uid=<r.e.s.fs|-> gid=<r.e.s.fs|-> groups=<a.b..|.|-> pgid=<own|caller|anchor|other|->`
//!         (`own` = the image is its own group leader, `caller` = the helper's group) or `setup:<what>:<errno>` when the
//!         helper could not reach the identity state (not privileged enough).
use crate::casekit as kit;
use tiny_std::io::Read;
use tiny_std::process::{Command, Stdio};
use tiny_std::UnixStr;

const CAT: &UnixStr = UnixStr::from_str_checked("/bin/cat\0");
const STATUS: &UnixStr = UnixStr::from_str_checked("/proc/self/status\0");

const SETRESUID: usize = 117;
const GETRESUID: usize = 118;
const SETRESGID: usize = 119;
const GETRESGID: usize = 120;
const SETGROUPS: usize = 116;
const FORK: usize = 57;
const SETPGID: usize = 109;
const GETPGID: usize = 121;
const WAIT4: usize = 61;

fn triple(s: &str) -> Option<Option<[u32; 3]>> {
    if s == "keep" {
        return Some(None);
    }
    let v: Vec<u32> = s.split('.').map(|x| x.parse().ok()).collect::<Option<_>>()?;
    if v.len() != 3 {
        return None;
    }
    Some(Some([v[0], v[1], v[2]]))
}

fn opt_id(s: &str) -> Option<Option<u32>> {
    if s == "-" {
        Some(None)
    } else {
        s.parse().ok().map(Some)
    }
}

struct Scn {
    u: Option<[u32; 3]>,
    g: Option<[u32; 3]>,
    sg: Option<Vec<u32>>,
    uid: Option<u32>,
    gid: Option<u32>,
    pg: String,
}

fn parse(line: &str) -> Option<Scn> {
    let mut f = std::collections::HashMap::new();
    for t in line.split_whitespace() {
        let (k, v) = t.split_once('=')?;
        if f.insert(k, v).is_some() {
            return None;
        }
    }
    if f.len() != 6 {
        return None;
    }
    let sg = match *f.get("sg")? {
        "keep" => None,
        "-" => Some(vec![]),
        s => Some(s.split('.').map(|x| x.parse().ok()).collect::<Option<Vec<u32>>>()?),
    };
    let pg = f.get("pg")?.to_string();
    if !["-", "0", "anchor", "bogus"].contains(&pg.as_str()) {
        return None;
    }
    Some(Scn { u: triple(f.get("u")?)?, g: triple(f.get("g")?)?, sg, uid: opt_id(f.get("uid")?)?, gid: opt_id(f.get("gid")?)?, pg })
}

fn sys(n: usize, a: [usize; 6]) -> Result<usize, usize> {
    let r = unsafe { kit::raw(n, a) };
    if kit::is_err(r) {
        Err(kit::errno_of(r))
    } else {
        Ok(r)
    }
}

fn field(status: &str, name: &str) -> String {
    status
        .lines()
        .find_map(|l| l.strip_prefix(name))
        .map(|r| {
            let v: Vec<&str> = r.split_whitespace().collect();
            if v.is_empty() {
                ".".to_string()
            } else {
                v.join(".")
            }
        })
        .unwrap_or_else(|| "-".to_string())
}

/// runs in the forked helper; the answer goes to `out`
fn helper(s: &Scn) -> String {
    // a group that exists in this session and is not ours
    let mut anchor = 0usize;
    // the anchor lives as long as the helper holds the write end of this pipe (the helper may be unable to signal it
    // once it has changed its identity)
    let mut life = -1;
    if s.pg == "anchor" {
        let (r, w) = kit::raw_pipe_cloexec();
        let (lr, lw) = kit::raw_pipe_cloexec();
        match sys(FORK, [0; 6]) {
            Ok(0) => {
                let _ = sys(SETPGID, [0, 0, 0, 0, 0, 0]);
                kit::raw_close(lw);
                kit::raw_close(r);
                kit::raw_close(w); // EOF on `r` tells the helper that the group exists
                let _ = kit::raw_read_all(lr);
                kit::raw_exit(0);
            }
            Ok(p) => {
                anchor = p;
                life = lw;
                kit::raw_close(lr);
                kit::raw_close(w);
                let _ = kit::raw_read_all(r); // the anchor is a group leader now
                kit::raw_close(r);
            }
            Err(e) => return format!("setup:fork:{}", e),
        }
    }
    let fin = |anchor: usize, ans: String| -> String {
        if anchor != 0 {
            kit::raw_close(life);
            let _ = sys(WAIT4, [anchor, 0, 0, 0, 0, 0]);
        }
        ans
    };
    // ---- the identity state: groups and gids first (they need the privilege the uid change may take away) ----
    if let Some(sg) = &s.sg {
        if let Err(e) = sys(SETGROUPS, [sg.len(), sg.as_ptr() as usize, 0, 0, 0, 0]) {
            return fin(anchor, format!("setup:setgroups:{}", e));
        }
    }
    if let Some(g) = s.g {
        if let Err(e) = sys(SETRESGID, [g[0] as usize, g[1] as usize, g[2] as usize, 0, 0, 0]) {
            return fin(anchor, format!("setup:setresgid:{}", e));
        }
    }
    if let Some(u) = s.u {
        if let Err(e) = sys(SETRESUID, [u[0] as usize, u[1] as usize, u[2] as usize, 0, 0, 0]) {
            return fin(anchor, format!("setup:setresuid:{}", e));
        }
    }
    let mut got = [[0u32; 3]; 2];
    for (k, nr) in [(0, GETRESUID), (1, GETRESGID)] {
        let p = got[k].as_mut_ptr();
        let _ = sys(nr, [p as usize, unsafe { p.add(1) } as usize, unsafe { p.add(2) } as usize, 0, 0, 0]);
    }
    if s.u.map_or(false, |u| u != got[0]) || s.g.map_or(false, |g| g != got[1]) {
        return fin(anchor, "setup:state-not-reached:0".to_string());
    }
    let my_pgid = sys(GETPGID, [0; 6]).unwrap_or(0);
    // ---- the real builder + spawn ----
    let mut cmd = Command::new(CAT).unwrap();
    cmd.arg(STATUS);
    cmd.stdout(Stdio::MakePipe);
    if let Some(u) = s.uid {
        cmd.uid(u);
    }
    if let Some(g) = s.gid {
        cmd.gid(g);
    }
    match s.pg.as_str() {
        "0" => {
            cmd.pgroup(0);
        }
        "anchor" => {
            cmd.pgroup(anchor as i32);
        }
        "bogus" => {
            // no process 0x3ffffff0 exists (pid_max is at most 2^22)
            cmd.pgroup(0x3fff_fff0);
        }
        _ => {}
    }
    let ans = match cmd.spawn() {
        Ok(mut child) => {
            let mut buf = Vec::new();
            if let Some(mut p) = child.stdout.take() {
                let _ = p.read_to_end(&mut buf);
            }
            let st = child.wait().map(|x| x.to_string()).unwrap_or_else(|_| "waiterr".into());
            let txt = String::from_utf8_lossy(&buf).to_string();
            let pid = field(&txt, "Pid:");
            let pgid = field(&txt, "NSpgid:");
            let pg = if pgid == "-" {
                "-".to_string()
            } else if pgid == pid {
                "own".to_string()
            } else if anchor != 0 && pgid == anchor.to_string() {
                "anchor".to_string()
            } else if pgid == my_pgid.to_string() {
                "caller".to_string()
            } else {
                "other".to_string()
            };
            format!("res=ok st={} uid={} gid={} groups={} pgid={}", st, field(&txt, "Uid:"), field(&txt, "Gid:"), field(&txt, "Groups:"), pg)
        }
        Err(tiny_std::Error::Os { code, .. }) => format!("res=err:{} st=- uid=- gid=- groups=- pgid=-", code.raw()),
        Err(_) => "res=err:nocode st=- uid=- gid=- groups=- pgid=-".to_string(),
    };
    fin(anchor, ans)
}

pub fn run_line(line: &str) -> String {
    let Some(s) = parse(line) else {
        return "bad-op".to_string();
    };
    let (r, w) = kit::raw_pipe_cloexec();
    match sys(FORK, [0; 6]) {
        Ok(0) => {
            kit::raw_close(r);
            let ans = std::panic::catch_unwind(|| helper(&s)).unwrap_or_else(|_| "panic".to_string());
            kit::raw_write(w, &ans);
            kit::raw_exit(0);
        }
        Ok(p) => {
            kit::raw_close(w);
            let ans = kit::raw_read_all(r);
            kit::raw_close(r);
            let _ = sys(WAIT4, [p, 0, 0, 0, 0, 0]);
            if ans.is_empty() {
                "helper-died".to_string()
            } else {
                ans
            }
        }
        Err(e) => format!("setup:fork:{}", e),
    }
}
