//! C13 — the environment BUILDER of the real `Command` as a state machine.
//!
//! Shared source: `harness/c13` (std-hosted, tiny-std WITHOUT the `start` feature: default environment None) and
//! `harness-nolibc/c13probe` (no libc, tiny-std WITH `start`: default environment Inherit = the probe's own envp)
//! both `#[path]`-include this file; it only needs `alloc`.
//!
//! One line = one Command (`Command::new("/bin/cat").arg("/proc/self/environ").stdout(MakePipe)`) and a sequence of
//! builder calls / spawns on it:
//!   e<i>          cmd.env(VAR[i])
//!   E<i.j.k> | E  cmd.envs(<iterator over VAR[i], VAR[j], ..>)   (`E` = an iterator that yields nothing)
//!   a<i>          cmd.arg("/dev/null")                          (the number only names the call for the model)
//!   A<i.j> | A    cmd.args(<iterator of that many "/dev/null">)
//!   cwd           cmd.cwd("/")
//!   S             cmd.spawn(), read the child's stdout to the end, wait
//! The child is `cat /proc/self/environ [/dev/null ..]`: what it prints is the kernel's own copy of the envp strings
//! the image was started with — entries, order, duplicates, NUL-separated.
//! Answer: one record per `S`: `ok:<hex of those bytes, - = none>:<exit status>` | `err:<errno|nocode>`.
//! The line `vars` answers `vars <hex>*`: the variable table (so that the check does not keep a copy of it).
use alloc::string::String;
use alloc::vec::Vec;
use tiny_std::io::Read;
use tiny_std::process::{Command, Stdio};
use tiny_std::{UnixStr, UnixString};

const CAT: &UnixStr = UnixStr::from_str_checked("/bin/cat\0");
const ENVIRON: &UnixStr = UnixStr::from_str_checked("/proc/self/environ\0");
const DEVNULL: &UnixStr = UnixStr::from_str_checked("/dev/null\0");
const ROOT: &UnixStr = UnixStr::from_str_checked("/\0");

pub const NVARS: usize = 10;

/// the variable table: same key twice (0, 1), an exact duplicate of 0 (7), an empty value, keys the caller's own
/// environment has as well (3, 4), a string without '=', '=' and blanks inside the value, a long value, an empty string
pub fn var(i: usize) -> Option<String> {
    Some(match i {
        0 => "A=1".into(),
        1 => "A=2".into(),
        2 => "B=".into(),
        3 => "PATH=/c13/x".into(),
        4 => "C13_MARKER=shadowed".into(),
        5 => "NOEQ".into(),
        6 => "D=with blank=and=eq".into(),
        7 => "A=1".into(),
        8 => {
            let mut s = String::from("L=");
            for k in 0..300 {
                s.push((b'a' + (k % 26) as u8) as char);
            }
            s
        }
        9 => "Z9=last".into(),
        _ => return None,
    })
}

fn hex(out: &mut Vec<u8>, b: &[u8]) {
    if b.is_empty() {
        out.push(b'-');
        return;
    }
    const D: &[u8; 16] = b"0123456789abcdef";
    for x in b {
        out.push(D[(x >> 4) as usize]);
        out.push(D[(x & 15) as usize]);
    }
}

fn num(out: &mut Vec<u8>, n: i64) {
    let mut buf = [0u8; 24];
    let mut i = 24;
    let neg = n < 0;
    let mut v = n.unsigned_abs();
    loop {
        i -= 1;
        buf[i] = b'0' + (v % 10) as u8;
        v /= 10;
        if v == 0 {
            break;
        }
    }
    if neg {
        i -= 1;
        buf[i] = b'-';
    }
    out.extend_from_slice(&buf[i..]);
}

fn parse_usize(s: &str) -> Option<usize> {
    if s.is_empty() || s.len() > 6 {
        return None;
    }
    let mut n = 0usize;
    for c in s.bytes() {
        if !c.is_ascii_digit() {
            return None;
        }
        n = n * 10 + (c - b'0') as usize;
    }
    Some(n)
}

/// `i.j.k` -> indices; the empty string -> no item
fn parse_list(s: &str) -> Option<Vec<usize>> {
    if s.is_empty() {
        return Some(Vec::new());
    }
    s.split('.').map(parse_usize).collect()
}

enum Tok {
    Env(usize),
    Envs(Vec<usize>),
    Arg,
    Args(usize),
    Cwd,
    Spawn,
}

fn parse(line: &str) -> Option<Vec<Tok>> {
    let mut v = Vec::new();
    for t in line.split(' ').filter(|t| !t.is_empty()) {
        let tok = if t == "S" {
            Tok::Spawn
        } else if t == "cwd" {
            Tok::Cwd
        } else if let Some(r) = t.strip_prefix('e') {
            let i = parse_usize(r)?;
            var(i)?;
            Tok::Env(i)
        } else if let Some(r) = t.strip_prefix('E') {
            let l = parse_list(r)?;
            for i in &l {
                var(*i)?;
            }
            Tok::Envs(l)
        } else if let Some(r) = t.strip_prefix('a') {
            parse_usize(r)?;
            Tok::Arg
        } else if let Some(r) = t.strip_prefix('A') {
            Tok::Args(parse_list(r)?.len())
        } else {
            return None;
        };
        v.push(tok);
    }
    match v.last() {
        Some(Tok::Spawn) => Some(v),
        _ => None,
    }
}

fn us(i: usize) -> UnixString {
    UnixString::try_from_str(&var(i).unwrap()).unwrap()
}

pub fn run_line(line: &str, out: &mut Vec<u8>) {
    if line == "vars" {
        out.extend_from_slice(b"vars");
        for i in 0..NVARS {
            out.push(b' ');
            hex(out, var(i).unwrap().as_bytes());
        }
        return;
    }
    let Some(toks) = parse(line) else {
        out.extend_from_slice(b"bad-op");
        return;
    };
    // ---- the real builder ----
    let mut cmd = Command::new(CAT).unwrap();
    cmd.arg(ENVIRON);
    cmd.stdout(Stdio::MakePipe);
    let mut first = true;
    for t in toks {
        match t {
            Tok::Env(i) => {
                cmd.env(us(i));
            }
            Tok::Envs(l) => {
                let items: Vec<UnixString> = l.into_iter().map(us).collect();
                cmd.envs(items.into_iter());
            }
            Tok::Arg => {
                cmd.arg(DEVNULL);
            }
            Tok::Args(n) => {
                cmd.args((0..n).map(|_| DEVNULL));
            }
            Tok::Cwd => {
                cmd.cwd(ROOT);
            }
            Tok::Spawn => {
                if !first {
                    out.push(b' ');
                }
                first = false;
                match cmd.spawn() {
                    Ok(mut child) => {
                        let mut buf = Vec::new();
                        let r = match child.stdout.take() {
                            Some(mut p) => p.read_to_end(&mut buf).is_ok(),
                            None => false,
                        };
                        let st = child.wait();
                        if !r {
                            out.extend_from_slice(b"ok-but-no-pipe");
                        } else {
                            out.extend_from_slice(b"ok:");
                            hex(out, &buf);
                            out.push(b':');
                            match st {
                                Ok(s) => num(out, s as i64),
                                Err(_) => out.extend_from_slice(b"waiterr"),
                            }
                        }
                    }
                    Err(tiny_std::Error::Os { code, .. }) => {
                        out.extend_from_slice(b"err:");
                        num(out, code.raw() as i64);
                    }
                    Err(_) => out.extend_from_slice(b"err:nocode"),
                }
            }
        }
    }
}
