// Copyright 2014 The Rust Project Developers. See the COPYRIGHT
// file at the top-level directory of this distribution and at
// http://rust-lang.org/COPYRIGHT.
//
// Licensed under the Apache License, Version 2.0 <LICENSE-APACHE or
// http://www.apache.org/licenses/LICENSE-2.0> or the MIT license
// <LICENSE-MIT or http://opensource.org/licenses/MIT>, at your
// option. This file may not be copied, modified, or distributed
// except according to those terms.

#[macro_export]
macro_rules! syscall {
    ($nr:ident)
        => ( ::sc::syscall0(
                ::sc::nr::$nr) );

    ($nr:ident, $a1:expr)
        => ( ::sc::syscall1(
                ::sc::nr::$nr,
                $a1 as usize) );

    ($nr:ident, $a1:expr, $a2:expr)
        => ( ::sc::syscall2(
                ::sc::nr::$nr,
                $a1 as usize, $a2 as usize) );

    ($nr:ident, $a1:expr, $a2:expr, $a3:expr)
        => ( ::sc::syscall3(
                ::sc::nr::$nr,
                $a1 as usize, $a2 as usize, $a3 as usize) );

    ($nr:ident, $a1:expr, $a2:expr, $a3:expr, $a4:expr)
        => ( ::sc::syscall4(
                ::sc::nr::$nr,
                $a1 as usize, $a2 as usize, $a3 as usize,
                $a4 as usize) );

    ($nr:ident, $a1:expr, $a2:expr, $a3:expr, $a4:expr, $a5:expr)
        => ( ::sc::syscall5(
                ::sc::nr::$nr,
                $a1 as usize, $a2 as usize, $a3 as usize,
                $a4 as usize, $a5 as usize) );

    ($nr:ident, $a1:expr, $a2:expr, $a3:expr, $a4:expr, $a5:expr, $a6:expr)
        => ( ::sc::syscall6(
                ::sc::nr::$nr,
                $a1 as usize, $a2 as usize, $a3 as usize,
                $a4 as usize, $a5 as usize, $a6 as usize) );

    ($nr:ident, $a1:expr, $a2:expr, $a3:expr, $a4:expr, $a5:expr, $a6:expr, $a7:expr)
        => ( ::sc::syscall7(
                ::sc::nr::$nr,
                $a1 as usize, $a2 as usize, $a3 as usize,
                $a4 as usize, $a5 as usize, $a6 as usize,
                $a7 as usize) );
}
