//! Drop-in replacement for `sc` 0.2.7 (x86_64 linux) used only by the verification harness
//! workspace through `[patch.crates-io]`.  `nr.rs` and `macros.rs` are verbatim copies of the
//! registry crate; `syscallN` go through `shim::dispatch`, which (per thread) may log the call,
//! force its result, or pass it to the kernel unchanged.
#![allow(clippy::missing_safety_doc)]

pub mod macros;
pub mod nr;
pub mod shim;

use core::arch::asm;

#[inline(always)]
pub unsafe fn raw_syscall6(mut n: usize, a1: usize, a2: usize, a3: usize, a4: usize, a5: usize, a6: usize) -> usize {
    asm!(
        "syscall",
        inout("rax") n,
        in("rdi") a1,
        in("rsi") a2,
        in("rdx") a3,
        in("r10") a4,
        in("r8") a5,
        in("r9") a6,
        out("rcx") _,
        out("r11") _,
        options(nostack),
    );
    n
}

#[inline]
pub unsafe fn syscall0(n: usize) -> usize {
    shim::dispatch(n, [0; 6], 0)
}
#[inline]
pub unsafe fn syscall1(n: usize, a1: usize) -> usize {
    shim::dispatch(n, [a1, 0, 0, 0, 0, 0], 1)
}
#[inline]
pub unsafe fn syscall2(n: usize, a1: usize, a2: usize) -> usize {
    shim::dispatch(n, [a1, a2, 0, 0, 0, 0], 2)
}
#[inline]
pub unsafe fn syscall3(n: usize, a1: usize, a2: usize, a3: usize) -> usize {
    shim::dispatch(n, [a1, a2, a3, 0, 0, 0], 3)
}
#[inline]
pub unsafe fn syscall4(n: usize, a1: usize, a2: usize, a3: usize, a4: usize) -> usize {
    shim::dispatch(n, [a1, a2, a3, a4, 0, 0], 4)
}
#[inline]
pub unsafe fn syscall5(n: usize, a1: usize, a2: usize, a3: usize, a4: usize, a5: usize) -> usize {
    shim::dispatch(n, [a1, a2, a3, a4, a5, 0], 5)
}
#[inline]
pub unsafe fn syscall6(n: usize, a1: usize, a2: usize, a3: usize, a4: usize, a5: usize, a6: usize) -> usize {
    shim::dispatch(n, [a1, a2, a3, a4, a5, a6], 6)
}
