//! Per-thread syscall interposer.
//!
//! * default: pass-through, nothing recorded (zero behavioural change);
//! * `start_log()` / `take_log()`: record every call `(nr, args, nargs, ret, forced)`;
//! * `set_handler(f)`: `f(nr, args, nargs) -> Option<usize>`; `Some(r)` = do not execute, return `r`
//!   (fault injection, fully scripted kernels); `None` = execute for real.
//! * helpers built on the handler: `fail_nth`, `script`.
use std::cell::RefCell;

#[derive(Clone, Debug)]
pub struct Rec {
    pub nr: usize,
    pub args: [usize; 6],
    pub nargs: u8,
    pub ret: usize,
    pub forced: bool,
}

type Handler = Box<dyn FnMut(usize, [usize; 6], u8) -> Option<usize>>;

#[derive(Default)]
struct State {
    logging: bool,
    log: Vec<Rec>,
    handler: Option<Handler>,
    busy: bool,
}

thread_local! {
    static STATE: RefCell<State> = RefCell::new(State::default());
}

pub unsafe fn dispatch(n: usize, args: [usize; 6], nargs: u8) -> usize {
    // Fast path / re-entrancy guard (a handler may itself perform syscalls through rusl).
    let mut handler = match STATE.try_with(|s| {
        let mut s = s.borrow_mut();
        if s.busy || (!s.logging && s.handler.is_none()) {
            None
        } else {
            s.busy = true;
            Some(s.handler.take())
        }
    }) {
        Ok(Some(h)) => h,
        _ => return crate::raw_syscall6(n, args[0], args[1], args[2], args[3], args[4], args[5]),
    };
    let forced = handler.as_mut().and_then(|h| h(n, args, nargs));
    let ret = match forced {
        Some(r) => r,
        None => crate::raw_syscall6(n, args[0], args[1], args[2], args[3], args[4], args[5]),
    };
    let _ = STATE.try_with(|s| {
        let mut s = s.borrow_mut();
        if s.handler.is_none() {
            s.handler = handler;
        }
        if s.logging {
            s.log.push(Rec { nr: n, args, nargs, ret, forced: forced.is_some() });
        }
        s.busy = false;
    });
    ret
}

pub fn start_log() {
    STATE.with(|s| {
        let mut s = s.borrow_mut();
        s.logging = true;
        s.log.clear();
    });
}

pub fn take_log() -> Vec<Rec> {
    STATE.with(|s| {
        let mut s = s.borrow_mut();
        s.logging = false;
        std::mem::take(&mut s.log)
    })
}

/// peek at the log without stopping it
pub fn log_len() -> usize {
    STATE.with(|s| s.borrow().log.len())
}

pub fn set_handler(h: Handler) {
    STATE.with(|s| s.borrow_mut().handler = Some(h));
}

/// forget everything (handler, log, re-entrancy flag) — use after a panic unwound through a handler
pub fn reset() {
    STATE.with(|s| {
        let mut s = s.borrow_mut();
        s.handler = None;
        s.logging = false;
        s.log.clear();
        s.busy = false;
    });
}

pub fn clear_handler() {
    STATE.with(|s| s.borrow_mut().handler = None);
}

/// the `k`-th (0-based) call — among calls with number `nr` if given, else among all calls —
/// returns `ret` without being executed; everything else passes through.
pub fn fail_nth(nr: Option<usize>, k: usize, ret: usize) {
    let mut seen = 0usize;
    set_handler(Box::new(move |n, _a, _c| {
        if nr.map_or(true, |x| x == n) {
            let me = seen;
            seen += 1;
            if me == k {
                return Some(ret);
            }
        }
        None
    }));
}

/// fully scripted kernel: no call is executed; results come from `rets` in order, then `after`.
pub fn script(rets: Vec<usize>, after: usize) {
    let mut i = 0usize;
    set_handler(Box::new(move |_n, _a, _c| {
        let r = if i < rets.len() { rets[i] } else { after };
        i += 1;
        Some(r)
    }));
}

pub const fn neg_errno(e: usize) -> usize {
    0usize.wrapping_sub(e)
}

/// name of a syscall number (only those rusl uses; others print as `sys_<n>`)
pub fn name(n: usize) -> String {
    use crate::nr::*;
    let t: &[(usize, &str)] = &[
        (READ, "read"), (WRITE, "write"), (OPEN, "open"), (CLOSE, "close"), (STAT, "stat"), (FSTAT, "fstat"),
        (POLL, "poll"), (LSEEK, "lseek"), (MMAP, "mmap"), (MPROTECT, "mprotect"), (MUNMAP, "munmap"), (BRK, "brk"),
        (RT_SIGACTION, "rt_sigaction"), (RT_SIGPROCMASK, "rt_sigprocmask"), (IOCTL, "ioctl"), (PREAD64, "pread64"),
        (PWRITE64, "pwrite64"), (READV, "readv"), (WRITEV, "writev"), (PIPE, "pipe"), (MREMAP, "mremap"),
        (DUP, "dup"), (DUP2, "dup2"), (NANOSLEEP, "nanosleep"), (GETPID, "getpid"), (SOCKET, "socket"),
        (CONNECT, "connect"), (ACCEPT, "accept"), (SENDTO, "sendto"), (RECVFROM, "recvfrom"), (SENDMSG, "sendmsg"),
        (RECVMSG, "recvmsg"), (SHUTDOWN, "shutdown"), (BIND, "bind"), (LISTEN, "listen"), (GETSOCKNAME, "getsockname"),
        (SOCKETPAIR, "socketpair"), (SETSOCKOPT, "setsockopt"), (CLONE, "clone"), (FORK, "fork"), (VFORK, "vfork"),
        (EXECVE, "execve"), (EXIT, "exit"), (WAIT4, "wait4"), (KILL, "kill"), (UNAME, "uname"), (FCNTL, "fcntl"),
        (FTRUNCATE, "ftruncate"), (GETDENTS, "getdents"), (GETCWD, "getcwd"), (CHDIR, "chdir"), (FCHDIR, "fchdir"),
        (RENAME, "rename"), (MKDIR, "mkdir"), (RMDIR, "rmdir"), (UNLINK, "unlink"), (READLINK, "readlink"),
        (GETUID, "getuid"), (GETGID, "getgid"), (SETUID, "setuid"), (SETGID, "setgid"), (GETEUID, "geteuid"),
        (GETEGID, "getegid"), (SETPGID, "setpgid"), (GETPPID, "getppid"), (SETSID, "setsid"),
        (FUTEX, "futex"), (GETDENTS64, "getdents64"), (SET_TID_ADDRESS, "set_tid_address"),
        (CLOCK_GETTIME, "clock_gettime"), (CLOCK_NANOSLEEP, "clock_nanosleep"), (EXIT_GROUP, "exit_group"),
        (EPOLL_WAIT, "epoll_wait"), (EPOLL_CTL, "epoll_ctl"), (WAITID, "waitid"), (OPENAT, "openat"),
        (MKDIRAT, "mkdirat"), (NEWFSTATAT, "newfstatat"), (UNLINKAT, "unlinkat"), (RENAMEAT, "renameat"),
        (PPOLL, "ppoll"), (UNSHARE, "unshare"), (EPOLL_PWAIT, "epoll_pwait"), (ACCEPT4, "accept4"),
        (EPOLL_CREATE1, "epoll_create1"), (DUP3, "dup3"), (PIPE2, "pipe2"), (RENAMEAT2, "renameat2"),
        (GETRANDOM, "getrandom"), (COPY_FILE_RANGE, "copy_file_range"), (STATX, "statx"),
        (IO_URING_SETUP, "io_uring_setup"), (IO_URING_ENTER, "io_uring_enter"), (IO_URING_REGISTER, "io_uring_register"),
        (CLONE3, "clone3"), (SWAPON, "swapon"), (SWAPOFF, "swapoff"), (MOUNT, "mount"), (UMOUNT2, "umount2"),
        (TKILL, "tkill"), (PSELECT6, "pselect6"), (SELECT, "select"), (SYMLINKAT, "symlinkat"), (READLINKAT, "readlinkat"),
        (FCHMODAT, "fchmodat"), (FACCESSAT, "faccessat"), (SETSOCKOPT, "setsockopt"), (GETSOCKOPT, "getsockopt"),
        (GETPEERNAME, "getpeername"), (FSYNC, "fsync"), (FDATASYNC, "fdatasync"), (MSYNC, "msync"), (MADVISE, "madvise"),
    ];
    for (k, v) in t {
        if *k == n {
            return (*v).to_string();
        }
    }
    format!("sys_{}", n)
}
